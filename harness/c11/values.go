package c11

import (
	"encoding/json"
	"fmt"
	"sort"
	"strconv"
	"strings"

	"verif/harness/vh"
)

// The value catalogue: every kind of value a handler can CREATE from its request's data and
// USE later — closures (with/without `use`, by value / by reference, arrow, static, defined in
// class methods and using $this / self:: / static::, bound, first-class callables, callable
// arrays/strings, closures returned by functions), generators, objects, anonymous classes,
// exceptions, arrays, references, control flow parked in the middle (loops, recursion,
// try/catch, generator bodies, callbacks) — each created before a gate and used after it.
//
// One route per kind (`/v/<name>`), every request of a case may go to the same route, so that
// everything the interpreter keeps per *syntax node* (the handler's AST is shared by all
// requests) is exercised: the request is parked at `verif_gate($g)` holding the value in a
// local while other requests evaluate the very same literals / call the very same methods.
//
// Oracles, both independent of the Lean model: (a) `Want(x)` — the response as a function of
// the request's own parameter, written in Go; (b) the same request served alone on a second
// server.
type valKind struct {
	Name  string
	Body  string              // PHP statements; $x = the request's parameter, $g = gate id, append to $t
	Gates int                 // how many times the body reaches verif_gate
	Want  func(string) string // expected body for parameter x
	Host  string              // "" closure at top level | "method" closure created inside a class method
	// Site: the body has the shape mk·gate·call·gate·call of Model.ReqSite (closure made at one
	// syntax node, stored in a local, invoked after the gates) — compared with the Lean model too
	Site bool
	// Known: the construct has a known finding with this signature; the kind is kept out of the
	// main streams and confirmed in the known stream
	Known string
	// NoLoad: not part of the parallel-load stream (declares a function: the function table is
	// process-wide by design, two racing first requests would both declare it — C10's business)
	NoLoad bool
	// boot catalogue (boot.go): Decl = top-level statements run ONCE when the server script boots,
	// before the route is registered (values, functions, classes that exist before any request);
	// Use = the handler closure's `use (...)` clause; Boot marks the generated kinds
	Decl string
	Use  string
	Boot bool
	// Cap: the kind is an instance of Model.ReqCap (a by-value closure capture of a flat value):
	// compared with `vm_c11 cap gen …` too
	Cap *capInfo
}

// top-level declarations shared by the routes
const valDecl = `
class VSvc {
  public $v; public $n = 0; public $items = []; private $secret;
  function __construct($v) { $this->v = $v; $this->secret = "p" . $v; }
  function get() { return "g" . $this->v; }
  function fmt() { return function ($a) { return $a . "," . $this->v; }; }
  function fmtUse($p) { return function ($a) use ($p) { return $a . $p . $this->v; }; }
  function fmtArrow() { return fn($a) => $a . "~" . $this->v; }
  function fmtStatic() { return static function ($a) { return "s" . $a; }; }
  function fmtNested() { return function ($a) { $in = function ($b) { return $b . "/" . $this->v; }; return $in($a . "n"); }; }
  function counter() { return function () { $this->n = $this->n + 1; return $this->n; }; }
  function bump($by) { $this->n = $this->n + $by; return $this; }
  function add($i) { $this->items[] = $i; return $this; }
  function join() { $s = ""; foreach ($this->items as $i) { $s = $s . $i . "."; } return $s; }
  function gen() { yield "a" . $this->v; yield "b" . $this->v; yield "c" . $this->v; }
  function park($g) { $loc = "m" . $this->v; verif_gate($g); return $loc . $this->v; }
  function mapAll($arr) { return array_map(function ($e) { return $e . $this->v; }, $arr); }
  static function tag() { return "S"; }
  static function mk($p) { return function ($a) use ($p) { return self::tag() . $a . $p; }; }
  static function mkPlain() { return function ($a) { return self::tag() . $a; }; }
  static function mkLate() { return function ($a) { return static::tag() . $a; }; }
  function __invoke($a) { return "i" . $a . $this->v; }
  function __toString() { return "str" . $this->v; }
}
class VSvcChild extends VSvc {
  static function tag() { return "C"; }
  function get() { return "child" . parent::get(); }
}
class VNode { public $val; public $kids = []; function __construct($val) { $this->val = $val; }
  function show() { $s = $this->val . "("; foreach ($this->kids as $k) { $s = $s . $k->show(); } return $s . ")"; } }
function v_helper($p) { return "h" . $p; }
function v_adder($p) { return function ($a) use ($p) { return $a . "+" . $p; }; }
function v_plain() { return function ($a) { return "[" . $a . "]"; }; }
function v_gen($p) { yield $p . "a"; yield $p . "b"; yield $p . "c"; }
function v_genpark($p, $g) { yield "a" . $p; verif_gate($g); yield "b" . $p; }
function v_deep($p, $g, $d) { $loc = "d" . $d . $p; if ($d > 0) { $r = v_deep($p, $g, $d - 1); return $loc . "(" . $r . ")"; } verif_gate($g); return $loc; }
function v_thrower($p) { throw new Exception("thrown" . $p); }
class VAppError extends Exception { public $extra; function __construct($m, $e) { parent::__construct($m); $this->extra = $e; } }
`

const G = ` verif_gate($g); `

var allValKinds []valKind

// valKinds: the hand-written catalogue followed by the generated boot catalogue (boot.go).
func valKinds() []valKind {
	if allValKinds == nil {
		allValKinds = append(baseValKinds(), bootKinds()...)
	}
	return allValKinds
}

func baseValKinds() []valKind {
	k := []valKind{
		// ---------------------------------------------------------------- closures
		{Name: "clo-use-val", Site: true,
			Body:  `$f = function ($a) use ($x) { return $a . $x; };` + G + `$t = $f("p") . "|";` + G + `$t = $t . $f("q");`,
			Gates: 2, Want: func(x string) string { return "p" + x + "|q" + x }},
		{Name: "clo-use-ref",
			Body:  `$n = "r" . $x; $f = function ($a) use (&$n) { $n = $n . $a; return $n; };` + G + `$t = $f("a") . "|";` + G + `$t = $t . $f("b") . "|" . $n;`,
			Gates: 2, Want: func(x string) string { return "r" + x + "a|r" + x + "ab|r" + x + "ab" }},
		{Name: "clo-nocap", Site: true,
			Body:  `$f = function ($a) { return "<" . $a . ">"; };` + G + `$t = $f($x) . "|";` + G + `$t = $t . $f("z" . $x);`,
			Gates: 2, Want: func(x string) string { return "<" + x + ">|<z" + x + ">" }},
		{Name: "arrow", Site: true,
			Body:  `$f = fn($a) => $a . $x;` + G + `$t = $f("p") . "|";` + G + `$t = $t . $f("q");`,
			Gates: 2, Want: func(x string) string { return "p" + x + "|q" + x }},
		{Name: "static-clo-use", Site: true,
			Body:  `$f = static function ($a) use ($x) { return $a . $x; };` + G + `$t = $f("p") . "|";` + G + `$t = $t . $f("q");`,
			Gates: 2, Want: func(x string) string { return "p" + x + "|q" + x }},
		{Name: "clo-captures-clo",
			Body:  `$f = function ($y) use ($x) { return $x . "+" . $y; }; $h = function ($n) use ($f) { $r = ""; for ($i = 0; $i < $n; $i++) { $r = $r . $f($i) . ","; } return $r; };` + G + `$t = $h(2) . "|";` + G + `$t = $t . $h(1);`,
			Gates: 2, Want: func(x string) string { return x + "+0," + x + "+1,|" + x + "+0," }},
		{Name: "clo-recursive",
			Body:  `$fact = function ($n) use (&$fact, $x) { if ($n <= 1) { return $x; } return $n . "*" . $fact($n - 1); };` + G + `$t = $fact(3) . "|";` + G + `$t = $t . $fact(2);`,
			Gates: 2, Want: func(x string) string { return "3*2*" + x + "|2*" + x }},
		{Name: "clo-in-array",
			Body:  `$tbl = ["cb" => function ($a) use ($x) { return $a . $x; }, "pl" => function ($a) { return "(" . $a . ")"; }];` + G + `$h = $tbl["cb"]; $t = $h("a") . "|";` + G + `$h = $tbl["pl"]; $t = $t . $h($x);`,
			Gates: 2, Want: func(x string) string { return "a" + x + "|(" + x + ")" }},
		{Name: "clo-parks-inside",
			Body:  `$f = function ($a) use ($x, $g) { $loc = $a . $x; verif_gate($g); return $loc . $x; }; $t = $f("in") . "|";` + G + `$t = $t . $f("out");`,
			Gates: 3, Want: func(x string) string { return "in" + x + x + "|out" + x + x }},
		{Name: "clo-nocap-parks-inside",
			Body:  `$f = function ($a, $gg) { $loc = "k" . $a; verif_gate($gg); return $loc . $a; }; $t = $f($x, $g) . "|";` + G + `$t = $t . $f("o" . $x, $g);`,
			Gates: 3, Want: func(x string) string { return "k" + x + x + "|ko" + x + "o" + x }},
		{Name: "fn-returns-clo", Site: true,
			Body:  `$f = v_adder($x);` + G + `$t = $f("p") . "|";` + G + `$t = $t . $f("q");`,
			Gates: 2, Want: func(x string) string { return "p+" + x + "|q+" + x }},
		{Name: "fn-returns-plain", Site: true,
			Body:  `$f = v_plain();` + G + `$t = $f($x) . "|";` + G + `$t = $t . $f("q" . $x);`,
			Gates: 2, Want: func(x string) string { return "[" + x + "]|[q" + x + "]" }},
		{Name: "map-precreated",
			Body:  `$m = function ($e) use ($x) { return $e . $x; };` + G + `$t = implode(",", array_map($m, ["a", "b"])) . "|";` + G + `$t = $t . implode(",", array_map($m, ["c"]));`,
			Gates: 2, Want: func(x string) string { return "a" + x + ",b" + x + "|c" + x }},
		{Name: "map-parks-inside",
			Body:  `$t = implode(",", array_map(function ($e) use ($x, $g) { if ($e == "b") { verif_gate($g); } return $e . $x; }, ["a", "b", "c"])) . "|";` + G + `$t = $t . $x;`,
			Gates: 2, Want: func(x string) string { return "a" + x + ",b" + x + ",c" + x + "|" + x }},
		{Name: "usort-nocap",
			Body:  `$arr = [$x . "3", $x . "1", $x . "2"]; $cmp = function ($a, $b) { return $a <=> $b; };` + G + `usort($arr, $cmp); $t = implode(",", $arr) . "|";` + G + `$t = $t . $cmp($x, $x);`,
			Gates: 2, Want: func(x string) string { return x + "1," + x + "2," + x + "3|0" }},
		// ---------------------------------------------------------------- closures made in class methods
		{Name: "this-nocap", Site: true,
			Body:  `$o = new VSvc($x); $f = $o->fmt();` + G + `$t = $f("hello") . "|";` + G + `$t = $t . $f("bye");`,
			Gates: 2, Want: func(x string) string { return "hello," + x + "|bye," + x }},
		{Name: "this-use", Site: true,
			Body:  `$o = new VSvc($x); $f = $o->fmtUse("u");` + G + `$t = $f("p") . "|";` + G + `$t = $t . $f("q");`,
			Gates: 2, Want: func(x string) string { return "pu" + x + "|qu" + x }},
		{Name: "this-arrow", Site: true,
			Body:  `$o = new VSvc($x); $f = $o->fmtArrow();` + G + `$t = $f("p") . "|";` + G + `$t = $t . $f("q");`,
			Gates: 2, Want: func(x string) string { return "p~" + x + "|q~" + x }},
		{Name: "this-static-clo", Site: true,
			Body:  `$o = new VSvc($x); $f = $o->fmtStatic();` + G + `$t = $f($x) . "|";` + G + `$t = $t . $f("q" . $x);`,
			Gates: 2, Want: func(x string) string { return "s" + x + "|sq" + x }},
		{Name: "this-nested-clo",
			Body:  `$o = new VSvc($x); $f = $o->fmtNested();` + G + `$t = $f("p") . "|";` + G + `$t = $t . $f("q");`,
			Gates: 2, Want: func(x string) string { return "pn/" + x + "|qn/" + x }},
		{Name: "this-counter",
			Body:  `$o = new VSvc($x); $c = $o->counter(); $c();` + G + `$c(); $c();` + G + `$t = $c() . "|" . $o->n . "|" . $o->v;`,
			Gates: 2, Want: func(x string) string { return "4|4|" + x }},
		{Name: "this-map",
			Body:  `$o = new VSvc($x);` + G + `$t = implode(",", $o->mapAll(["a", "b"])) . "|";` + G + `$t = $t . implode(",", $o->mapAll(["c"]));`,
			Gates: 2, Want: func(x string) string { return "a" + x + ",b" + x + "|c" + x }},
		{Name: "this-child-nocap", Site: true,
			Body:  `$o = new VSvcChild($x); $f = $o->fmt();` + G + `$t = $f($o->get()) . "|";` + G + `$t = $t . $f("bye");`,
			Gates: 2, Want: func(x string) string { return "childg" + x + "," + x + "|bye," + x }},
		{Name: "self-use", Site: true,
			Body:  `$f = VSvc::mk($x);` + G + `$t = $f("a") . "|";` + G + `$t = $t . $f("b");`,
			Gates: 2, Want: func(x string) string { return "Sa" + x + "|Sb" + x }},
		{Name: "self-plain", Site: true,
			Body:  `$f = VSvc::mkPlain();` + G + `$t = $f($x) . "|";` + G + `$t = $t . $f("b" . $x);`,
			Gates: 2, Want: func(x string) string { return "S" + x + "|Sb" + x }},
		{Name: "late-static",
			// which class `static::` names inside the closure is C08's business: the request picks
			// the class from its own data and must get the same answer alone and overlapped
			Body:  `$n = (int)$x; if ($n % 2 == 0) { $f = VSvcChild::mkLate(); } else { $f = VSvc::mkLate(); }` + G + `$t = $f($x) . "|";` + G + `$t = $t . $f("b" . $x);`,
			Gates: 2, Want: nil},
		// ---------------------------------------------------------------- bound closures, callables
		{Name: "bind-scope",
			// Closure::bind in origami grants the scope of the class (it does not rebind $this)
			Body:  `$o = new VSvc($x); $f = Closure::bind(function () use ($o) { return "b" . $o->secret; }, null, VSvc::class);` + G + `$t = call_user_func($f) . "|";` + G + `$t = $t . call_user_func($f);`,
			Gates: 2, Want: func(x string) string { return "bp" + x + "|bp" + x }},
		{Name: "callable-array",
			Body:  `$o = new VSvc($x); $f = [$o, "get"];` + G + `$t = call_user_func($f) . "|";` + G + `$o->v = "w" . $x; $t = $t . call_user_func($f);`,
			Gates: 2, Want: func(x string) string { return "g" + x + "|gw" + x }},
		{Name: "call-user-func-clo",
			Body:  `$f = function () use ($x) { return "c" . $x; }; $h = function () { return "plain"; };` + G + `$t = call_user_func($f) . "|";` + G + `$t = $t . call_user_func($h) . call_user_func($f);`,
			Gates: 2, Want: func(x string) string { return "c" + x + "|plainc" + x }},
		{Name: "invoke-object",
			Body:  `$o = new VSvc($x);` + G + `$t = $o("a") . "|";` + G + `$t = $t . $o("b");`,
			Gates: 2, Want: func(x string) string { return "ia" + x + "|ib" + x }},
		// ---------------------------------------------------------------- generators
		{Name: "gen-func",
			Body:  `$gn = v_gen($x); $gn->rewind();` + G + `$t = $gn->current() . "|"; $gn->next();` + G + `$t = $t . $gn->current(); $gn->next(); $t = $t . "|" . $gn->current();`,
			Gates: 2, Want: func(x string) string { return x + "a|" + x + "b|" + x + "c" }},
		{Name: "gen-method",
			Body:  `$o = new VSvc($x); $gn = $o->gen(); $gn->rewind();` + G + `$t = $gn->current() . "|"; $gn->next();` + G + `$t = $t . $gn->current(); $gn->next(); $t = $t . "|" . $gn->current();`,
			Gates: 2, Want: func(x string) string { return "a" + x + "|b" + x + "|c" + x }},
		{Name: "gen-parks-inside",
			Body:  `$gn = v_genpark($x, $g); $gn->rewind(); $t = $gn->current() . "|";` + G + `$gn->next(); $t = $t . $gn->current();`,
			Gates: 2, Want: func(x string) string { return "a" + x + "|b" + x }},
		// ---------------------------------------------------------------- objects
		{Name: "obj-props",
			Body:  `$o = new VSvc($x); $o->bump(2);` + G + `$o->bump(3); $t = $o->v . ":" . $o->n . "|";` + G + `$t = $t . $o->get() . ":" . $o->bump(1)->n;`,
			Gates: 2, Want: func(x string) string { return x + ":5|g" + x + ":6" }},
		{Name: "obj-items",
			Body:  `$o = new VSvc($x); $o->add($x)->add("m");` + G + `$o->add($x . "z"); $t = $o->join() . "|";` + G + `$o->items[] = "w"; $t = $t . $o->join() . count($o->items);`,
			Gates: 2, Want: func(x string) string { return x + ".m." + x + "z.|" + x + ".m." + x + "z.w.4" }},
		{Name: "obj-graph",
			Body:  `$root = new VNode("r" . $x); $a = new VNode("a" . $x); $root->kids[] = $a;` + G + `$a->kids[] = new VNode("b" . $x); $t = $root->show() . "|";` + G + `$root->kids[] = new VNode($x); $t = $t . $root->show();`,
			Gates: 2, Want: func(x string) string {
				return "r" + x + "(a" + x + "(b" + x + "()))|r" + x + "(a" + x + "(b" + x + "())" + x + "())"
			}},
		{Name: "anon-class",
			Body:  `$o = new class($x) { public $v; function __construct($v) { $this->v = $v; } function get() { return "anon" . $this->v; } function mk() { return function ($a) { return $a . $this->v; }; } }; $f = $o->mk();` + G + `$t = $o->get() . "|";` + G + `$t = $t . $f("p");`,
			Gates: 2, Want: func(x string) string { return "anon" + x + "|p" + x }},
		{Name: "clone",
			Body:  `$o = new VSvc($x); $c = clone $o; $c->v = "c" . $x;` + G + `$t = $o->v . "|" . $c->v . "|";` + G + `$c->bump(2); $t = $t . $o->n . $c->n;`,
			Gates: 2, Want: func(x string) string { return x + "|c" + x + "|02" }},
		{Name: "tostring",
			Body:  `$o = new VSvc($x);` + G + `$t = "w=$o|";` + G + `$t = $t . "v=$o";`,
			Gates: 2, Want: func(x string) string { return "w=str" + x + "|v=str" + x }},
		{Name: "stdclass",
			Body:  `$o = new stdClass(); $o->v = $x; $o->list = [$x];` + G + `$o->w = "w" . $x; $t = $o->v . $o->w . "|";` + G + `$l = $o->list; $l[] = "k"; $t = $t . implode(",", $l) . count($o->list);`,
			Gates: 2, Want: func(x string) string { return x + "w" + x + "|" + x + ",k1" }},
		{Name: "method-parks-inside",
			Body:  `$o = new VSvc($x); $t = $o->park($g) . "|";` + G + `$t = $t . $o->park($g);`,
			Gates: 3, Want: func(x string) string { return "m" + x + x + "|m" + x + x }},
		{Name: "child-object",
			Body:  `$n = (int)$x; if ($n % 2 == 0) { $o = new VSvcChild($x); } else { $o = new VSvc($x); }` + G + `$t = $o->get() . "|";` + G + `$t = $t . $o->get();`,
			Gates: 2, Want: func(x string) string {
				n, _ := strconv.Atoi(x)
				if n%2 == 0 {
					return "childg" + x + "|childg" + x
				}
				return "g" + x + "|g" + x
			}},
		// ---------------------------------------------------------------- exceptions
		{Name: "exception-caught",
			// the message of a built-in exception is not read here (known finding builtin-exception:shared-message)
			Body:  `$e = new Exception("m" . $x); $loc = "l" . $x;` + G + `try { throw $e; } catch (Exception $c) { $t = $loc . "caught"; } finally { $t = $t . "|f" . $x; }` + G + `try { v_thrower($x); $t = $t . "not-reached"; } catch (Exception $c) { $t = $t . "|c" . $x; }`,
			Gates: 2, Want: func(x string) string { return "l" + x + "caught|f" + x + "|c" + x }},
		{Name: "try-parks-inside",
			Body:  `try { $loc = "l" . $x; verif_gate($g); throw new Exception("e" . $x); } catch (Exception $c) { verif_gate($g); $t = $loc . "c"; } finally { $t = $t . "|f" . $x; }`,
			Gates: 2, Want: func(x string) string { return "l" + x + "c|f" + x }},
		{Name: "exception-message", Known: "builtin-exception:shared-message",
			Body:  `$e = new Exception("m" . $x);` + G + `try { throw $e; } catch (Exception $c) { $t = $c->getMessage(); } finally { $t = $t . "|f" . $x; }` + G + `try { v_thrower($x); } catch (Exception $c) { $t = $t . "|" . $c->getMessage(); }`,
			Gates: 2, Want: func(x string) string { return "m" + x + "|f" + x + "|thrown" + x }},
		{Name: "exception-subclass-message", Known: "builtin-exception:shared-message",
			Body:  `$e = new VAppError("m" . $x, "e" . $x);` + G + `$t = $e->extra . "|";` + G + `$t = $t . $e->getMessage();`,
			Gates: 2, Want: func(x string) string { return "e" + x + "|m" + x }},
		// ---------------------------------------------------------------- plain values and control flow
		{Name: "array-nested",
			Body:  `$arr = ["a" => [$x, [$x . "n"]], "b" => $x];` + G + `$arr["a"][1][] = "k" . $x; $arr["c"] = "c" . $x; $t = count($arr) . count($arr["a"][1]) . "|";` + G + `foreach ($arr["a"][1] as $v) { $t = $t . $v . ","; } $t = $t . $arr["b"] . $arr["c"] . $arr["a"][0];`,
			Gates: 2, Want: func(x string) string { return "32|" + x + "n,k" + x + "," + x + "c" + x + x }},
		{Name: "reference",
			Body:  `$a = $x; $b = &$a;` + G + `$b = $b . "r"; $t = $a . "|";` + G + `$a = $a . "s"; $t = $t . $b;`,
			Gates: 2, Want: func(x string) string { return x + "r|" + x + "rs" }},
		{Name: "interpolation",
			Body:  `$o = new VSvc($x); $arr = ["k" => $x];` + G + `$t = "v=$x;{$x}|{$o->v}|";` + G + `$t = $t . "a={$arr['k']}";`,
			Gates: 2, Want: func(x string) string { return "v=" + x + ";" + x + "|" + x + "|a=" + x }},
		{Name: "match",
			Body:  `$n = (int)$x; $m = $n % 3;` + G + `$t = match ($m) { 0 => "zero" . $x, 1 => "one" . $x, default => "two" . $x }; $t = $t . "|";` + G + `$t = $t . match (true) { $n % 2 == 0 => "even" . $x, default => "odd" . $x };`,
			Gates: 2, Want: func(x string) string {
				n, _ := strconv.Atoi(x)
				a := []string{"zero", "one", "two"}[n%3]
				b := "odd"
				if n%2 == 0 {
					b = "even"
				}
				return a + x + "|" + b + x
			}},
		{Name: "ternary-coalesce",
			Body:  `$n = (int)$x; $q = $req->query();` + G + `$t = ($n % 2 == 0 ? "e" : "o") . $x . "|";` + G + `$t = $t . ($q["nope"] ?? "dflt" . $x) . "|" . ($q["x"] ?? "none");`,
			Gates: 2, Want: func(x string) string {
				n, _ := strconv.Atoi(x)
				a := "o"
				if n%2 == 0 {
					a = "e"
				}
				return a + x + "|dflt" + x + "|" + x
			}},
		{Name: "switch",
			Body:  `$n = (int)$x; $m = $n % 3;` + G + `switch ($m) { case 0: $t = "zero" . $x; break; case 1: $t = "one" . $x; break; default: $t = "two" . $x; }` + G + `$t = $t . "|" . $m;`,
			Gates: 2, Want: func(x string) string {
				n, _ := strconv.Atoi(x)
				return []string{"zero", "one", "two"}[n%3] + x + "|" + strconv.Itoa(n%3)
			}},
		{Name: "destructure",
			Body:  `[$a, $b] = [$x . "1", $x . "2"];` + G + `[$b, $a] = [$a, $b]; $t = $a . "," . $b . "|";` + G + `[$p, $q] = [$b . "p", $a . "q"]; $t = $t . $p . $q;`,
			Gates: 2, Want: func(x string) string { return x + "2," + x + "1|" + x + "1p" + x + "2q" }},
		{Name: "recursion-parks-inside",
			Body:  `$t = v_deep($x, $g, 3) . "|";` + G + `$t = $t . v_deep($x, $g, 1);`,
			Gates: 3, Want: func(x string) string {
				return "d3" + x + "(d2" + x + "(d1" + x + "(d0" + x + ")))|d1" + x + "(d0" + x + ")"
			}},
		{Name: "loop-parks-inside",
			Body:  `$arr = [$x . "a", $x . "b", $x . "c"]; foreach ($arr as $k => $v) { if ($k == 1) { verif_gate($g); } $t = $t . $k . $v . ","; } for ($i = 0; $i < 3; $i++) { if ($i == 2) { verif_gate($g); } $t = $t . $i . $x; }`,
			Gates: 2, Want: func(x string) string { return "0" + x + "a,1" + x + "b,2" + x + "c,0" + x + "1" + x + "2" + x }},
		{Name: "while-parks-inside",
			Body:  `$i = 0; $acc = ""; while ($i < 4) { $acc = $acc . $x . $i; if ($i % 2 == 1) { verif_gate($g); } $i = $i + 1; } $t = $acc;`,
			Gates: 2, Want: func(x string) string { return x + "0" + x + "1" + x + "2" + x + "3" }},
		{Name: "string-builtins",
			Body:  `$parts = explode(",", $x . "," . $x . "z");` + G + `$t = implode("/", $parts) . "|" . strtoupper("ab" . $x) . "|";` + G + `$t = $t . str_repeat($x, 2) . "|" . strlen($x . "abc");`,
			Gates: 2, Want: func(x string) string {
				return x + "/" + x + "z|AB" + x + "|" + x + x + "|" + strconv.Itoa(len(x)+3)
			}},
		{Name: "json-roundtrip",
			Body:  `$j = json_encode(["x" => $x, "l" => [1, $x]]);` + G + `$d = json_decode($j, true); $t = $d["x"] . "|";` + G + `$t = $t . $d["l"][1] . "|" . $j;`,
			Gates: 2, Want: func(x string) string { return x + "|" + x + `|{"x":"` + x + `","l":[1,"` + x + `"]}` }},
		{Name: "variable-variable",
			Body:  `$name = "dyn"; $$name = "d" . $x;` + G + `$t = $dyn . "|";` + G + `$t = $t . $$name;`,
			Gates: 2, Want: func(x string) string { return "d" + x + "|d" + x }},
		{Name: "nested-function", NoLoad: true,
			Body:  `if (!function_exists("v_inner")) { function v_inner($p) { return "in" . $p; } }` + G + `$t = v_inner($x) . "|";` + G + `$t = $t . v_inner("q" . $x);`,
			Gates: 2, Want: func(x string) string { return "in" + x + "|inq" + x }},
		{Name: "res-multi-write",
			Body:  `$res->header("X-A", "a" . $x); $res->write("1" . $x . "|");` + G + `$res->write("2" . $x . "|"); $res->header("X-B", "b" . $x);` + G + `$t = "3" . $x;`,
			Gates: 2, Want: func(x string) string { return "1" + x + "|2" + x + "|3" + x }},
		// ---------------------------------------------------------------- handler closure created inside a class method
		{Name: "host-clo-use", Host: "method", Site: true,
			Body:  `$f = function ($a) use ($x) { return $a . $x . $this->tag; };` + G + `$t = $f("p") . "|";` + G + `$t = $t . $f("q");`,
			Gates: 2, Want: func(x string) string { return "p" + x + "H|q" + x + "H" }},
		{Name: "host-clo-nocap", Host: "method", Site: true,
			Body:  `$f = function ($a) { return $a . $this->tag; };` + G + `$t = $f($x) . "|";` + G + `$t = $t . $f("q" . $x);`,
			Gates: 2, Want: func(x string) string { return x + "H|q" + x + "H" }},
		{Name: "host-this-nocap", Host: "method", Site: true,
			Body:  `$o = new VSvc($x); $f = $o->fmt();` + G + `$t = $f("hello") . "|";` + G + `$t = $t . $f("bye") . $this->tag;`,
			Gates: 2, Want: func(x string) string { return "hello," + x + "|bye," + x + "H" }},
		{Name: "host-helper-method", Host: "method",
			Body:  `$o = new VSvc($x); $loc = $this->wrap($x);` + G + `$t = $loc . "|" . $this->wrap($o->get());` + G + `$t = $t . "|" . $this->wrap("z" . $x);`,
			Gates: 2, Want: func(x string) string { return "{" + x + "}|{g" + x + "}|{z" + x + "}" }},
	}
	return k
}

func valKindByName() map[string]valKind {
	m := map[string]valKind{}
	for _, k := range valKinds() {
		m[k.Name] = k
	}
	return m
}

var valByName = valKindByName()

func valRoute(k valKind) string {
	pro := `$x = $req->input("x"); $g = $req->query()["g"]; $t = "";`
	epi := `$res->header("X-Own", verif_str($x)); $res->write($t);`
	use := ""
	if k.Use != "" {
		use = " use (" + k.Use + ")"
	}
	h := fmt.Sprintf("function ($req, $res)%s {\n  %s\n  %s\n  %s\n}", use, pro, k.Body, epi)
	if k.Host == "method" {
		cls := "VHost_" + strings.ReplaceAll(k.Name, "-", "_")
		return fmt.Sprintf("class %s { public $tag = \"H\"; function wrap($s) { return \"{\" . $s . \"}\"; }\n function mount($server) { $server->get('/v/%s', %s); } }\n(new %s())->mount($server);\n", cls, k.Name, h, cls)
	}
	return fmt.Sprintf("%s$server->get('/v/%s', %s);\n", k.Decl, k.Name, h)
}

// valScript: one server hosting the routes of the given kinds (all if nil).
func valScript(names []string) string {
	var sb strings.Builder
	sb.WriteString("<?php\nuse Net\\Http\\Server;\n$server = new Server('127.0.0.1', 0);\n")
	sb.WriteString(valDecl)
	want := map[string]bool{}
	for _, n := range names {
		want[n] = true
	}
	for _, k := range valKinds() {
		if names == nil || want[k.Name] {
			sb.WriteString(valRoute(k))
		}
	}
	sb.WriteString("$server->get('/zz', function ($req, $res) { $res->write('z'); });\nverif_expose($server);\n")
	return sb.String()
}

// ------------------------------------------------------------ cases

type valReq struct {
	K string `json:"k"` // kind (route)
	X string `json:"x"` // the request's own parameter
}

type valRound struct {
	Reqs  []valReq `json:"reqs"`
	Turns []int    `json:"turns"`
}

// valCase: requests to the catalogue routes under a forced gate-level schedule. History: the
// rounds served on the same server before (only kept when the case does not fail on a fresh
// server by itself).
type valCase struct {
	Kind    string     `json:"kind"` // "vals"
	Reqs    []valReq   `json:"reqs"`
	Turns   []int      `json:"turns"`
	History []valRound `json:"history,omitempty"`
}

func (c valCase) kinds() []string {
	seen := map[string]bool{}
	var out []string
	for _, r := range c.Reqs {
		if !seen[r.K] {
			seen[r.K] = true
			out = append(out, r.K)
		}
	}
	for _, h := range c.History {
		for _, r := range h.Reqs {
			if !seen[r.K] {
				seen[r.K] = true
				out = append(out, r.K)
			}
		}
	}
	sort.Strings(out)
	return out
}

func valWire(r valReq, gid int) wire {
	u := "/v/" + r.K + "?x=" + r.X
	if gid >= 0 {
		u += "&g=" + strconv.Itoa(gid)
	}
	return wire{Method: "GET", URL: u, Headers: [][2]string{{"X-Tag", "t" + r.X}}, Cookies: [][2]string{{"c", "c" + r.X}}}
}

func playVals(srv *server, base int, reqs []valReq, turns []int) ([]resp, []int, error) {
	ids := make([]int, len(reqs))
	wires := make([]wire, len(reqs))
	for i, r := range reqs {
		ids[i] = base + i
		wires[i] = valWire(r, ids[i])
	}
	return srv.runTurns(ids, wires, turns)
}

type valFailure struct {
	sig, what string
}

// judgeVals: the two oracles for every request of a played round.
func judgeVals(solo *server, reqs []valReq, out []resp, played []int) []valFailure {
	var fails []valFailure
	for i, r := range reqs {
		k, ok := valByName[r.K]
		if !ok {
			fails = append(fails, valFailure{"isolation:value:unknown-kind", "unknown kind " + r.K})
			continue
		}
		got := out[i]
		sig := "isolation:value:" + r.K
		if k.Known != "" && !sequential(played) {
			sig = k.Known
		}
		if got.Panic != "" {
			fails = append(fails, valFailure{"isolation:value:" + r.K, fmt.Sprintf("request %d (/v/%s?x=%s) panicked under schedule %s: %s", i, r.K, r.X, intsCSV(played), got.Panic)})
			continue
		}
		if k.Want != nil {
			want := resp{Code: 200, Body: k.Want(r.X)}
			if got.Code != want.Code || got.Body != want.Body || !strings.Contains(got.Header, "X-Own:"+r.X) {
				fails = append(fails, valFailure{sig, fmt.Sprintf("request %d (/v/%s?x=%s) answered %s under schedule %s; from its own data the answer is %d [X-Own:%s] %q", i, r.K, r.X, got, intsCSV(played), want.Code, r.X, want.Body)})
				continue
			}
		}
		solo.serve(wire{Method: "GET", URL: "/zz"})
		alone := solo.serve(valWire(r, -1))
		if alone.Panic != "" {
			fails = append(fails, valFailure{"isolation:value:" + r.K, fmt.Sprintf("request %d (/v/%s?x=%s) served alone panicked: %s", i, r.K, r.X, alone.Panic)})
			continue
		}
		if got != alone {
			fails = append(fails, valFailure{sig, fmt.Sprintf("request %d (/v/%s?x=%s) answered %s under schedule %s but %s when served alone", i, r.K, r.X, got, intsCSV(played), alone)})
		}
	}
	return fails
}

// runValBatch plays the cases one after the other on one server (so that whatever a case
// leaves behind in the interpreter is there for the next), judges each, and reports a failing
// case in the smallest form that still fails: alone on a fresh server, else with its history.
func (rn *runner) runValBatch(cases []valCase, stream string) {
	c := rn.c
	if len(cases) == 0 {
		return
	}
	src := valScript(nil)
	srv, err := newServer(src)
	if err != nil {
		c.Violation("isolation:value:catalogue-script", "the catalogue server script did not run: "+err.Error(), cases[0])
		return
	}
	solo, err := newServer(src)
	if err != nil {
		c.Violation("isolation:value:catalogue-script", "the catalogue server script did not run (solo server): "+err.Error(), cases[0])
		return
	}
	var history []valRound
	for j, cs := range cases {
		cs.Kind = "vals"
		srv.serve(wire{Method: "GET", URL: "/zz"})
		out, played, err := playVals(srv, j*16, cs.Reqs, cs.Turns)
		key := fmt.Sprintf("vals %v %v", cs.Reqs, played)
		c.Eval(key, len(cs.Reqs) >= 2 && !sequential(played))
		c.Hit("stream:" + stream)
		c.Hit(fmt.Sprintf("requests=%d", len(cs.Reqs)))
		same := true
		for _, r := range cs.Reqs {
			c.Hit("value:" + r.K)
			if r.K != cs.Reqs[0].K {
				same = false
			}
		}
		if same && len(cs.Reqs) > 1 {
			c.Hit("same-route")
		}
		if sequential(played) {
			c.Hit("schedule:sequential")
		} else {
			c.Hit("schedule:interleaved")
		}
		if err != nil {
			c.Violation("schedule:hang", err.Error(), cs)
			return // the server still has parked goroutines: do not reuse it
		}
		rn.siteCorrespondence(cs, out, played)
		rn.capCorrespondence(cs, out, played)
		fails := judgeVals(solo, cs.Reqs, out, played)
		if len(fails) > 0 {
			// smallest replay: the case alone on a fresh server
			rep := cs
			if len(history) > 0 {
				if f2 := replayVals(cs); len(f2) == 0 {
					rep.History = append([]valRound{}, history...)
				}
			}
			for _, f := range fails {
				c.Violation(f.sig, f.what, rep)
			}
		}
		history = append(history, valRound{cs.Reqs, played})
		c.SampleSome(map[string]any{"case": cs, "played": played, "responses": fmt.Sprint(out)}, 199)
	}
}

// replayVals runs one case (history first) on fresh servers hosting only the kinds it needs.
func replayVals(cs valCase) []valFailure {
	src := valScript(cs.kinds())
	srv, err := newServer(src)
	if err != nil {
		return []valFailure{{"isolation:value:catalogue-script", "the server script did not run: " + err.Error()}}
	}
	solo, err := newServer(src)
	if err != nil {
		return []valFailure{{"isolation:value:catalogue-script", "the server script did not run: " + err.Error()}}
	}
	for hi, h := range cs.History {
		srv.serve(wire{Method: "GET", URL: "/zz"})
		if _, _, err := playVals(srv, 4096+hi*16, h.Reqs, h.Turns); err != nil {
			return []valFailure{{"schedule:hang", err.Error()}}
		}
	}
	srv.serve(wire{Method: "GET", URL: "/zz"})
	out, played, err := playVals(srv, 0, cs.Reqs, cs.Turns)
	if err != nil {
		return []valFailure{{"schedule:hang", err.Error()}}
	}
	return judgeVals(solo, cs.Reqs, out, played)
}

func (rn *runner) replayValCase(raw json.RawMessage) {
	c := rn.c
	var cs valCase
	if err := json.Unmarshal(raw, &cs); err != nil {
		c.Note("bad replay: %v", err)
		return
	}
	cs.Kind = "vals"
	c.Eval(string(raw), len(cs.Reqs) >= 2)
	c.Hit("stream:values")
	for _, f := range replayVals(cs) {
		c.Violation(f.sig, f.what, cs)
	}
}

// ------------------------------------------------------------ correspondence with Model.ReqSite

// siteCorrespondence: for cases whose requests all go to one route of the shape
// mk·gate·call·gate·call the Lean model (site scope derived from the regenerated node-write
// facts) predicts which request's datum each call observes.
func (rn *runner) siteCorrespondence(cs valCase, out []resp, played []int) {
	if rn.m == nil || len(cs.Reqs) == 0 {
		return
	}
	k := valByName[cs.Reqs[0].K]
	if !k.Site || k.Want == nil || k.Gates != 2 {
		return
	}
	for _, r := range cs.Reqs {
		if r.K != k.Name {
			return
		}
	}
	var xs []string
	for _, r := range cs.Reqs {
		xs = append(xs, r.X)
	}
	ans, err := rn.m.Ask("site\tgen\t" + strings.Join(xs, ",") + "\t" + intsCSV(played))
	if err != nil {
		rn.c.Note("model failed: %v", err)
		return
	}
	// answer: per request the data its two calls observe: "d,d;d,d;…" (`~` = not reached)
	per := strings.Split(ans, ";")
	if len(per) != len(cs.Reqs) {
		rn.c.Mismatch(cs, "", ans, "model answer malformed (site)")
		return
	}
	rn.c.Res.Traces++
	for i, p := range per {
		obs := strings.Split(p, ",")
		if len(obs) != 2 {
			rn.c.Mismatch(cs, "", ans, "model answer malformed (site)")
			return
		}
		x := cs.Reqs[i].X
		if obs[0] != x || obs[1] != x {
			// only on a tree whose node-write facts put closure environments into the syntax node
			// (scopeOf assumes the worst for every site then): the obligation already fails
			rn.c.Hit("site-model-predicts-leak")
			continue
		}
		if want := k.Want(x); out[i].Panic == "" && out[i].Body != want {
			rn.c.Mismatch(cs, fmt.Sprintf("request %d answered %q", i, out[i].Body), fmt.Sprintf("request %d answers %q (both calls run with its own environment %s)", i, want, x), "served response vs Model.ReqSite under the played schedule "+intsCSV(played))
		}
	}
}

// ------------------------------------------------------------ generators of cases

func valX(i int, salt int) string { return strconv.Itoa(1000 + 100*i + salt%90 + i) }

// valExhaustive: for every kind two requests to the same route with different data, every
// gate-level interleaving; three requests for the interleavings where all are created first.
func valExhaustive(known bool) []valCase {
	var out []valCase
	for ki, k := range valKinds() {
		if (k.Known != "") != known || k.Boot {
			continue
		}
		seg := k.Gates + 1
		a, b := valReq{k.Name, valX(0, ki)}, valReq{k.Name, valX(1, ki)}
		for _, t := range interleavings([]int{seg, seg}) {
			out = append(out, valCase{Reqs: []valReq{a, b}, Turns: t})
		}
		// three in flight: all create, then all use in both orders
		c3 := valReq{k.Name, valX(2, ki)}
		for _, t := range [][]int{{0, 1, 2, 0, 1, 2, 0, 1, 2}, {0, 1, 2, 2, 1, 0, 1, 0, 2}, {2, 1, 0, 0, 0, 1, 1, 2, 2}} {
			out = append(out, valCase{Reqs: []valReq{a, b, c3}, Turns: t})
		}
	}
	return out
}

// valRandom: 2..5 requests over random kinds (same route with probability 1/2), random turns.
func valRandom(r *vh.Rand) valCase {
	var ks, bks []valKind
	for _, k := range valKinds() {
		if k.Known == "" {
			if k.Boot {
				bks = append(bks, k)
			} else {
				ks = append(ks, k)
			}
		}
	}
	pick := func() valKind {
		if len(bks) > 0 && r.Chance(40) { // boot catalogue (round 7)
			return vh.Pick(r, bks)
		}
		return vh.Pick(r, ks)
	}
	n := r.Range(2, 5)
	var cs valCase
	var seg []int
	first := pick()
	same := r.Bool()
	for i := 0; i < n; i++ {
		k := first
		if !same {
			k = pick()
		}
		cs.Reqs = append(cs.Reqs, valReq{k.Name, strconv.Itoa(1000 + r.Intn(9000))})
		seg = append(seg, k.Gates+1)
	}
	left := append([]int{}, seg...)
	for {
		var avail []int
		for i, l := range left {
			if l > 0 {
				avail = append(avail, i)
			}
		}
		if len(avail) == 0 {
			break
		}
		i := vh.Pick(r, avail)
		left[i]--
		cs.Turns = append(cs.Turns, i)
	}
	return cs
}

func valueStreams(rn *runner) {
	c := rn.c
	vbatch := func(cases []valCase, stream string, size int) {
		for i := 0; i < len(cases); i += size {
			j := i + size
			if j > len(cases) {
				j = len(cases)
			}
			rn.runValBatch(cases[i:j], stream)
		}
	}
	vbatch(valExhaustive(false), "values", 64)
	vbatch(valExhaustive(true), "values-known", 64)
	vbatch(bootExhaustive(c.Thorough()), "boot", 64)
	var rnd []valCase
	for i := 0; i < c.N(400, 20000); i++ {
		rnd = append(rnd, valRandom(c.Rand))
	}
	vbatch(rnd, "values", 64)
}
