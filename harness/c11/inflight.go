package c11

import (
	"encoding/json"
	"fmt"
	"regexp"
	"sort"
	"strconv"
	"strings"

	"verif/harness/vh"
)

// The in-flight stream: per-request limits and resources must be accounted per request.
//
// Every handler of the catalogue below descends d frames through ONE kind of call (plain
// function, method, static method, closure, arrow function, __call / __get / __invoke magic,
// constructor, callable array through call_user_func, generator, a mixture cycling through
// function → method → static method → closure) and parks at the bottom in verif_gate while it
// HOLDS those frames. A case parks k requests (2 … 64) at depths whose sum is far beyond every
// limit the interpreter enforces (the limits are read from the regenerated facts), lets a probe
// request run to completion, then releases the parked ones. Whatever the interpreter counts per
// call — call depth, nesting levels, re-entrancy flags — in process-wide state shows up as a probe
// (or a released request) answering differently from the same request served alone.
//
// Oracles, both independent of the Lean model: (a) the response as a Go function of the request's
// own parameters (kind|x|d|d, status 200) whenever the request served alone stays within the
// limits, (b) the same request served alone on a second server. The Lean model
// (`Model.ReqLimit`, command `limit`) predicts per request whether a guard refuses it and with
// which depth, from the guards found in the source.

// callee: the Go function that executes a frame of the kind (the place where a guard would sit)
const (
	calleeMethod   = "node.ClassMethod.Call"
	calleeFunction = "node.FunctionStatement.Call"
	calleeLambda   = "node.LambdaExpression.Call"
)

type depthKind struct {
	Name string
	// Expr: PHP expression over $d (frames below the handler), $g (gate id), evaluating to the
	// number of levels it came back through (= $d) after parking at the bottom
	Expr string
	// Class: what kind of Go frames the descent holds — method | function | closure | generator | mix
	Class string
	// Frames: the Go callee of the i-th frame below the handler (i = 0 … Per·(d+1)-1), "" = not a frame of a call
	Frames func(i int) string
	// Per: frames per level of the descent (0 = 1)
	Per int
}

func (k depthKind) per() int {
	if k.Per > 0 {
		return k.Per
	}
	return 1
}

const depthDecl = `
function d_fn($n, $g) { if ($n <= 0) { verif_gate($g); return 0; } return 1 + d_fn($n - 1, $g); }
function d_fn2($n, $g) { if ($n <= 0) { verif_gate($g); return 0; } $r = d_fn2($n - 1, $g); return $r + 1; }
class DW {
  public $n = 0; public $g = 0;
  function m($n, $g) { if ($n <= 0) { verif_gate($g); return 0; } return 1 + $this->m($n - 1, $g); }
  static function s($n, $g) { if ($n <= 0) { verif_gate($g); return 0; } return 1 + self::s($n - 1, $g); }
  static function sn($n, $g) { if ($n <= 0) { verif_gate($g); return 0; } return 1 + DW::sn($n - 1, $g); }
  function __call($name, $args) { if ($args[0] <= 0) { verif_gate($args[1]); return 0; } return 1 + $this->undefinedStep($args[0] - 1, $args[1]); }
  function step() { if ($this->n <= 0) { verif_gate($this->g); return 0; } $this->n = $this->n - 1; return 1 + call_user_func([$this, "step"]); }
  function __invoke($n, $g) { if ($n <= 0) { verif_gate($g); return 0; } return 1 + $this($n - 1, $g); }
  function gm($n, $g) { if ($n <= 0) { verif_gate($g); yield 0; } else { foreach ($this->gm($n - 1, $g) as $v) { yield $v + 1; } } }
}
class DGet { public $n; public $g; function __construct($n, $g) { $this->n = $n; $this->g = $g; }
  function __get($name) { if ($this->n <= 0) { verif_gate($this->g); return 0; } $o = new DGet($this->n - 1, $this->g); return 1 + $o->deeper; } }
class DCtor { public $lv = 0; function __construct($n, $g) { if ($n <= 0) { verif_gate($g); $this->lv = 0; } else { $in = new DCtor($n - 1, $g); $this->lv = 1 + $in->lv; } } }
class DBase { function up($n, $g) { if ($n <= 0) { verif_gate($g); return 0; } return 1 + $this->up($n - 1, $g); } }
class DChild extends DBase { function up($n, $g) { return parent::up($n, $g); } }
function d_gen($n, $g) { if ($n <= 0) { verif_gate($g); yield 0; } else { foreach (d_gen($n - 1, $g) as $v) { yield $v + 1; } } }
function d_mix($n, $g) { if ($n <= 0) { verif_gate($g); return 0; } $w = new DWMix(); return 1 + $w->m($n - 1, $g); }
class DWMix { function m($n, $g) { if ($n <= 0) { verif_gate($g); return 0; } return 1 + DWMix::s($n - 1, $g); }
  static function s($n, $g) { if ($n <= 0) { verif_gate($g); return 0; } $f = function ($k, $gg) { if ($k <= 0) { verif_gate($gg); return 0; } return 1 + d_mix($k - 1, $gg); }; return 1 + $f($n - 1, $g); } }
`

func allFrames(callee string) func(int) string { return func(int) string { return callee } }

func depthKinds() []depthKind {
	return []depthKind{
		{Name: "fn", Class: "function", Expr: `d_fn($d, $g)`, Frames: allFrames(calleeFunction)},
		{Name: "fn-local", Class: "function", Expr: `d_fn2($d, $g)`, Frames: allFrames(calleeFunction)},
		{Name: "method", Class: "method", Expr: `(new DW())->m($d, $g)`, Frames: allFrames(calleeMethod)},
		{Name: "static", Class: "method", Expr: `DW::s($d, $g)`, Frames: allFrames(calleeMethod)},
		{Name: "static-named", Class: "method", Expr: `DW::sn($d, $g)`, Frames: allFrames(calleeMethod)},
		{Name: "magic-call", Class: "method", Expr: `(new DW())->undefinedStep($d, $g)`, Frames: allFrames(calleeMethod)},
		{Name: "callable-array", Class: "method", Expr: `d_cuf($d, $g)`, Frames: allFrames(calleeMethod)},
		{Name: "invoke", Class: "method", Expr: `d_inv($d, $g)`, Frames: allFrames(calleeMethod)},
		{Name: "magic-get", Class: "method", Expr: `(new DGet($d, $g))->deeper`, Frames: allFrames(calleeMethod)},
		{Name: "ctor", Class: "method", Expr: `(new DCtor($d, $g))->lv`, Frames: allFrames(calleeMethod)},
		{Name: "parent", Class: "method", Expr: `(new DChild())->up($d, $g)`, Frames: allFrames(calleeMethod), Per: 2},
		{Name: "closure", Class: "closure", Expr: `d_clo($d, $g)`, Frames: allFrames(calleeLambda)},
		{Name: "arrow", Class: "closure", Expr: `d_arrow($d, $g)`, Frames: allFrames(calleeLambda)},
		{Name: "gen", Class: "generator", Expr: `d_first(d_gen($d, $g))`, Frames: allFrames("")},
		{Name: "gen-method", Class: "generator", Expr: `d_first((new DW())->gm($d, $g))`, Frames: allFrames("")},
		{Name: "mix", Class: "mix", Expr: `d_mix($d, $g)`, Frames: func(i int) string {
			return []string{calleeFunction, calleeMethod, calleeMethod, calleeLambda}[i%4]
		}},
	}
}

// helpers that need a statement or two (declared once, they hold no frame while the descent is parked
// except where noted: d_cuf / d_inv / d_clo / d_arrow add ONE function frame above the descent)
const depthHelpers = `
function d_cuf($d, $g) { $w = new DW(); $w->n = $d; $w->g = $g; return $w->step(); }
function d_inv($d, $g) { $w = new DW(); return $w($d, $g); }
function d_clo($d, $g) { $f = function ($n, $gg) use (&$f) { if ($n <= 0) { verif_gate($gg); return 0; } return 1 + $f($n - 1, $gg); }; return $f($d, $g); }
function d_arrow($d, $g) { $a = fn($n, $gg, $self) => $n <= 0 ? d_park($gg) : 1 + $self($n - 1, $gg, $self); return $a($d, $g, $a); }
function d_park($g) { verif_gate($g); return 0; }
function d_first($gen) { foreach ($gen as $v) { return $v; } return -1; }
`

// helperFrames: frames of plain functions the kind's expression holds ABOVE the descent
func (k depthKind) helperFrames() int {
	switch k.Name {
	case "callable-array", "invoke", "closure", "gen", "gen-method":
		return 1
	case "arrow":
		return 1 // d_arrow; d_park at the bottom is one more function frame, counted in frameList
	}
	return 0
}

var depthByName = func() map[string]depthKind {
	m := map[string]depthKind{}
	for _, k := range depthKinds() {
		m[k.Name] = k
	}
	return m
}()

func depthScript() string {
	var sb strings.Builder
	sb.WriteString("<?php\nuse Net\\Http\\Server;\n$server = new Server('127.0.0.1', 0);\n")
	sb.WriteString(depthDecl)
	sb.WriteString(depthHelpers)
	sb.WriteString("$server->onError(function ($request, $response, $error) { $response->status(500)->write('error: ' . $error); });\n")
	for _, k := range depthKinds() {
		body := fmt.Sprintf("function ($req, $res) {\n  $x = $req->input(\"x\"); $d = (int)$req->input(\"d\"); $g = $req->query()[\"g\"];\n  $n = %s;\n  $res->header(\"X-Own\", verif_str($x));\n  $res->write(\"%s|\" . $x . \"|\" . $d . \"|\" . $n);\n}", k.Expr, k.Name)
		fmt.Fprintf(&sb, "$server->get('/d/%s', %s);\n", k.Name, body)
		// the same handler behind the hot-reload route (HotHandler: a TempVM per request over the same VM)
		fmt.Fprintf(&sb, "verif_hot('/h/%s', %s);\n", k.Name, body)
	}
	sb.WriteString("$server->get('/zz', function ($req, $res) { $res->write('z'); });\nverif_expose($server);\n")
	return sb.String()
}

// ------------------------------------------------------------ cases

type flightReq struct {
	K string `json:"k"` // kind (route)
	D int    `json:"d"` // frames below the handler
	X string `json:"x"` // the request's own parameter
	// Hot: served through HotHandler (route /h/<kind>) instead of the server's Handler (route /d/<kind>)
	Hot bool `json:"hot,omitempty"`
}

// flightCase: requests to the depth routes under a forced gate-level schedule (each request has
// two turns: down to the gate at the bottom, back up to the end).
type flightCase struct {
	Kind    string      `json:"kind"` // "flight"
	Name    string      `json:"name,omitempty"`
	Reqs    []flightReq `json:"reqs"`
	Turns   []int       `json:"turns"`
	History int         `json:"history,omitempty"` // how many cases the same server had served before
}

func flightWire(r flightReq, gid int) wire {
	u := fmt.Sprintf("/d/%s?x=%s&d=%d", r.K, r.X, r.D)
	if r.Hot {
		u = "/h" + u[2:]
	}
	if gid >= 0 {
		u += "&g=" + strconv.Itoa(gid)
	}
	return wire{Method: "GET", URL: u}
}

// frames: how many frames below the handler the request holds at the bottom
func (r flightReq) frames() int { return depthByName[r.K].per() * (r.D + 1) }

// mkReq: a request of kind k holding about `frames` frames
func mkReq(k depthKind, frames int, x string) flightReq {
	d := frames/k.per() - 1
	if d < 1 {
		d = 1
	}
	return flightReq{K: k.Name, D: d, X: x}
}

func (r flightReq) hot() flightReq { r.Hot = true; return r }

func perm(r *vh.Rand, n int) []int {
	p := make([]int, n)
	for i := range p {
		p[i] = i
	}
	for i := n - 1; i > 0; i-- {
		j := r.Intn(i + 1)
		p[i], p[j] = p[j], p[i]
	}
	return p
}

func flightWant(r flightReq) resp {
	return resp{Code: 200, Body: fmt.Sprintf("%s|%s|%d|%d", r.K, r.X, r.D, r.D)}
}

// frameList: the Go callees of the frames request r holds at the bottom, outermost first: the
// handler closure, the helper function (if any), the descent
func frameList(r flightReq) []string {
	k := depthByName[r.K]
	out := []string{calleeLambda}
	for i := 0; i < k.helperFrames(); i++ {
		out = append(out, calleeFunction)
	}
	for i := 0; i < k.per()*(r.D+1); i++ {
		if c := k.Frames(i); c != "" {
			out = append(out, c)
		}
	}
	if r.K == "arrow" {
		out = append(out, calleeFunction) // d_park
	}
	return out
}

func playFlight(srv *server, reqs []flightReq, turns []int) ([]resp, []int, error) {
	ids := make([]int, len(reqs))
	wires := make([]wire, len(reqs))
	for i, r := range reqs {
		ids[i] = 100000 + i
		wires[i] = flightWire(r, ids[i])
	}
	return srv.runTurns(ids, wires, turns)
}

// counterAtRest: what a process-wide call counter of the VM reads when no request is in flight
// (EnterCall returns the count including the call itself); ok=false if the VM has no such counter
func (s *server) counterAtRest() (int, bool) {
	v, ok := any(s.env.VM).(interface {
		EnterCall() int
		LeaveCall()
	})
	if !ok {
		return 0, false
	}
	n := v.EnterCall() - 1
	v.LeaveCall()
	return n, true
}

type flightFailure struct {
	sig, what string
}

// soloLimit: below this depth a request served alone must answer from its own data (every limit
// of the tree is above it: taken from the regenerated facts, see flightLimits)
var soloSafeDepth = 400

// soloCache: the answer of a request served alone, per solo server (a handler of the catalogue is a
// function of its URL; the same request recurs in many cases of a batch)
type soloCache struct {
	srv *server
	got map[string]resp
}

func newSoloCache(srv *server) *soloCache { return &soloCache{srv, map[string]resp{}} }

func (s *soloCache) serve(w wire) resp {
	if r, ok := s.got[w.URL]; ok {
		return r
	}
	r := s.srv.serve(w)
	s.got[w.URL] = r
	return r
}

func judgeFlight(solo *soloCache, reqs []flightReq, out []resp, played []int) []flightFailure {
	var fails []flightFailure
	seen := map[string]bool{}
	for i, r := range reqs {
		k, ok := depthByName[r.K]
		if !ok {
			fails = append(fails, flightFailure{"inflight:unknown-kind", "unknown kind " + r.K})
			continue
		}
		sig := "inflight:" + k.Class
		got := out[i]
		alone := solo.serve(flightWire(r, -1))
		want := flightWant(r)
		if r.frames() <= soloSafeDepth && (alone.Code != want.Code || alone.Body != want.Body || alone.Panic != "") {
			if !seen["solo:"+r.K] {
				seen["solo:"+r.K] = true
				fails = append(fails, flightFailure{"inflight:solo:" + k.Class, fmt.Sprintf("request %d (/d/%s?d=%d&x=%s) served ALONE answered %s; from its own data the answer is 200 %q", i, r.K, r.D, r.X, alone, want.Body)})
			}
			continue
		}
		if got == alone {
			continue
		}
		key := sig + fmt.Sprint(got.Code, alone.Code)
		if seen[key] {
			continue
		}
		seen[key] = true
		held := 0
		for j, q := range reqs {
			if j != i {
				held += q.frames()
			}
		}
		fails = append(fails, flightFailure{sig, fmt.Sprintf("request %d of %d (/d/%s?d=%d&x=%s: %d frames of kind %s) answered %s under schedule %s while the other requests held up to %d frames, but %s when served alone", i, len(reqs), r.K, r.D, r.X, r.frames(), k.Class, got, intsCSV(played), held, alone)})
	}
	return fails
}

var parenNum = regexp.MustCompile(`\((\d+)\)`)

// flightOutcome: ok | fail:<depth the guard reported> | other
func flightOutcome(r resp) string {
	if r.Panic != "" {
		if m := parenNum.FindStringSubmatch(r.Panic); m != nil {
			return "fail:" + m[1]
		}
		return "panic"
	}
	if r.Code == 200 {
		return "ok"
	}
	if m := parenNum.FindStringSubmatch(r.Body); m != nil && r.Code == 500 {
		return "fail:" + m[1]
	}
	return fmt.Sprintf("other:%d", r.Code)
}

// flightModelLine: `limit gen <callee names> <req>;<req> <turns>`; a request = its frames as indices
// into the callee names, e.g. "2 0 0 0" (handler closure, three method frames); the driver builds
// call… gate ret… write from it.
var flightCallees = []string{calleeMethod, calleeFunction, calleeLambda}

func flightModelLine(cs flightCase, played []int) string {
	idx := map[string]int{}
	for i, c := range flightCallees {
		idx[c] = i
	}
	var rs []string
	for _, r := range cs.Reqs {
		var fs []string
		for _, c := range frameList(r) {
			fs = append(fs, strconv.Itoa(idx[c]))
		}
		rs = append(rs, strings.Join(fs, " "))
	}
	return "limit\tgen\t" + strings.Join(flightCallees, ",") + "\t" + strings.Join(rs, ";") + "\t" + intsCSV(played)
}

// runFlightBatch plays the cases one after the other on one server (a counter that does not come
// back to zero stays there for the next case); a failing case is re-run alone on fresh servers and
// reported in that form if it fails there too, else with the number of cases served before it.
func (rn *runner) runFlightBatch(cases []flightCase, stream string) {
	c := rn.c
	if len(cases) == 0 {
		return
	}
	src := depthScript()
	srv, err := newServer(src)
	if err != nil {
		c.Violation("inflight:script", "the depth-catalogue server script did not run: "+err.Error(), cases[0])
		return
	}
	soloSrv, err := newServer(src)
	if err != nil {
		c.Violation("inflight:script", "the depth-catalogue server script did not run (solo server): "+err.Error(), cases[0])
		return
	}
	solo := newSoloCache(soloSrv)
	type played struct {
		out   []resp
		turns []int
	}
	runs := make([]played, len(cases))
	var lines []string
	restReported := false
	for j, cs := range cases {
		out, turns, err := playFlight(srv, cs.Reqs, cs.Turns)
		if err != nil {
			cs.Kind = "flight"
			c.Violation("schedule:hang", err.Error(), cs)
			return
		}
		runs[j] = played{out, turns}
		lines = append(lines, flightModelLine(cs, turns))
		if rest, ok := srv.counterAtRest(); ok && rest != 0 && !restReported {
			restReported = true
			cs.Kind = "flight"
			c.Mismatch(cs, fmt.Sprintf("the VM's call counter reads %d with no request in flight (case %d of the batch)", rest, j), "0 (Model.ReqLimit: c = Σ d_i, C11_depth_counter_is_sum)", "process-wide counter at rest after the schedule "+intsCSV(turns))
		}
	}
	var mres []string
	if rn.m != nil {
		mres, err = rn.m.AskBatch(lines)
		if err != nil {
			c.Note("model failed: %v", err)
			mres = nil
		}
	}
	for j, cs := range cases {
		cs.Kind = "flight"
		run := runs[j]
		c.Eval(fmt.Sprintf("flight %v %v", cs.Reqs, run.turns), len(cs.Reqs) >= 2 && !sequential(run.turns))
		c.Hit("stream:" + stream)
		c.Hit(fmt.Sprintf("inflight-requests=%s", bucket(len(cs.Reqs))))
		sum := 0
		for _, r := range cs.Reqs {
			if r.Hot {
				c.Hit("inflight-route:HotHandler")
			} else {
				c.Hit("inflight-route:Handler")
			}
			c.Hit("depth-kind:" + r.K)
			sum += r.frames()
		}
		c.Hit("inflight-frames=" + bucket(sum))
		for _, o := range run.out {
			c.Hit("inflight-outcome:" + strings.SplitN(flightOutcome(o), ":", 2)[0])
		}
		if sequential(run.turns) {
			c.Hit("schedule:sequential")
		} else {
			c.Hit("schedule:interleaved")
		}
		// ---- correspondence with Model.ReqLimit (guards taken from the regenerated facts)
		if mres != nil && j < len(mres) {
			per := strings.Split(mres[j], ";")
			if len(per) != len(cs.Reqs) {
				c.Mismatch(cs, "", mres[j], "model answer malformed (limit)")
			} else {
				c.Res.Traces++
				for i := range cs.Reqs {
					if got := flightOutcome(run.out[i]); got != per[i] {
						c.Mismatch(cs, fmt.Sprintf("request %d: %s (%s)", i, got, run.out[i]), fmt.Sprintf("request %d: %s", i, per[i]), "served response vs Model.ReqLimit under the played schedule "+intsCSV(run.turns))
						break
					}
				}
			}
		}
		// ---- the property itself
		fails := judgeFlight(solo, cs.Reqs, run.out, run.turns)
		if len(fails) > 0 {
			rep := cs
			if j > 0 {
				if f2 := replayFlight(cs); len(f2) == 0 {
					rep.History = j
				}
			}
			for _, f := range fails {
				c.Violation(f.sig, f.what, rep)
			}
		}
		c.SampleSome(map[string]any{"case": cs, "played": run.turns, "responses": fmt.Sprint(run.out)}, 97)
	}
}

func bucket(n int) string {
	switch {
	case n <= 3:
		return strconv.Itoa(n)
	case n <= 8:
		return "4-8"
	case n <= 32:
		return "9-32"
	case n <= 64:
		return "33-64"
	case n <= 500:
		return "65-500"
	case n <= 1000:
		return "501-1000"
	}
	return ">1000"
}

func replayFlight(cs flightCase) []flightFailure {
	src := depthScript()
	srv, err := newServer(src)
	if err != nil {
		return []flightFailure{{"inflight:script", "the server script did not run: " + err.Error()}}
	}
	solo, err := newServer(src)
	if err != nil {
		return []flightFailure{{"inflight:script", "the server script did not run: " + err.Error()}}
	}
	out, played, err := playFlight(srv, cs.Reqs, cs.Turns)
	if err != nil {
		return []flightFailure{{"schedule:hang", err.Error()}}
	}
	return judgeFlight(newSoloCache(solo), cs.Reqs, out, played)
}

func (rn *runner) replayFlightCase(raw json.RawMessage) {
	c := rn.c
	var cs flightCase
	if err := json.Unmarshal(raw, &cs); err != nil {
		c.Note("bad replay: %v", err)
		return
	}
	cs.Kind = "flight"
	cs.History = 0
	c.Eval(string(raw), len(cs.Reqs) >= 2)
	c.Hit("stream:inflight")
	for _, f := range replayFlight(cs) {
		c.Violation(f.sig, f.what, cs)
	}
}

// ------------------------------------------------------------ generators

func flightX(i int) string { return strconv.Itoa(3000 + 7*i) }

// parkProbe: requests 0..k-1 park at the bottom, the probe (last) runs to completion, the parked
// ones are released in the given order (rev = last parked first).
func parkProbe(name string, parked []flightReq, probe flightReq, rev bool) flightCase {
	cs := flightCase{Name: name, Reqs: append(append([]flightReq{}, parked...), probe)}
	k := len(parked)
	for i := 0; i < k; i++ {
		cs.Turns = append(cs.Turns, i)
	}
	cs.Turns = append(cs.Turns, k, k)
	for i := 0; i < k; i++ {
		if rev {
			cs.Turns = append(cs.Turns, k-1-i)
		} else {
			cs.Turns = append(cs.Turns, i)
		}
	}
	return cs
}

// flightExhaustive: for every ordered pair (kind of the parked requests, kind of the probe): two
// requests parked `deep` frames down each + a probe needing `deep` frames; for every kind 64
// requests parked 8–10 frames down + a shallow probe of the same kind and of the next kind.
// deep and the shallow total are chosen from the limits found in the source: every request stays
// below the smallest limit on its own, the frames in flight together exceed the largest.
func flightExhaustive(limits []int, thorough bool) []flightCase {
	lo, hi := limitRange(limits)
	deep := lo * 3 / 5 // alone: within the limit; two parked + the probe: 1.8 × the limit
	var out []flightCase
	ks := depthKinds()
	isRep := map[string]bool{}
	for _, n := range flightReps {
		isRep[n] = true
	}
	pair := func(p, q depthKind, pi, qi int, hotP, hotQ bool) {
		parked := []flightReq{mkReq(p, deep, flightX(pi)), mkReq(p, deep-2, flightX(pi+20))}
		// the smallest limit may be far below the largest: park more requests until the sum is beyond it
		for sum := 2 * deep; sum+deep <= hi+hi/5; sum += deep {
			parked = append(parked, mkReq(p, deep, flightX(len(parked)+40)))
		}
		probe := mkReq(q, deep+2, flightX(qi+60))
		name := fmt.Sprintf("parked %s, probe %s", p.Name, q.Name)
		if hotP {
			for i := range parked {
				parked[i].Hot = true
			}
			name += ", parked through HotHandler"
		}
		if hotQ {
			probe.Hot = true
			name += ", probe through HotHandler"
		}
		out = append(out, parkProbe(name, parked, probe, (pi+qi)%2 == 0))
	}
	for pi, p := range ks {
		for qi, q := range ks {
			// quick: every kind parked and every kind probing, against the representative kinds
			if !thorough && !isRep[p.Name] && !isRep[q.Name] {
				continue
			}
			pair(p, q, pi, qi, false, false)
			if isRep[p.Name] && isRep[q.Name] {
				pair(p, q, pi, qi, true, false)
				pair(p, q, pi, qi, false, true)
				pair(p, q, pi, qi, true, true)
			}
		}
	}
	for pi, p := range ks {
		for vi, q := range []depthKind{p, ks[(pi+1)%len(ks)], ks[(pi+5)%len(ks)]} {
			var parked []flightReq
			n := 64
			per := hi*5/4/n + 1 // 64 × per ≥ 1.25 × the largest limit
			if per < 8 {
				per = 8
			}
			for i := 0; i < n; i++ {
				r := mkReq(p, per+2*(i%3), flightX(i))
				r.Hot = vi == 2 && i%2 == 1 // third variant: every other parked request through HotHandler
				parked = append(parked, r)
			}
			probe := mkReq(q, per+2, flightX(99))
			probe.Hot = vi == 1
			out = append(out, parkProbe(fmt.Sprintf("64 shallow %s, probe %s", p.Name, q.Name), parked, probe, pi%2 == 0))
		}
	}
	return out
}

// flightPast: past failures, run first whatever the regenerated limits are. (1) fixed d95d272: the
// method guard decided on the process-wide counter — one request parked 496 method frames down, a
// probe 5 method frames deep was refused "(501)"; (2) the same through functions / closures / the
// mixture (seeded change: the guard copied to FunctionStatement.Call); (3) 64 requests 8–10 frames
// deep each and a shallow probe.
func flightPast() []flightCase {
	var out []flightCase
	for i, kn := range []string{"method", "fn", "closure", "mix", "static", "ctor"} {
		k := depthByName[kn]
		out = append(out, parkProbe("past: parked "+kn+" 496, probe "+kn+" 5",
			[]flightReq{mkReq(k, 496, flightX(i))}, mkReq(k, 5, flightX(i+60)), false))
		var parked []flightReq
		for j := 0; j < 64; j++ {
			parked = append(parked, mkReq(k, 9+j%3, flightX(j)))
		}
		out = append(out, parkProbe("past: 64 shallow "+kn+", probe "+kn, parked, mkReq(k, 9, flightX(99)), true))
	}
	return out
}

// flightFar: far beyond every limit the facts know (a limit the translator does not see — a counter in
// a package variable, a context field — is still a limit on frames held): eight requests parked just
// within the smallest known limit each, about 7.7 × the limit together, + a shallow probe, per
// representative kind; the parked side through Handler and HotHandler alternately.
func flightFar(limits []int, thorough bool) []flightCase {
	lo, _ := limitRange(limits)
	var out []flightCase
	for i, kn := range flightReps {
		k := depthByName[kn]
		var parked []flightReq
		for j := 0; j < 8; j++ {
			r := mkReq(k, lo*24/25-j, flightX(j))
			r.Hot = j%2 == 1
			parked = append(parked, r)
		}
		for qi, qn := range []string{kn, flightReps[(i+1)%len(flightReps)]} {
			if qi > 0 && !thorough {
				continue
			}
			out = append(out, parkProbe(fmt.Sprintf("far: 8 × %s parked, probe %s", kn, qn), parked, mkReq(depthByName[qn], 5, flightX(60+i)), i%2 == 0))
		}
	}
	return out
}

// flightReps: one kind per Go function that executes frames (plain function, method, static method,
// closure, constructor) and the mixture
var flightReps = []string{"fn", "method", "static", "closure", "ctor", "mix"}

// flightBoundary: every limit L found in the source is approached from both sides, (a) by the SUM:
// one request parked L+Δ-5 frames down, a probe 5 frames deep, Δ = -2 … +2, over every ordered pair
// of representative kinds (the frame counts of a kind are exact up to the handler / helper frames,
// hence a window rather than one value); (b) by ONE request's own depth: a request L+Δ frames deep,
// Δ = -2 … +2, of every kind, served while a method-kind and a function-kind request are parked 3/5·L
// frames down each — whatever it answers (served, or refused by a limit on its own depth) it must
// answer alone.
func flightBoundary(limits []int) []flightCase {
	var out []flightCase
	reps := flightReps
	seen := map[int]bool{}
	for _, l := range limits {
		if l < 20 || l > 4000 || seen[l] {
			continue
		}
		seen[l] = true
		for pi, pn := range reps {
			for qi, qn := range reps {
				for d := -2; d <= 2; d++ {
					p, q := depthByName[pn], depthByName[qn]
					out = append(out, parkProbe(fmt.Sprintf("sum %d%+d: parked %s, probe %s", l, d, pn, qn),
						[]flightReq{mkReq(p, l+d-5, flightX(pi))}, mkReq(q, 5, flightX(qi+60)), false))
				}
			}
		}
		for ki, k := range depthKinds() {
			for d := -2; d <= 2; d++ {
				company := []flightReq{mkReq(depthByName["method"], l*3/5, flightX(1)), mkReq(depthByName["fn"], l*3/5, flightX(2))}
				probe := mkReq(k, l+d, flightX(ki+70))
				probe.Hot = (ki+d)%3 == 0
				company[1].Hot = (ki+d)%4 == 1
				out = append(out, parkProbe(fmt.Sprintf("own %d%+d: %s next to parked method + fn", l, d, k.Name),
					company, probe, d%2 == 0))
			}
		}
	}
	return out
}

func limitRange(limits []int) (lo, hi int) {
	lo, hi = 500, 500
	if len(limits) > 0 {
		lo, hi = limits[0], limits[0]
		for _, l := range limits {
			if l < lo {
				lo = l
			}
			if l > hi {
				hi = l
			}
		}
	}
	if lo < 20 {
		lo = 20
	}
	if hi > 4000 { // keep the Go stacks of the harness reasonable
		hi = 4000
	}
	if lo > hi {
		lo = hi
	}
	return
}

// flightRandom: 2..64 requests over random kinds and depths (each alone within the smallest
// limit, together beyond the largest), every request two turns in random order.
func flightRandom(r *vh.Rand, limits []int) flightCase {
	lo, hi := limitRange(limits)
	ks := depthKinds()
	n := r.Range(2, 6)
	if r.Chance(30) {
		n = r.Range(7, 64)
	}
	target := hi + hi/4 + r.Intn(hi)
	per := target/n + 1
	if per > lo*4/5 {
		per = lo * 4 / 5
		if n*per < target { // more requests rather than deeper ones
			n = target/per + 1
			if n > 64 {
				n = 64
			}
		}
	}
	var cs flightCase
	mono := r.Chance(40)
	first := vh.Pick(r, ks)
	for i := 0; i < n; i++ {
		k := first
		if !mono {
			k = vh.Pick(r, ks)
		}
		d := per - r.Intn(per/4+1)
		if d < 1 {
			d = 1
		}
		rq := mkReq(k, d, strconv.Itoa(1000+r.Intn(9000)))
		rq.Hot = r.Chance(33)
		cs.Reqs = append(cs.Reqs, rq)
	}
	// turns: with probability 1/2 "all park, then finish in random order"; else fully random
	if r.Bool() {
		cs.Turns = append(cs.Turns, perm(r, n)...)
		cs.Turns = append(cs.Turns, perm(r, n)...)
	} else {
		left := make([]int, n)
		for i := range left {
			left[i] = 2
		}
		for {
			var avail []int
			for i, l := range left {
				if l > 0 {
					avail = append(avail, i)
				}
			}
			if len(avail) == 0 {
				break
			}
			i := vh.Pick(r, avail)
			left[i]--
			cs.Turns = append(cs.Turns, i)
		}
	}
	return cs
}

// flightLimits: the numeric limits next to process-wide counters found by the translator
// (`facts` answer of the driver: limits=500,…); none known → 500.
func flightLimits(factsLine string) []int {
	var out []int
	for _, f := range strings.Fields(factsLine) {
		if strings.HasPrefix(f, "limits=") {
			for _, p := range strings.Split(strings.TrimPrefix(f, "limits="), ",") {
				if n, err := strconv.Atoi(p); err == nil && n > 0 {
					out = append(out, n)
				}
			}
		}
	}
	sort.Ints(out)
	return out
}

func flightStreams(rn *runner, factsLine string) {
	c := rn.c
	limits := flightLimits(factsLine)
	lo, _ := limitRange(limits)
	soloSafeDepth = lo * 4 / 5
	fbatch := func(cases []flightCase, stream string, size int) {
		for i := 0; i < len(cases); i += size {
			j := i + size
			if j > len(cases) {
				j = len(cases)
			}
			rn.runFlightBatch(cases[i:j], stream)
		}
	}
	if len(limits) == 0 {
		limits = []int{500}
	}
	fbatch(flightPast(), "inflight", 32)
	fbatch(flightBoundary(limits), "inflight", 32)
	fbatch(flightExhaustive(limits, c.Thorough()), "inflight", 32)
	fbatch(flightFar(limits, c.Thorough()), "inflight", 4)
	var rnd []flightCase
	for i := 0; i < c.N(60, 3000); i++ {
		rnd = append(rnd, flightRandom(c.Rand, limits))
	}
	fbatch(rnd, "inflight", 32)
}
