package c11

// The proxy stream (strengthening round 6, seeded/C11-inline-method-cache-torn).
//
// `$req` / `$res` are proxy objects whose "class" is made PER REQUEST (NewRequestClassFrom /
// NewResponseWriterClassFrom): every method object of that class is bound to the request's
// *http.Request / ResponseWriter. The syntax nodes of `$req->m(…)` are shared by all requests. Anything
// a call-site node remembers about the receiver it saw last (a resolved method, a class, a bound
// callable) is therefore a per-request-bound value in process-wide storage; it needs (a) two requests
// in flight on the SAME call site and (b) a request that comes BACK to the site (a loop, a helper
// called several times) to show. The older load handlers call every `$req->…` / `$res->…` site once
// per request.
//
// This stream: every method the two proxy classes offer (enumerated from the real classes' method
// tables, so a new method joins without an edit; a method without a call template is reported in the
// histogram), each called n = 2..50 times per request at ONE call site, through `->m()`, dynamic
// `->$m()`, nullsafe `?->m()`, inside a function, a class method, a static method and a closure that all
// requests share, in the handler and in two middlewares (before and after `$next`); the response is
// written in n chunks, n headers, cookies, and one of every answer method. Every datum of a request
// (query, header, cookie, form body, user agent, referer, path value) carries the request's own x.
// Oracles, independent of the model: the same request served alone (status, headers, body — a chunk
// that lands in another response is seen on BOTH sides) and "no other in-flight request's x anywhere
// in the response".

import (
	"fmt"
	nethttp "net/http"
	"net/http/httptest"
	"sort"
	"strings"

	"github.com/php-any/origami/data"
	ohttp "github.com/php-any/origami/std/net/http"

	"verif/harness/vh"
)

// pxTmpl: how a script calls one proxy method. Expr is a PHP expression over $q (the request) /
// $w (the response writer) and $x, $i (the request's parameter, the iteration); Stmt = true: a
// statement (the method returns nothing a script can hold).
type pxTmpl struct {
	Name string
	Expr string
	Stmt bool
}

// request methods: readers give a scalar that is a function of the request's own data
var pxReqTmpl = []pxTmpl{
	{"input", `$q->input("x")`, false},
	{"query", `$q->query()["x"]`, false},
	{"all", `$q->all()["x"]`, false},
	{"only", `$q->only("x")["x"]`, false},
	{"except", `count($q->except("x"))`, false},
	{"has", `$q->has("x")`, false},
	{"header", `$q->header("X-Tag")`, false},
	{"method", `$q->method()`, false},
	{"isMethod", `$q->isMethod("POST")`, false},
	{"url", `$q->url()`, false},
	{"fullUrl", `$q->fullUrl()`, false},
	{"path", `$q->path()`, false},
	{"ip", `$q->ip()`, false},
	{"isSecure", `$q->isSecure()`, false},
	{"userAgent", `$q->userAgent()`, false},
	{"referer", `$q->referer()`, false},
	{"formValue", `$q->formValue("x")`, false},
	{"postFormValue", `$q->postFormValue("f")`, false},
	{"protoAtLeast", `$q->protoAtLeast(1, 1)`, false},
	{"pathValue", `$q->pathValue("id")`, false},
	{"cookies", `count($q->cookies())`, false},
	{"cookiesNamed", `count($q->cookiesNamed("c" . $x))`, false},
	{"cookie", `$q->cookie("c" . $x)[0]`, false},
	{"basicAuth", `$q->basicAuth()[0]`, false},
	{"context", `$q->context()`, false},
	{"clone", `$q->clone()->input("x")`, false},
	{"withContext", `$q->withContext()->input("x")`, false},
	{"parseForm", `$q->parseForm()`, true},
	{"attribute", `$q->attribute("px", $x . "." . $i)`, true},
	{"setPathValue", `$q->setPathValue("pv" . $i, $x)`, true},
}

// request methods deliberately without a template (they consume the body, need a multipart body or
// write the request to a stream): not per-request state a handler reads back
var pxReqSkip = map[string]string{
	"body": "consumes the body stream (the second call differs alone as well)", "bind": "needs a class argument",
	"file": "multipart only", "formFile": "multipart only", "multipartReader": "multipart only", "parseMultipartForm": "multipart only",
	"write": "serialises the request to a writer", "writeProxy": "serialises the request to a writer",
	"addCookie": "mutates the request header (cookie count then depends on n; covered by cookies())", "setBasicAuth": "mutates the request header",
}

// response methods called in loops before the answer
var pxResLoop = []pxTmpl{
	{"header", `$w->header("X-P" . ($i % 5), $x . "." . ($i % 5))`, true},
	{"cookie", `$w->cookie("k" . ($i % 3), "v" . $x, ["path" => "/"])`, true},
	{"write", `$w->write("[" . $x . "." . $i . "]")`, true},
}

// answer methods (query parameter a): each ends the response its own way
var pxAnswers = []pxTmpl{
	{"write", `$w->write("<" . $x . ">")`, true},
	{"status", `$w->status(200 + ((int)$x % 4))`, true},
	{"writeHeader", `$w->writeHeader(203)`, true},
	{"json", `$w->json(["x" => $x, "i" => $i])`, true},
	{"html", `$w->html("<b>" . $x . "</b>")`, true},
	{"success", `$w->success(["x" => $x])`, true},
	{"error", `$w->error("E" . $x, 409)`, true},
	{"format", `$w->format(422, "m" . $x, ["x" => $x])`, true},
	{"redirect", `$w->redirect("/to/" . $x)`, true},
	{"noContent", `$w->noContent()`, true},
}

var pxResSkip = map[string]string{"view": "needs a template file", "file": "needs a file on disk"}

// pxMethods: the method tables of the REAL proxy classes
func pxMethods() (req, res []string) {
	defer func() { recover() }()
	r := httptest.NewRequest("GET", "/", nil)
	if cl, ok := ohttp.NewRequestClassFrom(r).(interface{ GetMethods() []data.Method }); ok {
		for _, m := range cl.GetMethods() {
			req = append(req, m.GetName())
		}
	}
	var w nethttp.ResponseWriter = httptest.NewRecorder()
	if cl, ok := ohttp.NewResponseWriterClassFrom(w).(interface{ GetMethods() []data.Method }); ok {
		for _, m := range cl.GetMethods() {
			res = append(res, m.GetName())
		}
	}
	sort.Strings(req)
	sort.Strings(res)
	return
}

// pxPlan: templates restricted to the methods the classes really have + the methods nobody calls
type pxPlan struct {
	Req, Loop, Ans []pxTmpl
	Missing        []string // methods of the classes without template and without a reason to skip
}

func pxMakePlan() pxPlan {
	reqM, resM := pxMethods()
	has := func(l []string, n string) bool {
		for _, x := range l {
			if x == n {
				return true
			}
		}
		return false
	}
	var p pxPlan
	seen := map[string]bool{}
	for _, t := range pxReqTmpl {
		if len(reqM) == 0 || has(reqM, t.Name) {
			p.Req = append(p.Req, t)
		}
		seen["req."+t.Name] = true
	}
	for _, t := range pxResLoop {
		if len(resM) == 0 || has(resM, t.Name) {
			p.Loop = append(p.Loop, t)
		}
		seen["res."+t.Name] = true
	}
	for _, t := range pxAnswers {
		if len(resM) == 0 || has(resM, t.Name) {
			p.Ans = append(p.Ans, t)
		}
		seen["res."+t.Name] = true
	}
	for _, n := range reqM {
		if _, skip := pxReqSkip[n]; !seen["req."+n] && !skip {
			p.Missing = append(p.Missing, "request."+n)
		}
	}
	for _, n := range resM {
		if _, skip := pxResSkip[n]; !seen["res."+n] && !skip {
			p.Missing = append(p.Missing, "response."+n)
		}
	}
	return p
}

// pxReaders: PHP statements that call every reader n times at one call site each and append
// "|<tag><name>=<value>*n" (or every value, if they differ) to $s
func pxReaders(ts []pxTmpl, tag string, form func(string) string) string {
	var b strings.Builder
	for _, t := range ts {
		e := form(t.Expr)
		if e == "" {
			continue
		}
		if t.Stmt {
			fmt.Fprintf(&b, "  for ($i = 0; $i < $n; $i++) { %s; }\n", e)
			continue
		}
		fmt.Fprintf(&b, "  $a = []; for ($i = 0; $i < $n; $i++) { $a[] = verif_str(%s); } $s = $s . \"|%s%s=\" . px_uq($a);\n", e, tag, t.Name)
	}
	return b.String()
}

// call forms: as written, nullsafe, dynamic method name (argument-free calls keep their arguments)
func pxPlain(e string) string    { return e }
func pxNullsafe(e string) string { return strings.Replace(e, "$q->", "$q?->", 1) }
func pxDynamic(e string) string {
	// $q->name(args) → $q->$m_name(args); the name variables are set once per function
	i := strings.Index(e, "$q->")
	if i < 0 {
		return ""
	}
	rest := e[i+4:]
	j := strings.IndexByte(rest, '(')
	if j <= 0 {
		return ""
	}
	return e[:i] + "$q->$m_" + rest[:j] + rest[j:]
}

func pxNameVars(ts []pxTmpl) string {
	var b strings.Builder
	for _, t := range ts {
		fmt.Fprintf(&b, " $m_%s = \"%s\";", t.Name, t.Name)
	}
	return b.String()
}

func pxScript() string {
	p := pxMakePlan()
	var b strings.Builder
	b.WriteString("<?php\nuse Net\\Http\\Server;\n$server = new Server('127.0.0.1', 0);\n")
	b.WriteString(`function px_uq($a) { if (count($a) == 0) { return "-"; } $f = $a[0]; $all = true; foreach ($a as $v) { if ($v !== $f) { $all = false; } } if ($all) { return $f . "*" . count($a); } $s = ""; foreach ($a as $v) { $s = $s . $v . ","; } return $s; }
function px_n($q) { $n = (int)$q->input("n"); if ($n < 1) { $n = 1; } return $n; }
`)
	// the readers in a plain function, a method, a static method, a closure — one set of call sites each
	b.WriteString("function px_read($q, $x, $n) {\n  $s = \"\";\n" + pxReaders(p.Req, "f.", pxPlain) + "  return $s;\n}\n")
	b.WriteString("class PxReader {\n  function read($q, $x, $n) {\n  $s = \"\";" + pxNameVars(p.Req) + "\n" + pxReaders(p.Req, "d.", pxDynamic) + "  return $s;\n  }\n")
	b.WriteString("  static function sread($q, $x, $n) {\n  $s = \"\";\n" + pxReaders(p.Req, "s.", pxNullsafe) + "  return $s;\n  }\n}\n")
	b.WriteString("$pxc = function ($q, $x, $n) {\n  $s = \"\";\n" + pxReaders(p.Req, "c.", pxPlain) + "  return $s;\n};\n")
	// the response side: n headers / cookies / chunks at one call site each, inside a shared function
	b.WriteString("function px_heads($w, $x, $n) {\n")
	for _, t := range p.Loop {
		if t.Name != "write" {
			fmt.Fprintf(&b, "  for ($i = 0; $i < $n; $i++) { %s; }\n", t.Expr)
		}
	}
	b.WriteString("}\nfunction px_chunks($w, $x, $n) {\n")
	for _, t := range p.Loop {
		if t.Name == "write" {
			fmt.Fprintf(&b, "  for ($i = 0; $i < $n; $i++) { %s; }\n", t.Expr)
		}
	}
	b.WriteString("}\n")
	b.WriteString("function px_answer($w, $a, $x, $k) {\n  for ($i = 0; $i < $k; $i++) {\n")
	for _, t := range p.Ans {
		fmt.Fprintf(&b, "    if ($a == \"%s\") { %s; }\n", t.Name, t.Expr)
	}
	b.WriteString("  }\n}\n")
	// middlewares: the outer one reads before and after $next, the inner one writes headers in a loop
	b.WriteString(`$server->middleware(function ($q, $w, $next) {
  $x = $q->input("x"); $n = px_n($q);
  if ($q->input("mw") == "1") {
    $a = []; for ($i = 0; $i < $n; $i++) { $a[] = verif_str($q->input("x")) . verif_str($q->header("X-Tag")); } $w->header("X-M1", px_uq($a));
  }
  $next($q, $w);
  if ($q->input("mw") == "1") {
    $a = []; for ($i = 0; $i < $n; $i++) { $a[] = verif_str($q->query()["x"]); $w->header("X-M1post", $x); }
  }
}, 0);
$server->middleware(function ($q, $w, $next) {
  $x = $q->input("x"); $n = px_n($q);
  if ($q->input("mw") == "1") { for ($i = 0; $i < $n; $i++) { $w->header("X-M2-" . ($i % 4), $x); } }
  $next($q, $w);
}, 10);
$pxh = function ($q, $w) use ($pxc) {
  $x = $q->input("x"); $n = px_n($q); $v = $q->input("v");
  $s = "";
  if ($v == "f") { $s = px_read($q, $x, $n); }
  if ($v == "d") { $r = new PxReader(); $s = $r->read($q, $x, $n); }
  if ($v == "s") { $s = PxReader::sread($q, $x, $n); }
  if ($v == "c") { $s = $pxc($q, $x, $n); }
  $a = []; for ($i = 0; $i < $n; $i++) { $a[] = verif_str($q->input("x")); }
  $w->header("X-Who", px_uq($a));
  // the hot section: a tight loop over ONE read site and ONE write site, so that many requests are on
  // the same two nodes at the same instant (h iterations, 0 = none)
  $h = (int)$q->input("h");
  if ($h > 0) {
    $ok = 0; for ($i = 0; $i < $h; $i++) { if ($q->input("x") === $x) { $ok = $ok + 1; } $w->header("X-Hot", $x); }
    $w->header("X-Hot-Ok", $ok . "/" . $h);
  }
  if ($s != "") { $s = $s . "|attr=" . verif_str(verif_attr($q, "px")) . "|pv0=" . verif_str($q->pathValue("pv0")); }
  px_heads($w, $x, $n);
  $k = 1; if ($q->input("k") == "2") { $k = 2; }
  if ($q->input("o") == "1") {
    px_answer($w, $q->input("a"), $x, $k);
    px_chunks($w, $x, $n);
    $w->write($s);
  } else {
    px_chunks($w, $x, $n);
    $w->write($s);
    px_answer($w, $q->input("a"), $x, $k);
  }
};
$server->get('/px', $pxh);
$server->post('/px', $pxh);
$server->get('/px/{id}', $pxh);
$server->post('/px/{id}', $pxh);
$server->get('/noop', function ($q, $w) { $w->write("noop"); });
verif_expose($server);
`)
	return b.String()
}

// pxReq: one request of the proxy stream; everything it carries names its own x
type pxReq struct {
	X    string
	N    int    // iterations per call site
	V    string // f | d | s | c : function / dynamic ->$m() in a method / nullsafe in a static method / closure
	A    string // the answer method
	K    int    // the answer is given K times (1 | 2)
	Mw   bool   // the middlewares loop as well
	Post bool
	PV   bool // the route with a path value
	O    bool // answer first (status / envelope), chunks after it
	H    int  // iterations of the hot section
}

func (q pxReq) wire() wire {
	u := "/px"
	if q.PV {
		u = "/px/id" + q.X
	}
	u += fmt.Sprintf("?x=%s&n=%d&v=%s&a=%s&k=%d", q.X, q.N, q.V, q.A, q.K)
	if q.Mw {
		u += "&mw=1"
	}
	if q.O {
		u += "&o=1"
	}
	if q.H > 0 {
		u += fmt.Sprintf("&h=%d", q.H)
	}
	w := wire{Method: "GET", URL: u, Headers: [][2]string{{"X-Tag", "t" + q.X}, {"User-Agent", "ua" + q.X}, {"Referer", "http://ref/" + q.X}},
		Cookies: [][2]string{{"c" + q.X, "cv" + q.X}}}
	if q.Post {
		w.Method = "POST"
		w.Body = "f=f" + q.X
	}
	return w
}

func pxAnswerNames() []string {
	var out []string
	for _, t := range pxAnswers {
		out = append(out, t.Name)
	}
	return out
}

// pxLoadRequests: n requests with pairwise different x. The requests of one load case share the reader
// variant with probability 3/4, so that most of them run the SAME call sites at the same time.
func pxLoadRequests(r *vh.Rand, n int) []loadReq {
	var out []loadReq
	common := vh.Pick(r, []string{"f", "d", "s", "c"})
	iters := []int{2, 3, 5, 8, 2, 3, 13, 50}
	for i := 0; i < n; i++ {
		// a five-digit x: nothing else in a response is a five-digit number (the client address of an
		// httptest request is 192.0.2.1:1234, status codes and loop counts are shorter, timestamps longer)
		q := pxReq{X: fmt.Sprintf("%d", 50000+i*7+r.Intn(5)), N: vh.Pick(r, iters), V: common, A: vh.Pick(r, pxAnswerNames()), K: 1 + r.Intn(2),
			Mw: r.Bool(), Post: r.Chance(30), PV: r.Chance(30), O: r.Bool(), H: vh.Pick(r, []int{0, 80, 160, 320})}
		if r.Chance(25) {
			q.V = vh.Pick(r, []string{"f", "d", "s", "c"})
		}
		if n > 16 && q.N > 13 { // many in flight: shorter loops, the same number of site executions overall
			q.N = vh.Pick(r, iters[:4])
		}
		out = append(out, loadReq{w: q.wire(), own: q.X})
	}
	return out
}

// pxForeign: the x of another request of the case in the response (every x is a five-digit number
// delimited by non-digits wherever a response carries it)
func pxForeign(got resp, own string, all []string) string {
	text := got.Header + "\n" + got.Body
	for _, x := range all {
		if x == own {
			continue
		}
		for i := strings.Index(text, x); i >= 0; {
			before := i == 0 || text[i-1] < '0' || text[i-1] > '9'
			after := i+len(x) >= len(text) || text[i+len(x)] < '0' || text[i+len(x)] > '9'
			if before && after {
				return x
			}
			j := strings.Index(text[i+1:], x)
			if j < 0 {
				break
			}
			i += 1 + j
		}
	}
	return ""
}

func pxLoadStreams(c *vh.Ctx) {
	p := pxMakePlan()
	c.HitN("px-request-methods-called", len(p.Req))
	c.HitN("px-response-methods-called", len(p.Loop)+len(p.Ans))
	for _, m := range p.Missing {
		c.Hit("px-method-without-template:" + m)
	}
	if len(p.Missing) > 0 {
		c.Note("proxy stream: methods of the request / response classes that no handler calls (add a template in harness/c11/proxy.go): %s", strings.Join(p.Missing, ", "))
	}
	sizes := []int{2, 4, 8, 16, 32, 64}
	if c.Thorough() {
		sizes = []int{2, 3, 4, 6, 8, 12, 16, 24, 32, 48, 64}
	}
	for _, n := range sizes {
		rounds := c.N(500, 8000) / n
		if rounds < 20 {
			rounds = 20
		}
		runLoad(c, loadCase{Stream: "px", Seed: c.Rand.U64() % 1000000, InFlight: n, Rounds: rounds})
	}
	if c.Thorough() {
		for _, procs := range []int{2, 4} {
			runLoad(c, loadCase{Stream: "px", Seed: c.Rand.U64() % 1000000, InFlight: 16, Rounds: 600, Procs: procs})
		}
	}
}

// development aid (C11_ONLY=px C11_PXDUMP=1): one request per reader variant and answer, served alone
func pxDump() {
	fmt.Println(pxScript())
	srv, err := newServer(pxScript())
	if err != nil {
		fmt.Println("px: server:", err)
		return
	}
	for i, v := range []string{"f", "d", "s", "c"} {
		q := pxReq{X: fmt.Sprintf("%d", 1000+i), N: 3, V: v, A: "write", K: 1, Mw: i%2 == 0, Post: i%2 == 1, PV: i >= 2}
		fmt.Printf("%s %s\n -> %s\n", q.wire().Method, q.wire().URL, srv.serve(q.wire()))
	}
	for i, a := range pxAnswerNames() {
		q := pxReq{X: fmt.Sprintf("%d", 2000+i), N: 2, V: "x", A: a, K: 1 + i%2, O: true}
		fmt.Printf("%s %s\n -> %s\n", q.wire().Method, q.wire().URL, srv.serve(q.wire()))
	}
}
