// Package c11: correspondence + violation search for C11 (concurrent HTTP
// requests do not interfere).
//
//   - Scripted schedules (in-process, forced): handler scripts generated from the
//     model's step language call verif_gate(id), which parks the request; the
//     controller plays a gate-level schedule (A parked between two reads while B
//     completes, the symmetric ones, 3–4 requests, middlewares) through the
//     server's ServeMux. Every value a handler read is written to its response
//     and compared (a) with the Lean model `vm_c11` instantiated with the scope
//     table regenerated from the source (correspondence), (b) with the same
//     request served ALONE on a fresh server (the model-independent oracle).
//   - Parallel load (child process): 2..64 requests in flight with distinct
//     parameters against handlers using locals, loops, arrays, objects, closures
//     and $req accessors (main stream) or superglobals (known stream), each
//     response compared with its solo response.
package c11

import (
	"encoding/json"
	"fmt"
	"os"
	"sort"
	"strconv"
	"strings"

	"verif/harness/vh"
)

func init() { vh.Register("C11", Run) }

type kv [2]int

// reqCase is one request: what it carries and the steps of the middleware
// (before / after $next) and of the closure handler serving it.
type reqCase struct {
	Post    bool     `json:"post,omitempty"`
	Query   []kv     `json:"query,omitempty"`
	Body    []kv     `json:"body,omitempty"`
	Cookies []kv     `json:"cookies,omitempty"`
	Headers []kv     `json:"headers,omitempty"`
	Pre     []string `json:"pre,omitempty"`
	H       []string `json:"h"`
	After   []string `json:"after,omitempty"`
}

type schedCase struct {
	Kind  string    `json:"kind"` // "sched"
	Reqs  []reqCase `json:"reqs"`
	Turns []int     `json:"turns"`
	Name  string    `json:"name,omitempty"`
	// SameRoute: every request is served by the route (closure, middleware branch) of
	// request 0 — same program, different data; the gate id then travels in the query (?g=)
	SameRoute bool `json:"same_route,omitempty"`
}

// ------------------------------------------------------------ step language

var sgVar = map[string]string{"get": "$_GET", "post": "$_POST", "cookie": "$_COOKIE", "server": "$_SERVER",
	"request": "$_REQUEST", "files": "$_FILES", "session": "$_SESSION", "env": "$_ENV", "globals": "$GLOBALS"}

func sgKey(kind string, k string) string {
	switch kind {
	case "server":
		return "HTTP_X_K" + k
	case "env":
		return "VERIF_K" + k
	}
	return "k" + k
}

func isRead(st string) bool {
	return strings.HasPrefix(st, "r.") || strings.HasPrefix(st, "q.") || strings.HasPrefix(st, "rl.")
}
func isSG(st string) bool { return strings.HasPrefix(st, "r.") || strings.HasPrefix(st, "w.") }

// php renders one step; R/W are the names of the request/response variables, gid the gate id.
func php(st string, R, W string, gid int) string {
	p := strings.Split(st, ".")
	rec := " $t = $t . verif_str($last) . \",\";"
	switch p[0] {
	case "parse":
		return R + "->parseForm();"
	case "gate":
		if gid < 0 {
			return fmt.Sprintf("verif_gate(%s->query()[\"g\"]);", R)
		}
		return fmt.Sprintf("verif_gate(%d);", gid)
	case "write":
		return W + "->write($t); $t = \"\";"
	case "r":
		return fmt.Sprintf("$last = %s[\"%s\"];%s", sgVar[p[1]], sgKey(p[1], p[2]), rec)
	case "w":
		return fmt.Sprintf("%s[\"%s\"] = \"%s\";", sgVar[p[1]], sgKey(p[1], p[2]), p[3])
	case "q":
		switch p[1] {
		case "input":
			return fmt.Sprintf("$last = %s->input(\"k%s\");%s", R, p[2], rec)
		case "query":
			return fmt.Sprintf("$last = %s->query()[\"k%s\"];%s", R, p[2], rec)
		case "header":
			return fmt.Sprintf("$last = %s->header(\"X-K%s\");%s", R, p[2], rec)
		case "info":
			if p[2] == "0" {
				return fmt.Sprintf("$last = %s->method();%s", R, rec)
			}
			return fmt.Sprintf("$last = %s->path();%s", R, rec)
		}
	case "wl":
		if p[2] == "last" {
			return fmt.Sprintf("$l%s = $last;", p[1])
		}
		return fmt.Sprintf("$l%s = \"%s\";", p[1], p[2])
	case "rl":
		return fmt.Sprintf("$last = $l%s;%s", p[1], rec)
	}
	return "/* ? " + st + " */"
}

func route(j, i int) string { return fmt.Sprintf("/c%dr%d", j, i) }
func gateID(j, i int) int   { return j*16 + i }

func (c schedCase) rt(i int) int {
	if c.SameRoute {
		return 0
	}
	return i
}

// wireOf: request i of case j as it goes on the wire
func (c schedCase) wireOf(j, i int) wire {
	w := c.Reqs[i].wire(j, c.rt(i))
	if c.SameRoute {
		sep := "?"
		if strings.Contains(w.URL, "?") {
			sep = "&"
		}
		w.URL += fmt.Sprintf("%sg=%d", sep, gateID(j, i))
	}
	return w
}

func (r reqCase) wire(j, i int) wire {
	w := wire{Method: "GET", URL: route(j, i)}
	var qs []string
	for _, q := range r.Query {
		qs = append(qs, fmt.Sprintf("k%d=%d", q[0], q[1]))
	}
	if len(qs) > 0 {
		w.URL += "?" + strings.Join(qs, "&")
	}
	if r.Post {
		w.Method = "POST"
		var bs []string
		for _, b := range r.Body {
			bs = append(bs, fmt.Sprintf("k%d=%d", b[0], b[1]))
		}
		w.Body = strings.Join(bs, "&")
	}
	for _, c := range r.Cookies {
		w.Cookies = append(w.Cookies, [2]string{fmt.Sprintf("k%d", c[0]), fmt.Sprint(c[1])})
	}
	for _, h := range r.Headers {
		w.Headers = append(w.Headers, [2]string{fmt.Sprintf("X-K%d", h[0]), fmt.Sprint(h[1])})
	}
	return w
}

func content(l []kv) string {
	var p []string
	for _, x := range l {
		p = append(p, fmt.Sprintf("%d:%d", x[0], x[1]))
	}
	return strings.Join(p, ",")
}

// modelReq: data#pre#handler#after in the driver's syntax. r.Form after
// ParseForm holds the body pairs first, then the query pairs (net/http).
func (r reqCase) modelReq(j, i int) string {
	form := append([]kv{}, r.Body...)
	if !r.Post {
		form = nil
	}
	for _, q := range r.Query {
		dup := false
		for _, b := range form {
			if b[0] == q[0] {
				dup = true
			}
		}
		if !dup {
			form = append(form, q)
		}
	}
	m := 1
	if r.Post {
		m = 2
	}
	info := fmt.Sprintf("0:%d,1:%d", m, gateID(j, i))
	data := strings.Join([]string{content(r.Query), content(form), content(r.Cookies), content(r.Headers), content(r.Headers), "", info}, "|")
	return data + "#" + strings.Join(r.Pre, " ") + "#" + strings.Join(r.H, " ") + "#" + strings.Join(r.After, " ")
}

// reads lists the read steps of the request in program order.
func (r reqCase) reads() []string {
	var out []string
	for _, sec := range [][]string{r.Pre, r.H, r.After} {
		for _, st := range sec {
			if isRead(st) {
				out = append(out, st)
			}
		}
	}
	return out
}

// origins[p]: the read step whose value the p-th read returns (itself, or for a
// local the step that produced the stored value; "" for a constant / unset local).
func (r reqCase) origins() []string {
	var out []string
	mw, hs := map[string]string{}, map[string]string{} // Pre and After share the middleware's scope
	for si, sec := range [][]string{r.Pre, r.H, r.After} {
		last := ""
		slot := mw
		if si == 1 {
			slot = hs
		}
		for _, st := range sec {
			p := strings.Split(st, ".")
			switch p[0] {
			case "r", "q":
				last = st
				out = append(out, st)
			case "wl":
				if p[2] == "last" {
					slot[p[1]] = last
				} else {
					slot[p[1]] = ""
				}
			case "rl":
				last = slot[p[1]]
				out = append(out, last)
			}
		}
	}
	return out
}

func lookupKV(l []kv, k int) (string, bool) {
	for _, x := range l {
		if x[0] == k {
			return strconv.Itoa(x[1]), true
		}
	}
	return "", false
}

// ownExpected[p]: what the p-th read must return judging from the request alone — for
// reads through the request object and locals holding such values or constants ("?" where
// the value comes from a superglobal). Written against net/http's documented behaviour
// (ParseForm: body pairs first, then query pairs), independently of the Lean model.
func (r reqCase) ownExpected(j, i int) []string {
	var out []string
	parsed := false
	mw, hs := map[string]string{}, map[string]string{}
	for si, sec := range [][]string{r.Pre, r.H, r.After} {
		last := "~"
		slot := mw
		if si == 1 {
			slot = hs
		}
		for _, st := range sec {
			p := strings.Split(st, ".")
			switch p[0] {
			case "parse":
				parsed = true
			case "r":
				last = "?"
				out = append(out, last)
			case "q":
				k, _ := strconv.Atoi(p[2])
				v, ok := "", false
				switch p[1] {
				case "input":
					if parsed && r.Post {
						v, ok = lookupKV(r.Body, k)
					}
					if !ok {
						v, ok = lookupKV(r.Query, k)
					}
				case "query":
					v, ok = lookupKV(r.Query, k)
				case "header":
					v, ok = lookupKV(r.Headers, k)
				case "info":
					ok = true
					if k == 0 {
						v = "GET"
						if r.Post {
							v = "POST"
						}
					} else {
						v = route(j, i)
					}
				}
				if !ok {
					v = "~"
				}
				last = v
				out = append(out, v)
			case "wl":
				if p[2] == "last" {
					slot[p[1]] = last
				} else {
					slot[p[1]] = p[2]
				}
			case "rl":
				v, ok := slot[p[1]]
				if !ok {
					v = "~"
				}
				last = v
				out = append(out, v)
			}
		}
	}
	return out
}

// tainted[p]: the p-th value read came from a superglobal (directly or through a local).
func (r reqCase) tainted() []bool {
	var out []bool
	mw, hs := map[string]bool{}, map[string]bool{}
	for si, sec := range [][]string{r.Pre, r.H, r.After} {
		last := false
		slot := mw
		if si == 1 {
			slot = hs
		}
		for _, st := range sec {
			p := strings.Split(st, ".")
			switch p[0] {
			case "r":
				last = true
				out = append(out, true)
			case "q":
				last = false
				out = append(out, false)
			case "wl":
				slot[p[1]] = p[2] == "last" && last
			case "rl":
				last = slot[p[1]]
				out = append(out, last)
			}
		}
	}
	return out
}

func (r reqCase) usesSG() bool {
	for _, sec := range [][]string{r.Pre, r.H, r.After} {
		for _, st := range sec {
			if isSG(st) {
				return true
			}
		}
	}
	return false
}

func (c schedCase) usesSG() bool {
	for _, r := range c.Reqs {
		if r.usesSG() {
			return true
		}
	}
	return false
}

// expected text of a model value at a read step
func valStr(st string, v string, j int) string {
	if v == "~" {
		return v
	}
	if strings.HasPrefix(st, "q.info.0") {
		if v == "1" {
			return "GET"
		}
		return "POST"
	}
	if strings.HasPrefix(st, "q.info.1") {
		n, _ := strconv.Atoi(v)
		return route(n/16, n%16)
	}
	return v
}

// script builds one server hosting all requests of a batch of cases.
func script(cases []schedCase, base int) string {
	var sb strings.Builder
	sb.WriteString("<?php\nuse Net\\Http\\Server;\n$server = new Server('127.0.0.1', 0);\n")
	anyMw := false
	for _, c := range cases {
		for _, r := range c.Reqs {
			if len(r.Pre)+len(r.After) > 0 {
				anyMw = true
			}
		}
	}
	if anyMw {
		sb.WriteString("$server->middleware(function ($request, $response, $next) {\n  $p = $request->path(); $t = \"\"; $last = null; $handled = false;\n")
		for jj, c := range cases {
			j := base + jj
			for i, r := range c.Reqs {
				if len(r.Pre)+len(r.After) == 0 || (c.SameRoute && i > 0) {
					continue
				}
				gid := gateID(j, i)
				if c.SameRoute {
					gid = -1
				}
				fmt.Fprintf(&sb, "  if ($p == \"%s\") {\n    $handled = true;\n", route(j, i))
				for _, st := range r.Pre {
					sb.WriteString("    " + php(st, "$request", "$response", gid) + "\n")
				}
				sb.WriteString("    $next($request, $response);\n")
				for _, st := range r.After {
					sb.WriteString("    " + php(st, "$request", "$response", gid) + "\n")
				}
				sb.WriteString("  }\n")
			}
		}
		sb.WriteString("  if (!$handled) { $next($request, $response); }\n}, 0);\n")
	}
	for jj, c := range cases {
		j := base + jj
		for i, r := range c.Reqs {
			if c.SameRoute && i > 0 {
				continue
			}
			m := "get"
			if r.Post {
				m = "post"
			}
			fmt.Fprintf(&sb, "$server->%s('%s', function ($req, $res) {\n  $t = \"\"; $last = null;\n  $res->header(\"X-Own\", verif_str($req->query()[\"k0\"]));\n", m, route(j, i))
			gid := gateID(j, i)
			if c.SameRoute {
				gid = -1
			}
			for _, st := range r.H {
				sb.WriteString("  " + php(st, "$req", "$res", gid) + "\n")
			}
			sb.WriteString("});\n")
		}
	}
	sb.WriteString("$server->get('/zz', function ($req, $res) { $res->write('z'); });\nverif_expose($server);\n")
	return sb.String()
}

func sequential(played []int) bool {
	first, last := map[int]int{}, map[int]int{}
	for p, r := range played {
		if _, ok := first[r]; !ok {
			first[r] = p
		}
		last[r] = p
	}
	for r, f := range first {
		for p := f; p <= last[r]; p++ {
			if played[p] != r {
				return false
			}
		}
	}
	return true
}

func splitVals(body string) []string {
	body = strings.TrimSuffix(body, ",")
	if body == "" {
		return nil
	}
	return strings.Split(body, ",")
}

func intsCSV(l []int) string {
	var p []string
	for _, x := range l {
		p = append(p, strconv.Itoa(x))
	}
	return strings.Join(p, ",")
}

type runner struct {
	c *vh.Ctx
	m *vh.Model
	// regViol: what the regenerated facts hold against request-keyed registries ("" = nothing), quoted
	// in the violations of the registry stream so that the failing input names the site
	regViol string
	// regDead: a forced schedule of the registry stream hung (reported as schedule:hang with its
	// replay); the rest of that stream is skipped — every further case would wait out the same 20 s
	regDead bool
	// outDead: the same for the output stream (round 8)
	outDead bool
}

// runBatch plays every case of the batch on one server, the solo runs on another.
func (rn *runner) runBatch(cases []schedCase, stream string) {
	c := rn.c
	if len(cases) == 0 {
		return
	}
	src := script(cases, 0)
	srv, err := newServer(src)
	if err != nil {
		c.Mismatch(cases[0], err.Error(), "", "server script of the batch did not run")
		return
	}
	soloSrv, err := newServer(src)
	if err != nil {
		c.Mismatch(cases[0], err.Error(), "", "server script of the batch did not run (solo server)")
		return
	}
	type played struct {
		out   []resp
		turns []int
		err   error
	}
	runs := make([]played, len(cases))
	var lines []string
	for j, cs := range cases {
		ids := make([]int, len(cs.Reqs))
		wires := make([]wire, len(cs.Reqs))
		for i := range cs.Reqs {
			ids[i] = gateID(j, i)
			wires[i] = cs.wireOf(j, i)
		}
		// a request to the do-nothing route leaves the caches empty (the closure handler
		// resets them and reads nothing): every case starts like a fresh process
		srv.serve(wire{Method: "GET", URL: "/zz"})
		out, turns, err := srv.runTurns(ids, wires, cs.Turns)
		runs[j] = played{out, turns, err}
		var mr []string
		for i, r := range cs.Reqs {
			mr = append(mr, r.modelReq(j, cs.rt(i)))
		}
		lines = append(lines, "sched\tgen\t"+strings.Join(mr, ";")+"\t"+intsCSV(turns))
	}
	var mres []string
	if rn.m != nil {
		mres, err = rn.m.AskBatch(lines)
		if err != nil {
			c.Note("model failed: %v", err)
			mres = nil
		}
	}
	for j, cs := range cases {
		cs.Kind = "sched"
		run := runs[j]
		sg := cs.usesSG()
		key := lines[j]
		c.Eval(key, len(cs.Reqs) >= 2 && !sequential(run.turns))
		c.Hit("stream:" + stream)
		c.Hit(fmt.Sprintf("requests=%d", len(cs.Reqs)))
		if cs.SameRoute {
			c.Hit("same-route")
		}
		if sequential(run.turns) {
			c.Hit("schedule:sequential")
		} else {
			c.Hit("schedule:interleaved")
		}
		for _, r := range cs.Reqs {
			for _, sec := range [][]string{r.Pre, r.H, r.After} {
				for _, st := range sec {
					p := strings.Split(st, ".")
					if len(p) > 2 && (p[0] == "r" || p[0] == "w" || p[0] == "q") {
						c.Hit("step:" + p[0] + "." + p[1])
					} else {
						c.Hit("step:" + p[0])
					}
				}
			}
			if len(r.Pre)+len(r.After) > 0 {
				c.Hit("with-middleware")
			}
		}
		if run.err != nil {
			c.Violation("schedule:hang", run.err.Error(), cs)
			continue
		}
		// ---- correspondence with the model
		var mreq []string
		if mres != nil && j < len(mres) {
			mreq = strings.Split(mres[j], ";")
			if len(mreq) != len(cs.Reqs) {
				c.Mismatch(cs, "", mres[j], "model answer malformed")
				mreq = nil
			}
		}
		leaked := false
		for i, r := range cs.Reqs {
			got := run.out[i]
			reads := r.reads()
			if got.Panic != "" {
				c.Violation("handler:panic", fmt.Sprintf("request %d of the schedule panicked: %s", i, got.Panic), cs)
				continue
			}
			vals := splitVals(got.Body)
			orig := r.origins()
			if mreq != nil {
				b := strings.TrimPrefix(strings.SplitN(mreq[i], "/", 2)[0], "b=")
				mv := splitVals(b)
				want := make([]string, len(mv))
				for p := range mv {
					if p < len(orig) {
						want[p] = valStr(orig[p], mv[p], j)
					} else {
						want[p] = mv[p]
					}
				}
				if strings.Join(want, ",") != strings.Join(vals, ",") {
					c.Mismatch(cs, fmt.Sprintf("request %d read %v", i, vals), fmt.Sprintf("request %d reads %v", i, want), "served response vs Model.Req under the played schedule "+intsCSV(run.turns))
				}
				c.Res.Traces++
			}
			// ---- oracle: a value obtained through the request object (or a local holding one)
			// is the one the request carries
			own := r.ownExpected(j, cs.rt(i))
			for p := range vals {
				if p < len(own) && own[p] != "?" && own[p] != vals[p] {
					st := "?"
					if p < len(reads) {
						st = reads[p]
					}
					c.Violation("isolation:own-data:"+strings.Join(strings.Split(st, ".")[:min(2, len(strings.Split(st, ".")))], "."),
						fmt.Sprintf("request %d (%s %s) read %q at read #%d (%s) under schedule %s; the request carries %q", i, cs.wireOf(j, i).Method, cs.wireOf(j, i).URL, vals[p], p, st, intsCSV(run.turns), own[p]), cs)
					break
				}
			}
			// ---- oracle: the same request served alone on a fresh server
			soloSrv.serve(wire{Method: "GET", URL: "/zz"})
			solo := soloSrv.serve(cs.wireOf(j, i))
			if solo.Panic != "" {
				c.Violation("handler:panic", fmt.Sprintf("request %d served alone panicked: %s", i, solo.Panic), cs)
				continue
			}
			if got.Code != solo.Code || got.Header != solo.Header {
				c.Violation("isolation:status-or-headers", fmt.Sprintf("request %d: %s under the schedule, %s alone", i, got, solo), cs)
				continue
			}
			if got.Body == solo.Body {
				continue
			}
			sv := splitVals(solo.Body)
			taint := r.tainted()
			p := 0
			for p < len(vals) && p < len(sv) && vals[p] == sv[p] {
				p++
			}
			what := fmt.Sprintf("request %d (%s) answered %q under schedule %s but %q when served alone (first difference at read #%d", i, cs.wireOf(j, i).URL, got.Body, intsCSV(run.turns), solo.Body, p)
			if p < len(reads) {
				what += " = " + reads[p]
			}
			what += ")"
			switch {
			case p >= len(taint) || !taint[p]:
				st := "shape"
				if p < len(reads) {
					st = strings.Join(strings.Split(reads[p], ".")[:1], "")
				}
				c.Violation("isolation:"+st, what, cs)
			case sequential(run.turns):
				c.Violation("superglobal:stale-before-reset", what, cs)
			default:
				leaked = true
				c.Violation("superglobal:shared-cache", what, cs)
			}
		}
		if sg && leaked {
			c.Hit("known-stream:leak-observed")
		}
		c.SampleSome(map[string]any{"case": cs, "played": run.turns, "responses": fmt.Sprint(run.out)}, 499)
	}
}

// ------------------------------------------------------------ generators

var kinds = []string{"get", "post", "cookie", "server", "request", "session", "globals", "env", "files"}

// value carried by request i for source s (0 query, 1 body, 2 cookie, 3 header) and key k
func val(i, s, k int) int { return 1000 + 100*i + 10*s + k }

func stdData(i int, post bool, nkeys int) reqCase {
	r := reqCase{Post: post}
	for k := 0; k < nkeys; k++ {
		r.Query = append(r.Query, kv{k, val(i, 0, k)})
		if post {
			r.Body = append(r.Body, kv{k, val(i, 1, k)})
		}
		r.Cookies = append(r.Cookies, kv{k, val(i, 2, k)})
		r.Headers = append(r.Headers, kv{k, val(i, 3, k)})
	}
	return r
}

// witnesses: the schedules of the negation-witness theorems of Proofs/Properties/C11.lean
func witnesses() []schedCase {
	q := func(i int) reqCase { return reqCase{Query: []kv{{0, 7 + i}}} }
	a, b := q(0), q(1)
	a.H = []string{"r.get.0", "gate", "r.get.0", "write"}
	b.H = []string{"r.get.0", "write"}
	w1 := schedCase{Name: "C11_shared_cache_leaks", Reqs: []reqCase{a, b}, Turns: []int{0, 1, 0}}
	a2, b2 := q(0), q(1)
	a2.H = []string{"r.get.0", "gate", "r.get.0", "write"}
	b2.H = []string{"gate", "r.get.0", "write"}
	w2 := schedCase{Name: "C11_first_read_leaks", Reqs: []reqCase{a2, b2}, Turns: []int{0, 1, 0, 1}}
	a3, b3 := reqCase{}, reqCase{}
	a3.H = []string{"w.session.0.5", "gate", "r.session.0", "write"}
	b3.H = []string{"gate", "r.session.0", "write"}
	w3 := schedCase{Name: "C11_superglobal_write_leaks", Reqs: []reqCase{a3, b3}, Turns: []int{1, 0, 1, 0}}
	a4, b4 := q(0), q(1)
	for _, r := range []*reqCase{&a4, &b4} {
		r.Pre = []string{"r.get.0", "write"}
		r.H = []string{"r.get.0", "write"}
	}
	w4 := schedCase{Name: "C11_stale_before_reset", Reqs: []reqCase{a4, b4}, Turns: []int{0, 1}}
	return []schedCase{w1, w2, w3, w4}
}

// all interleavings of segment counts (each request i has seg[i] turns)
func interleavings(seg []int) [][]int {
	var out [][]int
	var rec func(cur []int, left []int)
	rec = func(cur []int, left []int) {
		done := true
		for i, n := range left {
			if n > 0 {
				done = false
				left[i]--
				rec(append(cur, i), left)
				left[i]++
			}
		}
		if done {
			out = append(out, append([]int{}, cur...))
		}
	}
	rec(nil, append([]int{}, seg...))
	return out
}

func segCount(r reqCase) int {
	n := 1
	for _, sec := range [][]string{r.Pre, r.H, r.After} {
		for _, st := range sec {
			if st == "gate" {
				n++
			}
		}
	}
	return n
}

// enumerate: A = parse x gate y write, B = parse [gate] z write, all x,y,z of the alphabet, all interleavings.
func enumerate(alpha []string, withBGate bool) []schedCase {
	var out []schedCase
	ops := func(x string) []string {
		if x == "rl.0" {
			return []string{"q.input.0", "wl.0.last", "rl.0"}
		}
		if x == "rl.1" {
			return []string{"r.get.0", "wl.1.last", "rl.1"}
		}
		return []string{x}
	}
	for _, x := range alpha {
		for _, y := range alpha {
			for _, z := range alpha {
				a, b := stdData(0, true, 1), stdData(1, true, 1)
				a.H = append(append(append([]string{"parse"}, ops(x)...), "gate"), append(ops(y), "write")...)
				if withBGate {
					b.H = append([]string{"parse", "gate"}, append(ops(z), "write")...)
				} else {
					b.H = append([]string{"parse"}, append(ops(z), "write")...)
				}
				for _, t := range interleavings([]int{segCount(a), segCount(b)}) {
					out = append(out, schedCase{Reqs: []reqCase{a, b}, Turns: t})
				}
			}
		}
	}
	return out
}

// enumerateSame: one route (closure) serving both requests: A = B = parse x gate y write with different data.
func enumerateSame(alpha []string) []schedCase {
	var out []schedCase
	ops := func(x string) []string {
		if x == "rl.0" {
			return []string{"q.input.0", "wl.0.last", "rl.0"}
		}
		if x == "rl.1" {
			return []string{"r.get.0", "wl.1.last", "rl.1"}
		}
		return []string{x}
	}
	for _, x := range alpha {
		for _, y := range alpha {
			a, b := stdData(0, true, 1), stdData(1, true, 1)
			a.H = append(append(append([]string{"parse"}, ops(x)...), "gate"), append(ops(y), "write")...)
			b.H = a.H
			for _, t := range interleavings([]int{2, 2}) {
				out = append(out, schedCase{Reqs: []reqCase{a, b}, Turns: t, SameRoute: true})
			}
		}
	}
	return out
}

// random request program; sg = may touch superglobals
func genSection(r *vh.Rand, n int, sg bool, slotBase int, gates *int, allowParse bool) []string {
	var out []string
	haveRead := false
	for len(out) < n {
		k := fmt.Sprint(r.Intn(2))
		switch x := r.Intn(12); {
		case x < 3 && sg:
			out = append(out, "r."+vh.Pick(r, kinds)+"."+k)
			haveRead = true
		case x == 3 && sg:
			out = append(out, fmt.Sprintf("w.%s.%s.%d", vh.Pick(r, []string{"get", "session", "globals", "cookie", "server", "request", "post", "env"}), k, 1+r.Intn(9)))
		case x < 6:
			out = append(out, "q."+vh.Pick(r, []string{"input", "query", "header"})+"."+k)
			haveRead = true
		case x == 6:
			out = append(out, "q.info."+k)
			haveRead = true
		case x == 7:
			if haveRead && r.Bool() {
				out = append(out, fmt.Sprintf("wl.%d.last", slotBase+r.Intn(2)))
			} else {
				out = append(out, fmt.Sprintf("wl.%d.%d", slotBase+r.Intn(2), 1+r.Intn(9)))
			}
		case x == 8:
			out = append(out, fmt.Sprintf("rl.%d", slotBase+r.Intn(2)))
			haveRead = true
		case x == 9 && *gates > 0:
			out = append(out, "gate")
			*gates--
		case x == 10 && allowParse:
			out = append(out, "parse")
		case x == 11 && r.Chance(30):
			out = append(out, "write")
		}
	}
	return append(out, "write")
}

func genCase(r *vh.Rand, sg bool) schedCase {
	n := r.Range(2, 4)
	if r.Chance(15) {
		n = r.Range(5, 6)
	}
	var cs schedCase
	var seg []int
	cs.SameRoute = r.Chance(40)
	post0 := r.Chance(40)
	for i := 0; i < n; i++ {
		rq := stdData(i, r.Chance(40), 2)
		if cs.SameRoute {
			rq = stdData(i, post0, 2)
		}
		if cs.SameRoute && i > 0 {
			if r.Chance(30) {
				rq.Cookies = rq.Cookies[:1]
				rq.Headers = rq.Headers[1:]
			}
			rq.Pre, rq.H, rq.After = cs.Reqs[0].Pre, cs.Reqs[0].H, cs.Reqs[0].After
			cs.Reqs = append(cs.Reqs, rq)
			seg = append(seg, segCount(rq))
			continue
		}
		if r.Chance(30) { // drop some data so that nulls are read as well
			rq.Cookies = rq.Cookies[:1]
			rq.Headers = rq.Headers[1:]
		}
		gates := r.Intn(4)
		rq.H = genSection(r, r.Range(2, 7), sg, 0, &gates, true)
		if r.Chance(25) {
			// middleware steps: superglobal reads ahead of the handler's reset belong to the
			// dedicated stale stream only (known-finding hygiene), so the middleware stays
			// superglobal-free here unless the case is sequential (see genStale)
			rq.Pre = genSection(r, r.Range(1, 3), false, 10, &gates, false)
			if r.Bool() {
				rq.After = genSection(r, r.Range(1, 2), sg, 10, &gates, false)
			}
		}
		cs.Reqs = append(cs.Reqs, rq)
		seg = append(seg, segCount(rq))
	}
	// random interleaving of the turns
	left := append([]int{}, seg...)
	for {
		var avail []int
		for i, l := range left {
			if l > 0 {
				avail = append(avail, i)
			}
		}
		if len(avail) == 0 {
			break
		}
		i := vh.Pick(r, avail)
		left[i]--
		cs.Turns = append(cs.Turns, i)
	}
	return cs
}

// stale stream: requests served strictly one after the other whose middleware reads superglobals
func genStale(r *vh.Rand) schedCase {
	n := r.Range(2, 4)
	var cs schedCase
	for i := 0; i < n; i++ {
		rq := stdData(i, false, 2)
		g := 0
		rq.Pre = genSection(r, r.Range(1, 3), true, 10, &g, false)
		rq.H = genSection(r, r.Range(1, 3), true, 0, &g, false)
		if r.Bool() {
			rq.After = genSection(r, 1, true, 10, &g, false)
		}
		cs.Reqs = append(cs.Reqs, rq)
		cs.Turns = append(cs.Turns, i)
	}
	return cs
}

// ------------------------------------------------------------ Run

func Run(c *vh.Ctx) {
	factsLine := ""
	m, err := vh.StartModel(c.ModelPath)
	if err != nil {
		c.Note("running without the Lean model: %v", err)
		m = nil
	} else {
		c.Res.ModelUsed = true
		defer func() {
			c.Res.ModelLines = m.Lines
			m.Close()
		}()
		if f, err := m.Ask("facts"); err == nil {
			c.Note("regenerated facts: %s", f)
			factsLine = f
		}
	}
	rn := &runner{c: c, m: m}
	if i := strings.Index(factsLine, "registryViolations=["); i >= 0 {
		rest := factsLine[i+len("registryViolations=["):]
		if j := strings.Index(rest, "] limits="); j > 0 {
			names := strings.Split(rest[:j], ", ")
			if len(names) > 3 {
				names = append(names[:3], fmt.Sprintf("… (%d in all)", len(names)))
			}
			rn.regViol = strings.Join(names, ", ")
		}
	}
	c.Res.Rule = "a scripted case (step language, value catalogue or depth catalogue) is non-trivial if it has ≥ 2 requests whose turns interleave; a load case if ≥ 2 requests were in flight; distinct = different programs/data/schedule"

	if len(c.ReplayRaw) > 0 {
		var probe struct {
			Kind string `json:"kind"`
		}
		json.Unmarshal(c.ReplayRaw, &probe)
		switch probe.Kind {
		case "vals":
			rn.replayValCase(c.ReplayRaw)
		case "flight":
			rn.replayFlightCase(c.ReplayRaw)
		case "reg":
			rn.replayRegCase(c.ReplayRaw)
		case "out":
			rn.replayOutCase(c.ReplayRaw)
		case "load":
			var lc loadCase
			if err := json.Unmarshal(c.ReplayRaw, &lc); err != nil {
				c.Note("bad replay: %v", err)
				return
			}
			runLoad(c, lc)
		default:
			var cs schedCase
			if err := json.Unmarshal(c.ReplayRaw, &cs); err != nil {
				c.Note("bad replay: %v", err)
				return
			}
			stream := "main"
			if cs.usesSG() {
				stream = "known"
			}
			rn.runBatch([]schedCase{cs}, stream)
		}
		return
	}

	batch := func(cases []schedCase, stream string, size int) {
		for i := 0; i < len(cases); i += size {
			j := i + size
			if j > len(cases) {
				j = len(cases)
			}
			rn.runBatch(cases[i:j], stream)
		}
	}

	if os.Getenv("C11_ONLY") == "probe" { // development aid: serve the requests of a file one by one
		runProbe()
		return
	}
	if os.Getenv("C11_ONLY") == "px" { // development aid: only the proxy stream (C11_PXDUMP=1: print one request served alone)
		if os.Getenv("C11_PXDUMP") != "" {
			pxDump()
			return
		}
		pxLoadStreams(c)
		return
	}
	if os.Getenv("C11_ONLY") == "reg" { // development aid: only the registry stream
		registryStreams(rn)
		regLoadStreams(c)
		return
	}
	if os.Getenv("C11_ONLY") == "boot" { // development aid: only the boot catalogue of the value stream
		cs := bootExhaustive(c.Thorough())
		for i := 0; i < len(cs); i += 64 {
			rn.runValBatch(cs[i:min(i+64, len(cs))], "boot")
		}
		return
	}
	if os.Getenv("C11_ONLY") == "out" { // development aid: only the output stream
		outputStreams(rn)
		return
	}
	if os.Getenv("C11_ONLY") == "flight" { // development aid: only the in-flight stream
		flightStreams(rn, factsLine)
		depthLoadStreams(c, flightLimits(factsLine))
		return
	}

	// 0. the value catalogue: every kind of value created before a gate and used after it
	valueStreams(rn)

	// 0b. the in-flight stream: requests parked while they hold frames, sums around and beyond every limit
	flightStreams(rn, factsLine)

	// 0c. the registry stream: requests parked between attaching their per-request state (onFormat
	// slot, attribute bag) and using it, while others attach, detach and finish
	registryStreams(rn)

	// 0d. the output stream: handlers and a middleware that echo / print / printf / var_dump / emit inline
	// HTML / buffer output around two gates, every interleaving (nested and overlapped); response and
	// the server process's stdout attributed turn by turn
	outputStreams(rn)

	// 1. the negation witnesses of the property file, one server each
	for _, w := range witnesses() {
		rn.runBatch([]schedCase{w}, "witness")
	}

	// 2. exhaustive small space
	mainAlpha := []string{"q.input.0", "q.query.0", "q.header.0", "q.info.1", "rl.0", "wl.2.3"}
	sgAlpha := []string{"r.get.0", "r.request.0", "r.cookie.0", "r.post.0", "q.input.0", "rl.1"}
	if c.Thorough() {
		sgAlpha = append(sgAlpha, "r.server.0", "r.session.0", "w.session.0.5", "w.get.0.9", "r.globals.0", "w.request.0.4")
	}
	batch(enumerate(mainAlpha, false), "main", 16)
	batch(enumerate(mainAlpha, true), "main", 16)
	batch(enumerateSame(mainAlpha), "main", 16)
	batch(enumerate(sgAlpha, false), "known", 16)
	batch(enumerate(sgAlpha, true), "known", 16)
	batch(enumerateSame(sgAlpha), "known", 16)
	c.Res.Exhaustive = true
	c.Res.ExhaustiveWhat = fmt.Sprintf("two requests A = parse·x·gate·y·write, B = parse·[gate]·z·write for all x,y,z of the superglobal-free alphabet %v and of the superglobal alphabet %v, every gate-level interleaving; the same with one closure serving both requests (A = B = parse·x·gate·y·write, different data); the value catalogue (%d kinds of values created before a gate and used after it): per kind two requests with different data on the same route, every gate-level interleaving, plus three requests in three fixed orders; the depth catalogue (%d kinds of call frames a request holds while parked, through Handler and HotHandler): for every limit the regenerated facts list, sums of frames in flight limit-2 … limit+2 over every ordered pair of representative kinds and own depths limit-2 … limit+2 of every kind next to parked requests; two to four requests parked 3/5 of the limit deep each + a probe for every ordered pair (parked kind, probe kind) with one of them representative (thorough: all pairs); 64 shallow requests + a probe per kind", mainAlpha, sgAlpha, len(valKinds()), len(depthKinds()))

	// 3. seeded schedules: 2..6 requests, random programs, data, middlewares, interleavings
	var mainCases, sgCases, stale []schedCase
	for i := 0; i < c.N(500, 20000); i++ {
		mainCases = append(mainCases, genCase(c.Rand, false))
	}
	for i := 0; i < c.N(500, 20000); i++ {
		sgCases = append(sgCases, genCase(c.Rand, true))
	}
	for i := 0; i < c.N(80, 2000); i++ {
		stale = append(stale, genStale(c.Rand))
	}
	batch(mainCases, "main", 8)
	batch(sgCases, "known", 8)
	batch(stale, "stale", 8)

	// 4. parallel load in a child process
	loadStreams(c, flightLimits(factsLine))

	var ks []string
	for k := range c.Res.Histogram {
		ks = append(ks, k)
	}
	sort.Strings(ks)
}
