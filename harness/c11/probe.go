package c11

import (
	"fmt"
	"os"
	"strings"
)

// development aid: C11_ONLY=probe C11_PROBE=<file> — the file holds a server script, a line
// `---`, then one request URL per line; every request is served alone, in order, and printed.
func runProbe() {
	raw, err := os.ReadFile(os.Getenv("C11_PROBE"))
	if err != nil {
		fmt.Println("probe:", err)
		return
	}
	parts := strings.SplitN(string(raw), "\n---\n", 2)
	srv, err := newServer(parts[0])
	if err != nil {
		fmt.Println("probe: server:", err)
		return
	}
	if len(parts) < 2 {
		return
	}
	for _, u := range strings.Split(strings.TrimSpace(parts[1]), "\n") {
		u = strings.TrimSpace(u)
		if u == "" {
			continue
		}
		fmt.Printf("%s -> %s\n", u, srv.serve(wire{Method: "GET", URL: u}))
	}
}
