package main

import (
	"os"

	_ "verif/harness/c02"
	"verif/harness/vh"
)

func main() { os.Exit(vh.Main(os.Args[1:])) }
