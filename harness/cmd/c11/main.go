package main

import (
	"os"

	_ "verif/harness/c11"
	"verif/harness/vh"
)

func main() { os.Exit(vh.Main(os.Args[1:])) }
