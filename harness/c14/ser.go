package c14

import (
	"fmt"
	"math"
	"regexp"
	"strconv"
	"strings"

	"github.com/php-any/origami/data"
)

// ---------------------------------------------------------------- PHP values (harness side)

// pv: K = N T F I S D A K O
//
//	A = data.ArrayValue with positional slots only, K = data.ArrayValue with slot names
//	(Keys[i] == "" is a positional slot), O = data.ObjectValue (keyed array)
type pv struct {
	K     byte
	I     int64
	S     string
	F     float64
	Items []pv
	Keys  []string // K and O, parallel to Items
}

// refFloatText: the text PHP's serialize writes for a float (serialize_precision = -1):
// the shortest digits that read back as the same float64 (strconv, trusted), laid out by the
// harness itself: plain decimal when the decimal point position is within -3..17, d.dddE±x
// otherwise, NAN / INF / -INF. This is the float *lexeme* the Lean model carries.
func refFloatText(f float64) string {
	switch {
	case math.IsNaN(f):
		return "NAN"
	case math.IsInf(f, 1):
		return "INF"
	case math.IsInf(f, -1):
		return "-INF"
	}
	neg := math.Signbit(f)
	digs, exp10 := shortestDigits(math.Abs(f)) // value = 0.<digs> × 10^exp10
	var sb strings.Builder
	if neg {
		sb.WriteByte('-')
	}
	switch {
	case digs == "0":
		sb.WriteByte('0')
	case exp10 < -3 || exp10 > 17:
		sb.WriteString(digs[:1])
		sb.WriteByte('.')
		if len(digs) == 1 {
			sb.WriteByte('0')
		} else {
			sb.WriteString(digs[1:])
		}
		sb.WriteByte('E')
		e := exp10 - 1
		if e < 0 {
			sb.WriteByte('-')
			e = -e
		} else {
			sb.WriteByte('+')
		}
		sb.WriteString(strconv.Itoa(e))
	case exp10 <= 0:
		sb.WriteString("0.")
		sb.WriteString(strings.Repeat("0", -exp10))
		sb.WriteString(digs)
	case exp10 >= len(digs):
		sb.WriteString(digs)
		sb.WriteString(strings.Repeat("0", exp10-len(digs)))
	default:
		sb.WriteString(digs[:exp10])
		sb.WriteByte('.')
		sb.WriteString(digs[exp10:])
	}
	return sb.String()
}

// shortestDigits: decimal digits d1d2…dn (no trailing zeros) and exponent e with f = 0.d1d2…dn × 10^e
func shortestDigits(f float64) (string, int) {
	if f == 0 {
		return "0", 1
	}
	b := strconv.AppendFloat(nil, f, 'e', -1, 64) // d.ddde±xx
	t := string(b)
	i := strings.IndexByte(t, 'e')
	e, _ := strconv.Atoi(t[i+1:])
	d := strings.Replace(t[:i], ".", "", 1)
	d = strings.TrimRight(d, "0")
	if d == "" {
		d = "0"
	}
	return d, e + 1
}

// canonFloat: one spelling per float64 (all NaNs alike), for comparing values
func canonFloat(f float64) string {
	if math.IsNaN(f) {
		return "NaN"
	}
	return strconv.FormatFloat(f, 'g', -1, 64)
}

var floatLexRe = regexp.MustCompile(`^(NAN|INF|-INF|[+-]?([0-9]+(\.[0-9]*)?|\.[0-9]+)([eE][+-]?[0-9]+)?)$`)

// refParseFloat: the value of a float lexeme of the serialize format (php.net: var_unserializer.re)
func refParseFloat(t string) (float64, bool) {
	if !floatLexRe.MatchString(t) {
		return 0, false
	}
	switch t {
	case "NAN":
		return math.NaN(), true
	case "INF":
		return math.Inf(1), true
	case "-INF":
		return math.Inf(-1), true
	}
	f, _ := strconv.ParseFloat(t, 64) // out of range: ±Inf, as strtod
	return f, true
}

var modelFloatRe = regexp.MustCompile(`D[0-9a-f]*`)

// canonModelFloats rewrites every float lexeme `D<hex text>` of a model answer into the
// canonical spelling of the float64 it denotes, so that it compares with fromData output.
func canonModelFloats(s string) string {
	if !strings.Contains(s, "D") {
		return s
	}
	return modelFloatRe.ReplaceAllStringFunc(s, func(m string) string {
		b, err := unhex(m[1:])
		if err != nil {
			return m
		}
		f, ok := refParseFloat(string(b))
		if !ok {
			return m
		}
		return "D" + hexs(canonFloat(f))
	})
}

func (v pv) String() string {
	switch v.K {
	case 'N', 'T', 'F':
		return string(v.K)
	case 'D': // canonical spelling (value comparison); the model syntax is modelString()
		return "D" + hexs(canonFloat(v.F))
	case 'I':
		return "I" + strconv.FormatInt(v.I, 10)
	case 'S':
		return "S" + hexs(v.S)
	case 'A':
		p := make([]string, len(v.Items))
		for i, x := range v.Items {
			p[i] = x.String()
		}
		return "A[" + strings.Join(p, ",") + "]"
	case 'K':
		p := make([]string, len(v.Items))
		for i, x := range v.Items {
			p[i] = hexs(v.Keys[i]) + ":" + x.String()
		}
		return "K[" + strings.Join(p, ",") + "]"
	case 'O':
		p := make([]string, len(v.Items))
		for i, x := range v.Items {
			p[i] = hexs(v.Keys[i]) + ":" + x.String()
		}
		return "O{" + strings.Join(p, ",") + "}"
	}
	return "?"
}

// modelString: the value in the syntax of the model driver (a float is its lexeme)
func (v pv) modelString() string {
	switch v.K {
	case 'D':
		return "D" + hexs(refFloatText(v.F))
	case 'A', 'K', 'O':
		p := make([]string, len(v.Items))
		for i, x := range v.Items {
			if v.K != 'A' {
				p[i] = hexs(v.Keys[i]) + ":"
			}
			p[i] += x.modelString()
		}
		if v.K == 'O' {
			return "O{" + strings.Join(p, ",") + "}"
		}
		return string(v.K) + "[" + strings.Join(p, ",") + "]"
	}
	return v.String()
}

func readPV(s string) (pv, string, error) {
	if s == "" {
		return pv{}, "", fmt.Errorf("empty value")
	}
	switch s[0] {
	case 'N', 'T', 'F':
		return pv{K: s[0]}, s[1:], nil
	case 'D':
		j := 1
		for j < len(s) && strings.IndexByte(hexdigits, s[j]) >= 0 {
			j++
		}
		b, err := unhex(s[1:j])
		if err != nil {
			return pv{}, "", err
		}
		f, err := strconv.ParseFloat(string(b), 64)
		return pv{K: 'D', F: f}, s[j:], err
	case 'I':
		j := 1
		for j < len(s) && (s[j] == '-' || s[j] >= '0' && s[j] <= '9') {
			j++
		}
		n, err := strconv.ParseInt(s[1:j], 10, 64)
		return pv{K: 'I', I: n}, s[j:], err
	case 'S':
		j := 1
		for j < len(s) && strings.IndexByte(hexdigits, s[j]) >= 0 {
			j++
		}
		b, err := unhex(s[1:j])
		return pv{K: 'S', S: string(b)}, s[j:], err
	case 'A', 'K', 'O':
		if len(s) < 2 {
			return pv{}, "", fmt.Errorf("short")
		}
		closeCh := byte(']')
		if s[0] == 'O' {
			closeCh = '}'
		}
		v := pv{K: s[0], Items: []pv{}}
		r := s[2:]
		for {
			if r == "" {
				return pv{}, "", fmt.Errorf("unterminated")
			}
			if r[0] == closeCh {
				return v, r[1:], nil
			}
			if r[0] == ',' {
				r = r[1:]
				continue
			}
			if s[0] != 'A' {
				j := strings.IndexByte(r, ':')
				if j < 0 {
					return pv{}, "", fmt.Errorf("key")
				}
				k, err := unhex(r[:j])
				if err != nil {
					return pv{}, "", err
				}
				v.Keys = append(v.Keys, string(k))
				r = r[j+1:]
			}
			x, rest, err := readPV(r)
			if err != nil {
				return pv{}, "", err
			}
			v.Items = append(v.Items, x)
			r = rest
		}
	}
	return pv{}, "", fmt.Errorf("bad value %q", s)
}

func (v pv) toData() data.Value {
	switch v.K {
	case 'N':
		return data.NewNullValue()
	case 'T':
		return data.NewBoolValue(true)
	case 'F':
		return data.NewBoolValue(false)
	case 'I':
		return data.NewIntValue(int(v.I))
	case 'S':
		return data.NewStringValue(v.S)
	case 'D':
		return data.NewFloatValue(v.F)
	case 'A':
		xs := make([]data.Value, len(v.Items))
		for i, x := range v.Items {
			xs[i] = x.toData()
		}
		return data.NewArrayValue(xs)
	case 'K':
		a := &data.ArrayValue{}
		for i, x := range v.Items {
			if v.Keys[i] == "" {
				a.List = append(a.List, data.NewZVal(x.toData()))
			} else {
				a.List = append(a.List, data.NewNamedZVal(v.Keys[i], x.toData()))
			}
		}
		return a
	case 'O':
		o := data.NewObjectValue()
		for i, x := range v.Items {
			o.SetProperty(v.Keys[i], x.toData())
		}
		return o
	}
	return data.NewNullValue()
}

// slotKey: the key of slot i of a K value (its name, or its position)
func (v pv) slotKey(i int) string {
	if v.Keys[i] != "" {
		return v.Keys[i]
	}
	return strconv.Itoa(i)
}

// isList: keys are exactly 0..n-1 in order
func (v pv) isList() bool {
	if v.K == 'A' {
		return true
	}
	if v.K != 'K' {
		return false
	}
	for i := range v.Items {
		if v.slotKey(i) != strconv.Itoa(i) {
			return false
		}
	}
	return true
}

// canonical: no K inside (the representations unserialize itself returns)
func (v pv) canonical() bool {
	if v.K == 'K' {
		return false
	}
	for _, x := range v.Items {
		if !x.canonical() {
			return false
		}
	}
	return true
}

func fromData(v data.Value) pv { return fromDataX(v, false) }

// fromDataK: like fromData, but an ArrayValue with named slots stays one (kind K: its keys are
// the names, positions for unnamed slots), instead of being shown as a keyed array (kind O).
func fromDataK(v data.Value) pv { return fromDataX(v, true) }

func fromDataX(v data.Value, keepK bool) pv {
	switch x := v.(type) {
	case nil:
		return pv{K: '?'}
	case *data.NullValue:
		return pv{K: 'N'}
	case *data.BoolValue:
		if x.Value {
			return pv{K: 'T'}
		}
		return pv{K: 'F'}
	case *data.IntValue:
		return pv{K: 'I', I: int64(x.Value)}
	case *data.StringValue:
		return pv{K: 'S', S: x.Value}
	case *data.FloatValue:
		return pv{K: 'D', F: x.Value}
	case *data.ArrayValue:
		named := false
		for _, z := range x.List {
			if z != nil && z.Name != "" {
				named = true
			}
		}
		out := pv{K: 'A', Items: []pv{}}
		if named { // a keyed ArrayValue (json_decode assoc): show it as keyed
			out.K = 'O'
			if keepK {
				out.K = 'K'
			}
		}
		for _, z := range x.List {
			if z == nil {
				out.Items = append(out.Items, pv{K: 'N'})
			} else {
				out.Items = append(out.Items, fromDataX(z.Value, keepK))
			}
			if named {
				n := ""
				if z != nil {
					n = z.Name
				}
				out.Keys = append(out.Keys, n)
			}
		}
		return out
	case *data.ObjectValue:
		out := pv{K: 'O', Items: []pv{}}
		x.RangeProperties(func(k string, val data.Value) bool {
			out.Keys = append(out.Keys, k)
			out.Items = append(out.Items, fromDataX(val, keepK))
			return true
		})
		return out
	}
	return pv{K: '?'}
}

// normal form as a PHP array sees it: ordered (key, value) pairs, integer-like string keys are integers
func phpKey(k string) string {
	if n, err := strconv.ParseInt(k, 10, 64); err == nil && strconv.FormatInt(n, 10) == k {
		return "i" + k
	}
	return "s" + hexs(k)
}

func (v pv) norm() string {
	switch v.K {
	case 'A':
		p := make([]string, len(v.Items))
		for i, x := range v.Items {
			p[i] = fmt.Sprintf("i%d=>%s", i, x.norm())
		}
		return "[" + strings.Join(p, ",") + "]"
	case 'K':
		p := make([]string, len(v.Items))
		for i, x := range v.Items {
			p[i] = phpKey(v.slotKey(i)) + "=>" + x.norm()
		}
		return "[" + strings.Join(p, ",") + "]"
	case 'O':
		p := make([]string, len(v.Items))
		for i, x := range v.Items {
			p[i] = phpKey(v.Keys[i]) + "=>" + x.norm()
		}
		return "[" + strings.Join(p, ",") + "]"
	}
	return v.String()
}

// ---------------------------------------------------------------- reference reader of the PHP serialize format

// refUnserialize: strict reader of the format (php.net "serialize"): N; b:0|1; i:[+-]?digits;
// d:<float lexeme>; s:<len>:"<len bytes>"; a:<n>:{ (int|string key, value) × n }. Returns the normal form.
func refUnserialize(s string) (string, bool) {
	out, rest, ok := refValue(s, 0)
	if !ok || rest != "" {
		return "", false
	}
	return out, true
}

func refDigits(s string) (string, string) {
	j := 0
	for j < len(s) && s[j] >= '0' && s[j] <= '9' {
		j++
	}
	return s[:j], s[j:]
}

func refValue(s string, depth int) (string, string, bool) {
	if depth > 2000 || len(s) < 2 {
		return "", "", false
	}
	switch {
	case strings.HasPrefix(s, "N;"):
		return "N", s[2:], true
	case strings.HasPrefix(s, "b:0;"):
		return "F", s[4:], true
	case strings.HasPrefix(s, "b:1;"):
		return "T", s[4:], true
	case strings.HasPrefix(s, "i:"):
		r := s[2:]
		sign := ""
		if r != "" && (r[0] == '-' || r[0] == '+') {
			sign, r = r[:1], r[1:]
		}
		ds, r2 := refDigits(r)
		if ds == "" || !strings.HasPrefix(r2, ";") {
			return "", "", false
		}
		n, err := strconv.ParseInt(sign+ds, 10, 64)
		if err != nil {
			return "", "", false
		}
		return "I" + strconv.FormatInt(n, 10), r2[1:], true
	case strings.HasPrefix(s, "d:"):
		j := strings.IndexByte(s, ';')
		if j < 0 {
			return "", "", false
		}
		f, ok := refParseFloat(s[2:j])
		if !ok {
			return "", "", false
		}
		return "D" + hexs(canonFloat(f)), s[j+1:], true
	case strings.HasPrefix(s, "s:"):
		ds, r := refDigits(s[2:])
		n, err := strconv.Atoi(ds)
		if ds == "" || err != nil || !strings.HasPrefix(r, ":\"") || n > len(r) {
			return "", "", false
		}
		r = r[2:]
		if len(r) < n+2 || r[n] != '"' || r[n+1] != ';' {
			return "", "", false
		}
		return "S" + hexs(r[:n]), r[n+2:], true
	case strings.HasPrefix(s, "a:"):
		ds, r := refDigits(s[2:])
		n, err := strconv.Atoi(ds)
		if ds == "" || err != nil || !strings.HasPrefix(r, ":{") || n > len(r) {
			return "", "", false
		}
		r = r[2:]
		var keys, vals []string
		for i := 0; i < n; i++ {
			k, r1, ok := refValue(r, depth+1)
			if !ok || (k[0] != 'I' && k[0] != 'S') {
				return "", "", false
			}
			v, r2, ok := refValue(r1, depth+1)
			if !ok {
				return "", "", false
			}
			var nk string
			if k[0] == 'I' {
				nk = "i" + k[1:]
			} else {
				b, _ := unhex(k[1:])
				nk = phpKey(string(b))
			}
			// a later duplicate key replaces the earlier value, keeping its position
			dup := false
			for j := range keys {
				if keys[j] == nk {
					vals[j] = v
					dup = true
				}
			}
			if !dup {
				keys = append(keys, nk)
				vals = append(vals, v)
			}
			r = r2
		}
		if !strings.HasPrefix(r, "}") {
			return "", "", false
		}
		p := make([]string, len(keys))
		for i := range keys {
			p[i] = keys[i] + "=>" + vals[i]
		}
		return "[" + strings.Join(p, ",") + "]", r[1:], true
	}
	return "", "", false
}

// ---------------------------------------------------------------- generators

var intPool = []int64{0, 1, -1, 2, -2, 9, 10, 99, 100, 255, 256, 65535, 1 << 31, -(1 << 31), 1<<53 - 1, 1 << 53, 1<<53 + 1, -(1 << 53), -(1<<53 + 1), math.MaxInt64, math.MinInt64, math.MaxInt64 - 1, math.MinInt64 + 1}

var floatPool = []float64{0, math.Copysign(0, -1), 1, -1, 1.5, -2.5, 0.1, 0.2, 0.1 + 0.2, 1e-7, 1e21, 1e25, 1e15, 1e16, 1e17, 1e18, 1e-3, 1e-4, 1e-5, 123456.789,
	1 << 53, 1<<53 + 2, -(1 << 53), 9223372036854775808.0, math.MaxFloat64, -math.MaxFloat64, math.SmallestNonzeroFloat64, 2.2250738585072014e-308, 100000, 0.5, 3.141592653589793,
	math.Inf(1), math.Inf(-1), math.NaN()}

func (r *runner) genFloat() float64 {
	rd := r.c.Rand
	switch rd.Intn(4) {
	case 0:
		return floatPool[rd.Intn(len(floatPool))]
	case 1: // any bit pattern
		return math.Float64frombits(rd.U64())
	case 2: // short decimals
		return float64(int64(rd.Intn(200001))-100000) / []float64{1, 10, 100, 1000, 1e6}[rd.Intn(5)]
	}
	return math.Ldexp(float64(rd.U64()>>11), rd.Intn(200)-100)
}

var strPool = []string{"", "a", "ab", "0", "5", "-5", "05", "k", "key", "a\"b", "\";}", "s:1:\"x\";", "a;b:c{d}e", "\\", "\\\"", "\x00", "\x00\xff", "line\nbreak", " lead", "trail ", "\t", "日本", "é", "😀", strings.Repeat("x", 300), "N;", "}", "{", "i:1;"}

func (r *runner) genStr() string {
	rd := r.c.Rand
	if rd.Chance(70) {
		return strPool[rd.Intn(len(strPool))]
	}
	n := rd.Intn(12)
	b := make([]byte, n)
	for i := range b {
		if rd.Chance(30) {
			const u = "\";:{}\\sai0N"
			b[i] = u[rd.Intn(len(u))]
		} else {
			b[i] = byte(rd.Intn(256))
		}
	}
	return string(b)
}

// genPV: value with nesting ≤ depth; objects are non-empty with distinct keys, slot keys of a
// keyed ArrayValue are distinct (a PHP array has one entry per key).
func (r *runner) genPV(depth int) pv {
	rd := r.c.Rand
	k := rd.Intn(12)
	if depth == 0 && k >= 7 {
		k = rd.Intn(7)
	}
	switch {
	case k == 0:
		return pv{K: 'N'}
	case k == 1:
		return pv{K: "TF"[rd.Intn(2)]}
	case k <= 3:
		if rd.Chance(70) {
			return pv{K: 'I', I: intPool[rd.Intn(len(intPool))]}
		}
		return pv{K: 'I', I: int64(rd.U64())}
	case k <= 5:
		return pv{K: 'S', S: r.genStr()}
	case k == 6:
		return pv{K: 'D', F: r.genFloat()}
	case k <= 8:
		n := rd.Intn(4)
		v := pv{K: 'A', Items: []pv{}}
		for i := 0; i < n; i++ {
			v.Items = append(v.Items, r.genPV(depth-1))
		}
		return v
	case k == 9:
		return r.genKeyed(depth)
	default:
		n := 1 + rd.Intn(3)
		v := pv{K: 'O', Items: []pv{}}
		seen := map[string]bool{}
		for i := 0; i < n; i++ {
			key := r.genStr()
			if rd.Chance(30) {
				key = strconv.Itoa(rd.Intn(12))
			}
			if seen[key] {
				continue
			}
			seen[key] = true
			v.Keys = append(v.Keys, key)
			v.Items = append(v.Items, r.genPV(depth-1))
		}
		return v
	}
}

// genKeyed: a data.ArrayValue some of whose slots carry names ($a['k'] = v, sparse integer
// keys, what json_decode(…, true) returns for an object); the slot keys are distinct.
func (r *runner) genKeyed(depth int) pv {
	rd := r.c.Rand
	n := 1 + rd.Intn(4)
	v := pv{K: 'K', Items: []pv{}}
	seen := map[string]bool{}
	for i := 0; i < n; i++ {
		name := ""
		switch rd.Intn(5) {
		case 0: // positional
		case 1: // integer-like name (sparse key, or exactly the position)
			name = strconv.Itoa(rd.Intn(8))
			if rd.Chance(30) {
				name = strconv.Itoa(len(v.Items))
			}
			if rd.Chance(10) {
				name = strconv.FormatInt(intPool[rd.Intn(len(intPool))], 10)
			}
		default:
			name = r.genStr()
		}
		key := name
		if name == "" {
			key = strconv.Itoa(len(v.Items))
		}
		if seen[key] {
			continue
		}
		seen[key] = true
		v.Keys = append(v.Keys, name)
		v.Items = append(v.Items, r.genPV(depth-1))
	}
	// a later positional slot must not collide with an earlier integer-like name either: checked above
	// through `seen`; an earlier name equal to a later position is caught the same way.
	return v
}

func nontrivPV(v pv) bool {
	return v.K == 'A' && len(v.Items) > 0 || v.K == 'O' || v.K == 'K' || v.K == 'D' || v.K == 'S' && len(v.S) > 1
}

// ---------------------------------------------------------------- checks

// oneSer: value → serialize → (reference reader, unserialize, model).
func (r *runner) oneSer(v pv) {
	c := r.c
	vs := v.String()
	ms := v.modelString()
	cas := Case{Kind: "ser", Val: vs, Sub: "value"}
	c.Eval("ser:"+vs, nontrivPV(v))
	c.Hit("ser:kind=" + string(v.K))
	res := r.e.call("serialize", v.toData())
	if res.Kind != "str" {
		r.viol("serialize:"+res.Kind, fmt.Sprintf("serialize(%s) → %s", clip(vs), res), cas)
		r.ask("ser\t"+ms, "none", cas, "serialize vs Model.Ser.ser")
		return
	}
	out := res.S
	r.ask("ser\t"+ms, "some:"+hexs(out), cas, "serialize vs Model.Ser.ser")
	if ref, ok := refUnserialize(out); !ok || ref != v.norm() {
		r.viol("serialize:reference", fmt.Sprintf("serialize(%s) = %q is not read back as the same value by the format's reader (%s)", clip(vs), clip(out), clip(ref)), cas)
	}
	back := r.e.call("unserialize", str(out))
	got, gotNorm := "?"+back.Kind, "?"
	if back.V != nil {
		got = fromData(back.V).String()
		gotNorm = fromData(back.V).norm()
	}
	// the same PHP value comes back; for the representations unserialize itself produces, the very same Go value
	if gotNorm != v.norm() || v.canonical() && got != vs {
		r.viol("serialize:roundtrip", fmt.Sprintf("unserialize(serialize(%s)) = %s", clip(vs), clip(got)), cas)
	}
	r.oneUnser(out, "valid")
	c.SampleSome(map[string]any{"value": clip(vs), "serialized": clip(out)}, 211)
}

func unserOutcome(res callRes) string {
	switch res.Kind {
	case "false":
		return "false"
	case "panic", "throw":
		return res.Kind + ":" + res.Msg
	}
	if res.V == nil {
		return "?" + res.Kind
	}
	return "value:" + fromData(res.V).String()
	// note: the value `false` (b:0;) and failure are the same script-level result
}

// classify why the reference reader rejects an input that unserialize accepted
func laxClass(trimmedDiffers bool, t string) string {
	if trimmedDiffers {
		if _, ok := refUnserialize(t); ok {
			return "surrounding-whitespace"
		}
	}
	if strings.HasPrefix(t, "s:") {
		return "toplevel-string-lax"
	}
	if strings.HasPrefix(t, "a:") {
		return "non-scalar-key"
	}
	return "other"
}

// oneUnser: arbitrary bytes → unserialize (total; accepts only what the format's reader accepts,
// up to the known classes) and the model.
func (r *runner) oneUnser(s string, how string) {
	c := r.c
	hx := hexs(s)
	cas := Case{Kind: "ser", Hex: hx, Sub: "bytes"}
	res := r.e.call("unserialize", str(s))
	impl := unserOutcome(res)
	c.Eval("unser:"+hx, impl != "false" || len(s) > 4)
	c.Hit("unser:" + how)
	if strings.HasPrefix(impl, "panic") || strings.HasPrefix(impl, "throw") || strings.HasPrefix(impl, "?") {
		r.viol("unserialize:"+res.Kind, fmt.Sprintf("unserialize(%q) → %s", clip(s), impl), cas)
		return
	}
	t := strings.TrimSpace(s)
	// a legacy wrapper (refused by the strict reader, `s:` + `__origami_a:` / `__origami_o:` between the first and the
	// last quote) is the one class of inputs whose answer comes from the JSON reader, which the model does not carry:
	// the model answers `legacy` there. Every other input that merely CONTAINS the marker is an ordinary input (until
	// round 7 all of them were skipped, which hid the order of the two readers from both the oracle and the model).
	legacy := isLegacyWrapper(t)
	if impl != "false" {
		c.Hit("unser:accepted")
		if ref, ok := refUnserialize(s); !ok {
			if !legacy {
				cl := laxClass(t != s, t)
				r.viol("unserialize:accepts-malformed:"+cl, fmt.Sprintf("unserialize(%q) = %s but the input is not well-formed serialize output (%s)", clip(s), clip(impl), cl), cas)
			}
		} else if fromDataNorm(res) != ref {
			r.viol("unserialize:value", fmt.Sprintf("unserialize(%q) = %s, the format's reader says %s", clip(s), clip(impl), clip(ref)), cas)
		}
	} else if ref, ok := refUnserialize(s); ok && ref != "F" {
		r.viol("unserialize:rejects-wellformed", fmt.Sprintf("unserialize(%q) = false but the input is well-formed", clip(s)), cas)
	}
	if legacy {
		c.Hit("unser:legacy-wrapper")
		if impl != "false" && res.V != nil {
			if k := fromData(res.V).K; k != 'A' && k != 'O' && k != 'K' {
				r.viol("unserialize:legacy-wrapper-kind", fmt.Sprintf("unserialize(%q) = %s: a legacy wrapper yields an array or false", clip(s), clip(impl)), cas)
			}
		}
		impl = "legacy"
	}
	r.askCanon("unser\t"+hexs(t), impl, cas, "unserialize vs Model.Ser.unserializeT")
}

func fromDataNorm(res callRes) string {
	if res.V == nil {
		return "?"
	}
	return fromData(res.V).norm()
}

func (r *runner) mutateSer(s string) (string, string) {
	rd := r.c.Rand
	b := []byte(s)
	switch rd.Intn(8) {
	case 0:
		if len(b) > 0 {
			return string(b[:rd.Intn(len(b))]), "truncate"
		}
	case 1: // change a digit (lengths / counts / values)
		for tries := 0; tries < 10 && len(b) > 0; tries++ {
			i := rd.Intn(len(b))
			if b[i] >= '0' && b[i] <= '9' {
				b[i] = byte('0' + rd.Intn(10))
				return string(b), "digit"
			}
		}
	case 2: // structural character swap
		if len(b) > 0 {
			i := rd.Intn(len(b))
			const u = "\";:{}NbisadO+-0 .eE"
			b[i] = u[rd.Intn(len(u))]
			return string(b), "struct"
		}
	case 3: // insert
		i := rd.Intn(len(b) + 1)
		ins := []string{"\"", ";", "}", "{", "N;", "i:1;", " ", "\n", "s:1:\"x\";", "a:0:{}", "0", "-", "+", "d:0.5;", ".", "e", "E5"}[rd.Intn(17)]
		return string(b[:i]) + ins + string(b[i:]), "insert"
	case 4: // delete
		if len(b) > 0 {
			i := rd.Intn(len(b))
			return string(b[:i]) + string(b[i+1:]), "delete"
		}
	case 5: // surrounding whitespace / trailing garbage
		return []string{" ", "\n", "\t", "\xc2\xa0", ""}[rd.Intn(5)] + s + []string{" ", "\n", "x", ";", "}", "\xc2\xa0"}[rd.Intn(6)], "surround"
	case 6: // huge counts / lengths
		for tries := 0; tries < 10 && len(b) > 2; tries++ {
			i := rd.Intn(len(b) - 1)
			if (b[i] == 'a' || b[i] == 's') && b[i+1] == ':' {
				n := []string{"99999999999", "9223372036854775807", "9223372036854775808", "18446744073709551616", "4294967296", "00"}[rd.Intn(6)]
				j := i + 2
				for j < len(b) && b[j] >= '0' && b[j] <= '9' {
					j++
				}
				return string(b[:i+2]) + n + string(b[j:]), "huge"
			}
		}
	}
	// replace a key by a non-scalar
	if i := strings.Index(s, "{i:0;"); i >= 0 {
		return s[:i+1] + []string{"a:0:{}", "N;", "b:1;", "a:1:{i:0;N;}", "a:1:{s:1:\"k\";i:2;}", "d:0;", "d:1.5;"}[rd.Intn(7)] + s[i+5:], "oddkey"
	}
	return s + "x", "append"
}

func (r *runner) serialize() {
	c := r.c
	// boundary pool: every scalar, every string of the pool as value and as key
	for _, i := range intPool {
		r.oneSer(pv{K: 'I', I: i})
	}
	for _, s := range strPool {
		r.oneSer(pv{K: 'S', S: s})
		r.oneSer(pv{K: 'O', Items: []pv{{K: 'S', S: s}}, Keys: []string{s}})
		r.oneSer(pv{K: 'A', Items: []pv{{K: 'S', S: s}, {K: 'S', S: s}}})
	}
	for _, f := range floatPool {
		r.oneSer(pv{K: 'D', F: f})
		r.oneSer(pv{K: 'A', Items: []pv{{K: 'D', F: f}, {K: 'I', I: 1}}})
		r.oneSer(pv{K: 'O', Items: []pv{{K: 'D', F: f}}, Keys: []string{"f"}})
	}
	// keyed ArrayValues: names, sparse / negative / non-canonical integer-like names, names equal to the position
	for _, ks := range [][]string{{"x", "y"}, {"", "k"}, {"k", ""}, {"", "", "5"}, {"0", "1"}, {"1", "0"}, {"", "1"}, {"-3", "03", "+3"}, {"-0", "0"},
		{"9223372036854775807", "9223372036854775808", "-9223372036854775808", "-9223372036854775809"}, {"a\"b", "\";}", "\x00"}, {"3", "", ""}} {
		v := pv{K: 'K', Items: []pv{}}
		for i, k := range ks {
			v.Keys = append(v.Keys, k)
			v.Items = append(v.Items, pv{K: 'I', I: int64(i + 1)})
		}
		r.oneSer(v)
		r.oneSer(pv{K: 'A', Items: []pv{v, {K: 'O', Items: []pv{v}, Keys: []string{"in"}}}})
	}
	for _, s := range strPool {
		if s != "" && s != "0" { // "0" would be the key of the positional slot before it
			r.oneSer(pv{K: 'K', Items: []pv{{K: 'I', I: 7}, {K: 'S', S: s}}, Keys: []string{"", s}})
		}
	}
	r.oneSer(pv{K: 'N'})
	r.oneSer(pv{K: 'T'})
	r.oneSer(pv{K: 'F'})
	r.oneSer(pv{K: 'A', Items: []pv{}})
	// all 256 single-byte strings, as value and as key
	for b := 0; b < 256; b++ {
		s := string([]byte{byte(b)})
		r.oneSer(pv{K: 'S', S: s})
		r.oneSer(pv{K: 'O', Items: []pv{{K: 'I', I: int64(b)}}, Keys: []string{s}})
	}
	// unserialize: all one- and two-byte inputs
	for a := 0; a < 256; a++ {
		r.oneUnser(string([]byte{byte(a)}), "pairs")
	}
	for a := 0; a < 256; a++ {
		for b := 0; b < 256; b++ {
			r.oneUnser(string([]byte{byte(a), byte(b)}), "pairs")
		}
	}
	// short inputs over the format's alphabet, complete up to length 4 after a type prefix
	alpha := "N;b:01is\"a{}-+ "
	for _, pre := range []string{"", "i:", "b:", "s:", "a:", "s:1:", "a:1:{", "s:0:\""} {
		var rec func(p string, n int)
		rec = func(p string, n int) {
			r.oneUnser(pre+p, "alphabet")
			if n == 0 {
				return
			}
			for i := 0; i < len(alpha); i++ {
				rec(p+string(alpha[i]), n-1)
			}
		}
		rec("", c.N(2, 3))
	}
	// float lexemes: every text of length ≤ 4 (5 in thorough) over the lexeme alphabet, closed by `;`
	falpha := "01.eE+-NIF;"
	var frec func(p string, n int)
	frec = func(p string, n int) {
		r.oneUnser("d:"+p+";", "floatlex")
		if n == 0 {
			return
		}
		for i := 0; i < len(falpha); i++ {
			frec(p+string(falpha[i]), n-1)
		}
	}
	frec("", c.N(4, 5))
	for _, t := range []string{"d:1.5;", "d:NAN;", "d:INF;", "d:-INF;", "d:+INF;", "d:nan;", "d:inf;", "d:Infinity;", "d:0x10;", "d:1_0;", "d:1e999;", "d:-1e999;", "d:1e-999;", "d:.5;", "d:5.;", "d:.;",
		"d:1.5", "d:;", "d:", "d", "d:1.5;x", "d:1.5;;", "d: 1.5;", "d:1.5 ;", "d:1,5;", "d:١;", "d:1e+;", "d:1e5.5;", "d:1.2.3;", "a:1:{d:0.5;i:1;}", "a:1:{i:0;d:0.5;}", "a:1:{s:1:\"k\";d:-0;}",
		"a:1:{b:1;i:1;}", "a:1:{N;i:1;}", "a:1:{a:0:{}i:1;}", "a:2:{i:0;N;a:0:{}i:1;}", "s:5:\"ab\";", "s:1:\"a\";s:1:\"b\";", "s:1:\"ab\";", "s:2:\"a\";", "s:0:\"\"\";", "s:3:\"日\";", "s:1:\"日\";"} {
		r.oneUnser(t, "pool")
	}
	// seeded values and mutants of their serializations
	n := c.N(3000, 300000)
	for i := 0; i < n; i++ {
		v := r.genPV(c.Rand.Intn(5))
		r.oneSer(v)
		res := r.e.call("serialize", v.toData())
		if res.Kind != "str" || len(res.S) > 4096 {
			continue
		}
		for k := 0; k < 2; k++ {
			m, how := r.mutateSer(res.S)
			if len(m) <= 4096 {
				r.oneUnser(m, how)
			}
		}
	}
}

func (r *runner) replaySer(cas Case) {
	if cas.Sub == "bytes" {
		b, _ := unhex(cas.Hex)
		r.oneUnser(string(b), "replay")
		return
	}
	v, rest, err := readPV(cas.Val)
	if err != nil || rest != "" {
		r.c.Note("bad value %q: %v", cas.Val, err)
		return
	}
	r.oneSer(v)
}
