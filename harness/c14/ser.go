package c14

func (r *runner) serialize()          {}
func (r *runner) jsonLayer()          {}
func (r *runner) knownStream()        {}
func (r *runner) replaySer(cas Case)  {}
func (r *runner) replayJSON(cas Case) {}
