// Package c14: correspondence + violation search for C14 (codecs). The real
// script-level functions (bin2hex, base64_*, urlencode/…, serialize, …) are
// called through their registered FuncStmt objects on a VM built like zy.go
// does, the protobuf parser through protowire.ParseRawFields; the Lean model
// `vm_c14` and Go's reference codecs (encoding/hex, encoding/base64, net/url,
// crypto/*, google.golang.org/protobuf/encoding/protowire) are the comparands.
package c14

import (
	"encoding/json"
	"fmt"
	"strings"

	"verif/harness/vh"
)

func init() { vh.Register("C14", Run) }

// Case is the replayable form of one check.
type Case struct {
	Kind string `json:"kind"`           // bytes | prim | wire | wiretree | ser | json | jsonnum | known
	Hex  string `json:"hex,omitempty"`  // input bytes
	Opts string `json:"opts,omitempty"` // parse options (model syntax)
	Tree string `json:"tree,omitempty"` // field tree (model syntax)
	Val  string `json:"val,omitempty"`  // value (ser / json syntax)
	Sub  string `json:"sub,omitempty"`  // which codec / sub-check
}

// pending model query
type pend struct {
	line  string
	impl  string
	cas   Case
	note  string
	canon bool // the model answer carries float lexemes: compare the float64 they denote
}

type runner struct {
	c    *vh.Ctx
	m    *vh.Model
	e    *env
	q    []pend
	only string // replay: restrict nothing, just one case
}

func (r *runner) ask(line, impl string, cas Case, note string) { r.askx(line, impl, cas, note, false) }

// askCanon: like ask; float lexemes in the model's answer are replaced by the canonical
// spelling of the float64 they denote (strconv.ParseFloat, trusted) before comparing.
func (r *runner) askCanon(line, impl string, cas Case, note string) {
	r.askx(line, impl, cas, note, true)
}

func (r *runner) askx(line, impl string, cas Case, note string, canon bool) {
	if r.m == nil {
		return
	}
	r.q = append(r.q, pend{line, impl, cas, note, canon})
	if len(r.q) >= 8192 {
		r.flush()
	}
}

func (r *runner) flush() {
	if r.m == nil || len(r.q) == 0 {
		r.q = r.q[:0]
		return
	}
	lines := make([]string, len(r.q))
	for i, p := range r.q {
		lines[i] = p.line
	}
	res, err := r.m.AskBatch(lines)
	if err != nil {
		r.c.Note("model failed: %v", err)
		r.c.Mismatch(r.q[0].cas, "", "", "model driver died: "+err.Error())
		r.m = nil
		r.q = r.q[:0]
		return
	}
	for i, p := range r.q {
		if i < len(res) && p.canon {
			res[i] = canonModelFloats(res[i])
		}
		if i < len(res) && res[i] != p.impl {
			r.c.Mismatch(p.cas, clip(p.impl), clip(res[i]), p.note+" ["+clip(p.line)+"]")
		}
	}
	r.q = r.q[:0]
}

func clip(s string) string {
	if len(s) > 400 {
		return s[:400] + "…"
	}
	return s
}

func Run(c *vh.Ctx) {
	r := &runner{c: c, e: newEnv()}
	if c.ModelPath != "" {
		m, err := vh.StartModel(c.ModelPath)
		if err != nil {
			c.Note("model not started: %v", err)
		} else {
			r.m = m
			c.Res.ModelUsed = true
			defer m.Close()
		}
	}
	c.Res.Rule = "non-trivial = input of ≥ 2 bytes that reaches an escape/padding/continuation branch (byte codecs), a field tree with ≥ 1 nested message/group or a packed field, a decoder input that is not rejected at its first byte"
	if len(c.ReplayRaw) > 0 {
		var cas Case
		if err := json.Unmarshal(c.ReplayRaw, &cas); err != nil {
			c.Note("cannot read replay case: %v", err)
			return
		}
		r.replay(cas)
		r.flush()
		c.Res.ModelLines = modelLines(r.m)
		return
	}
	r.knownStream()
	r.flush()
	r.bytesCodecs()
	r.flush()
	r.wirePrims()
	r.flush()
	r.wireParser()
	r.flush()
	r.serialize()
	r.flush()
	r.jsonLayer()
	r.flush()
	r.numberLayer()
	r.flush()
	r.markerLayer()
	r.flush()
	c.Res.Exhaustive = true
	c.Res.ExhaustiveWhat = "all 256 single bytes and all 65536 byte pairs through every byte codec (encoders and decoders), the wire primitives and the wire parser under " + fmt.Sprint(len(pairOpts)) + " option sets"
	c.Res.ModelLines = modelLines(r.m)
	c.Res.Traces = c.Res.Evaluations
}

func modelLines(m *vh.Model) int {
	if m == nil {
		return 0
	}
	return m.Lines
}

func (r *runner) replay(cas Case) {
	switch cas.Kind {
	case "bytes":
		b, _ := unhex(cas.Hex)
		r.oneBytes(string(b), true)
	case "prim":
		b, _ := unhex(cas.Hex)
		r.onePrim(b)
	case "wire":
		b, _ := unhex(cas.Hex)
		o, err := parseOptString(cas.Opts)
		if err != nil {
			r.c.Note("bad opts: %v", err)
			return
		}
		r.oneWire(b, o, "replay")
	case "wiretree":
		o, err := parseOptString(cas.Opts)
		if err != nil {
			r.c.Note("bad opts: %v", err)
			return
		}
		t, err := readTree(cas.Tree)
		if err != nil {
			r.c.Note("bad tree: %v", err)
			return
		}
		r.oneTree(t, o)
	case "ser":
		r.replaySer(cas)
	case "json":
		r.replayJSON(cas)
	case "jsonnum":
		r.replayNum(cas)
	case "known":
		r.knownStream()
	default:
		r.c.Note("unknown replay kind %q", cas.Kind)
	}
}

func unhex(s string) ([]byte, error) {
	if len(s)%2 != 0 {
		return nil, fmt.Errorf("odd hex")
	}
	out := make([]byte, len(s)/2)
	for i := 0; i < len(out); i++ {
		a, b := strings.IndexByte(hexdigits, s[2*i]), strings.IndexByte(hexdigits, s[2*i+1])
		if a < 0 || b < 0 {
			return nil, fmt.Errorf("bad hex")
		}
		out[i] = byte(a<<4 | b)
	}
	return out, nil
}
