package c14

import (
	"fmt"
	"runtime/debug"
	"strings"

	"github.com/php-any/origami/data"

	"verif/harness/vh"
)

// callRes is the canonical outcome of one call of a script-level function
// through the Go API (FuncStmt.Call on a fresh context).
type callRes struct {
	Kind string // str | false | null | int | float | bool | array | object | throw | panic | other
	S    string // payload for str
	V    data.Value
	Msg  string
}

func (r callRes) String() string {
	switch r.Kind {
	case "str":
		return "str:" + hexs(r.S)
	case "throw", "panic":
		return r.Kind + ":" + r.Msg
	}
	return r.Kind
}

type env struct {
	e *vh.VMEnv
}

func newEnv() *env { return &env{e: vh.NewEnv()} }

func classify(v data.GetValue) callRes {
	switch x := v.(type) {
	case nil:
		return callRes{Kind: "nil"}
	case *data.StringValue:
		return callRes{Kind: "str", S: x.Value, V: x}
	case *data.BoolValue:
		if x.Value {
			return callRes{Kind: "true", V: x}
		}
		return callRes{Kind: "false", V: x}
	case *data.NullValue:
		return callRes{Kind: "null", V: x}
	case *data.IntValue:
		return callRes{Kind: "int", V: x}
	case *data.FloatValue:
		return callRes{Kind: "float", V: x}
	case *data.ArrayValue:
		return callRes{Kind: "array", V: x}
	case *data.ObjectValue:
		return callRes{Kind: "object", V: x}
	case data.Value:
		return callRes{Kind: "other", V: x}
	}
	return callRes{Kind: "other"}
}

// call invokes the registered function `name` with positional arguments.
func (e *env) call(name string, args ...data.Value) (res callRes) {
	defer func() {
		if r := recover(); r != nil {
			if acl, ok := r.(data.Control); ok {
				res = callRes{Kind: "throw", Msg: first(acl.AsString())}
				return
			}
			res = callRes{Kind: "panic", Msg: first(fmt.Sprint(r)) + " @ " + panicSite(string(debug.Stack()))}
		}
	}()
	fn, ok := e.e.VM.GetFunc(name)
	if !ok {
		return callRes{Kind: "panic", Msg: "no such function " + name}
	}
	vars := fn.GetVariables()
	ctx := e.e.VM.CreateContext(vars)
	for i, a := range args {
		if i < len(vars) && a != nil {
			ctx.GetIndexZVal(i).Value = a
		}
	}
	v, ctl := fn.Call(ctx)
	if ctl != nil {
		return callRes{Kind: "throw", Msg: first(ctl.AsString())}
	}
	return classify(v)
}

func str(s string) data.Value { return data.NewStringValue(s) }

func first(s string) string {
	if i := strings.IndexByte(s, '\n'); i >= 0 {
		return s[:i]
	}
	return s
}

func panicSite(stack string) string {
	for _, l := range strings.Split(stack, "\n") {
		l = strings.TrimSpace(l)
		if strings.Contains(l, "/std/") && strings.Contains(l, ".go:") {
			if i := strings.LastIndex(l, "/std/"); i >= 0 {
				l = l[i+1:]
			}
			if j := strings.IndexByte(l, ' '); j >= 0 {
				l = l[:j]
			}
			return l
		}
	}
	return "?"
}

const hexdigits = "0123456789abcdef"

func hexs(s string) string {
	b := make([]byte, 0, 2*len(s))
	for i := 0; i < len(s); i++ {
		b = append(b, hexdigits[s[i]>>4], hexdigits[s[i]&15])
	}
	return string(b)
}
