package c14

import (
	"bytes"
	"encoding/json"
	"fmt"
	"sort"
	"strings"
	"unicode/utf8"

	"github.com/php-any/origami/data"
)

// ---------------------------------------------------------------- JSON (reference: encoding/json; no Lean model)

// jsonNorm reads JSON text with encoding/json's token stream (numbers kept as
// text) into the normal form of pv.norm(); objects keep their key order when
// ordered is true and are sorted by key otherwise.
func jsonNorm(text string, ordered bool) (string, bool) {
	dec := json.NewDecoder(strings.NewReader(text))
	dec.UseNumber()
	out, ok := jsonNormValue(dec, ordered)
	if !ok {
		return "", false
	}
	if _, err := dec.Token(); err == nil { // trailing data
		return "", false
	}
	return out, true
}

func jsonNormValue(dec *json.Decoder, ordered bool) (string, bool) {
	tok, err := dec.Token()
	if err != nil {
		return "", false
	}
	switch t := tok.(type) {
	case nil:
		return "N", true
	case bool:
		if t {
			return "T", true
		}
		return "F", true
	case json.Number:
		return "I" + t.String(), true
	case string:
		return "S" + hexs(t), true
	case json.Delim:
		switch t {
		case '[':
			var p []string
			for dec.More() {
				v, ok := jsonNormValue(dec, ordered)
				if !ok {
					return "", false
				}
				p = append(p, fmt.Sprintf("i%d=>%s", len(p), v))
			}
			if _, err := dec.Token(); err != nil {
				return "", false
			}
			return "[" + strings.Join(p, ",") + "]", true
		case '{':
			var p []string
			for dec.More() {
				k, err := dec.Token()
				ks, isStr := k.(string)
				if err != nil || !isStr {
					return "", false
				}
				v, ok := jsonNormValue(dec, ordered)
				if !ok {
					return "", false
				}
				p = append(p, "s"+hexs(ks)+"=>"+v)
			}
			if _, err := dec.Token(); err != nil {
				return "", false
			}
			if !ordered {
				sort.Strings(p)
				if len(p) == 0 { // decoded as an associative array, {} and [] are the same empty array
					return "[]", true
				}
			}
			return "{" + strings.Join(p, ",") + "}", true
		}
	}
	return "", false
}

// jnorm: the JSON view of a harness value (lists are arrays, keyed values are objects with string keys)
func (v pv) jnorm(ordered bool) string {
	switch v.K {
	case 'K':
		if v.isList() { // keys 0..n-1 in order: a JSON array, as in PHP
			return pv{K: 'A', Items: v.Items}.jnorm(ordered)
		}
		keys := make([]string, len(v.Items))
		for i := range v.Items {
			keys[i] = v.slotKey(i)
		}
		return pv{K: 'O', Items: v.Items, Keys: keys}.jnorm(ordered)
	case 'A':
		p := make([]string, len(v.Items))
		for i, x := range v.Items {
			p[i] = fmt.Sprintf("i%d=>%s", i, x.jnorm(ordered))
		}
		return "[" + strings.Join(p, ",") + "]"
	case 'O':
		p := make([]string, len(v.Items))
		for i, x := range v.Items {
			p[i] = "s" + hexs(v.Keys[i]) + "=>" + x.jnorm(ordered)
		}
		if !ordered {
			sort.Strings(p)
			if len(p) == 0 {
				return "[]"
			}
		}
		return "{" + strings.Join(p, ",") + "}"
	}
	return v.String()
}

func jsonSafe(v pv) bool {
	switch v.K {
	case 'S':
		return utf8.ValidString(v.S)
	case 'D':
		return false
	case 'A', 'O', 'K':
		for i, x := range v.Items {
			if !jsonSafe(x) {
				return false
			}
			if v.K == 'O' && (!utf8.ValidString(v.Keys[i]) || v.Keys[i] == "") { // "" key: known finding json_decode:empty-key-dropped
				return false
			}
			if v.K == 'K' && !utf8.ValidString(v.Keys[i]) {
				return false
			}
		}
	}
	return true
}

// genJSONValue: like genPV, restricted to what the JSON layer is checked on exactly
// (any int64, valid UTF-8, no float, no empty object key).
func (r *runner) genJSONValue(depth int) pv {
	for {
		v := r.genPV(depth)
		if jsonSafe(v) {
			return v
		}
	}
}

func (r *runner) oneJSON(v pv) {
	c := r.c
	vs := v.String()
	cas := Case{Kind: "json", Val: vs}
	c.Eval("json:"+vs, nontrivPV(v))
	c.Hit("json:kind=" + string(v.K))
	res := r.e.call("json_encode", v.toData())
	if res.Kind != "str" {
		r.viol("json_encode:"+res.Kind, fmt.Sprintf("json_encode(%s) → %s", clip(vs), res), cas)
		return
	}
	out := res.S
	if !json.Valid([]byte(out)) {
		r.viol("json_encode:invalid", fmt.Sprintf("json_encode(%s) = %q is not JSON", clip(vs), clip(out)), cas)
		return
	}
	if ref, ok := jsonNorm(out, true); !ok || ref != v.jnorm(true) {
		r.viol("json_encode:reference", fmt.Sprintf("json_encode(%s) = %q is read back by encoding/json as %s", clip(vs), clip(out), clip(ref)), cas)
	}
	// decode with assoc = true: any JSON text
	d := r.e.call("json_decode", str(out), data.NewBoolValue(true))
	if d.Kind == "panic" || d.Kind == "throw" {
		r.viol("json_decode:"+d.Kind, fmt.Sprintf("json_decode(%q, true) → %s", clip(out), d), cas)
	} else if d.V == nil || fromData(d.V).jnorm(false) != v.jnorm(false) {
		got := "?" + d.Kind
		if d.V != nil {
			got = fromData(d.V).String()
		}
		r.viol("json:roundtrip-assoc", fmt.Sprintf("json_decode(json_encode(%s), true) = %s", clip(vs), clip(got)), cas)
	} else {
		// what json_decode(…, true) returns (objects are ArrayValues with named slots) encodes to the same
		// PHP value: an object again, unless the (sorted) keys happen to be 0..n-1, which is a list
		e2 := r.e.call("json_encode", d.V)
		if ref2, ok := jsonNorm(e2.S, false); e2.Kind != "str" || !ok || ref2 != fromDataK(d.V).jnorm(false) {
			r.viol("json:reencode-assoc", fmt.Sprintf("json_encode(json_decode(%q, true)) = %s %q", clip(out), e2.Kind, clip(e2.S)), cas)
		}
	}
	// decode without assoc: objects, arrays and scalars at the top level
	d = r.e.call("json_decode", str(out))
	if d.Kind == "panic" || d.Kind == "throw" {
		r.viol("json_decode:"+d.Kind, fmt.Sprintf("json_decode(%q) → %s", clip(out), d), cas)
	} else if d.V == nil || fromData(d.V).jnorm(false) != v.jnorm(false) {
		got := "?" + d.Kind
		if d.V != nil {
			got = fromData(d.V).String()
		}
		sig := "json:roundtrip-object"
		if v.K != 'O' {
			sig = "json:roundtrip-plain"
		}
		r.viol(sig, fmt.Sprintf("json_decode(json_encode(%s)) = %s", clip(vs), clip(got)), cas)
	}
	c.SampleSome(map[string]any{"value": clip(vs), "json": clip(out)}, 307)
}

// oneJSONText: arbitrary text through json_decode (both modes): total, and accepts only valid JSON.
func (r *runner) oneJSONText(s string, how string) {
	c := r.c
	cas := Case{Kind: "json", Hex: hexs(s), Sub: "text"}
	c.Eval("jsontext:"+cas.Hex, len(s) > 2)
	c.Hit("jsontext:" + how)
	valid := json.Valid([]byte(s))
	for _, assoc := range []bool{true, false} {
		var d callRes
		if assoc {
			d = r.e.call("json_decode", str(s), data.NewBoolValue(true))
		} else {
			d = r.e.call("json_decode", str(s))
		}
		if d.Kind == "panic" || d.Kind == "throw" {
			r.viol("json_decode:"+d.Kind, fmt.Sprintf("json_decode(%q, %v) → %s", clip(s), assoc, d), cas)
			continue
		}
		if !valid && d.Kind != "null" {
			r.viol("json_decode:accepts-invalid", fmt.Sprintf("json_decode(%q, %v) = %s but the text is not JSON", clip(s), assoc, d.Kind), cas)
		}
		if valid {
			c.Hit("jsontext:valid")
			if want, ok := jsonNormLossy(s); ok {
				got := "?"
				if d.V != nil {
					got = fromData(d.V).jnorm(false)
				}
				if got != want {
					r.viol("json_decode:reference", fmt.Sprintf("json_decode(%q, %v) = %s, encoding/json says %s", clip(s), assoc, clip(got), clip(want)), cas)
				}
			}
		}
	}
}

// jsonNormLossy: reference value of a JSON text whose numbers are all integers in int64
// written without fraction / exponent (floats are not judged here).
func jsonNormLossy(s string) (string, bool) {
	dec := json.NewDecoder(bytes.NewReader([]byte(s)))
	dec.UseNumber()
	var v any
	if err := dec.Decode(&v); err != nil {
		return "", false
	}
	ok := true
	var conv func(x any) pv
	conv = func(x any) pv {
		switch t := x.(type) {
		case nil:
			return pv{K: 'N'}
		case bool:
			if t {
				return pv{K: 'T'}
			}
			return pv{K: 'F'}
		case json.Number:
			n, err := t.Int64()
			if err != nil || strings.ContainsAny(t.String(), ".eE") || t.String() == "-0" {
				ok = false
			}
			return pv{K: 'I', I: n}
		case string:
			return pv{K: 'S', S: t}
		case []any:
			out := pv{K: 'A', Items: []pv{}}
			for _, e := range t {
				out.Items = append(out.Items, conv(e))
			}
			return out
		case map[string]any:
			out := pv{K: 'O', Items: []pv{}}
			for k, e := range t {
				if k == "" { // known finding json_decode:empty-key-dropped
					ok = false
				}
				out.Keys = append(out.Keys, k)
				out.Items = append(out.Items, conv(e))
			}
			return out
		}
		ok = false
		return pv{K: '?'}
	}
	p := conv(v)
	if !ok {
		return "", false
	}
	return p.jnorm(false), true
}

func (r *runner) mutateJSON(s string) (string, string) {
	rd := r.c.Rand
	b := []byte(s)
	switch rd.Intn(5) {
	case 0:
		if len(b) > 0 {
			return string(b[:rd.Intn(len(b))]), "truncate"
		}
	case 1:
		if len(b) > 0 {
			const u = "\"\\{}[],:0-eE.tfn u"
			b[rd.Intn(len(b))] = u[rd.Intn(len(u))]
			return string(b), "swap"
		}
	case 2:
		i := rd.Intn(len(b) + 1)
		ins := []string{"\"", "\\", "\\u12", "\\ud800", ",", ":", "[", "{", "}", "]", " ", "\n", "1e999", "01", "-", "\x00", "\xff"}[rd.Intn(17)]
		return string(b[:i]) + ins + string(b[i:]), "insert"
	case 3:
		if len(b) > 0 {
			i := rd.Intn(len(b))
			return string(b[:i]) + string(b[i+1:]), "delete"
		}
	}
	return s + []string{" ", "x", "}", "]", ",1"}[rd.Intn(5)], "append"
}

func (r *runner) jsonLayer() {
	c := r.c
	for _, i := range intPool {
		r.oneJSON(pv{K: 'I', I: i})
		r.oneJSON(pv{K: 'A', Items: []pv{{K: 'I', I: i}}})
		r.oneJSON(pv{K: 'O', Items: []pv{{K: 'I', I: i}}, Keys: []string{"n"}})
	}
	// keyed ArrayValues (slot names): objects unless the keys are 0..n-1 in order
	for _, ks := range [][]string{{"x", "y"}, {"", "k"}, {"k", ""}, {"", "", "5"}, {"0", "1"}, {"1", "0"}, {"", "1"}, {"-3", "03", "+3"}, {"a\"b", "\\", "\n"}, {"3", "", ""}} {
		v := pv{K: 'K', Items: []pv{}}
		for i, k := range ks {
			v.Keys = append(v.Keys, k)
			v.Items = append(v.Items, pv{K: 'I', I: int64(i + 1)})
		}
		r.oneJSON(v)
		r.oneJSON(pv{K: 'A', Items: []pv{v, {K: 'O', Items: []pv{v}, Keys: []string{"in"}}}})
	}
	for _, s := range strPool {
		if utf8.ValidString(s) {
			r.oneJSON(pv{K: 'S', S: s})
			if s != "" {
				r.oneJSON(pv{K: 'O', Items: []pv{{K: 'S', S: s}}, Keys: []string{s}})
			}
		}
	}
	for b := 0; b < 128; b++ { // every ASCII byte inside a string (escapes, control characters)
		s := string([]byte{'a', byte(b), 'z'})
		r.oneJSON(pv{K: 'S', S: s})
		r.oneJSON(pv{K: 'O', Items: []pv{{K: 'T'}}, Keys: []string{s}})
	}
	for _, v := range []pv{{K: 'N'}, {K: 'T'}, {K: 'F'}, {K: 'A', Items: []pv{}}} {
		r.oneJSON(v)
	}
	// decoder: all one- and two-byte texts
	for a := 0; a < 256; a++ {
		r.oneJSONText(string([]byte{byte(a)}), "pairs")
	}
	for a := 0; a < 256; a++ {
		for b := 0; b < 256; b++ {
			r.oneJSONText(string([]byte{byte(a), byte(b)}), "pairs")
		}
	}
	for _, s := range []string{"", "null", "true", "false", "0", "-0", "1e2", "1.5", "[]", "{}", "[1,2]", "[9007199254740993]", "9223372036854775807", "-9223372036854775808", "[9223372036854775808]", "{\"a\":-9223372036854775809}", "123456789012345678901234567890", "[1e999]", "\v1", "1\f", "\u00a01", "{\"a\":1}", "{\"a\":{\"b\":[1,{\"c\":null}]}}", "\"x\"", "\"\\u00e9\"", "\"\\ud83d\\ude00\"", "[1,]", "{\"a\":1,}", "{'a':1}", "[1 2]", "nul", "tru", "\"abc", "{\"a\":1}x", " [1] ", "\n{\"a\" : 1}\n", strings.Repeat("[", 100) + strings.Repeat("]", 100), strings.Repeat("[", 20000), "{\"a\":1,\"a\":2}"} {
		r.oneJSONText(s, "pool")
	}
	n := c.N(2000, 200000)
	for i := 0; i < n; i++ {
		v := r.genJSONValue(c.Rand.Intn(5))
		r.oneJSON(v)
		res := r.e.call("json_encode", v.toData())
		if res.Kind != "str" || len(res.S) > 4096 {
			continue
		}
		m, how := r.mutateJSON(res.S)
		if len(m) <= 4096 {
			r.oneJSONText(m, how)
		}
	}
}

func (r *runner) replayJSON(cas Case) {
	if cas.Sub == "text" {
		b, _ := unhex(cas.Hex)
		r.oneJSONText(string(b), "replay")
		return
	}
	v, rest, err := readPV(cas.Val)
	if err != nil || rest != "" {
		r.c.Note("bad value %q: %v", cas.Val, err)
		return
	}
	r.oneJSON(v)
}

// ---------------------------------------------------------------- known findings, replayed every run

func (r *runner) knownStream() {
	c := r.c
	known := func(sig string, reproduced bool, what string, cas Case) {
		c.Eval("known:"+sig, true)
		c.Hit("known")
		if reproduced {
			r.viol(sig, what, cas) // listed as known → KNOWN-FINDING; not listed → VIOLATION with this replay
		}
	}
	kc := Case{Kind: "known"}
	// json_encode of a string-keyed array (what json_decode(…, true) returns for an object) drops the keys
	d := r.e.call("json_decode", str(`{"x":1,"y":"z"}`), data.NewBoolValue(true))
	if d.V != nil {
		e := r.e.call("json_encode", d.V)
		ref, _ := jsonNorm(e.S, false)
		known("json_encode:keyed-array-drops-keys", e.Kind != "str" || ref != `{s78=>I1,s79=>S7a}`,
			fmt.Sprintf(`json_encode(json_decode('{"x":1,"y":"z"}', true)) = %s`, e.S), kc)
		s := r.e.call("serialize", d.V)
		refs, _ := refUnserialize(s.S)
		known("serialize:keyed-array-drops-keys", s.Kind != "str" || !(refs == "[s78=>I1,s79=>S7a]" || refs == "[s79=>S7a,s78=>I1]"),
			fmt.Sprintf(`serialize(json_decode('{"x":1,"y":"z"}', true)) = %s`, s.S), kc)
	}
	// integers above 2^53 come back rounded
	d = r.e.call("json_decode", str(`[9007199254740993]`), data.NewBoolValue(true))
	got := "?"
	if d.V != nil {
		got = fromData(d.V).String()
	}
	known("json_decode:int-above-2^53", got != "A[I9007199254740993]", "json_decode('[9007199254740993]', true) = "+got, kc)
	// without assoc only an object is accepted at the top level
	d = r.e.call("json_decode", str(`[1,2]`))
	got = "?" + d.Kind
	if d.V != nil {
		got = fromData(d.V).String()
	}
	known("json_decode:toplevel-non-object", got != "A[I1,I2]", "json_decode('[1,2]') = "+got, kc)
	// an empty key is indistinguishable from a list slot
	d = r.e.call("json_decode", str(`{"":"x"}`), data.NewBoolValue(true))
	got = "?" + d.Kind
	if d.V != nil {
		got = fromData(d.V).jnorm(false)
	}
	known("json_decode:empty-key-dropped", got != `{s=>S78}`, `json_decode('{"":"x"}', true) = `+got+" (a list: the empty key is gone)", kc)
	// invalid UTF-8 is silently replaced
	e := r.e.call("json_encode", str("a\xffb"))
	var back string
	json.Unmarshal([]byte(e.S), &back)
	known("json_encode:invalid-utf8-replaced", e.Kind == "str" && back != "a\xffb", fmt.Sprintf("json_encode(\"a\\xffb\") = %s (reads back as %q)", e.S, back), kc)
	// number texts: the default path refuses a number beyond the float range (the assoc path reads ±INF)
	d = r.e.call("json_decode", str(`1e400`))
	da := r.e.call("json_decode", str(`1e400`), data.NewBoolValue(true))
	known("json_decode:rejects-valid:number-overflow", d.Kind == "null" && da.Kind == "float", "json_decode('1e400') = "+d.Kind+", json_decode('1e400', true) = "+da.Kind, Case{Kind: "jsonnum", Hex: hexs("1e400"), Sub: "text"})
	// the assoc path answers an int for a text that does not denote that integer (read through float64)
	d = r.e.call("json_decode", str(`9007199254740993.0`), data.NewBoolValue(true))
	got = "?" + d.Kind
	if d.V != nil {
		got = fromData(d.V).String()
	}
	known("json_decode:int-from-rounded-float", got == "I9007199254740992", "json_decode('9007199254740993.0', true) = "+got, Case{Kind: "jsonnum", Hex: hexs("9007199254740993.0"), Sub: "text"})
	// json_encode writes an integral float of magnitude ≥ 2^53 as an integer literal with padded digits; json_decode reads the literal exactly
	e = r.e.call("json_encode", data.NewFloatValue(4611686018427387904))
	d = r.e.call("json_decode", str(e.S), data.NewBoolValue(true))
	got = "?" + d.Kind
	if d.V != nil {
		got = fromData(d.V).String()
	}
	known("json:roundtrip-float:padded-integer-literal", d.Kind == "int" && got != "I4611686018427387904",
		"json_decode(json_encode(2.0**62) = "+e.S+", true) = "+got+" (2^62 = 4611686018427387904)", Case{Kind: "jsonnum", Sub: "float", Val: "43d0000000000000"})
	// serialize(float) is false
	s := r.e.call("serialize", data.NewFloatValue(1.5))
	known("serialize:float", s.Kind != "str", "serialize(1.5) = "+s.Kind, kc)
	// unserialize accepts more than the format
	for _, k := range []struct{ sig, in string }{
		{"unserialize:accepts-malformed:toplevel-string-lax", `s:5:"ab";`},
		{"unserialize:accepts-malformed:surrounding-whitespace", " i:7;\n"},
		{"unserialize:accepts-malformed:non-scalar-key", `a:1:{a:0:{}i:1;}`},
	} {
		u := r.e.call("unserialize", str(k.in))
		_, ok := refUnserialize(k.in)
		known(k.sig, u.Kind != "false" && !ok, fmt.Sprintf("unserialize(%q) = %s", k.in, unserOutcome(u)), Case{Kind: "ser", Hex: hexs(k.in), Sub: "bytes"})
	}
}
