package c14

import (
	"crypto/md5"
	"crypto/sha1"
	"crypto/sha256"
	"crypto/sha512"
	"encoding/base64"
	"encoding/hex"
	"fmt"
	"net/url"
	"strings"

	"github.com/php-any/origami/data"
)

// ---------------------------------------------------------------- byte-level codecs

func isUnreservedRef(c byte) bool {
	return c >= 'a' && c <= 'z' || c >= 'A' && c <= 'Z' || c >= '0' && c <= '9' || c == '-' || c == '.' || c == '_' || c == '~'
}

// rfc3986Encoded reports whether s consists only of unreserved characters and
// %XX triplets with upper-case hex digits; plusOK additionally admits '+'.
func rfc3986Encoded(s string, plusOK bool) bool {
	for i := 0; i < len(s); i++ {
		c := s[i]
		switch {
		case isUnreservedRef(c):
		case c == '+' && plusOK:
		case c == '%':
			if i+2 >= len(s) || !strings.ContainsRune("0123456789ABCDEF", rune(s[i+1])) || !strings.ContainsRune("0123456789ABCDEF", rune(s[i+2])) {
				return false
			}
			i += 2
		default:
			return false
		}
	}
	return true
}

func nontrivBytes(s string) bool {
	if len(s) < 2 {
		return false
	}
	for i := 0; i < len(s); i++ {
		if !isUnreservedRef(s[i]) {
			return true
		}
	}
	return len(s)%3 != 0
}

func (r *runner) viol(sig, what string, cas Case) { r.c.Violation(sig, what, cas) }

// expectStr unwraps a string result; anything else is a violation of totality /
// faithfulness for an encoder.
func (r *runner) expectStr(fn string, res callRes, cas Case) (string, bool) {
	if res.Kind == "str" {
		return res.S, true
	}
	if res.Kind == "panic" {
		r.viol(fn+":panic", fn+" panicked: "+res.Msg, cas)
	} else {
		r.viol(fn+":not-a-string", fmt.Sprintf("%s returned %s %s", fn, res.Kind, res.Msg), cas)
	}
	return "", false
}

// oneBytes pushes one byte string through every byte-level codec, as an
// encoder input and as a decoder input.
func (r *runner) oneBytes(s string, sample bool) {
	c := r.c
	hx := hexs(s)
	cas := Case{Kind: "bytes", Hex: hx}
	c.Eval("bytes:"+hx, nontrivBytes(s))
	c.Hit(fmt.Sprintf("bytes:len=%s", lenClass(len(s))))
	in := str(s)

	// ---- bin2hex
	if out, ok := r.expectStr("bin2hex", r.e.call("bin2hex", in), cas); ok {
		back, err := hex.DecodeString(out)
		if err != nil || string(back) != s || out != strings.ToLower(out) || len(out) != 2*len(s) {
			r.viol("bin2hex:reference", fmt.Sprintf("bin2hex(%x) = %q is not read back by encoding/hex", s, out), cas)
		}
		r.ask("hex\t"+hx, hexs(out), cas, "bin2hex vs Model.Codec.bin2hex")
	}
	// ---- base64_encode, and base64_decode of it
	if out, ok := r.expectStr("base64_encode", r.e.call("base64_encode", in), cas); ok {
		back, err := base64.StdEncoding.Strict().DecodeString(out)
		if err != nil || string(back) != s {
			r.viol("base64_encode:reference", fmt.Sprintf("base64_encode(%x) = %q is not read back by encoding/base64", s, out), cas)
		}
		d := r.e.call("base64_decode", str(out))
		if d.Kind != "str" || d.S != s {
			r.viol("base64:roundtrip", fmt.Sprintf("base64_decode(base64_encode(%x)) = %s", s, d), cas)
		}
		r.ask("b64e\t"+hx, hexs(out), cas, "base64_encode vs Model.Codec.base64Encode")
	}
	// ---- urlencode / urldecode
	if out, ok := r.expectStr("urlencode", r.e.call("urlencode", in), cas); ok {
		back, err := url.QueryUnescape(out)
		if err != nil || back != s || !rfc3986Encoded(out, true) {
			r.viol("urlencode:reference", fmt.Sprintf("urlencode(%x) = %q: not form-encoded / not read back by net/url", s, out), cas)
		}
		d := r.e.call("urldecode", str(out))
		if d.Kind != "str" || d.S != s {
			r.viol("urlencode:roundtrip", fmt.Sprintf("urldecode(urlencode(%x)) = %s", s, d), cas)
		}
		r.ask("urle\t"+hx, hexs(out), cas, "urlencode vs Model.Codec.urlencode")
		r.ask("forme\t"+hx, hexs(out), cas, "urlencode vs Spec.Codec.formEncode")
	}
	// ---- rawurlencode / rawurldecode
	if out, ok := r.expectStr("rawurlencode", r.e.call("rawurlencode", in), cas); ok {
		back, err := url.PathUnescape(out)
		if err != nil || back != s {
			r.viol("rawurlencode:reference", fmt.Sprintf("rawurlencode(%x) = %q is not read back by net/url", s, out), cas)
		}
		if !rfc3986Encoded(out, false) {
			r.viol("rawurlencode:reserved-unescaped", fmt.Sprintf("rawurlencode(%q) = %q leaves a byte outside the RFC 3986 unreserved set unescaped", s, out), cas)
		}
		d := r.e.call("rawurldecode", str(out))
		if d.Kind != "str" || d.S != s {
			r.viol("rawurlencode:roundtrip", fmt.Sprintf("rawurldecode(rawurlencode(%x)) = %s", s, d), cas)
		}
		r.ask("rawe\t"+hx, hexs(out), cas, "rawurlencode vs Model.Codec.rawurlencode")
		r.ask("pcte\t"+hx, hexs(out), cas, "rawurlencode vs Spec.Codec.pctEncode")
	}
	// ---- the same bytes as decoder input (mostly malformed): total, and equal to the model
	d := r.e.call("base64_decode", in)
	switch d.Kind {
	case "str":
		if ref, err := base64.StdEncoding.DecodeString(s); err != nil || string(ref) != d.S {
			r.viol("base64_decode:reference", fmt.Sprintf("base64_decode(%x) = %x, encoding/base64 says %x %v", s, d.S, ref, err), cas)
		}
		r.ask("b64d\t"+hx, "some:"+hexs(d.S), cas, "base64_decode vs Model.Codec.base64Decode")
		c.Hit("b64d:ok")
	case "false":
		if _, err := base64.StdEncoding.DecodeString(s); err == nil {
			r.viol("base64_decode:reference", fmt.Sprintf("base64_decode(%x) = false but encoding/base64 accepts", s), cas)
		}
		r.ask("b64d\t"+hx, "none", cas, "base64_decode vs Model.Codec.base64Decode")
		c.Hit("b64d:false")
	default:
		r.viol("base64_decode:"+d.Kind, fmt.Sprintf("base64_decode(%x) → %s", s, d), cas)
	}
	for _, fn := range []struct{ name, op string }{{"urldecode", "urld"}, {"rawurldecode", "rawd"}} {
		d := r.e.call(fn.name, in)
		if d.Kind != "str" {
			r.viol(fn.name+":"+d.Kind, fmt.Sprintf("%s(%x) → %s", fn.name, s, d), cas)
			continue
		}
		if d.S != s {
			c.Hit(fn.op + ":changed")
		}
		r.ask(fn.op+"\t"+hx, hexs(d.S), cas, fn.name+" vs Model.Codec")
	}
	if sample {
		c.SampleSome(map[string]any{"bytes": hx}, 4099)
	}
}

func lenClass(n int) string {
	switch {
	case n <= 2:
		return fmt.Sprint(n)
	case n <= 16:
		return "3-16"
	case n <= 256:
		return "17-256"
	default:
		return "257-4096"
	}
}

// digests: compared with crypto/* only; the model contributes "hex of the digest bytes".
func (r *runner) oneDigest(s string) {
	c := r.c
	cas := Case{Kind: "bytes", Hex: hexs(s), Sub: "digest"}
	c.Eval("digest:"+cas.Hex, len(s) > 0)
	m := md5.Sum([]byte(s))
	if out, ok := r.expectStr("md5", r.e.call("md5", str(s)), cas); ok {
		if out != hex.EncodeToString(m[:]) {
			r.viol("md5:reference", fmt.Sprintf("md5(%x) = %q, crypto/md5 says %x", s, out, m), cas)
		}
		r.ask("hex\t"+hexs(string(m[:])), hexs(out), cas, "md5 = hex ∘ H")
	}
	if out, ok := r.expectStr("md5", r.e.call("md5", str(s), data.NewBoolValue(true)), cas); ok && out != string(m[:]) {
		r.viol("md5:raw", fmt.Sprintf("md5(%x, true) is not the raw digest", s), cas)
	}
	s1 := sha1.Sum([]byte(s))
	s256 := sha256.Sum256([]byte(s))
	s512 := sha512.Sum512([]byte(s))
	for _, a := range []struct {
		algo string
		want []byte
	}{{"md5", m[:]}, {"sha1", s1[:]}, {"sha256", s256[:]}, {"sha512", s512[:]}} {
		if out, ok := r.expectStr("hash", r.e.call("hash", str(a.algo), str(s)), cas); ok {
			if out != hex.EncodeToString(a.want) {
				r.viol("hash:reference", fmt.Sprintf("hash(%s, %x) = %q differs from crypto/*", a.algo, s, out), cas)
			}
			r.ask("hex\t"+hexs(string(a.want)), hexs(out), cas, "hash = hex ∘ H")
		}
	}
}

// boundary pool for byte strings
func bytePool() []string {
	all := make([]byte, 256)
	for i := range all {
		all[i] = byte(i)
	}
	p := []string{
		"", "a", "ab", "abc", "abcd", "abcde", "abcdef",
		string(all), strings.Repeat("\x00", 7), strings.Repeat("\xff", 8),
		"\"quoted\" 'single' back\\slash", "line1\nline2\r\n\ttab", "\x00\x01\x02\x7f\x80\xfe\xff",
		"héllo wörld", "日本語テキスト", "emoji 😀 ok", "\xc3\x28 bad utf8 \xe2\x82", "&=+ $:@;,/?#[]!*'()",
		"a b+c%20d%2", "%", "%4", "%41", "%zz", "%%41", "+", "100%", "====", "YQ==", "YQ=", "YQ", "Y", "YWI=", "YWJj", "YW\nJj", "YWJj\r\n", "YQ==YQ==", "YR==", "=", "a=b&c=d",
		"~-._", strings.Repeat("A", 4096), strings.Repeat("\xf0\x9f\x98\x80", 1024),
	}
	return p
}

func (r *runner) randBytes(max int) string {
	rd := r.c.Rand
	n := rd.Intn(max + 1)
	b := make([]byte, n)
	mode := rd.Intn(5)
	for i := range b {
		switch mode {
		case 0: // any byte
			b[i] = byte(rd.Intn(256))
		case 1: // url-ish
			const u = "abcXYZ019-_.~ +%&=/?%%2Ff"
			b[i] = u[rd.Intn(len(u))]
		case 2: // base64-ish
			const u = "ABCabc012+/=\n\rYQ=="
			b[i] = u[rd.Intn(len(u))]
		case 3: // high bytes / utf-8
			b[i] = byte(0x80 + rd.Intn(128))
		default:
			b[i] = byte(0x20 + rd.Intn(95))
		}
	}
	return string(b)
}

func (r *runner) bytesCodecs() {
	c := r.c
	for _, s := range bytePool() {
		r.oneBytes(s, true)
		r.oneDigest(s)
	}
	// complete: all single bytes and all byte pairs
	for a := 0; a < 256; a++ {
		r.oneBytes(string([]byte{byte(a)}), false)
	}
	for a := 0; a < 256; a++ {
		for b := 0; b < 256; b++ {
			r.oneBytes(string([]byte{byte(a), byte(b)}), false)
		}
	}
	// base64 decoder: all quanta shapes around padding (4 chars from a small alphabet)
	alpha := "AQ/=\nz"
	var rec func(prefix string, n int)
	rec = func(prefix string, n int) {
		if n == 0 {
			r.oneBytes(prefix, false)
			return
		}
		for i := 0; i < len(alpha); i++ {
			rec(prefix+string(alpha[i]), n-1)
		}
	}
	for n := 3; n <= 5; n++ {
		rec("", n)
	}
	// percent decoder: all triples from a small alphabet
	alpha = "%4gF+a"
	for n := 3; n <= 4; n++ {
		rec("", n)
	}
	// seeded
	n := c.N(3000, 400000)
	for i := 0; i < n; i++ {
		max := 64
		if i%50 == 0 {
			max = 4096
		}
		s := r.randBytes(max)
		r.oneBytes(s, true)
		if i%10 == 0 {
			r.oneDigest(s)
		}
	}
}
