package c14

// Marker injection (round 7). A decoder that looks at its input — or at a string it has just
// decoded — for a literal (a prefix, a magic word, a type tag: `__origami_a:`, `N;`, `b:` …)
// embeds a second grammar in the value space of the first. Whether an ordinary value that
// happens to carry the literal survives the round trip depends on the ORDER of the readers.
// The seeded streams never produced such values (and `oneUnser` used to skip every input
// containing `__origami_`), so this stream builds them systematically:
//
//   markers  = every string literal of the decoders' sources (std/php/{unserialize,json_decode,
//              base64_decode,urldecode,rawurldecode}.go, std/serializer/json, std/protowire/parser.go)
//              read with go/parser from the tree under test, split into literals in a comparison
//              position (argument of strings./bytes. HasPrefix / HasSuffix / Contains / Index /
//              TrimPrefix / Cut / EqualFold …, operand of == / !=, case label) and all others;
//   payloads = empty, valid texts of the grammars a marker may introduce (JSON arrays / objects /
//              scalars, serialize tokens), invalid ones;
//   values   = marker+payload, payload+marker, " "+marker+payload, marker alone — as a top-level
//              string, inside a list, as key and value of a keyed array, as a named slot;
//   checks   = the ordinary ones (`oneSer`, `oneJSON`, `oneBytes`): decode(encode(v)) is v, the
//              encoder's text is read as v by the independent reference reader, the Lean model
//              answers the same.
//
// Texts that ARE legacy wrappers (the strict reader refuses them, `s:` + wrapper between the
// first and the last quote) are given to unserialize as well: the outcome is `false` or an
// array, never a panic, and the model classifies them the same way (`legacy`).

import (
	"go/ast"
	"go/parser"
	"go/token"
	"path/filepath"
	"sort"
	"strconv"
	"strings"
	"unicode/utf8"
)

var markerFiles = []string{
	"std/php/unserialize.go", "std/php/json_decode.go", "std/php/base64_decode.go", "std/php/urldecode.go",
	"std/php/rawurldecode.go", "std/serializer/json/json_serializer.go", "std/protowire/parser.go",
}

// fallbackMarkers: used when the sources cannot be read (replay without --repo); the pinned tree's list
var fallbackMarkers = []string{"__origami_a:", "__origami_o:", "N;", "b:", "i:", "d:", "s:", "a:", "b:0;", "b:1;", "NAN", "INF", "-INF"}

var cmpFuncs = map[string]bool{"HasPrefix": true, "HasSuffix": true, "Contains": true, "ContainsAny": true, "Index": true, "LastIndex": true,
	"IndexAny": true, "TrimPrefix": true, "TrimSuffix": true, "CutPrefix": true, "CutSuffix": true, "Cut": true, "EqualFold": true, "Equal": true,
	"Split": true, "SplitN": true, "Count": true, "TrimLeft": true, "TrimRight": true, "Trim": true}

// collectMarkers: (literals in a comparison position, all other literals), each sorted, distinct, 1..40 bytes
func collectMarkers(repo string) ([]string, []string) {
	cmp, other := map[string]bool{}, map[string]bool{}
	if repo == "" {
		return append([]string{}, fallbackMarkers...), nil
	}
	fset := token.NewFileSet()
	lit := func(e ast.Expr) (string, bool) {
		switch t := e.(type) {
		case *ast.BasicLit:
			if t.Kind == token.STRING {
				s, err := strconv.Unquote(t.Value)
				return s, err == nil
			}
			if t.Kind == token.CHAR {
				s, err := strconv.Unquote(t.Value)
				return s, err == nil
			}
		case *ast.CallExpr: // []byte("…")
			if len(t.Args) == 1 {
				if _, ok := t.Fun.(*ast.ArrayType); ok {
					if b, ok := t.Args[0].(*ast.BasicLit); ok && b.Kind == token.STRING {
						s, err := strconv.Unquote(b.Value)
						return s, err == nil
					}
				}
			}
		}
		return "", false
	}
	read := 0
	for _, rel := range markerFiles {
		f, err := parser.ParseFile(fset, filepath.Join(repo, rel), nil, 0)
		if err != nil {
			continue
		}
		read++
		ast.Inspect(f, func(n ast.Node) bool {
			switch t := n.(type) {
			case *ast.ImportSpec:
				return false
			case *ast.CallExpr:
				if sel, ok := t.Fun.(*ast.SelectorExpr); ok && cmpFuncs[sel.Sel.Name] {
					for _, a := range t.Args {
						if s, ok := lit(a); ok {
							cmp[s] = true
						}
					}
				}
			case *ast.BinaryExpr:
				if t.Op == token.EQL || t.Op == token.NEQ {
					for _, a := range []ast.Expr{t.X, t.Y} {
						if s, ok := lit(a); ok {
							cmp[s] = true
						}
					}
				}
			case *ast.CaseClause:
				for _, a := range t.List {
					if s, ok := lit(a); ok {
						cmp[s] = true
					}
				}
			case *ast.BasicLit:
				if s, ok := lit(t); ok {
					other[s] = true
				}
			}
			return true
		})
	}
	if read == 0 {
		return append([]string{}, fallbackMarkers...), nil
	}
	clean := func(m map[string]bool, not map[string]bool) []string {
		var l []string
		for s := range m {
			if len(s) >= 1 && len(s) <= 40 && (not == nil || !not[s]) {
				l = append(l, s)
			}
		}
		sort.Strings(l)
		return l
	}
	return clean(cmp, nil), clean(other, cmp)
}

// payloads that may follow a marker: nothing, texts of the grammars a wrapper could carry (valid), broken ones
var markerPayloads = []string{"", "[]", "[1,2]", "[\"x\",[null]]", "{}", "{\"a\":1}", "{\"a\":{\"b\":[1]}}", "null", "1", "\"x\"",
	"x", "[", "{\"a\":", "[1,2]x", "1;", "0:\"\";", "1:{i:0;N;}", "\";", "\x00"}

var markerPayloadsShort = []string{"", "[]", "x"}

func (r *runner) markerValue(s string, full bool) {
	c := r.c
	c.Hit("marker:value")
	r.oneSer(pv{K: 'S', S: s})
	r.oneSer(pv{K: 'A', Items: []pv{{K: 'S', S: s}}})
	r.oneSer(pv{K: 'O', Items: []pv{{K: 'S', S: s}}, Keys: []string{s}})
	if full {
		if _, err := strconv.Atoi(s); err != nil && s != "" {
			r.oneSer(pv{K: 'K', Items: []pv{{K: 'I', I: 7}, {K: 'S', S: s}}, Keys: []string{"", s}})
		}
		r.oneSer(pv{K: 'A', Items: []pv{{K: 'I', I: 1}, {K: 'A', Items: []pv{{K: 'S', S: s}, {K: 'S', S: s}}}}})
	}
	if utf8.ValidString(s) {
		r.oneJSON(pv{K: 'S', S: s})
		r.oneJSON(pv{K: 'A', Items: []pv{{K: 'S', S: s}}})
		if s != "" {
			r.oneJSON(pv{K: 'O', Items: []pv{{K: 'S', S: s}}, Keys: []string{s}})
		}
	}
	if full && len(s) <= 64 {
		r.oneBytes(s, false)
	}
}

// markerText: the marker-carrying string inside hand-made serialize texts whose declared length is
// right, wrong by one, or whose tail carries more bytes — the inputs on which a sniffing reader
// and the exact reader may disagree
func (r *runner) markerText(s string) {
	n := len(s)
	for _, t := range []string{
		"s:" + strconv.Itoa(n) + ":\"" + s + "\";",
		"s:" + strconv.Itoa(n+1) + ":\"" + s + "\";",
		"s:" + strconv.Itoa(n) + ":\"" + s + "\";x",
		"s:" + strconv.Itoa(n) + ":\"" + s + "\"",
		"s:0:\"" + s + "\";",
		" s:" + strconv.Itoa(n) + ":\"" + s + "\";\n",
		"a:1:{i:0;s:" + strconv.Itoa(n) + ":\"" + s + "\";}",
		"a:1:{s:" + strconv.Itoa(n) + ":\"" + s + "\";i:1;}",
		s,
	} {
		r.c.Hit("marker:text")
		r.oneUnser(t, "marker")
	}
	if utf8.ValidString(s) {
		q := strconv.Quote(s)
		if jsonNormOK(q) {
			r.oneJSONText(q, "marker")
			r.oneJSONText("["+q+"]", "marker")
		}
		r.oneJSONText(s, "marker")
	}
}

func jsonNormOK(q string) bool { _, ok := jsonNorm(q, true); return ok }

func (r *runner) markerLayer() {
	c := r.c
	cmp, other := collectMarkers(c.Repo)
	c.Note("marker stream: %d literal(s) in a comparison position, %d other literal(s) of the decoders", len(cmp), len(other))
	for _, m := range cmp {
		c.Hit("marker:cmp-literal")
		for _, p := range markerPayloads {
			for _, s := range []string{m + p, p + m, " " + m + p, m + m + p} {
				r.markerValue(s, true)
			}
			r.markerText(m + p)
		}
	}
	for _, m := range other {
		c.Hit("marker:other-literal")
		for _, p := range markerPayloadsShort {
			r.markerValue(m+p, false)
		}
		r.markerText(m)
	}
	// seeded: a marker followed / preceded by generated strings, and by serializations / JSON texts of generated values
	if len(cmp) == 0 {
		return
	}
	n := c.N(600, 60000)
	for i := 0; i < n; i++ {
		m := cmp[c.Rand.Intn(len(cmp))]
		var p string
		switch c.Rand.Intn(4) {
		case 0:
			p = r.genStr()
		case 1:
			if res := r.e.call("json_encode", r.genJSONValue(2).toData()); res.Kind == "str" {
				p = res.S
			}
		case 2:
			if res := r.e.call("serialize", r.genPV(2).toData()); res.Kind == "str" {
				p = res.S
			}
		default:
			p = cmp[c.Rand.Intn(len(cmp))] + r.genStr()
		}
		if len(p) > 512 {
			continue
		}
		s := m + p
		if c.Rand.Chance(20) {
			s = r.genStr() + s
		}
		r.markerValue(s, c.Rand.Chance(30))
		if c.Rand.Chance(30) {
			r.markerText(s)
		}
	}
}

// isLegacyWrapper: the text (already trimmed) is one the strict reader refuses, starts with `s:` and carries one of the
// legacy wrappers between its first and its last double quote — exactly the inputs `Call` hands to the compatibility
// branch when the exact reader comes first. Everything else containing `__origami_` is an ordinary input.
func isLegacyWrapper(t string) bool {
	if _, ok := refUnserialize(t); ok || !strings.HasPrefix(t, "s:") {
		return false
	}
	f, l := strings.IndexByte(t, '"'), strings.LastIndexByte(t, '"')
	if f < 0 || l <= f {
		return false
	}
	content := t[f+1 : l]
	return strings.HasPrefix(content, "__origami_a:") || strings.HasPrefix(content, "__origami_o:")
}
