package c14

import (
	"encoding/json"
	"fmt"
	"math"
	"math/big"
	"strconv"
	"strings"

	"github.com/php-any/origami/data"
)

// ---------------------------------------------------------------- number texts at the float <-> int boundary
//
// Every decoder path that turns a number text into an int or a float (json_decode with and without assoc, at the top
// level, inside a list, inside an object; unserialize `d:` and `i:`) is run on number texts around every
// representability edge and judged by exact arithmetic (math/big; neither strconv nor the Lean model is involved):
//
//   V      = the rational the text denotes (mantissa x 10^exp)
//   RN(V)  = the float64 nearest to V, ties to even (big.Rat.Float64), +-Inf beyond the range, signed zero
//
//   * a number comes back as a number (a well-formed text is not refused);
//   * an int64 literal comes back as exactly that int;
//   * an int answer n to any other text is the real number RN(V) (never a wrapped / saturated conversion), and
//     RN(V) lies in [-2^63, 2^63);
//   * a float answer is RN(V) bit for bit;
//   * which of the two it is follows the path's documented rule (assoc: int iff int64 literal or RN(V) integral in
//     [-2^63, 2^63); default path: int iff int64 literal);
//   * json_decode(json_encode(f)) is the real number f on both paths, and encoding/json reads json_encode(f) as f.

var (
	two63    = new(big.Int).Lsh(big.NewInt(1), 63)
	negTwo63 = new(big.Int).Neg(two63)
)

type numRef struct {
	ok      bool
	lit     bool     // -?(0|[1-9][0-9]*) and nothing else
	inInt64 bool     // lit and the value fits int64
	v       *big.Rat // nil: exponent out of the range handled exactly (huge / tiny tell which way)
	f       float64  // RN(V)
	intV    *big.Int // V when V is an integer (and v != nil)
}

// parseNum: an independent reader of the JSON number grammar.
func parseNum(t string) numRef {
	i, neg := 0, false
	if i < len(t) && t[i] == '-' {
		neg = true
		i++
	}
	ds := i
	for i < len(t) && t[i] >= '0' && t[i] <= '9' {
		i++
	}
	if i == ds || (t[ds] == '0' && i-ds > 1) {
		return numRef{}
	}
	digits := t[ds:i]
	frac := ""
	lit := true
	if i < len(t) && t[i] == '.' {
		lit = false
		i++
		fs := i
		for i < len(t) && t[i] >= '0' && t[i] <= '9' {
			i++
		}
		if i == fs {
			return numRef{}
		}
		frac = t[fs:i]
	}
	exp := new(big.Int)
	if i < len(t) && (t[i] == 'e' || t[i] == 'E') {
		lit = false
		i++
		es := i
		if i < len(t) && (t[i] == '+' || t[i] == '-') {
			i++
		}
		xs := i
		for i < len(t) && t[i] >= '0' && t[i] <= '9' {
			i++
		}
		if i == xs {
			return numRef{}
		}
		exp.SetString(strings.TrimPrefix(t[es:i], "+"), 10)
	}
	if i != len(t) {
		return numRef{}
	}
	m, _ := new(big.Int).SetString(digits+frac, 10)
	e10 := new(big.Int).Sub(exp, big.NewInt(int64(len(frac))))
	ref := numRef{ok: true, lit: lit}
	signZero := func() float64 {
		if neg {
			return math.Copysign(0, -1)
		}
		return 0
	}
	switch {
	case m.Sign() == 0:
		ref.v = new(big.Rat)
		ref.intV = new(big.Int)
		ref.f = signZero()
	case e10.IsInt64() && e10.Int64() >= -6000 && e10.Int64() <= 6000:
		if neg {
			m.Neg(m)
		}
		p := new(big.Int).Exp(big.NewInt(10), new(big.Int).Abs(e10), nil)
		if e10.Sign() >= 0 {
			ref.v = new(big.Rat).SetInt(m.Mul(m, p))
		} else {
			ref.v = new(big.Rat).SetFrac(m, p)
		}
		if ref.v.IsInt() {
			ref.intV = new(big.Int).Set(ref.v.Num())
		}
		ref.f, _ = ref.v.Float64()
		if ref.f == 0 {
			ref.f = signZero()
		}
	default: // |exponent| beyond 6000: the position of the leading digit decides
		lead := new(big.Int).Add(e10, big.NewInt(int64(len(m.String()))))
		if lead.Sign() > 0 {
			ref.f = math.Inf(1)
			if neg {
				ref.f = math.Inf(-1)
			}
		} else {
			ref.f = signZero()
		}
	}
	if lit && ref.intV != nil && ref.intV.IsInt64() {
		ref.inInt64 = true
	}
	return ref
}

// floatInt: the integer a finite integral float64 is (nil otherwise).
func floatInt(f float64) *big.Int {
	if math.IsInf(f, 0) || math.IsNaN(f) || f != math.Trunc(f) {
		return nil
	}
	n, _ := new(big.Float).SetFloat64(f).Int(nil)
	return n
}

func inInt64Range(n *big.Int) bool { return n != nil && n.Cmp(negTwo63) >= 0 && n.Cmp(two63) < 0 }

func showNum(v pv) string {
	switch v.K {
	case 'I':
		return fmt.Sprintf("int(%d)", v.I)
	case 'D':
		return "float(" + strconv.FormatFloat(v.F, 'g', -1, 64) + ")"
	}
	return v.String()
}

// judgeNum: one decoded number against the exact reference. path: "assoc" | "default" | "d" (unserialize d:).
func (r *runner) judgeNum(what, path string, ref numRef, got pv, cas Case) {
	switch got.K {
	case 'I':
		n := big.NewInt(got.I)
		if path == "d" {
			r.viol("unserialize:float-kind", what+" = "+showNum(got)+": a d: value is a float", cas)
			return
		}
		if ref.inInt64 {
			if n.Cmp(ref.intV) != 0 {
				r.viol("json_decode:number-value", fmt.Sprintf("%s = %s, the literal is %s", what, showNum(got), ref.intV), cas)
			}
			return
		}
		fi := floatInt(ref.f)
		if fi == nil || fi.Cmp(n) != 0 || !inInt64Range(fi) {
			r.viol("json_decode:number-value", fmt.Sprintf("%s = %s, the number is %s (nearest float %s): the int is not the value that was read",
				what, showNum(got), clip(ratText(ref)), strconv.FormatFloat(ref.f, 'g', -1, 64)), cas)
			return
		}
		if path == "default" {
			r.viol("json_decode:number-kind", what+" = "+showNum(got)+": the default path reads a text with fraction / exponent / beyond int64 as a float", cas)
			return
		}
		if ref.intV == nil || ref.intV.Cmp(n) != 0 { // int answer, but the text does not denote that integer (rounded on the way)
			r.viol("json_decode:int-from-rounded-float", fmt.Sprintf("%s = %s, an int, but the text denotes %s", what, showNum(got), clip(ratText(ref))), cas)
		}
	case 'D':
		if ref.inInt64 && path != "d" {
			r.viol("json_decode:number-kind", fmt.Sprintf("%s = %s: an int64 literal is read as a float", what, showNum(got)), cas)
			return
		}
		if math.Float64bits(got.F) != math.Float64bits(ref.f) {
			sig := "json_decode:number-value"
			if path == "d" {
				sig = "unserialize:float-value"
			}
			r.viol(sig, fmt.Sprintf("%s = %s, the nearest float to %s is %s", what, showNum(got), clip(ratText(ref)), strconv.FormatFloat(ref.f, 'g', -1, 64)), cas)
			return
		}
		if path == "assoc" && inInt64Range(floatInt(ref.f)) {
			r.viol("json_decode:number-kind", what+" = "+showNum(got)+": the assoc path reads an integral value within int64 as an int", cas)
		}
	default:
		sig := "json_decode:rejects-valid:number"
		if path == "d" {
			sig = "unserialize:float-value"
		} else if math.IsInf(ref.f, 0) && path == "default" {
			sig = "json_decode:rejects-valid:number-overflow"
		}
		r.viol(sig, fmt.Sprintf("%s = %s: a well-formed number is not read as a number", what, clip(got.String())), cas)
	}
}

func ratText(ref numRef) string {
	if ref.v == nil {
		return "a number beyond 10^±6000"
	}
	if ref.intV != nil {
		return ref.intV.String()
	}
	return ref.v.FloatString(30)
}

// oneNumText: the text through json_decode (both paths x top level / list element / object member) and unserialize.
func (r *runner) oneNumText(t, how string) {
	c := r.c
	ref := parseNum(t)
	cas := Case{Kind: "jsonnum", Hex: hexs(t), Sub: "text"}
	c.Eval("jsonnum:"+t, !ref.lit || !ref.inInt64)
	c.Hit("jsonnum:" + how)
	if !ref.ok || !json.Valid([]byte(t)) {
		c.Note("jsonnum: generator produced a text that is not a JSON number: %q", t)
		return
	}
	for _, assoc := range []bool{true, false} {
		path := "default"
		if assoc {
			path = "assoc"
		}
		for ctx, doc := range []string{t, "[" + t + "]", `{"a":` + t + `}`, `[[0,{"k":[` + t + `,1]}]]`} {
			var d callRes
			if assoc {
				d = r.e.call("json_decode", str(doc), data.NewBoolValue(true))
			} else {
				d = r.e.call("json_decode", str(doc))
			}
			what := fmt.Sprintf("json_decode('%s'%s)", clip(doc), map[bool]string{true: ", true", false: ""}[assoc])
			if d.Kind == "panic" || d.Kind == "throw" {
				r.viol("json_decode:"+d.Kind, what+" → "+d.String(), cas)
				continue
			}
			got := pv{K: '?'}
			if d.V != nil {
				got = fromData(d.V)
				for _, step := range [][]int{nil, {0}, {0}, {0, 1, 0, 0}}[ctx] {
					if (got.K == 'A' || got.K == 'O' || got.K == 'K') && step < len(got.Items) {
						got = got.Items[step]
					} else {
						got = pv{K: '?'}
					}
				}
			}
			r.judgeNum(what, path, ref, got, cas)
		}
	}
	// unserialize: every JSON number is a float lexeme of the format; an integer literal is an `i:` payload
	u := r.e.call("unserialize", str("d:"+t+";"))
	if u.Kind == "panic" || u.Kind == "throw" {
		r.viol("unserialize:"+u.Kind, fmt.Sprintf("unserialize('d:%s;') → %s", clip(t), u), cas)
	} else if u.V != nil {
		r.judgeNum("unserialize('d:"+clip(t)+";')", "d", ref, fromData(u.V), cas)
	}
	if ref.lit {
		u = r.e.call("unserialize", str("i:"+t+";"))
		switch {
		case u.Kind == "panic" || u.Kind == "throw":
			r.viol("unserialize:"+u.Kind, fmt.Sprintf("unserialize('i:%s;') → %s", clip(t), u), cas)
		case ref.inInt64 && (u.Kind != "int" || big.NewInt(fromData(u.V).I).Cmp(ref.intV) != 0):
			r.viol("unserialize:int-value", fmt.Sprintf("unserialize('i:%s;') = %s", clip(t), unserOutcome(u)), cas)
		case !ref.inInt64 && u.Kind != "false":
			r.viol("unserialize:int-value", fmt.Sprintf("unserialize('i:%s;') = %s: the integer does not fit, no value can be the answer", clip(t), unserOutcome(u)), cas)
		}
	}
}

// oneNumFloat: json_encode(f) is read back by encoding/json as f, and by json_decode (both paths) as the real number f.
func (r *runner) oneNumFloat(f float64) {
	c := r.c
	cas := Case{Kind: "jsonnum", Sub: "float", Val: fmt.Sprintf("%016x", math.Float64bits(f))}
	c.Eval("jsonnum:f:"+cas.Val, f != math.Trunc(f) || math.Abs(f) >= 1<<53)
	c.Hit("jsonnum:float")
	for ctx, v := range []data.Value{data.NewFloatValue(f), data.NewArrayValue([]data.Value{data.NewFloatValue(f)})} {
		e := r.e.call("json_encode", v)
		if e.Kind != "str" || !json.Valid([]byte(e.S)) {
			r.viol("json_encode:float", fmt.Sprintf("json_encode(%s) = %s %q", strconv.FormatFloat(f, 'g', -1, 64), e.Kind, clip(e.S)), cas)
			continue
		}
		t := e.S
		if ctx == 1 {
			t = strings.TrimSuffix(strings.TrimPrefix(t, "["), "]")
		}
		var back float64
		if err := json.Unmarshal([]byte(t), &back); err != nil || math.Float64bits(back) != math.Float64bits(f) {
			r.viol("json_encode:float-reference", fmt.Sprintf("json_encode(%s) = %q, encoding/json reads it as %v (%v)", strconv.FormatFloat(f, 'g', -1, 64), clip(e.S), back, err), cas)
			continue
		}
		want := floatInt(f)
		for _, assoc := range []bool{true, false} {
			var d callRes
			if assoc {
				d = r.e.call("json_decode", str(e.S), data.NewBoolValue(true))
			} else {
				d = r.e.call("json_decode", str(e.S))
			}
			got := pv{K: '?'}
			if d.V != nil {
				got = fromData(d.V)
				if ctx == 1 && got.K == 'A' && len(got.Items) == 1 {
					got = got.Items[0]
				}
			}
			same := got.K == 'D' && got.F == f || got.K == 'I' && want != nil && want.Cmp(big.NewInt(got.I)) == 0
			if lit := parseNum(t); !same && got.K == 'I' && lit.inInt64 && lit.intV.Cmp(big.NewInt(got.I)) == 0 {
				// the encoder wrote an integer literal whose digits are not the float's value (shortest digits padded with zeros)
				r.viol("json:roundtrip-float:padded-integer-literal", fmt.Sprintf("json_decode(json_encode(%s) = %q, %v) = %s, the float is %s",
					strconv.FormatFloat(f, 'g', -1, 64), clip(e.S), assoc, showNum(got), want), cas)
			} else if !same {
				r.viol("json:roundtrip-float", fmt.Sprintf("json_decode(json_encode(%s) = %q, %v) = %s", strconv.FormatFloat(f, 'g', -1, 64), clip(e.S), assoc, showNum(got)), cas)
			}
		}
		if ctx == 0 && parseNum(t).ok {
			r.oneNumText(t, "encoder-output")
		}
	}
}

// numForms: spellings of the integer n: literal, with fraction, with exponents (positive, negative, normalised).
func numForms(n *big.Int) []string {
	s := n.String()
	sign, d := "", s
	if strings.HasPrefix(s, "-") {
		sign, d = "-", s[1:]
	}
	out := []string{s, s + ".0", s + ".000", s + "e0", s + "E+0", s + "0e-1", s + "000E-3", s + ".0e0"}
	if len(d) > 1 {
		out = append(out, sign+d[:1]+"."+d[1:]+"e"+strconv.Itoa(len(d)-1), sign+d[:1]+"."+d[1:]+"E+"+strconv.Itoa(len(d)-1),
			sign+"0."+d+"e"+strconv.Itoa(len(d)), sign+d[:len(d)-1]+"."+d[len(d)-1:]+"e1")
		if t := strings.TrimRight(d, "0"); len(t) < len(d) {
			out = append(out, sign+t+"e"+strconv.Itoa(len(d)-len(t)))
		}
	}
	// not integers: a half and a hair above / below
	out = append(out, s+".5", s+".25", s+".00000000000000000000000000001", s+".99999999999999999999999999999")
	return out
}

var numEdges = []uint{7, 8, 15, 16, 24, 31, 32, 52, 53, 54, 62, 63, 64, 65}

var numOffsets = []int64{0, 1, 2, 3, 255, 256, 257, 511, 512, 513, 1023, 1024, 1025, 2047, 2048, 2049}

var numSpecials = []string{"0", "-0", "0.0", "-0.0", "0e0", "-0e5", "0E-7", "1", "-1", "1.0", "1e2", "1E2", "100e-2", "1.5e1", "15e-1", "0.5", "5e-1",
	"0.1", "0.30000000000000004", "1e15", "1e17", "1e18", "1e19", "1e20", "1e21", "1e22", "1e23", "123456789012345678901234567890",
	"1e308", "1.7976931348623157e308", "1.7976931348623158e308", "1.797693134862315807e308", "1.797693134862315808e308", "1.7976931348623159e308",
	"1e309", "-1e309", "1e400", "-1e400", "1e-400", "-1e-400", "1e999999", "-1e999999", "1e-999999", "0e999999", "0.0e-999999",
	"1e99999999999999999999", "1e-99999999999999999999",
	"4.9e-324", "5e-324", "2.4703282292062327e-324", "2.4703282292062328e-324", "2.2250738585072014e-308", "2.2250738585072011e-308",
	"9007199254740993", "9007199254740993.0", "9007199254740992.5", "9223372036854775807.5", "9223372036854775807.49999", "-9223372036854775808.5",
	"9.223372036854775807e18", "9.223372036854775808e18", "-9.223372036854775808e18", "-9.223372036854775809e18", "92233720368547758.08e2",
	"0.9223372036854775808e19", "9223372036854775808e0", "922337203685477580.8e1", "18446744073709551615", "18446744073709551616", "1.8446744073709551616e19",
	strings.Repeat("9", 400), "0." + strings.Repeat("0", 400) + "1", "1" + strings.Repeat("0", 30) + "e-30", "1" + strings.Repeat("0", 30) + ".0e-30"}

// floats at the edges: 2^k and its neighbours, both signs
func numEdgeFloats() []float64 {
	var out []float64
	for _, k := range []int{0, 1, 10, 24, 31, 32, 52, 53, 54, 62, 63, 64, 65, 100, 1023, -1, -10, -1022, -1074} {
		p := math.Ldexp(1, k)
		for _, f := range []float64{p, math.Nextafter(p, 0), math.Nextafter(p, math.Inf(1)), p + 1, p - 1, p + 0.5, p * 1.5} {
			out = append(out, f, -f)
		}
	}
	return append(out, 0, math.Copysign(0, -1), math.MaxFloat64, -math.MaxFloat64, math.SmallestNonzeroFloat64, 0.1, 0.1+0.2, 1e15, 1e17, 1e21, 1e22, 1e-7, 123456.789)
}

func (r *runner) numberLayer() {
	c := r.c
	seen := map[string]bool{}
	run := func(t, how string) {
		if !seen[t] {
			seen[t] = true
			r.oneNumText(t, how)
		}
	}
	for _, t := range numSpecials {
		run(t, "special")
	}
	for _, k := range numEdges {
		p := new(big.Int).Lsh(big.NewInt(1), k)
		for _, off := range numOffsets {
			for _, sgnOff := range []int64{1, -1} {
				for _, neg := range []bool{false, true} {
					n := new(big.Int).Add(p, big.NewInt(off*sgnOff))
					if neg {
						n.Neg(n)
					}
					forms := numForms(n)
					if off > 3 && off != 1024 && off != 1025 && off != 512 && off != 513 && !c.Thorough() { // quick: every spelling at the near offsets, the literal and two spellings further out
						forms = forms[:3]
					}
					for _, t := range forms {
						run(t, "edge")
					}
				}
			}
		}
	}
	for _, f := range numEdgeFloats() {
		r.oneNumFloat(f)
	}
	// seeded: integers near an edge in a random spelling, random decimals, random floats
	rd := c.Rand
	n := c.N(1500, 60000)
	for i := 0; i < n; i++ {
		switch rd.Intn(4) {
		case 0, 1:
			p := new(big.Int).Lsh(big.NewInt(1), numEdges[rd.Intn(len(numEdges))])
			p.Add(p, big.NewInt(int64(rd.Intn(8193))-4096))
			if rd.Chance(50) {
				p.Neg(p)
			}
			f := numForms(p)
			run(f[rd.Intn(len(f))], "seeded-edge")
		case 2:
			var sb strings.Builder
			if rd.Chance(40) {
				sb.WriteByte('-')
			}
			nd := 1 + rd.Intn(24)
			for j := 0; j < nd; j++ {
				dg := byte('0' + rd.Intn(10))
				if j == 0 && nd > 1 && dg == '0' {
					dg = '9'
				}
				sb.WriteByte(dg)
			}
			if rd.Chance(50) {
				sb.WriteByte('.')
				for j, m := 0, 1+rd.Intn(20); j < m; j++ {
					sb.WriteByte(byte('0' + rd.Intn(10)))
				}
			}
			if rd.Chance(50) {
				sb.WriteString([]string{"e", "E", "e+", "e-", "E-"}[rd.Intn(5)])
				sb.WriteString(strconv.Itoa(rd.Intn([]int{4, 25, 330, 5000}[rd.Intn(4)])))
			}
			run(sb.String(), "seeded-decimal")
		default:
			f := r.genFloat()
			if !math.IsInf(f, 0) && !math.IsNaN(f) {
				r.oneNumFloat(f)
			}
		}
	}
}

func (r *runner) replayNum(cas Case) {
	if cas.Sub == "float" {
		bits, err := strconv.ParseUint(cas.Val, 16, 64)
		if err != nil {
			r.c.Note("bad float bits %q", cas.Val)
			return
		}
		r.oneNumFloat(math.Float64frombits(bits))
		return
	}
	b, _ := unhex(cas.Hex)
	r.oneNumText(string(b), "replay")
}
