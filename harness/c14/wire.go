package c14

import (
	"encoding/base64"
	"fmt"
	"sort"
	"strconv"
	"strings"

	pwire "github.com/php-any/origami/std/protowire"
	pw "google.golang.org/protobuf/encoding/protowire"
)

// ---------------------------------------------------------------- field trees

// node is one field of a tree; kind: V Q D B P M G (model syntax).
type node struct {
	Kind byte
	Num  int32
	U    uint64   // V Q D
	B    []byte   // B
	Et   int32    // P
	Vs   []uint64 // P
	Kids []node   // M G
}

func treeString(ns []node) string {
	parts := make([]string, len(ns))
	for i, n := range ns {
		switch n.Kind {
		case 'V', 'Q', 'D':
			parts[i] = fmt.Sprintf("%c%d:%d", n.Kind, n.Num, n.U)
		case 'B':
			parts[i] = fmt.Sprintf("B%d:%s", n.Num, hexs(string(n.B)))
		case 'P':
			vs := make([]string, len(n.Vs))
			for j, v := range n.Vs {
				vs[j] = strconv.FormatUint(v, 10)
			}
			parts[i] = fmt.Sprintf("P%d:%d:%s", n.Num, n.Et, strings.Join(vs, ","))
		case 'M', 'G':
			parts[i] = fmt.Sprintf("%c%d{%s}", n.Kind, n.Num, treeString(n.Kids))
		}
	}
	return strings.Join(parts, ";")
}

// encodeRef lays a tree out with Google's Append* (the reference encoder).
func encodeRef(ns []node) []byte {
	var b []byte
	for _, n := range ns {
		switch n.Kind {
		case 'V':
			b = pw.AppendTag(b, pw.Number(n.Num), pw.VarintType)
			b = pw.AppendVarint(b, n.U)
		case 'Q':
			b = pw.AppendTag(b, pw.Number(n.Num), pw.Fixed64Type)
			b = pw.AppendFixed64(b, n.U)
		case 'D':
			b = pw.AppendTag(b, pw.Number(n.Num), pw.Fixed32Type)
			b = pw.AppendFixed32(b, uint32(n.U))
		case 'B':
			b = pw.AppendTag(b, pw.Number(n.Num), pw.BytesType)
			b = pw.AppendBytes(b, n.B)
		case 'P':
			var p []byte
			for _, v := range n.Vs {
				switch n.Et {
				case 0:
					p = pw.AppendVarint(p, v)
				case 5:
					p = pw.AppendFixed32(p, uint32(v))
				default:
					p = pw.AppendFixed64(p, v)
				}
			}
			b = pw.AppendTag(b, pw.Number(n.Num), pw.BytesType)
			b = pw.AppendBytes(b, p)
		case 'M':
			b = pw.AppendTag(b, pw.Number(n.Num), pw.BytesType)
			b = pw.AppendBytes(b, encodeRef(n.Kids))
		case 'G':
			b = pw.AppendTag(b, pw.Number(n.Num), pw.StartGroupType)
			b = append(b, encodeRef(n.Kids)...)
			b = pw.AppendTag(b, pw.Number(n.Num), pw.EndGroupType)
		}
	}
	return b
}

// nest = number of message/group levels below the top level
func nestOf(ns []node) int {
	d := 0
	for _, n := range ns {
		if n.Kind == 'M' || n.Kind == 'G' {
			if k := 1 + nestOf(n.Kids); k > d {
				d = k
			}
		}
	}
	return d
}

// fits mirrors Spec.Wire.Fits: the depth budget of the parser as coded.
func fits(ns []node, d, max int) bool {
	for _, n := range ns {
		switch n.Kind {
		case 'M':
			if !(d+1 < max) || !fits(n.Kids, d+1, max) {
				return false
			}
		case 'G':
			if !(d < max) || !fits(n.Kids, d+1, max) {
				return false
			}
		}
	}
	return true
}

// fieldsToNodes canonicalises the parser's result.
func fieldsToNodes(fs []pwire.Field) ([]node, error) {
	out := make([]node, 0, len(fs))
	for _, f := range fs {
		n := node{Num: f.Number}
		switch v := f.Value.(type) {
		case uint64:
			if f.WireType == 0 {
				n.Kind = 'V'
			} else if f.WireType == 1 {
				n.Kind = 'Q'
			} else {
				return nil, fmt.Errorf("uint64 value with wire type %d", f.WireType)
			}
			n.U = v
		case uint32:
			if f.WireType != 5 {
				return nil, fmt.Errorf("uint32 value with wire type %d", f.WireType)
			}
			n.Kind, n.U = 'D', uint64(v)
		case []byte:
			if f.WireType != 2 {
				return nil, fmt.Errorf("[]byte value with wire type %d", f.WireType)
			}
			n.Kind, n.B = 'B', v
		case []uint64:
			n.Kind, n.Et, n.Vs = 'P', -64, v // element type filled in by the caller's options
		case []uint32:
			n.Kind, n.Et = 'P', 5
			for _, x := range v {
				n.Vs = append(n.Vs, uint64(x))
			}
		case []pwire.Field:
			kids, err := fieldsToNodes(v)
			if err != nil {
				return nil, err
			}
			n.Kids = kids
			switch f.WireType {
			case 2:
				n.Kind = 'M'
			case 3:
				n.Kind = 'G'
			default:
				return nil, fmt.Errorf("[]Field value with wire type %d", f.WireType)
			}
		case nil:
			// packed field with an empty payload: `var vals []T` stays a typed nil inside the interface
			return nil, fmt.Errorf("nil value")
		default:
			return nil, fmt.Errorf("value of type %T", v)
		}
		out = append(out, n)
	}
	return out, nil
}

// fillEt replaces the []uint64 marker by the configured element type.
func fillEt(ns []node, o *wopts) {
	for i := range ns {
		if ns[i].Kind == 'P' && ns[i].Et == -64 {
			ns[i].Et = o.et[ns[i].Num]
		}
		if ns[i].Kids != nil {
			fillEt(ns[i].Kids, o)
		}
	}
}

// ---------------------------------------------------------------- options

type wopts struct {
	msg    []int32
	packed []int32
	et     map[int32]int32
	etKeys []int32
	max    int
}

func (o *wopts) String() string {
	j := func(xs []int32) string {
		s := make([]string, len(xs))
		for i, x := range xs {
			s[i] = fmt.Sprint(x)
		}
		return strings.Join(s, ",")
	}
	var ets []string
	for _, k := range o.etKeys {
		ets = append(ets, fmt.Sprintf("%d:%d", k, o.et[k]))
	}
	return fmt.Sprintf("msg=%s;packed=%s;et=%s;max=%d", j(o.msg), j(o.packed), strings.Join(ets, ","), o.max)
}

func (o *wopts) real() *pwire.ParseOptions {
	p := &pwire.ParseOptions{MessageFields: map[int32]bool{}, PackedFields: map[int32]bool{}, PackedElementType: map[int32]int32{}, MaxDepth: o.max}
	for _, m := range o.msg {
		p.MessageFields[m] = true
	}
	for _, m := range o.packed {
		p.PackedFields[m] = true
	}
	for k, v := range o.et {
		p.PackedElementType[k] = v
	}
	return p
}

func parseOptString(s string) (*wopts, error) {
	o := &wopts{et: map[int32]int32{}}
	ints := func(v string) ([]int32, error) {
		if v == "" {
			return nil, nil
		}
		var out []int32
		for _, p := range strings.Split(v, ",") {
			n, err := strconv.Atoi(p)
			if err != nil {
				return nil, err
			}
			out = append(out, int32(n))
		}
		return out, nil
	}
	for _, kv := range strings.Split(s, ";") {
		k, v, _ := strings.Cut(kv, "=")
		var err error
		switch k {
		case "msg":
			o.msg, err = ints(v)
		case "packed":
			o.packed, err = ints(v)
		case "et":
			if v != "" {
				for _, p := range strings.Split(v, ",") {
					a, b, _ := strings.Cut(p, ":")
					x, e1 := strconv.Atoi(a)
					y, e2 := strconv.Atoi(b)
					if e1 != nil || e2 != nil {
						return nil, fmt.Errorf("bad et %q", p)
					}
					if _, dup := o.et[int32(x)]; !dup {
						o.etKeys = append(o.etKeys, int32(x))
					}
					o.et[int32(x)] = int32(y)
				}
			}
		case "max":
			o.max, err = strconv.Atoi(v)
		default:
			err = fmt.Errorf("bad option %q", kv)
		}
		if err != nil {
			return nil, err
		}
	}
	return o, nil
}

func readTree(s string) ([]node, error) {
	ns, rest, err := readNodes(s)
	if err != nil {
		return nil, err
	}
	if rest != "" {
		return nil, fmt.Errorf("trailing %q", rest)
	}
	return ns, nil
}

func readNodes(s string) ([]node, string, error) {
	var out []node
	for len(s) > 0 && s[0] != '}' {
		if s[0] == ';' {
			s = s[1:]
			continue
		}
		k := s[0]
		s = s[1:]
		i := 0
		for i < len(s) && s[i] >= '0' && s[i] <= '9' {
			i++
		}
		num, err := strconv.Atoi(s[:i])
		if err != nil {
			return nil, "", err
		}
		s = s[i:]
		n := node{Kind: k, Num: int32(num)}
		switch k {
		case 'M', 'G':
			if len(s) == 0 || s[0] != '{' {
				return nil, "", fmt.Errorf("expected {")
			}
			kids, rest, err := readNodes(s[1:])
			if err != nil {
				return nil, "", err
			}
			if len(rest) == 0 || rest[0] != '}' {
				return nil, "", fmt.Errorf("expected }")
			}
			n.Kids = kids
			if n.Kids == nil {
				n.Kids = []node{}
			}
			s = rest[1:]
		default:
			if len(s) == 0 || s[0] != ':' {
				return nil, "", fmt.Errorf("expected :")
			}
			s = s[1:]
			j := strings.IndexAny(s, ";}")
			if j < 0 {
				j = len(s)
			}
			body := s[:j]
			s = s[j:]
			switch k {
			case 'V', 'Q', 'D':
				n.U, err = strconv.ParseUint(body, 10, 64)
			case 'B':
				n.B, err = unhex(body)
			case 'P':
				a, b, _ := strings.Cut(body, ":")
				var et int
				et, err = strconv.Atoi(a)
				n.Et = int32(et)
				if err == nil && b != "" {
					for _, p := range strings.Split(b, ",") {
						v, e := strconv.ParseUint(p, 10, 64)
						if e != nil {
							err = e
							break
						}
						n.Vs = append(n.Vs, v)
					}
				}
			default:
				err = fmt.Errorf("bad kind %c", k)
			}
			if err != nil {
				return nil, "", err
			}
		}
		out = append(out, n)
	}
	return out, s, nil
}

// ---------------------------------------------------------------- running the real parser

// errClass maps a parser error to the model's error kinds by its message (the
// sentinel texts of parser.go), so that renaming the exported error variables
// does not break the harness.
func errClass(err error) string {
	m := err.Error()
	for _, k := range []struct{ text, class string }{
		{"maximum recursion depth exceeded", "maxDepth"},
		{"invalid tag", "tag"},
		{"invalid varint encoding", "varint"},
		{"invalid fixed64 encoding", "fixed64"},
		{"invalid fixed32 encoding", "fixed32"},
		{"invalid length-delimited encoding", "length"},
		{"unexpected end group", "endGroup"},
		{"unexpected end of data", "unexpectedEnd"},
		{"mismatched end group", "mismatch"},
		{"unsupported packed element wire type", "packedType"},
		{"PackedElementType not configured", "packedCfg"},
		{"unsupported wire type", "wireType"},
	} {
		if strings.Contains(m, k.text) {
			return k.class
		}
	}
	return "other:" + m
}

type parseOut struct {
	ok    bool
	nodes []node
	s     string // canonical: ok:<tree> | err:<class> | panic:<msg>
}

func runParse(b []byte, o *wopts) (out parseOut) {
	defer func() {
		if p := recover(); p != nil {
			out = parseOut{s: "panic:" + first(fmt.Sprint(p))}
		}
	}()
	cp := append([]byte(nil), b...)
	fs, err := pwire.ParseRawFields(cp, o.real())
	if err != nil {
		return parseOut{s: "err:" + errClass(err)}
	}
	ns, cerr := fieldsToNodes(fs)
	if cerr != nil {
		return parseOut{s: "shape:" + cerr.Error()}
	}
	fillEt(ns, o)
	return parseOut{ok: true, nodes: ns, s: "ok:" + treeString(ns)}
}

// refWalk: Google's own field walker over the top level; true iff the whole
// input is a sequence of well-formed fields (groups balanced).
func refWalk(b []byte) bool {
	for len(b) > 0 {
		_, _, n := pw.ConsumeField(b)
		if n < 0 {
			return false
		}
		b = b[n:]
	}
	return true
}

// refPackedExact: with Google's primitives only, follow the options the way the wire format
// defines them (packed before message, groups and nested messages recursively) and check that
// every packed payload is consumed exactly by elements of its declared type. Independent of the
// Lean model and of origami's unpackPacked. Malformed structure is somebody else's verdict (true).
func refPackedExact(b []byte, o *wopts, depth int) bool {
	if depth > 70 {
		return true
	}
	for len(b) > 0 {
		num, typ, n := pw.ConsumeTag(b)
		if n < 0 {
			return true
		}
		b = b[n:]
		switch typ {
		case pw.BytesType:
			payload, m := pw.ConsumeBytes(b)
			if m < 0 {
				return true
			}
			b = b[m:]
			if o.isPacked(int32(num)) {
				et, ok := o.et[int32(num)]
				if !ok {
					return true
				}
				for len(payload) > 0 {
					k := -1
					switch et {
					case 0:
						_, k = pw.ConsumeVarint(payload)
					case 5:
						_, k = pw.ConsumeFixed32(payload)
					case 1:
						_, k = pw.ConsumeFixed64(payload)
					default:
						return true
					}
					if k <= 0 {
						return false
					}
					payload = payload[k:]
				}
			} else if o.isMsg(int32(num)) {
				if !refPackedExact(payload, o, depth+1) {
					return false
				}
			}
		case pw.StartGroupType:
			// the group's content ends at the matching end tag; find it with the reference walker
			m := pw.ConsumeFieldValue(num, typ, b)
			if m < 0 {
				return true
			}
			body := b[:m]
			// strip the end-group tag (its length is that of the tag varint for (num, EndGroup))
			endLen := pw.SizeTag(num)
			if len(body) >= endLen {
				if !refPackedExact(body[:len(body)-endLen], o, depth+1) {
					return false
				}
			}
			b = b[m:]
		default:
			m := pw.ConsumeFieldValue(num, typ, b)
			if m < 0 {
				return true
			}
			b = b[m:]
		}
	}
	return true
}

func hasSub(ns []node) bool {
	for _, n := range ns {
		if n.Kind == 'M' || n.Kind == 'G' || n.Kind == 'P' {
			return true
		}
	}
	return false
}

// oneWire: arbitrary bytes through the parser (decoder totality, exact acceptance,
// byte accounting, correspondence).
func (r *runner) oneWire(b []byte, o *wopts, how string) {
	c := r.c
	hx := hexs(string(b))
	os := o.String()
	cas := Case{Kind: "wire", Hex: hx, Opts: os}
	res := runParse(b, o)
	c.Eval("wire:"+os+":"+hx, res.ok && len(res.nodes) > 0 || (!res.ok && len(b) > 2))
	c.Hit("wire:" + how)
	if res.ok {
		c.Hit("wire:ok")
	} else {
		c.Hit("wire:" + res.s)
	}
	switch {
	case strings.HasPrefix(res.s, "panic:"):
		r.viol("protowire:panic", fmt.Sprintf("ParseRawFields(%s, %s) panicked: %s", hx, os, res.s), cas)
		return
	case strings.HasPrefix(res.s, "shape:"), strings.HasPrefix(res.s, "err:other"):
		r.viol("protowire:result-shape", fmt.Sprintf("ParseRawFields(%s, %s): %s", hx, os, res.s), cas)
		return
	}
	if res.ok {
		// every byte accounted for: the reference walker accepts the whole input …
		if !refWalk(b) {
			r.viol("protowire:accepts-malformed", fmt.Sprintf("ParseRawFields(%s, %s) = %s but the input is not a sequence of well-formed fields (bytes dropped)", hx, os, res.s), cas)
		}
		// … every packed payload is exactly a sequence of elements of its declared type …
		if !refPackedExact(b, o, 0) {
			r.viol("protowire:accepts-malformed-packed", fmt.Sprintf("ParseRawFields(%s, %s) = %s but a packed payload is not a whole number of elements (trailing bytes dropped)", hx, os, res.s), cas)
		}
		// … and the result carries the same information: re-encoding it parses to the same tree and is not longer
		re := encodeRef(res.nodes)
		if len(re) > len(b) {
			r.viol("protowire:accounting", fmt.Sprintf("ParseRawFields(%s, %s): canonical re-encoding is longer (%d) than the input (%d)", hx, os, len(re), len(b)), cas)
		} else if again := runParse(re, o); again.s != res.s {
			r.viol("protowire:reparse", fmt.Sprintf("ParseRawFields(%s, %s) = %s but its re-encoding parses to %s", hx, os, res.s, again.s), cas)
		}
		effMax := o.max
		if effMax <= 0 {
			effMax = 64
		}
		if nestOf(res.nodes) > effMax {
			r.viol("protowire:depth", fmt.Sprintf("ParseRawFields(%s, %s) returned nesting %d with max depth %d", hx, os, nestOf(res.nodes), effMax), cas)
		}
	}
	r.ask("parse\t"+os+"\t"+hx, res.s, cas, "ParseRawFields vs Model.Wire.parse")
	c.SampleSome(map[string]any{"wire": hx, "opts": os, "impl": clip(res.s)}, 7919)
}

// oneTree: a well-formed tree through encoder and parser (round trip, depth limit).
func (r *runner) oneTree(t []node, o *wopts) {
	c := r.c
	ts := treeString(t)
	os := o.String()
	cas := Case{Kind: "wiretree", Tree: ts, Opts: os}
	b := encodeRef(t)
	hx := hexs(string(b))
	effMax := o.max
	if effMax <= 0 {
		effMax = 64
	}
	res := runParse(b, o)
	c.Eval("tree:"+os+":"+ts, hasSub(t))
	c.Hit(fmt.Sprintf("tree:nest=%s", depthClass(nestOf(t))))
	if fits(t, 0, effMax) {
		c.Hit("tree:fits")
		if res.s != "ok:"+ts {
			r.viol("protowire:roundtrip", fmt.Sprintf("ParseRawFields(encode(%s), %s) = %s", clip(ts), os, clip(res.s)), cas)
		}
	} else {
		c.Hit("tree:too-deep")
		if res.s != "err:maxDepth" {
			r.viol("protowire:depth", fmt.Sprintf("tree of nesting %d under max depth %d: ParseRawFields = %s (want ErrMaxDepth)", nestOf(t), effMax, clip(res.s)), cas)
		}
	}
	r.ask("enc\t"+ts, hx, cas, "protowire.Append* layout vs Spec.Wire.encode")
	r.ask("parse\t"+os+"\t"+hx, res.s, cas, "ParseRawFields vs Model.Wire.parse")
	c.SampleSome(map[string]any{"tree": clip(ts), "opts": os}, 499)
}

func depthClass(d int) string {
	switch {
	case d <= 3:
		return fmt.Sprint(d)
	case d <= 16:
		return "4-16"
	case d <= 63:
		return "17-63"
	default:
		return "64-70"
	}
}

// ---------------------------------------------------------------- primitives

func (r *runner) onePrim(b []byte) {
	c := r.c
	hx := hexs(string(b))
	cas := Case{Kind: "prim", Hex: hx}
	c.Eval("prim:"+hx, len(b) >= 2)
	f := func(op string, impl string) { r.ask(op+"\t"+hx, impl, cas, "protowire."+op+" vs Model.Wire") }
	if v, n := pw.ConsumeVarint(b); n > 0 {
		f("cv", fmt.Sprintf("%d:%d", v, n))
	} else {
		f("cv", "none")
	}
	if num, typ, n := pw.ConsumeTag(b); n > 0 {
		f("ctag", fmt.Sprintf("%d:%d:%d", num, typ, n))
	} else {
		f("ctag", "none")
	}
	if v, n := pw.ConsumeFixed32(b); n > 0 {
		f("cf32", fmt.Sprintf("%d:%d", v, n))
	} else {
		f("cf32", "none")
	}
	if v, n := pw.ConsumeFixed64(b); n > 0 {
		f("cf64", fmt.Sprintf("%d:%d", v, n))
	} else {
		f("cf64", "none")
	}
	if v, n := pw.ConsumeBytes(b); n > 0 {
		f("cbytes", fmt.Sprintf("%s:%d", hexs(string(v)), n))
	} else {
		f("cbytes", "none")
	}
}

var boundaryU64 = []uint64{0, 1, 2, 127, 128, 129, 255, 256, 16383, 16384, 1<<21 - 1, 1 << 21, 1<<28 - 1, 1 << 28, 1<<31 - 1, 1 << 31, 1<<32 - 1, 1 << 32, 1<<35 - 1, 1 << 35, 1 << 42, 1 << 49, 1<<53 - 1, 1 << 53, 1<<53 + 1, 1 << 56, 1<<63 - 1, 1 << 63, 1<<64 - 1}

func (r *runner) wirePrims() {
	c := r.c
	// encoders: boundary values through Google's Append*, origami's script-level
	// Protowire::encode* and the model
	var script strings.Builder
	script.WriteString("<?php\n")
	var want []string
	for _, v := range boundaryU64 {
		cas := Case{Kind: "prim", Sub: fmt.Sprintf("av %d", v)}
		c.Eval(cas.Sub, v >= 128)
		r.ask(fmt.Sprintf("av\t%d", v), hexs(string(pw.AppendVarint(nil, v))), cas, "AppendVarint vs Model.Wire.appendVarint")
		r.ask(fmt.Sprintf("af64\t%d", v), hexs(string(pw.AppendFixed64(nil, v))), cas, "AppendFixed64")
		r.ask(fmt.Sprintf("af32\t%d", uint32(v)), hexs(string(pw.AppendFixed32(nil, uint32(v)))), cas, "AppendFixed32")
		if v <= 1<<63-1 { // script integers are int64
			fmt.Fprintf(&script, "echo bin2hex(Protowire::encodeVarint(%d)), \"|\", bin2hex(Protowire::encodeFixed64(%d)), \"|\", bin2hex(Protowire::encodeFixed32(%d)), \"\\n\";\n", v, v, uint32(v))
			want = append(want, hexs(string(pw.AppendVarint(nil, v)))+"|"+hexs(string(pw.AppendFixed64(nil, v)))+"|"+hexs(string(pw.AppendFixed32(nil, uint32(v)))))
		}
	}
	for _, num := range []int32{1, 2, 15, 16, 2047, 2048, 19000, 1<<29 - 1, 1<<31 - 1} {
		for wt := 0; wt < 6; wt++ {
			cas := Case{Kind: "prim", Sub: fmt.Sprintf("atag %d %d", num, wt)}
			c.Eval(cas.Sub, num >= 16)
			r.ask(fmt.Sprintf("atag\t%d\t%d", num, wt), hexs(string(pw.AppendTag(nil, pw.Number(num), pw.Type(wt)))), cas, "AppendTag vs Model.Wire.appendTag")
			fmt.Fprintf(&script, "echo bin2hex(Protowire::encodeTag(%d, %d)), \"\\n\";\n", num, wt)
			want = append(want, hexs(string(pw.AppendTag(nil, pw.Number(num), pw.Type(wt)))))
		}
	}
	for _, s := range []string{"", "a", "hello", strings.Repeat("x", 127), strings.Repeat("y", 128), strings.Repeat("z", 300)} {
		cas := Case{Kind: "prim", Sub: "abytes " + hexs(s)}
		r.ask("abytes\t"+hexs(s), hexs(string(pw.AppendBytes(nil, []byte(s)))), cas, "AppendBytes vs Model.Wire.appendBytes")
		fmt.Fprintf(&script, "echo bin2hex(Protowire::encodeBytes('%s')), \"\\n\";\n", s)
		want = append(want, hexs(string(pw.AppendBytes(nil, []byte(s)))))
	}
	out := r.e.e.RunSource(script.String(), "/verif-c14-prims.php")
	got := strings.Split(strings.TrimRight(out.Out, "\n"), "\n")
	if out.Kind != "ok" || len(got) != len(want) {
		r.viol("protowire:script-encode", fmt.Sprintf("Protowire::encode* script: %s %s (%d lines, want %d)", out.Kind, out.Detail, len(got), len(want)), Case{Kind: "prim", Sub: "script"})
	} else {
		for i := range want {
			c.Eval(fmt.Sprintf("prim-script:%d", i), true)
			if got[i] != want[i] {
				r.viol("protowire:script-encode", fmt.Sprintf("Protowire::encode* line %d: got %s want %s", i, got[i], want[i]), Case{Kind: "prim", Sub: "script"})
			}
		}
	}
	// decoders: all one- and two-byte inputs, boundary encodings, overlong / overflowing varints
	for a := 0; a < 256; a++ {
		r.onePrim([]byte{byte(a)})
	}
	for a := 0; a < 256; a++ {
		for b := 0; b < 256; b++ {
			r.onePrim([]byte{byte(a), byte(b)})
		}
	}
	for _, v := range boundaryU64 {
		enc := pw.AppendVarint(nil, v)
		r.onePrim(enc)
		r.onePrim(append(append([]byte{}, enc...), 0x7f, 0x01))
		// overlong: continuation bit on the last byte plus zero bytes
		ol := append([]byte{}, enc...)
		ol[len(ol)-1] |= 0x80
		for k := 0; k < 10; k++ {
			r.onePrim(append(append([]byte{}, ol...), 0))
			ol = append(ol, 0x80)
		}
		r.onePrim(pw.AppendFixed64(nil, v))
		r.onePrim(pw.AppendFixed32(nil, uint32(v)))
	}
	for last := 0; last < 4; last++ {
		r.onePrim([]byte{0xff, 0xff, 0xff, 0xff, 0xff, 0xff, 0xff, 0xff, 0xff, byte(last)})
		r.onePrim([]byte{0x80, 0x80, 0x80, 0x80, 0x80, 0x80, 0x80, 0x80, 0x80, byte(last), 0x01})
	}
	n := c.N(2000, 400000)
	for i := 0; i < n; i++ {
		l := 1 + c.Rand.Intn(12)
		b := make([]byte, l)
		for j := range b {
			if c.Rand.Chance(60) {
				b[j] = byte(0x80 | c.Rand.Intn(128))
			} else {
				b[j] = byte(c.Rand.Intn(256))
			}
		}
		r.onePrim(b)
	}
}

// ---------------------------------------------------------------- generators

var pairOpts = []string{
	"msg=;packed=;et=;max=0",
	"msg=1,2,3,15;packed=;et=;max=0",
	"msg=;packed=1,2,3,15;et=1:0,2:5,3:1,15:0;max=0",
	"msg=1,2;packed=2,3;et=2:0,3:7;max=1",
	"msg=1,2,3;packed=15;et=;max=2",
}

// genOpts draws an option set over field numbers 1..8.
func (r *runner) genOpts() *wopts {
	rd := r.c.Rand
	o := &wopts{et: map[int32]int32{}}
	for n := int32(1); n <= 8; n++ {
		switch rd.Intn(4) {
		case 0:
			o.msg = append(o.msg, n)
		case 1:
			o.packed = append(o.packed, n)
			o.et[n] = vh3(rd.Intn(3))
			o.etKeys = append(o.etKeys, n)
		}
	}
	switch rd.Intn(6) {
	case 0:
		o.max = 0
	case 1:
		o.max = -3
	case 2:
		o.max = 1 + rd.Intn(4)
	default:
		o.max = 1 + rd.Intn(70)
	}
	return o
}

func vh3(i int) int32 { return []int32{0, 1, 5}[i] }

func (o *wopts) isMsg(n int32) bool {
	for _, m := range o.msg {
		if m == n {
			return true
		}
	}
	return false
}
func (o *wopts) isPacked(n int32) bool {
	for _, m := range o.packed {
		if m == n {
			return true
		}
	}
	return false
}

func (r *runner) genU64() uint64 {
	rd := r.c.Rand
	if rd.Chance(50) {
		return boundaryU64[rd.Intn(len(boundaryU64))]
	}
	return rd.U64() >> uint(rd.Intn(64))
}

// genTree draws a tree consistent with o; depth = remaining nesting budget.
func (r *runner) genTree(o *wopts, depth int, width int) []node {
	rd := r.c.Rand
	n := rd.Intn(width + 1)
	out := make([]node, 0, n)
	for i := 0; i < n; i++ {
		num := int32(1 + rd.Intn(8))
		if rd.Chance(5) {
			num = []int32{16, 2047, 2048, 1<<29 - 1, 1<<31 - 1}[rd.Intn(5)]
		}
		switch k := rd.Intn(10); {
		case k == 0:
			out = append(out, node{Kind: 'V', Num: num, U: r.genU64()})
		case k == 1:
			out = append(out, node{Kind: 'Q', Num: num, U: r.genU64()})
		case k == 2:
			out = append(out, node{Kind: 'D', Num: num, U: uint64(uint32(r.genU64()))})
		case k <= 5 && depth > 0 && rd.Chance(70):
			// group (any number)
			out = append(out, node{Kind: 'G', Num: num, Kids: r.genTree(o, depth-1, width)})
		default:
			// length-delimited: what it is depends on the options
			switch {
			case o.isPacked(num):
				et, ok := o.et[num]
				if !ok {
					et = 0
				}
				m := rd.Intn(5)
				vs := make([]uint64, 0, m)
				for j := 0; j < m; j++ {
					v := r.genU64()
					if et == 5 {
						v = uint64(uint32(v))
					}
					vs = append(vs, v)
				}
				out = append(out, node{Kind: 'P', Num: num, Et: et, Vs: vs})
			case o.isMsg(num):
				if depth > 0 {
					out = append(out, node{Kind: 'M', Num: num, Kids: r.genTree(o, depth-1, width)})
				} else {
					out = append(out, node{Kind: 'M', Num: num, Kids: []node{}})
				}
			default:
				l := rd.Intn(6)
				if rd.Chance(3) {
					l = 100 + rd.Intn(200)
				}
				b := make([]byte, l)
				for j := range b {
					b[j] = byte(rd.Intn(256))
				}
				out = append(out, node{Kind: 'B', Num: num, B: b})
			}
		}
	}
	return out
}

// chain builds a tree of exactly the given nesting out of messages / groups.
func (r *runner) chain(o *wopts, depth int, kinds string) []node {
	if depth == 0 {
		return []node{{Kind: 'V', Num: 1, U: 7}}
	}
	k := kinds[depth%len(kinds)]
	if k == 'M' && len(o.msg) > 0 {
		return []node{{Kind: 'M', Num: o.msg[depth%len(o.msg)], Kids: r.chain(o, depth-1, kinds)}}
	}
	return []node{{Kind: 'G', Num: int32(1 + depth%8), Kids: r.chain(o, depth-1, kinds)}}
}

// mutate applies one grammar-aware mutation.
func (r *runner) mutate(b []byte) ([]byte, string) {
	rd := r.c.Rand
	b = append([]byte(nil), b...)
	switch rd.Intn(9) {
	case 0: // truncation
		if len(b) > 0 {
			return b[:rd.Intn(len(b))], "truncate"
		}
	case 1: // overlong varint: set continuation on a random byte < 0x80 and insert 0x00.. after it
		if len(b) > 0 {
			i := rd.Intn(len(b))
			if b[i] < 0x80 {
				k := 1 + rd.Intn(10)
				ins := make([]byte, k)
				for j := 0; j < k-1; j++ {
					ins[j] = 0x80
				}
				b[i] |= 0x80
				return append(b[:i+1], append(ins, b[i+1:]...)...), "overlong"
			}
		}
	case 2: // stray end-group tag
		i := rd.Intn(len(b) + 1)
		tag := pw.AppendTag(nil, pw.Number(1+rd.Intn(8)), pw.EndGroupType)
		return append(b[:i], append(tag, b[i:]...)...), "stray-endgroup"
	case 3: // start group without end
		i := rd.Intn(len(b) + 1)
		tag := pw.AppendTag(nil, pw.Number(1+rd.Intn(8)), pw.StartGroupType)
		return append(b[:i], append(tag, b[i:]...)...), "stray-startgroup"
	case 4: // mismatched end group: change an end-group tag's number
		for tries := 0; tries < 8 && len(b) > 0; tries++ {
			i := rd.Intn(len(b))
			if b[i]&7 == 4 && b[i] < 0x80 {
				b[i] = byte((1+rd.Intn(15))<<3 | 4)
				return b, "mismatch-endgroup"
			}
		}
	case 5: // length overrun / underrun
		if len(b) > 0 {
			i := rd.Intn(len(b))
			b[i] = byte(int(b[i]) + rd.Intn(7) - 3)
			return b, "length-shift"
		}
	case 6: // reserved wire types, field number 0
		i := rd.Intn(len(b) + 1)
		bad := []byte{byte(rd.Intn(16)<<3 | 6 + rd.Intn(2))}
		if rd.Bool() {
			bad = []byte{byte(rd.Intn(8))}
		}
		return append(b[:i], append(bad, b[i:]...)...), "bad-tag"
	case 7: // random byte flips
		for k := 0; k < 1+rd.Intn(3) && len(b) > 0; k++ {
			b[rd.Intn(len(b))] = byte(rd.Intn(256))
		}
		return b, "flip"
	}
	// append garbage
	k := 1 + rd.Intn(4)
	for j := 0; j < k; j++ {
		b = append(b, byte(rd.Intn(256)))
	}
	return b, "append"
}

func (r *runner) wireParser() {
	c := r.c
	// complete: every one- and two-byte input under the fixed option sets
	var popts []*wopts
	for _, s := range pairOpts {
		o, err := parseOptString(s)
		if err != nil {
			panic(err)
		}
		popts = append(popts, o)
	}
	for _, o := range popts {
		r.oneWire(nil, o, "pairs")
		for a := 0; a < 256; a++ {
			r.oneWire([]byte{byte(a)}, o, "pairs")
		}
		for a := 0; a < 256; a++ {
			for b := 0; b < 256; b++ {
				r.oneWire([]byte{byte(a), byte(b)}, o, "pairs")
			}
		}
	}
	// depth chains: every nesting 0..70 against max depths around it, messages / groups / mixed
	for _, kinds := range []string{"M", "G", "MG", "GGM"} {
		for depth := 0; depth <= 70; depth++ {
			maxes := []int{0, depth - 1, depth, depth + 1, depth + 2, 2*depth + 1, 70}
			if c.Thorough() {
				maxes = nil
				for m := 0; m <= 70; m++ {
					maxes = append(maxes, m)
				}
			}
			for _, m := range maxes {
				if m < 0 {
					continue
				}
				o := &wopts{msg: []int32{1, 2, 3}, et: map[int32]int32{}, max: m}
				r.oneTree(r.chain(o, depth, kinds), o)
			}
		}
	}
	// seeded trees, and mutants of their encodings
	n := c.N(4000, 400000)
	for i := 0; i < n; i++ {
		o := r.genOpts()
		depth := c.Rand.Intn(5)
		if i%40 == 0 {
			depth = 5 + c.Rand.Intn(8)
		}
		width := 4
		if depth > 5 {
			width = 2
		}
		t := r.genTree(o, depth, width)
		r.oneTree(t, o)
		b := encodeRef(t)
		if len(b) > 4096 {
			continue
		}
		for k := 0; k < 2; k++ {
			mb, how := r.mutate(b)
			if c.Rand.Chance(30) {
				mb, _ = r.mutate(mb)
				how = "double"
			}
			if len(mb) <= 4096 {
				r.oneWire(mb, o, how)
			}
		}
	}
	// pure noise
	n = c.N(1000, 200000)
	for i := 0; i < n; i++ {
		l := c.Rand.Intn(24)
		b := make([]byte, l)
		for j := range b {
			b[j] = byte(c.Rand.Intn(256))
		}
		r.oneWire(b, r.genOpts(), "noise")
	}
	r.scriptParse()
}

// scriptParse: the script-level Protowire::parse on a few inputs gives what the Go API gives.
func (r *runner) scriptParse() {
	c := r.c
	type sc struct {
		t    []node
		opts string
		php  string
	}
	cases := []sc{
		{[]node{{Kind: 'V', Num: 1, U: 150}, {Kind: 'B', Num: 2, B: []byte("hi")}}, "msg=;packed=;et=;max=0", "[]"},
		{[]node{{Kind: 'M', Num: 3, Kids: []node{{Kind: 'V', Num: 1, U: 5}}}, {Kind: 'G', Num: 4, Kids: []node{{Kind: 'D', Num: 2, U: 9}}}}, "msg=3;packed=;et=;max=0", "['message_fields' => [3 => true]]"},
		{[]node{{Kind: 'P', Num: 5, Et: 0, Vs: []uint64{1, 300}}}, "msg=;packed=5;et=5:0;max=0", "['packed_fields' => [5 => true], 'packed_element_type' => [5 => 0]]"},
		{[]node{{Kind: 'M', Num: 3, Kids: []node{{Kind: 'M', Num: 3, Kids: []node{}}}}}, "msg=3;packed=;et=;max=2", "['message_fields' => [3 => true], 'max_depth' => 2]"},
		{[]node{{Kind: 'V', Num: 1, U: 1}, {Kind: 'X', Num: 0}}, "msg=;packed=;et=;max=0", "[]"}, // X = stray end-group tag appended below
	}
	var src strings.Builder
	src.WriteString("<?php\nfunction c14_show($fs) { $o = []; foreach ($fs as $f) { $v = $f->value; if (is_array($v)) { if (count($v) > 0 && is_object($v[0])) { $v = '{' . c14_show($v) . '}'; } else { $x = []; foreach ($v as $e) { $x[] = '' . $e; } $v = '[' . implode(',', $x) . ']'; } } else { $v = bin2hex('' . $v); } $o[] = $f->number . '/' . $f->wire_type . '=' . $v; } return implode(';', $o); }\n")
	var wants []parseOut
	var inputs [][]byte
	for _, s := range cases {
		var b []byte
		if s.t[len(s.t)-1].Kind == 'X' {
			b = append(encodeRef(s.t[:len(s.t)-1]), 0x0c, 0x08, 0x02)
		} else {
			b = encodeRef(s.t)
		}
		o, _ := parseOptString(s.opts)
		wants = append(wants, runParse(b, o))
		inputs = append(inputs, b)
		lit := "base64_decode('" + base64.StdEncoding.EncodeToString(b) + "')"
		src.WriteString("try { $s = c14_show(Protowire::parse(" + lit + ", " + s.php + ")); echo 'ok:', $s, \"\\n\"; } catch (\\Throwable $e) { echo 'err:', $e->getMessage(), \"\\n\"; }\n")
	}
	out := r.e.e.RunSource(src.String(), "/verif-c14-parse.php")
	got := strings.Split(strings.TrimRight(out.Out, "\n"), "\n")
	for i, s := range cases {
		c.Eval(fmt.Sprintf("script-parse:%d", i), true)
		c.Hit("wire:script")
		want := wants[i]
		ok := out.Kind == "ok" && i < len(got)
		if ok && want.ok {
			ok = got[i] == "ok:"+showNodes(want.nodes)
		} else if ok {
			ok = strings.HasPrefix(got[i], "err:")
		}
		if !ok {
			g := ""
			if i < len(got) {
				g = got[i]
			}
			r.viol("protowire:script-parse", fmt.Sprintf("Protowire::parse script %d: %s %q %q, Go API says %s", i, out.Kind, g, out.Detail, want.s), Case{Kind: "wire", Hex: hexs(string(inputs[i])), Opts: s.opts, Sub: "script"})
		}
	}
}

// showNodes mirrors the `show` function of scriptParse.
func showNodes(ns []node) string {
	parts := make([]string, len(ns))
	for i, n := range ns {
		wt := map[byte]int{'V': 0, 'Q': 1, 'D': 5, 'B': 2, 'P': 2, 'M': 2, 'G': 3}[n.Kind]
		var v string
		switch n.Kind {
		case 'V', 'Q', 'D':
			v = hexs(strconv.FormatInt(int64(n.U), 10))
		case 'B':
			v = hexs(string(n.B))
		case 'P':
			xs := make([]string, len(n.Vs))
			for j, x := range n.Vs {
				xs[j] = strconv.FormatInt(int64(x), 10)
			}
			v = "[" + strings.Join(xs, ",") + "]"
		default:
			if len(n.Kids) == 0 {
				v = "[]"
			} else {
				v = "{" + showNodes(n.Kids) + "}"
			}
		}
		parts[i] = fmt.Sprintf("%d/%d=%s", n.Num, wt, v)
	}
	return strings.Join(parts, ";")
}

var _ = sort.Strings
