// Package c04: precedence / associativity. Expression trees over the operator
// table regenerated from the parser (served by vm_c04) are printed with
// minimal and with full parentheses by the Lean model; origami evaluates both
// texts (they must agree: the property itself, no model involved) and its
// parser's AST for the minimal text is compared with the tree (correspondence
// with Model.Prec, whose round-trip theorem says parse (print e) = e).
package c04

import (
	"encoding/json"
	"fmt"
	"reflect"
	"sort"
	"strconv"
	"strings"

	"github.com/php-any/origami/data"
	"github.com/php-any/origami/lexer"
	"github.com/php-any/origami/node"
	"github.com/php-any/origami/token"

	"verif/harness/vh"
)

func init() { vh.Register("C04", Run) }

// ---------------------------------------------------------------- trees

type Expr struct {
	K string  `json:"k"` // a | b | u | t
	N int     `json:"n,omitempty"`
	O int     `json:"o,omitempty"`
	C []*Expr `json:"c,omitempty"`
}

func (e *Expr) sexpr() string {
	switch e.K {
	case "a":
		return fmt.Sprintf("a%d", e.N)
	case "b":
		return fmt.Sprintf("(b %d %s %s)", e.O, e.C[0].sexpr(), e.C[1].sexpr())
	case "u":
		return fmt.Sprintf("(u %d %s)", e.O, e.C[0].sexpr())
	}
	return fmt.Sprintf("(t %d %s %s %s)", e.O, e.C[0].sexpr(), e.C[1].sexpr(), e.C[2].sexpr())
}

func (e *Expr) depth() int {
	d := 0
	for _, c := range e.C {
		if x := c.depth(); x > d {
			d = x
		}
	}
	return d + 1
}

func atom(n int) *Expr { return &Expr{K: "a", N: n} }

// ---------------------------------------------------------------- table from the model

type tbl struct {
	names   []string
	binOps  []int // non-assignment binary operators
	asgOps  []int
	preOps  []int
	ternOp  int
	sepOp   int
	reenter int
	modelN  int // operators with an id < modelN are known to the regenerated table
}

func parseTable(s string) (*tbl, error) {
	t := &tbl{reenter: -1, ternOp: -1}
	var levels string
	for _, f := range strings.Fields(s) {
		kv := strings.SplitN(f, "=", 2)
		if len(kv) != 2 {
			continue
		}
		switch kv[0] {
		case "reenter":
			if kv[1] != "-" {
				t.reenter, _ = strconv.Atoi(kv[1])
			}
		case "levels":
			levels = kv[1]
		case "names":
			t.names = strings.Split(kv[1], ",")
		}
	}
	for i, l := range strings.Split(levels, ";") {
		p := strings.SplitN(l, ":", 2)
		if len(p) != 2 {
			return nil, fmt.Errorf("bad level %q", l)
		}
		q := strings.SplitN(p[1], "/", 2)
		var ops []int
		for _, o := range strings.Split(q[0], ",") {
			if o != "" {
				v, _ := strconv.Atoi(o)
				ops = append(ops, v)
			}
		}
		switch p[0] {
		case "binL", "binR":
			if i == t.reenter {
				t.asgOps = append(t.asgOps, ops...)
			} else {
				t.binOps = append(t.binOps, ops...)
			}
		case "prefix":
			t.preOps = append(t.preOps, ops...)
		case "tern":
			if len(ops) > 0 {
				t.ternOp = ops[0]
			}
			t.sepOp, _ = strconv.Atoi(q[1])
		}
	}
	t.modelN = len(t.names)
	t.completeFromSpec()
	if len(t.names) == 0 || len(t.binOps) == 0 {
		return nil, fmt.Errorf("empty table")
	}
	return t, nil
}

// completeFromSpec makes the operator universe that of the property statement, whatever the
// regenerated table contains (a level the translator no longer recognises must still be explored).
func (t *tbl) completeFromSpec() {
	idx := map[string]int{}
	for i, n := range t.names {
		idx[n] = i
	}
	id := func(n string) int {
		if i, ok := idx[n]; ok {
			return i
		}
		t.names = append(t.names, n)
		idx[n] = len(t.names) - 1
		return idx[n]
	}
	addTo := func(xs *[]int, n string) {
		i := id(n)
		if !contains(*xs, i) {
			*xs = append(*xs, i)
		}
	}
	for n := range specLevel {
		if n != "TERNARY" {
			addTo(&t.binOps, n)
		}
	}
	for _, n := range []string{"ASSIGN", "ADD_EQ", "SUB_EQ", "MUL_EQ", "QUO_EQ", "REM_EQ", "CONCAT_EQ", "NULL_COALESCE_ASSIGN"} {
		i := id(n)
		// an assignment operator the table files under an ordinary binary level still needs a variable on its left
		if !contains(t.asgOps, i) {
			t.asgOps = append(t.asgOps, i)
		}
		for k, o := range t.binOps {
			if o == i {
				t.binOps = append(t.binOps[:k], t.binOps[k+1:]...)
				break
			}
		}
	}
	for _, n := range []string{"SUB", "NOT", "BIT_NOT", "CAST"} {
		addTo(&t.preOps, n)
	}
	if t.ternOp < 0 {
		t.ternOp = id("TERNARY")
	}
	id("COLON")
	sort.Ints(t.binOps)
	sort.Ints(t.asgOps)
	sort.Ints(t.preOps)
}

// inModel: every operator of the tree is known to the regenerated table
func (t *tbl) inModel(e *Expr) bool {
	if e.K != "a" && e.O >= t.modelN {
		return false
	}
	for _, ch := range e.C {
		if !t.inModel(ch) {
			return false
		}
	}
	return true
}

// operator token name → token type (for its source literal)
var tokByName = map[string]token.TokenType{
	"ASSIGN": token.ASSIGN, "ADD_EQ": token.ADD_EQ, "SUB_EQ": token.SUB_EQ, "MUL_EQ": token.MUL_EQ, "QUO_EQ": token.QUO_EQ,
	"REM_EQ": token.REM_EQ, "CONCAT_EQ": token.CONCAT_EQ, "NULL_COALESCE_ASSIGN": token.NULL_COALESCE_ASSIGN,
	"BIT_OR_EQ": token.BIT_OR_EQ, "BIT_AND_EQ": token.BIT_AND_EQ, "BIT_XOR_EQ": token.BIT_XOR_EQ, "SHL_EQ": token.SHL_EQ,
	"SHR_EQ": token.SHR_EQ, "POWER_EQ": token.POWER_EQ, "TERNARY": token.TERNARY, "COLON": token.COLON,
	"NULL_COALESCE": token.NULL_COALESCE, "DOT": token.DOT, "LOR": token.LOR, "LAND": token.LAND, "BIT_OR": token.BIT_OR,
	"BIT_XOR": token.BIT_XOR, "BIT_AND": token.BIT_AND, "EQ": token.EQ, "NE": token.NE, "EQ_STRICT": token.EQ_STRICT,
	"NE_STRICT": token.NE_STRICT, "LT": token.LT, "LE": token.LE, "GT": token.GT, "GE": token.GE, "SPACESHIP": token.SPACESHIP,
	"SHL": token.SHL, "SHR": token.SHR, "ADD": token.ADD, "SUB": token.SUB, "MUL": token.MUL, "QUO": token.QUO, "REM": token.REM,
	"NOT": token.NOT, "BIT_NOT": token.BIT_NOT, "POWER": token.POWER,
}

func (t *tbl) lit(o int) string {
	n := t.names[o]
	if n == "CAST" {
		return "(int)"
	}
	tt, ok := tokByName[n]
	if !ok {
		return "?" + n + "?"
	}
	return token.GetLiteralByType(tt)
}

var atomSrc = []string{"$a", "$b", "$c", "$d", "$e", "2", "3", "1", "0", "'5'"}

const nVars = 5

// render a model token list (a<n> o<id> ( )) as origami source
func (t *tbl) render(toks string) string {
	var sb strings.Builder
	for _, w := range strings.Fields(toks) {
		switch {
		case w == "(" || w == ")":
			sb.WriteString(w)
		case w[0] == 'a':
			n, _ := strconv.Atoi(w[1:])
			sb.WriteString(atomSrc[n%len(atomSrc)])
		case w[0] == 'o':
			n, _ := strconv.Atoi(w[1:])
			sb.WriteString(t.lit(n))
		}
		sb.WriteByte(' ')
	}
	return strings.TrimSpace(sb.String())
}

// ---------------------------------------------------------------- AST dump

type leaf struct{ s string }

func (l *leaf) GetValue(ctx data.Context) (data.GetValue, data.Control) { return nil, nil }

var getValueType = reflect.TypeOf((*data.GetValue)(nil)).Elem()

func dump(v data.GetValue) string {
	if v == nil {
		return "nil"
	}
	switch x := v.(type) {
	case *leaf:
		return x.s
	case *node.VariableExpression:
		return "$" + x.Name
	case *node.IntLiteral:
		return "lit:" + x.V.AsString()
	case *node.StringLiteral:
		return "lit:" + x.Value
	}
	rv := reflect.ValueOf(v)
	if rv.Kind() == reflect.Ptr {
		if rv.IsNil() {
			return "nil"
		}
		rv = rv.Elem()
	}
	if rv.Kind() != reflect.Struct {
		if s, ok := v.(data.AsString); ok {
			return "lit:" + s.AsString()
		}
		return fmt.Sprintf("%T", v)
	}
	name := rv.Type().Name()
	parts := []string{name}
	for i := 0; i < rv.NumField(); i++ {
		f := rv.Type().Field(i)
		if !f.IsExported() || f.Name == "Node" || f.Name == "Fun" {
			continue
		}
		fv := rv.Field(i)
		switch {
		case f.Type.Kind() == reflect.String && (f.Name == "Operator" || f.Name == "FunName"):
			parts[0] = name + ":" + fv.String()
		case f.Type == getValueType || (f.Type.Kind() == reflect.Interface && f.Type.Implements(getValueType)):
			if fv.IsNil() {
				parts = append(parts, "nil")
			} else if gv, ok := fv.Interface().(data.GetValue); ok {
				parts = append(parts, dump(gv))
			}
		case f.Type.Kind() == reflect.Slice && f.Type.Elem() == getValueType:
			for j := 0; j < fv.Len(); j++ {
				parts = append(parts, dump(fv.Index(j).Interface().(data.GetValue)))
			}
		}
	}
	if name == "IntLiteral" || name == "FloatLiteral" || name == "NumberLiteral" {
		if f := rv.FieldByName("V"); f.IsValid() && !f.IsNil() {
			if s, ok := f.Interface().(data.AsString); ok {
				return "lit:" + s.AsString()
			}
		}
	}
	return "(" + strings.Join(parts, " ") + ")"
}

var leafDump = []string{"$a", "$b", "$c", "$d", "$e", "lit:2", "lit:3", "lit:1", "lit:0", "lit:5"}

// build the AST origami's own constructors produce for the tree
func (t *tbl) build(e *Expr) (g data.GetValue, err error) {
	defer func() {
		if r := recover(); r != nil {
			err = fmt.Errorf("constructor panic: %v", r)
		}
	}()
	switch e.K {
	case "a":
		// real leaf nodes, so that origami's constructors fuse them exactly as the parser's do
		n := e.N % len(atomSrc)
		switch {
		case n < nVars:
			return node.NewVariable(nil, atomSrc[n], n, nil), nil
		case atomSrc[n][0] == '\'':
			return node.NewStringLiteral(nil, atomSrc[n]), nil
		default:
			return node.NewIntLiteral(nil, atomSrc[n]), nil
		}
	case "u":
		x, err := t.build(e.C[0])
		if err != nil {
			return nil, err
		}
		if t.names[e.O] == "CAST" {
			return node.NewCallExpression(nil, "int", []data.GetValue{x}, nil), nil
		}
		return node.NewUnaryExpression(nil, t.lit(e.O), x), nil
	case "t":
		c, e1 := t.build(e.C[0])
		a, e2 := t.build(e.C[1])
		b, e3 := t.build(e.C[2])
		for _, er := range []error{e1, e2, e3} {
			if er != nil {
				return nil, er
			}
		}
		return node.NewTernaryExpression(nil, c, a, b), nil
	}
	l, e1 := t.build(e.C[0])
	r, e2 := t.build(e.C[1])
	if e1 != nil {
		return nil, e1
	}
	if e2 != nil {
		return nil, e2
	}
	if t.names[e.O] == "NULL_COALESCE" {
		return node.NewNullCoalesceExpression(nil, l, r), nil
	}
	tt := tokByName[t.names[e.O]]
	return node.NewBinaryExpression(nil, l, lexer.NewWorkerToken(tt, token.GetLiteralByType(tt), 0, 0, 0, 0), r), nil
}

// ---------------------------------------------------------------- the statement's operator table (model-independent printer)

// specLevel: binding strength per the property statement (larger = tighter).
// '.' is only constrained to lie below arithmetic/shifts and above `??`; next to
// comparison, equality, bitwise and logical operators it is always parenthesised.
var specLevel = map[string]int{
	"POWER": 15, "MUL": 13, "QUO": 13, "REM": 13, "ADD": 12, "SUB": 12, "SHL": 11, "SHR": 11,
	"LT": 10, "LE": 10, "GT": 10, "GE": 10, "SPACESHIP": 10, "EQ": 9, "NE": 9, "EQ_STRICT": 9, "NE_STRICT": 9,
	"BIT_AND": 8, "BIT_XOR": 7, "BIT_OR": 6, "LAND": 5, "LOR": 4, "DOT": 3, "NULL_COALESCE": 2, "TERNARY": 1,
}

const specPrefix = 14

func (t *tbl) specLvl(e *Expr) int {
	switch e.K {
	case "a":
		return 99
	case "u":
		return specPrefix
	case "t":
		return 1
	}
	if l, ok := specLevel[t.names[e.O]]; ok {
		return l
	}
	return 0 // assignment operators
}

func (t *tbl) isDot(e *Expr) bool { return e.K == "b" && t.names[e.O] == "DOT" }

// specPrint prints with the parentheses the statement's table makes necessary (and wherever the
// statement leaves the relation open).
func (t *tbl) specPrint(e *Expr, ctx int, parent *Expr) string {
	var body string
	lv := t.specLvl(e)
	switch e.K {
	case "a":
		return atomSrc[e.N%len(atomSrc)]
	case "u":
		body = t.lit(e.O) + " " + t.specPrint(e.C[0], specPrefix, e)
	case "t":
		body = t.specPrint(e.C[0], 2, e) + " ? " + t.specPrint(e.C[1], 2, e) + " : " + t.specPrint(e.C[2], 2, e)
	default:
		n := t.names[e.O]
		lc, rc := lv, lv+1 // left-associative
		switch {
		case n == "POWER" || lv == 0:
			lc, rc = lv+1, lv // right-associative
		case n == "NULL_COALESCE":
			lc, rc = lv+1, lv+1 // associativity not fixed by the statement
		}
		body = t.specPrint(e.C[0], lc, e) + " " + t.lit(e.O) + " " + t.specPrint(e.C[1], rc, e)
	}
	need := lv < ctx
	if parent != nil {
		pl := t.specLvl(parent)
		if (t.isDot(parent) && lv >= 4 && lv <= 10) || (t.isDot(e) && pl >= 4 && pl <= 10) {
			need = true
		}
	}
	if need {
		return "( " + body + " )"
	}
	return body
}

func (t *tbl) fullPrint(e *Expr) string {
	switch e.K {
	case "a":
		return atomSrc[e.N%len(atomSrc)]
	case "u":
		return "( " + t.lit(e.O) + " " + t.fullPrint(e.C[0]) + " )"
	case "t":
		return "( " + t.fullPrint(e.C[0]) + " ? " + t.fullPrint(e.C[1]) + " : " + t.fullPrint(e.C[2]) + " )"
	}
	return "( " + t.fullPrint(e.C[0]) + " " + t.lit(e.O) + " " + t.fullPrint(e.C[1]) + " )"
}

// ---------------------------------------------------------------- generation

func (t *tbl) randTree(r *vh.Rand, d int, lhsVar bool) *Expr {
	if lhsVar {
		return atom(r.Intn(nVars))
	}
	if d <= 0 || r.Chance(25) {
		return atom(r.Intn(len(atomSrc)))
	}
	switch x := r.Intn(100); {
	case x < 55:
		o := vh.Pick(r, t.binOps)
		return &Expr{K: "b", O: o, C: []*Expr{t.randTree(r, d-1, false), t.randTree(r, d-1, false)}}
	case x < 70:
		o := vh.Pick(r, t.asgOps)
		return &Expr{K: "b", O: o, C: []*Expr{t.randTree(r, 0, true), t.randTree(r, d-1, false)}}
	case x < 85:
		o := vh.Pick(r, t.preOps)
		return &Expr{K: "u", O: o, C: []*Expr{t.randTree(r, d-1, false)}}
	}
	return &Expr{K: "t", O: t.ternOp, C: []*Expr{t.randTree(r, d-1, false), t.randTree(r, d-1, false), t.randTree(r, d-1, false)}}
}

type Case struct {
	Tree *Expr  `json:"tree"`
	Min  string `json:"min,omitempty"`
	Full string `json:"full,omitempty"`
}

const prelude = "$a = 7; $b = 3; $c = 2; $d = 5; $e = 1;\n"

func script(expr string) string {
	return prelude + "$r = " + expr + ";\necho gettype($r), '=', json_encode($r), ';', json_encode([$a, $b, $c, $d, $e]);\n"
}

// the lexer folds a sign into a following number literal (`- 2` stays two tokens, `-2` does not):
// the renderer always separates tokens by a space, so this known deviation is exercised only by the known stream.

func Run(c *vh.Ctx) {
	m, err := vh.StartModel(c.ModelPath)
	if err != nil {
		c.Note("cannot start model: %v — nothing can be printed without the regenerated table", err)
		c.Mismatch(nil, "", "", "model driver unavailable")
		return
	}
	defer m.Close()
	c.Res.ModelUsed = true
	ts, err := m.Ask("table")
	if err != nil {
		c.Mismatch(nil, "", "", "model driver does not answer")
		return
	}
	t, err := parseTable(ts)
	if err != nil {
		c.Mismatch(nil, ts, "", "cannot read the model's table: "+err.Error())
		return
	}
	env := vh.NewEnv()
	check := func(e *Expr) {
		cs := Case{Tree: e}
		se := e.sexpr()
		known := t.inModel(e)
		if known {
			mn, e1 := m.Ask("min " + se)
			fl, e2 := m.Ask("full " + se)
			if e1 != nil || e2 != nil || mn == "bad-op" || fl == "bad-op" {
				c.Mismatch(cs, "", mn+" / "+fl, "model cannot print the tree")
				known = false
			} else {
				cs.Min, cs.Full = t.render(mn), t.render(fl)
				// model round trip (proved; cheap sanity)
				if back, err := m.Ask("parse " + mn); err == nil && back != se {
					c.Mismatch(cs, "", back, "model: parse (printMin e) ≠ e — contradicts the theorem; machinery error")
				}
			}
		} else {
			c.Hit("tree-outside-regenerated-table")
		}
		c.Eval(se, e.depth() >= 3)
		c.Hit(fmt.Sprintf("depth=%d", e.depth()))
		c.SampleSome(map[string]any{"tree": se, "min": cs.Min, "full": cs.Full}, 499)
		// 1. the property itself, judged without the model: the text printed by the STATEMENT's table
		//    (Go printer above) and the fully parenthesised text evaluate alike
		specMin, full := t.specPrint(e, 0, nil), t.fullPrint(e)
		o1 := env.RunSource(script(specMin), "/verif-c04.zy")
		o2 := env.RunSource(script(full), "/verif-c04.zy")
		if o1.Kind == "go-panic" || o2.Kind == "go-panic" {
			c.Hit("eval:go-panic(C03)")
		}
		if o1.String() != o2.String() {
			c.Violation(sigOf(t, e), fmt.Sprintf("`%s` evaluates to %q but fully parenthesised `%s` to %q", specMin, short(o1.String()), full, short(o2.String())), cs)
		}
		c.Hit("eval:" + o1.Kind)
		// the model's own minimal text must evaluate alike as well
		if known && cs.Min != specMin {
			o3 := env.RunSource(script(cs.Min), "/verif-c04.zy")
			if o3.String() != o2.String() {
				c.Violation(sigOf(t, e), fmt.Sprintf("`%s` evaluates to %q but fully parenthesised `%s` to %q", cs.Min, short(o3.String()), full, short(o2.String())), cs)
			}
			c.Hit("min-differs-from-spec-min")
		}
		// 2. correspondence: origami's AST of the minimal text = the tree
		if !known {
			return
		}
		want, err := t.build(e)
		if err != nil {
			c.Hit("expected-ast:constructor-panics")
			return
		}
		p := env.Parser.Clone()
		prog, acl := p.ParseString(cs.Min+";", "/verif-c04.zy")
		if acl != nil {
			c.Mismatch(cs, "parse error: "+acl.AsString(), dump(want), "parser rejects printMin text")
			return
		}
		if len(prog.Statements) != 1 {
			c.Mismatch(cs, fmt.Sprintf("%d statements", len(prog.Statements)), dump(want), "printMin text is not one expression statement")
			return
		}
		if got := dump(prog.Statements[0]); got != dump(want) {
			c.Mismatch(cs, got, dump(want), "origami AST vs tree (Model.Prec says parse(printMin e) = e)")
		}
	}
	if len(c.ReplayRaw) > 0 {
		var rc Case
		if err := json.Unmarshal(c.ReplayRaw, &rc); err != nil || rc.Tree == nil {
			c.Note("bad replay: %v", err)
			return
		}
		check(rc.Tree)
		return
	}
	c.Res.Rule = "trees over the regenerated operator table (binary, prefix incl. cast, ternary, compound assignment with a variable on the left): every operator pair in both nestings and (thorough) every triple of operator classes; seeded random trees to depth 5. Each tree is printed by the Lean model with minimal and with full parentheses, both texts are evaluated by origami (must agree) and the parser's AST of the minimal text is compared with the tree. non-trivial = depth >= 3; distinct = distinct tree"
	a, b, cc, d := atom(0), atom(1), atom(5), atom(3)
	all := append(append([]int{}, t.binOps...), t.asgOps...)
	mk := func(o int, l, r *Expr) *Expr {
		if contains(t.asgOps, o) && l.K != "a" {
			return nil
		}
		return &Expr{K: "b", O: o, C: []*Expr{l, r}}
	}
	// all operator pairs, both nestings, plus prefix and ternary combinations
	for _, o1 := range all {
		for _, o2 := range all {
			if e := mk(o1, mk(o2, a, b), cc); e != nil && e.C[0] != nil {
				check(e)
			}
			if in := mk(o2, b, cc); in != nil {
				if e := mk(o1, a, in); e != nil {
					check(e)
				}
			}
		}
		for _, p := range t.preOps {
			if in := mk(o1, a, b); in != nil {
				check(&Expr{K: "u", O: p, C: []*Expr{in}})
				if e := mk(o1, a, &Expr{K: "u", O: p, C: []*Expr{b}}); e != nil {
					check(e)
				}
				if e := mk(o1, &Expr{K: "u", O: p, C: []*Expr{d}}, b); e != nil {
					check(e)
				}
			}
		}
		if in := mk(o1, a, b); in != nil {
			check(&Expr{K: "t", O: t.ternOp, C: []*Expr{in, cc, d}})
			check(&Expr{K: "t", O: t.ternOp, C: []*Expr{cc, in, d}})
			check(&Expr{K: "t", O: t.ternOp, C: []*Expr{cc, d, in}})
			if e := mk(o1, d, &Expr{K: "t", O: t.ternOp, C: []*Expr{a, b, cc}}); e != nil {
				check(e)
			}
			if e := mk(o1, &Expr{K: "t", O: t.ternOp, C: []*Expr{a, b, cc}}, d); e != nil {
				check(e)
			}
		}
	}
	tn := func(x, y, z *Expr) *Expr { return &Expr{K: "t", O: t.ternOp, C: []*Expr{x, y, z}} }
	check(tn(tn(a, b, cc), d, a))
	check(tn(a, tn(b, cc, d), a))
	check(tn(a, b, tn(cc, d, a)))
	for _, p1 := range t.preOps {
		for _, p2 := range t.preOps {
			check(&Expr{K: "u", O: p1, C: []*Expr{{K: "u", O: p2, C: []*Expr{a}}}})
		}
	}
	c.Res.Exhaustive = true
	c.Res.ExhaustiveWhat = "every ordered pair of binary/assignment operators in both nestings; every (operator, prefix operator) and (operator, ternary) combination"
	if c.Thorough() {
		// all triples of binary operators, three association shapes
		for _, o1 := range t.binOps {
			for _, o2 := range t.binOps {
				for _, o3 := range t.binOps {
					check(mk(o1, mk(o2, a, b), mk(o3, cc, d)))
					check(mk(o1, mk(o2, mk(o3, a, b), cc), d))
					check(mk(o1, a, mk(o2, b, mk(o3, cc, d))))
				}
			}
		}
		c.Res.ExhaustiveWhat += "; every triple of binary operators in three association shapes"
	}
	for i := 0; i < c.N(3000, 60000); i++ {
		check(t.randTree(c.Rand, c.Rand.Range(2, 5), false))
	}
	// known stream: sign folded into a number literal (lexer level)
	o1 := env.RunSource("echo json_encode(-2 ** 2);", "/k.zy")
	o2 := env.RunSource("echo json_encode(-(2 ** 2));", "/k.zy")
	if o1.String() != o2.String() {
		c.Violation("lexer:signed-literal-pow", fmt.Sprintf("`-2 ** 2` gives %q, `-(2 ** 2)` gives %q: the sign is folded into the number token, so ** does not bind tighter than this unary minus", short(o1.Out), short(o2.Out)), map[string]any{"src": "-2 ** 2"})
	}
	c.Res.ModelLines = m.Lines
}

func sigOf(t *tbl, e *Expr) string {
	// the pair (outer operator, an inner operator) identifies the disagreement class
	names := []string{}
	var walk func(x *Expr, d int)
	walk = func(x *Expr, d int) {
		if x.K != "a" && d < 2 {
			names = append(names, t.names[x.O])
			for _, ch := range x.C {
				walk(ch, d+1)
			}
		}
	}
	walk(e, 0)
	if len(names) > 3 {
		names = names[:3]
	}
	return "parens:" + strings.Join(names, ",")
}

func short(s string) string {
	s = strings.ReplaceAll(s, "\n", "⏎")
	if len(s) > 120 {
		return s[:120] + "…"
	}
	return s
}

func contains(xs []int, x int) bool {
	for _, y := range xs {
		if y == x {
			return true
		}
	}
	return false
}
