package c20

import (
	"fmt"
	"sort"
	"strings"
	"time"

	"verif/harness/vh"
)

// ---------------------------------------------------------------- unbalanced stream (round 7)
//
// Class: a built-in that corrupts an invariant of process-wide state which the end-of-run reset
// assumes (a stack with a sentinel popped below its floor, a handler stack restored once too often, a
// list unregistered twice) — so that the reset's own guard skips the repair and every later program of
// the process sees the damage. The residue streams so far drew A from programs that use built-ins the
// generator knows, in balanced ways; a built-in that a change adds is never called by A.
//
// Here A's alphabet is DERIVED from the registered function table of a fresh VM: the functions are
// grouped into families by their names (the first name token that is not a role word), roles are read
// off the names (opener: start/open/push/register/set/begin/create/init/add; closer: end/close/pop/
// unregister/restore/clean/flush/free/destroy/stop/release/clear/reset/commit/rollback/remove), and
// every family that has an opener or a closer is driven out of balance in every way: closers without
// opener (1..3 times), opener followed by 1+k closers (k = 0..3, the same and mixed closers), openers
// never closed (1..3). B = a probe, derived as well, that uses the family normally (open, print, every
// other member, close through each closer) and prints everything observable, plus every hand-written
// clean channel B that mentions a member of the family. Oracle (model independent): B after A on a fresh
// VM is byte-identical to B as the first program of a brand-new process.

var openerWords = map[string]bool{"start": true, "open": true, "push": true, "register": true, "set": true, "begin": true, "create": true, "init": true, "add": true}
var closerWords = map[string]bool{"end": true, "close": true, "pop": true, "unregister": true, "restore": true, "clean": true, "flush": true, "free": true, "destroy": true,
	"stop": true, "release": true, "clear": true, "reset": true, "commit": true, "rollback": true, "remove": true}

// functions that are the documented way into a listed residue cell (the A sides of the known channels):
// a family that contains one is compared under the cell's signature — a difference confirms the known
// finding, it is not a new one. (Hand table, like the known channels themselves.)
var knownEntry = map[string]string{
	"spl_autoload_register":    "residue:cell:parser.autoload",
	"spl_autoload_unregister":  "residue:cell:parser.autoload",
	"header_register_callback": "residue:cell:std/php/core.headerOutputStarted",
	"ini_set":                  "residue:cell:std/php/core.iniStore",
	"ini_restore":              "residue:cell:std/php/core.iniStore",
	"stream_context_create":    "residue:cell:std/php/stream.nextStreamContextID",
}

type famFn struct {
	fnInfo
	Opener, Closer bool
}

type family struct {
	Key     string
	Members []famFn
	Known   string
}

func nameRoles(name string) (key string, opener, closer bool) {
	low := strings.ToLower(name)
	toks := strings.Split(low, "_")
	if len(toks) == 1 {
		// fopen / fclose / opendir / closedir: a role word at the end or at the beginning
		for w := range openerWords {
			if len(low) > len(w) && strings.HasSuffix(low, w) {
				return strings.TrimSuffix(low, w), true, false
			}
			if len(low) > len(w)+1 && strings.HasPrefix(low, w) && w != "set" && w != "add" && w != "init" {
				return strings.TrimPrefix(low, w), true, false
			}
		}
		for w := range closerWords {
			if len(low) > len(w) && strings.HasSuffix(low, w) {
				return strings.TrimSuffix(low, w), false, true
			}
			if len(low) > len(w)+1 && strings.HasPrefix(low, w) && w != "end" && w != "pop" {
				return strings.TrimPrefix(low, w), false, true
			}
		}
		return low, false, false
	}
	for _, t := range toks {
		switch {
		case openerWords[t]:
			opener = true
		case closerWords[t]:
			closer = true
		case key == "" && t != "get" && t != "is" && t != "has":
			key = t
		}
	}
	if closer { // ob_end_clean, restore_…: a name with both kinds of words closes
		opener = false
	}
	if key == "" {
		key = low
	}
	return
}

// unbalancedFamilies: the families of the function table that have an opener or a closer, without the
// functions the corpus filter / notCalled leave out.
func unbalancedFamilies(t fnTable) []family {
	byKey := map[string]*family{}
	for _, f := range t.Funcs {
		if excluded(f.Name+"(") != "" {
			continue
		}
		if _, ok := notCalled[strings.ToLower(f.Name)]; ok {
			continue
		}
		key, op, cl := nameRoles(f.Name)
		fam := byKey[key]
		if fam == nil {
			fam = &family{Key: key}
			byKey[key] = fam
		}
		fam.Members = append(fam.Members, famFn{f, op, cl})
		if k := knownEntry[strings.ToLower(f.Name)]; k != "" {
			fam.Known = k
		}
	}
	var res []family
	for _, fam := range byKey {
		roles := 0
		for _, m := range fam.Members {
			if m.Opener || m.Closer {
				roles++
			}
		}
		if roles == 0 {
			continue
		}
		sort.Slice(fam.Members, func(i, j int) bool { return fam.Members[i].Name < fam.Members[j].Name })
		res = append(res, *fam)
	}
	sort.Slice(res, func(i, j int) bool { return res[i].Key < res[j].Key })
	return res
}

// argument modes: what a function that declares parameters is given in one program
var argModes = []struct{ Name, Args string }{
	{"cb", `$c20cb`},
	{"h", `$c20h`},
	{"str", `'c20'`},
}

func callOf(f famFn, mode int) string {
	if f.NParams == 0 {
		return f.Name + "()"
	}
	return f.Name + "(" + argModes[mode].Args + ")"
}

const unbalancedPrelude = `$c20cb = function() { return null; }; $c20h = null; $c20r = null;` + "\n"

// a call inside A: nothing is printed (A's output is not compared), errors are swallowed — a Go panic
// inside try is turned into an exception by the interpreter
func quietCall(f famFn, mode int, keep bool) string {
	lhs := "$c20r"
	if keep {
		lhs = "$c20h"
	}
	return "try { " + lhs + " = " + callOf(f, mode) + "; } catch (\\Throwable $c20e) { }\n"
}

// a call inside B: the result is printed (type and, for scalars, the value; objects and closures by type
// only — a closure converted to text is the known address finding), an error by its class only
func loudCall(f famFn, mode int, keep bool) string {
	lhs := "$c20r"
	if keep {
		lhs = "$c20h"
	}
	return "try { " + lhs + " = " + callOf(f, mode) + "; echo \"" + f.Name + "=\", gettype(" + lhs + "), \":\", (is_scalar(" + lhs + ") || is_null(" + lhs + ")) ? json_encode(" + lhs + ") : \"-\", \";\\n\"; } catch (\\Throwable $c20e) { echo \"" + f.Name + " threw \", get_class($c20e), \";\\n\"; }\n"
}

type unbalancedA struct {
	Name string
	Code string
}

func (fam family) modes() int {
	for _, m := range fam.Members {
		if m.NParams > 0 && (m.Opener || m.Closer) {
			return len(argModes)
		}
	}
	return 1
}

// programsA: every way of driving the family out of balance
func (fam family) programsA() []unbalancedA {
	var ops, cls []famFn
	for _, m := range fam.Members {
		if m.Opener {
			ops = append(ops, m)
		}
		if m.Closer {
			cls = append(cls, m)
		}
	}
	var res []unbalancedA
	for mode := 0; mode < fam.modes(); mode++ {
		mn := argModes[mode].Name
		if fam.modes() == 1 {
			mn = "-"
		}
		// closers without opener
		for _, c := range cls {
			for k := 1; k <= 3; k++ {
				res = append(res, unbalancedA{fmt.Sprintf("%s:%s:close-%s-x%d", fam.Key, mn, c.Name, k), unbalancedPrelude + strings.Repeat(quietCall(c, mode, false), k)})
			}
		}
		// openers never closed
		for _, o := range ops {
			for k := 1; k <= 3; k++ {
				res = append(res, unbalancedA{fmt.Sprintf("%s:%s:open-%s-x%d", fam.Key, mn, o.Name, k), unbalancedPrelude + strings.Repeat(quietCall(o, mode, true), k)})
			}
		}
		// opener, then 1+k closers (k = 0: balanced — the control), the same closer and, for k ≥ 1, a second closer last
		for _, o := range ops {
			for _, c := range cls {
				for k := 0; k <= 3; k++ {
					res = append(res, unbalancedA{fmt.Sprintf("%s:%s:%s-then-%s-x%d", fam.Key, mn, o.Name, c.Name, 1+k),
						unbalancedPrelude + quietCall(o, mode, true) + strings.Repeat(quietCall(c, mode, false), 1+k)})
				}
				for _, c2 := range cls {
					if c2.Name == c.Name {
						continue
					}
					res = append(res, unbalancedA{fmt.Sprintf("%s:%s:%s-then-%s-%s", fam.Key, mn, o.Name, c.Name, c2.Name),
						unbalancedPrelude + quietCall(o, mode, true) + quietCall(c, mode, false) + quietCall(c2, mode, false)})
				}
			}
		}
	}
	return res
}

// probeB: the family used normally, everything observable printed. For every opener (or once, when the
// family has none): the members that are neither opener nor closer, then open, print, the other members again,
// and close through each closer in turn (re-opening in between); at the end the other members once more.
func (fam family) probeB(mode int) string {
	var ops, cls, rest []famFn
	for _, m := range fam.Members {
		switch {
		case m.Opener:
			ops = append(ops, m)
		case m.Closer:
			cls = append(cls, m)
		default:
			rest = append(rest, m)
		}
	}
	if len(rest) > 6 { // a large family of unrelated functions (array_*, str_*): the probe stays a probe
		rest = rest[:6]
	}
	var b strings.Builder
	b.WriteString(unbalancedPrelude)
	others := func() {
		for _, r := range rest {
			b.WriteString(loudCall(r, mode, false))
		}
	}
	others()
	if len(ops) == 0 {
		for _, c := range cls {
			b.WriteString(loudCall(c, mode, false))
		}
	}
	for _, o := range ops {
		if len(cls) == 0 {
			b.WriteString(loudCall(o, mode, true))
			b.WriteString("echo \"after-" + o.Name + ";\\n\";\n")
			others()
		}
		for _, c := range cls {
			b.WriteString(loudCall(o, mode, true))
			b.WriteString("echo \"inside-" + o.Name + "-" + c.Name + ";\\n\";\n")
			others()
			b.WriteString(loudCall(c, mode, false))
			b.WriteString("echo \"closed-" + c.Name + ";\\n\";\n")
		}
	}
	others()
	b.WriteString("echo \"end\";\n")
	return b.String()
}

func (e *env) unbalancedStream() {
	c := e.c
	t, err := functionTable(c.Scratch)
	if err != nil {
		c.Mismatch(nil, err.Error(), "", "the registered function table of a fresh VM could not be listed; unbalanced stream not run")
		return
	}
	fams := unbalancedFamilies(t)
	if len(fams) == 0 {
		c.Mismatch(nil, "0 families", "> 0", "no open/close family was found in the registered function table; unbalanced stream has nothing to run")
		return
	}
	var cases []pairCase
	var desc []string
	na := 0
	for _, fam := range fams {
		as := fam.programsA()
		var bs []*prog
		for mode := 0; mode < fam.modes(); mode++ {
			mn := argModes[mode].Name
			if fam.modes() == 1 {
				mn = "all"
			}
			bs = append(bs, e.chanProg("unbalanced:"+fam.Key+":probe-"+mn, "B", fam.probeB(mode)))
		}
		// hand-written clean channel probes that use a member of the family
		if fam.Known == "" {
			seenB := map[string]bool{}
			for _, ch := range channels {
				if ch.Known != "" || seenB[ch.B] {
					continue
				}
				for _, m := range fam.Members {
					if (m.Opener || m.Closer) && strings.Contains(ch.B, m.Name+"(") {
						seenB[ch.B] = true
						bs = append(bs, e.chanProg("unbalanced:"+fam.Key+":"+ch.Name, "B", ch.B))
						break
					}
				}
			}
		}
		var names []string
		for _, m := range fam.Members {
			switch {
			case m.Opener:
				names = append(names, "+"+m.Name)
			case m.Closer:
				names = append(names, "-"+m.Name)
			}
		}
		desc = append(desc, fmt.Sprintf("%s{%s | %d members, %d A × %d B}", fam.Key, strings.Join(names, " "), len(fam.Members), len(as), len(bs)))
		for _, a := range as {
			na++
			pa := e.chanProg("unbalanced:"+a.Name, "A", a.Code)
			for _, pb := range bs {
				cases = append(cases, pairCase{A: pa, B: pb, Sig: fam.Known})
				c.Hit("unbalanced.family." + fam.Key)
			}
		}
	}
	c.Note("unbalanced stream: %d families of the registered function table (+opener -closer): %s; %d unbalanced programs, %d (A, B) pairs", len(fams), strings.Join(desc, ", "), na, len(cases))
	e.pairCheck(cases, true)
}

// ---------------------------------------------------------------- output-buffer stack against the model
//
// Correspondence: the regenerated length effects of core.outputBufferStack.buffers (Generated/C20Stacks.lean,
// run by Model.Stack; driver command `obstack`) against the real built-ins: every sequence of ob_start /
// ob_end_clean / ob_get_clean of length ≤ 5 (7), ob_get_level() after every call. The PHP name → Go function
// table is by hand (obGoFn); a built-in of the family that is not in it is not tied (a note says so) — the
// unbalanced stream above calls it all the same.
var obGoFn = map[string]string{"ob_start": "outputBufferStack.push", "ob_end_clean": "outputBufferStack.pop", "ob_get_clean": "outputBufferStack.pop"}

type obCase struct {
	Kind string   `json:"kind"` // "obstack"
	Ops  []string `json:"ops"`
}

func (k obCase) code(i int) string {
	var b strings.Builder
	b.WriteString("$L = [];\n")
	for _, op := range k.Ops {
		b.WriteString("$c20r = " + op + "(); $L[] = ob_get_level();\n")
	}
	// back to "no buffer open" through the family's own closer, at most len(ops) times
	b.WriteString(fmt.Sprintf("for ($c20i = 0; $c20i < %d; $c20i++) { ob_end_clean(); }\n", len(k.Ops)))
	b.WriteString(fmt.Sprintf("echo \"#%d \", implode(\",\", $L), \"\\n\";\n", i))
	return b.String()
}

func (k obCase) modelLine() string {
	var fns []string
	for _, op := range k.Ops {
		fns = append(fns, obGoFn[op])
	}
	return "obstack\t" + strings.Join(fns, " ")
}

func obCases(maxLen int) []obCase {
	names := []string{"ob_start", "ob_end_clean", "ob_get_clean"}
	var res []obCase
	var rec func(cur []string)
	rec = func(cur []string) {
		if len(cur) > 0 {
			res = append(res, obCase{"obstack", append([]string{}, cur...)})
		}
		if len(cur) == maxLen {
			return
		}
		for _, n := range names {
			rec(append(cur, n))
		}
	}
	rec(nil)
	return res
}

func (e *env) obModelStream(m *vh.Model, cases []obCase) {
	c := e.c
	if m == nil || len(cases) == 0 {
		return
	}
	if t, err := functionTable(c.Scratch); err == nil && len(cases) > 1 {
		var untied []string
		for _, f := range t.Funcs {
			if strings.HasPrefix(strings.ToLower(f.Name), "ob_") && obGoFn[f.Name] == "" && f.Name != "ob_get_level" && f.Name != "ob_get_contents" {
				untied = append(untied, f.Name)
			}
		}
		if len(untied) > 0 {
			c.Note("output-buffer stack correspondence: registered built-ins of the family without an entry in the harness's name table (not tied to Model.Stack; called by the unbalanced stream): %s", strings.Join(untied, ", "))
		}
	}
	var sb strings.Builder
	sb.WriteString("<?php\n")
	lines := make([]string, len(cases))
	for i, k := range cases {
		sb.WriteString(k.code(i))
		lines[i] = k.modelLine()
	}
	p := &prog{Name: "obstack-model", Origin: "unbalanced", Src: sb.String()}
	e.materialise(p)
	o := runProcess(e.bin, p.File, p.Dir, 60*time.Second)
	if o.Status != 0 || o.Note != "" {
		c.Mismatch(map[string]any{"kind": "obstack-program", "status": o.Status, "note": o.Note}, clip(o.Stderr, 300), "status 0", "the output-buffer stack correspondence program did not run to its end")
		return
	}
	got := map[int]string{}
	for _, l := range strings.Split(o.Stdout, "\n") {
		var n int
		if _, err := fmt.Sscanf(l, "#%d ", &n); err == nil {
			if i := strings.IndexByte(l, ' '); i >= 0 {
				got[n] = l[i+1:]
			}
		}
	}
	ans, err := m.AskBatch(lines)
	if err != nil {
		c.Mismatch(nil, "", err.Error(), "model driver failed on the obstack batch")
		return
	}
	bad := 0
	for i, k := range cases {
		c.Eval("obstack:"+lines[i], len(k.Ops) >= 2)
		c.Hit("obstack.len-" + fmt.Sprint(len(k.Ops)))
		if got[i] != ans[i] {
			bad++
			if bad <= 3 {
				c.Mismatch(k, got[i], ans[i], "ob_get_level() after each call differs from the level Model.Stack computes from the regenerated length effects of core.outputBufferStack.buffers")
			}
		}
	}
	if bad > 3 {
		c.Note("output-buffer stack correspondence: %d of %d sequences differ from Model.Stack (first 3 reported)", bad, len(cases))
	}
	c.Res.Traces += len(cases)
}
