package c20

import (
	"fmt"
	"strconv"
	"strings"

	"github.com/php-any/origami/data"

	"verif/harness/vh"
)

// ---------------------------------------------------------------- OrderedMap correspondence

// omOp: Set(key, v) or Delete(key)
type omOp struct {
	Del bool   `json:"d,omitempty"`
	K   string `json:"k"`
	V   int    `json:"v,omitempty"`
}

type omCase struct {
	Kind string `json:"kind"` // "omap"
	Ops  []omOp `json:"ops"`
}

func (c omCase) line() string {
	var parts []string
	for _, o := range c.Ops {
		if o.Del {
			parts = append(parts, "d"+o.K)
		} else {
			parts = append(parts, fmt.Sprintf("s%s=%d", o.K, o.V))
		}
	}
	return strings.Join(parts, " ")
}

var omProbeKeys = []string{"a", "b", "c", "d", "e"}

func showPairs(ks []string, vs []int) string {
	var p []string
	for i := range ks {
		p = append(p, ks[i]+":"+strconv.Itoa(vs[i]))
	}
	return strings.Join(p, ",")
}

func valInt(v data.Value) int {
	if iv, ok := v.(*data.IntValue); ok {
		return iv.Value
	}
	return -999999
}

// omImpl drives the real data.OrderedMap and renders the observations in the driver's format.
func omImpl(c omCase) (res string) {
	defer func() {
		if r := recover(); r != nil {
			res = "go-panic: " + firstLine(fmt.Sprint(r))
		}
	}()
	m := data.NewOrderedMap()
	for _, o := range c.Ops {
		if o.Del {
			m.Delete(o.K)
		} else {
			m.Set(o.K, data.NewIntValue(o.V))
		}
	}
	var ks []string
	var vs []int
	m.Range(func(k string, v data.Value) bool {
		ks = append(ks, k)
		vs = append(vs, valInt(v))
		return true
	})
	var gets []string
	for _, k := range omProbeKeys {
		if v, ok := m.Get(k); ok {
			gets = append(gets, k+":"+strconv.Itoa(valInt(v)))
		} else {
			gets = append(gets, k+":-")
		}
		// GetZVal must agree with Get
		if z, ok := m.GetZVal(k); ok {
			if v, ok2 := m.Get(k); !ok2 || z.Value != v {
				gets[len(gets)-1] += "!zval"
			}
		}
	}
	var idxs []string
	n := m.Len()
	for i := -1; i <= n+1; i++ {
		if k, v, ok := m.GetByIndex(i); ok {
			idxs = append(idxs, fmt.Sprintf("%d:%s:%d", i, k, valInt(v)))
		} else {
			idxs = append(idxs, fmt.Sprintf("%d:-", i))
		}
	}
	var sk []string
	var sv []int
	m.Range(func(k string, v data.Value) bool {
		sk = append(sk, k)
		sv = append(sv, valInt(v))
		return k != "b"
	})
	return fmt.Sprintf("range=%s len=%d get=%s idx=%s stop=%s", showPairs(ks, vs), n, strings.Join(gets, "|"), strings.Join(idxs, "|"), showPairs(sk, sv))
}

// omRef: the insertion-ordered association list, written here independently of the Lean model
// and of the implementation (the oracle of the violation search).
func omRef(c omCase) string {
	var ks []string
	var vs []int
	find := func(k string) int {
		for i, x := range ks {
			if x == k {
				return i
			}
		}
		return -1
	}
	for _, o := range c.Ops {
		i := find(o.K)
		switch {
		case o.Del && i >= 0:
			ks = append(ks[:i:i], ks[i+1:]...)
			vs = append(vs[:i:i], vs[i+1:]...)
		case o.Del:
		case i >= 0:
			vs[i] = o.V
		default:
			ks = append(ks, o.K)
			vs = append(vs, o.V)
		}
	}
	var gets []string
	for _, k := range omProbeKeys {
		if i := find(k); i >= 0 {
			gets = append(gets, k+":"+strconv.Itoa(vs[i]))
		} else {
			gets = append(gets, k+":-")
		}
	}
	var idxs []string
	for i := -1; i <= len(ks)+1; i++ {
		if i >= 0 && i < len(ks) {
			idxs = append(idxs, fmt.Sprintf("%d:%s:%d", i, ks[i], vs[i]))
		} else {
			idxs = append(idxs, fmt.Sprintf("%d:-", i))
		}
	}
	stop := len(ks)
	for i, k := range ks {
		if k == "b" {
			stop = i + 1
			break
		}
	}
	return fmt.Sprintf("range=%s len=%d get=%s idx=%s stop=%s", showPairs(ks, vs), len(ks), strings.Join(gets, "|"), strings.Join(idxs, "|"), showPairs(ks[:stop], vs[:stop]))
}

// omCheck evaluates a batch: implementation vs model (correspondence) and vs reference (property).
func omCheck(c *vh.Ctx, m *vh.Model, batch []omCase) {
	var lines []string
	for _, cs := range batch {
		lines = append(lines, "omap\t"+cs.line())
	}
	var answers []string
	if m != nil {
		var err error
		answers, err = m.AskBatch(lines)
		if err != nil {
			c.Mismatch(nil, "", "", "model driver died: "+err.Error())
			answers = nil
		}
	}
	for i, cs := range batch {
		impl := omImpl(cs)
		ref := omRef(cs)
		dels := 0
		for _, o := range cs.Ops {
			if o.Del {
				dels++
			}
		}
		c.Eval("omap:"+cs.line(), len(cs.Ops) >= 2)
		c.Hit(fmt.Sprintf("omap.len=%d", min(len(cs.Ops), 8)))
		if dels > 0 {
			c.Hit("omap.with-delete")
		}
		c.SampleSome(map[string]any{"case": cs, "impl": impl}, 4001)
		if impl != ref {
			sig := "omap:order"
			if strings.HasPrefix(impl, "go-panic") {
				sig = "omap:panic"
			}
			c.Violation(sig, fmt.Sprintf("data.OrderedMap differs from the insertion-ordered association list: impl %q, expected %q", impl, ref), cs)
		}
		if answers != nil && i < len(answers) && answers[i] != impl {
			c.Mismatch(cs, impl, answers[i], "OrderedMap: implementation and Lean model differ")
		}
	}
}

func omStream(c *vh.Ctx, m *vh.Model) {
	keys := []string{"a", "b", "c"}
	type alpha struct {
		del bool
		k   string
	}
	var al []alpha
	for _, k := range keys {
		al = append(al, alpha{false, k}, alpha{true, k})
	}
	maxLen := c.N(5, 7)
	var batch []omCase
	flush := func() {
		if len(batch) > 0 {
			omCheck(c, m, batch)
			batch = batch[:0]
		}
	}
	var rec func(prefix []omOp)
	rec = func(prefix []omOp) {
		cs := omCase{Kind: "omap", Ops: append([]omOp(nil), prefix...)}
		batch = append(batch, cs)
		if len(batch) >= 2000 {
			flush()
		}
		if len(prefix) == maxLen {
			return
		}
		for _, a := range al {
			o := omOp{Del: a.del, K: a.k}
			if !a.del {
				o.V = len(prefix) + 1
			}
			rec(append(prefix, o))
		}
	}
	rec(nil)
	flush()
	// seeded longer histories over five keys
	n := c.N(3000, 40000)
	for i := 0; i < n; i++ {
		l := c.Rand.Range(maxLen+1, 40)
		var ops []omOp
		for j := 0; j < l; j++ {
			k := vh.Pick(c.Rand, omProbeKeys)
			if c.Rand.Chance(35) {
				ops = append(ops, omOp{Del: true, K: k})
			} else {
				ops = append(ops, omOp{K: k, V: j + 1})
			}
		}
		batch = append(batch, omCase{Kind: "omap", Ops: ops})
		if len(batch) >= 2000 {
			flush()
		}
	}
	flush()
}
