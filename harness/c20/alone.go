package c20

import (
	"fmt"
	"strings"
	"time"

	"verif/harness/vh"
)

// ---------------------------------------------------------------- "B alone" means alone
//
// The statement compares a program on a fresh VM after other programs ran in the process with the
// same program when nothing ran before. "Nothing ran before" is taken literally: the program is the
// first thing a brand-new process runs (one child of the harness per measurement, ended afterwards).
// A baseline taken on a fresh VM of a process that has already served other jobs is not a baseline:
// whatever those jobs left behind is in it (a process-wide flag that is never reset again shows the
// same wrong value in "alone" and in "after A", and the comparison sees nothing).

// aloneOf fills p.alone (and p.selfAfter when a second run in the same fresh process differs).
func (e *env) aloneOf(ps []*prog) {
	var jobs []vmJob
	var idx []int
	for i, p := range ps {
		if p.alone != nil || p.NoVM {
			continue
		}
		jobs = append(jobs, vmJob{ID: i, Files: []string{p.File}, Reps: 2, Dir: p.Dir})
		idx = append(idx, i)
	}
	for k, r := range runFreshJobs(e.c.Scratch, e.c.Workers, jobs, 120*time.Second) {
		p := ps[idx[k]]
		if !r.OK || len(r.Ans.Distinct[0]) == 0 {
			continue
		}
		o := r.Ans.Distinct[0][0] // outcomes are recorded in the order they first appear: [0] is the first run
		p.alone = &o
		for j := 1; j < len(r.Ans.Distinct[0]); j++ {
			if o2 := r.Ans.Distinct[0][j]; o2.key(p.MaskLog) != o.key(p.MaskLog) {
				p.selfAfter = &o2
				break
			}
		}
	}
}

// afterHistory: the outcome of p on a fresh VM after the programs of hist ran, in this order, each on
// its own VM, in one fresh process. nil when the process did not survive.
func (e *env) afterHistory(hist []*prog, p *prog) *Outcome {
	var files []string
	for _, h := range hist {
		files = append(files, h.File)
	}
	files = append(files, p.File)
	r := runFreshJobs(e.c.Scratch, 1, []vmJob{{ID: 0, Files: files, Reps: 1, Dir: p.Dir}}, 300*time.Second)[0]
	if !r.OK || len(r.Ans.Distinct[len(files)-1]) == 0 {
		return nil
	}
	o := r.Ans.Distinct[len(files)-1][0]
	return &o
}

// comparable: runs that ended in a Go panic are compared elsewhere (the process and the in-process
// runner necessarily report them differently)
func plainRun(o *Outcome) bool { return o != nil && o.Note == "" && o.Status != 2 && o.Status >= 0 }

// cliAgainstRunner: the in-process runner must show, for the first program of a fresh process, what
// `origami <file>` shows — stdout, stderr and status byte for byte. Otherwise the fresh-VM streams
// judge something other than the interpreter a user runs.
func (e *env) cliAgainstRunner(p *prog) bool {
	c := e.c
	if !plainRun(p.procOutcome) || !plainRun(p.alone) {
		c.Hit("cli-vs-runner.skipped-crash-or-missing")
		return true
	}
	c.Hit("cli-vs-runner.compared")
	if p.procOutcome.key(p.MaskLog) == p.alone.key(p.MaskLog) {
		return true
	}
	c.Mismatch(repCase{Kind: "cli", P: stripped(p)}, clip(p.procOutcome.key(p.MaskLog), 500), clip(p.alone.key(p.MaskLog), 500),
		fmt.Sprintf("%s: `origami <file>` in a fresh process (first) and the in-process runner on the first VM of a fresh process (second) differ: the runner no longer goes the way of the command line", p.Name))
	return false
}

// aloneStream: every program once more as the first program of a fresh process; compared with the
// command line (tie of the runner) and with its outcome after the arbitrary history of the
// long-lived child that ran it in vmStream (history independence, with the history known).
func (e *env) aloneStream(pool []*prog) []*prog {
	c := e.c
	e.aloneOf(pool)
	byFile := map[string]*prog{}
	for _, p := range e.all {
		byFile[p.File] = p
	}
	var ok []*prog
	for _, p := range pool {
		if p.alone == nil {
			c.Hit("alone.did-not-complete")
			continue
		}
		c.Eval("alone:"+p.Src, p.alone.Stdout != "" || p.alone.Stderr != "")
		c.Hit("alone." + p.Origin)
		if !e.cliAgainstRunner(p) {
			continue
		}
		if p.selfAfter != nil {
			c.Violation("residue:self:"+featureOf(p), fmt.Sprintf("%s: the second run (fresh VM, same process) differs from the first run of a fresh process: first %q, second %q",
				p.Name, clip(p.alone.key(p.MaskLog), 400), clip(p.selfAfter.key(p.MaskLog), 400)),
				repCase{Kind: "pair", P: stripped(p), A: ptr(stripped(p))})
			continue
		}
		if p.vmOutcome != nil && p.vmOutcome.key(p.MaskLog) != p.alone.key(p.MaskLog) {
			e.reportHistory(p, byFile)
			continue
		}
		ok = append(ok, p)
	}
	return ok
}

// reportHistory: p alone differs from p after the programs its long-lived child had run before.
// Find one predecessor that is enough (a pair replay); otherwise replay the whole history.
func (e *env) reportHistory(p *prog, byFile map[string]*prog) {
	c := e.c
	alone := p.alone.key(p.MaskLog)
	seen := map[string]bool{}
	var hist []*prog
	for _, f := range p.before {
		if h := byFile[f]; h != nil && !seen[f] {
			seen[f] = true
			hist = append(hist, h)
		}
	}
	// latest first: what ran last is the likeliest to matter; at most 60 attempts
	for i := len(hist) - 1; i >= 0 && len(hist)-i <= 60; i-- {
		if o := e.afterHistory([]*prog{hist[i]}, p); o != nil && o.key(p.MaskLog) != alone {
			c.Violation("residue:"+featureOf(hist[i])+"->"+featureOf(p), fmt.Sprintf("a program run on a fresh VM behaves differently after another program ran on another VM of the same process: A=%s B=%s; B as the first program of a fresh process %q, B after A %q",
				hist[i].Name, p.Name, clip(alone, 400), clip(o.key(p.MaskLog), 400)),
				repCase{Kind: "pair", P: stripped(p), A: ptr(stripped(hist[i]))})
			return
		}
	}
	var hs []prog
	for _, h := range hist {
		hs = append(hs, stripped(h))
	}
	what := fmt.Sprintf("%s: as the first program of a fresh process %q; on a fresh VM of a process that had run %d other programs before %q", p.Name, clip(alone, 400), len(hist), clip(p.vmOutcome.key(p.MaskLog), 400))
	if o := e.afterHistory(hist, p); o != nil && o.key(p.MaskLog) != alone {
		c.Violation("residue:history:"+featureOf(p), what, repCase{Kind: "hist", P: stripped(p), Hist: hs})
		return
	}
	// not reproduced with one run of each predecessor: report what was seen (the replay runs the same history)
	c.Violation("residue:history-unreproduced:"+featureOf(p), what+" (not reproduced when each earlier program is run once)", repCase{Kind: "hist", P: stripped(p), Hist: hs})
}

// probeTableCheck: the probe table of Proofs/C20Sites.lean (one clean channel per observer of a
// reset-per-run cell, obligation C20_reset_observers_probed) names channels of this harness.
func (e *env) probeTableCheck(m *vh.Model) {
	if m == nil {
		return
	}
	ans, err := m.Ask("probes")
	if err != nil || ans == "bad-op" {
		e.c.Mismatch(nil, "", ans, "the model driver does not answer `probes`")
		return
	}
	have := map[string]bool{}
	for _, ch := range channels {
		if ch.Known == "" {
			have[ch.Name] = true
		}
	}
	n := 0
	for _, name := range strings.Fields(ans) {
		n++
		if !have[name] {
			e.c.Mismatch(nil, "no such clean channel in harness/c20/pairs.go", name, "the probe table (Proofs/C20Sites.lean) names a channel the harness does not run")
		}
	}
	e.c.HitN("probe-table.channels", n)
}
