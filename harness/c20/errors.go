package c20

import (
	"fmt"
	"strings"
)

// ---------------------------------------------------------------- errors the interpreter raises itself
//
// Round 8. An error the interpreter raises itself (data.NewErrorThrow / utils.NewThrow sites a script
// reaches without `throw new`) is a MUTABLE Go object while it unwinds: every function / method / try
// boundary appends to ThrowValue.StackFrames and the first node that knows a position fills Error.From.
// If the raise site hands out an object that outlives the raise (a package-level "sentinel", a cached
// node, a pooled buffer), the second raise of the process carries what the first one collected. None
// of the earlier residue streams had an A that raises an interpreter-level error AND a B that raises
// the same kind and looks at it: the generated pool only throws user exceptions (`throw new`), the
// hand-written channels never look at getFile / getLine / getTraceAsString of an internal error.
//
// Stream: for every kind of interpreter-raised error (errKinds; every kind is validated at run time:
// B alone must end with status 1 and a diagnostic, kinds that do not raise on the tree under test
// are reported and left out) four histories A — the error raised at another depth and position and
// caught, caught three times in a loop, left uncaught, and the NEXT kind caught (rotation: a value
// shared between kinds) — and one B that raises the kind three frames deep, prints class / message /
// file / line / trace and rethrows it (diagnostic on stderr, status 1). Oracles (pairCheck, model
// independent): B after A on a fresh VM byte-identical (stdout, stderr, status) to B as the first
// program of a brand-new process; B on two successive fresh VMs of one process identical to itself;
// B under `origami <file>` identical to the in-process runner.

type errKind struct {
	Name string
	Code string // one statement list that raises; runs inside a function body
}

const errPrelude = `function c20e_tp(int $x) { return $x; }
function c20e_tr(): int { return "abc"; }
function c20e_two($a, $b) { return $a; }
abstract class C20EAbs { abstract function f(); }
interface C20EIf { function f(); }
class C20EO { public $p = 1; public function m() { return 1; } private function pm() { return 1; } private $priv = 2; const K = 1; public static $s = 1; }
`

var errKinds = []errKind{
	{"spread-non-array", `$x = 7; $r = [0, ...$x, 9];`},
	{"spread-null", `$x = null; $r = [0, ...$x, 9];`},
	{"spread-string", `$x = "abc"; $r = [...$x];`},
	{"call-spread-non-array", `$x = 7; $r = c20e_two(...$x);`},
	{"undefined-function", `c20e_undefined_fn();`},
	{"undefined-method", `$o = new C20EO(); $o->nomethod();`},
	{"undefined-static-method", `C20EO::nostatic();`},
	{"unknown-class", `$o = new C20ENoSuchClass();`},
	{"modulo-by-zero", `$z = 1 % 0;`},
	{"intdiv-by-zero", `$z = intdiv(1, 0);`},
	{"division-by-zero", `$z = 1 / 0;`},
	{"parameter-type", `c20e_tp("abc");`},
	{"return-type", `c20e_tr();`},
	{"method-on-null", `$n = null; $n->m();`},
	{"private-method", `$o = new C20EO(); $o->pm();`},
	{"private-property", `$o = new C20EO(); $z = $o->priv;`},
	{"undefined-variable-function", `$f = "c20e_nofn"; $f();`},
	{"throw-non-object", `throw 5;`},
	{"undefined-class-constant", `$z = C20EO::NOCONST;`},
	{"undefined-static-property", `$z = C20EO::$nostatic;`},
	{"foreach-over-int", `foreach (5 as $v) {}`},
	{"clone-non-object", `$z = clone 5;`},
	{"abstract-instantiation", `$o = new C20EAbs();`},
	{"interface-instantiation", `$o = new C20EIf();`},
	{"match-unhandled", `$z = match (5) { 1 => 'a', 2 => 'b' };`},
	{"too-few-arguments", `c20e_two(1);`},
	{"undefined-constant", `$z = C20E_NO_SUCH_CONSTANT;`},
	{"array-to-int-arith", `$z = [1] + 1;`},
	{"string-call-on-int", `$z = 5; $z();`},
	{"new-on-int", `$c = 5; $o = new $c();`},
	{"unset-this-method-call", `$o = 5; $o->m();`},
	{"static-call-unknown-class", `C20ENoSuchClass::f();`},
	{"instanceof-unknown-const", `$z = C20ENoSuchClass::K;`},
}

// the raise three boundaries deep (function, function, method), lines fixed by the layout
func errBody(k errKind, tag string, pad int) string {
	var sb strings.Builder
	sb.WriteString(errPrelude)
	sb.WriteString(strings.Repeat("\n", pad))
	fmt.Fprintf(&sb, "function c20e_%s_inner() { %s return 1; }\n", tag, k.Code)
	fmt.Fprintf(&sb, "function c20e_%s_mid() { return c20e_%s_inner(); }\n", tag, tag)
	fmt.Fprintf(&sb, "class C20E%s { function run() { return c20e_%s_mid(); } }\n", strings.ToUpper(tag), tag)
	return sb.String()
}

func errProgA(k errKind, variant string) string {
	switch variant {
	case "caught":
		return errBody(k, "a", 3) + "try { (new C20EA())->run(); echo \"A-no-raise;\"; } catch (\\Throwable $e) { echo \"A-caught;\"; }\necho \"A-done;\";"
	case "caught-3":
		return errBody(k, "a", 5) + "function c20e_a_wrap($o) { try { $o->run(); echo \"A-no-raise;\"; } catch (\\Throwable $e) { echo \"A-caught;\"; } }\nforeach ([1, 2, 3] as $i) { c20e_a_wrap(new C20EA()); }\necho \"A-done;\";"
	case "uncaught":
		return errBody(k, "a", 1) + "echo \"A-start;\";\n(new C20EA())->run();\necho \"A-unreachable;\";"
	}
	return ""
}

func errProgB(k errKind) string {
	return errBody(k, "b", 0) + `try {
    (new C20EB())->run();
    echo "B-no-raise;";
} catch (\Throwable $e) {
    echo "B: ", get_class($e), "|", $e->getMessage(), "|", basename($e->getFile()), ":", $e->getLine(), "\n";
    echo $e->getTraceAsString(), "\n";
    throw $e;
}
echo "B-unreachable;";`
}

func (e *env) errorStream() {
	c := e.c
	type kindProgs struct {
		k  errKind
		b  *prog
		as []*prog
	}
	var ks []kindProgs
	var bs []*prog
	for _, k := range errKinds {
		b := e.chanProg("error:"+k.Name, "B", errProgB(k))
		ks = append(ks, kindProgs{k: k, b: b})
		bs = append(bs, b)
	}
	e.aloneOf(bs)
	var usable []kindProgs
	var unusable []string
	for _, kp := range ks {
		o := kp.b.alone
		if kp.b.selfAfter != nil {
			// two outcomes on two fresh VMs: pairCheck reports it
			usable = append(usable, kp)
			continue
		}
		if o == nil || o.Status != 1 || !strings.Contains(o.Stdout, "B: ") || strings.Contains(o.Stdout, "B-no-raise") {
			why := "does not complete"
			if o != nil {
				why = clip(firstLine(o.Stdout+" "+o.Stderr), 80)
			}
			unusable = append(unusable, kp.k.Name+" ("+why+")")
			c.Hit("errors.kind-not-raised")
			continue
		}
		usable = append(usable, kp)
	}
	if len(usable) < 16 {
		c.Mismatch(nil, fmt.Sprintf("%d usable kinds", len(usable)), ">= 16", "too few kinds of interpreter-raised errors reach a catch (Throwable) on the tree under test; the error stream is not exercised: "+strings.Join(unusable, ", "))
	}
	var cases []pairCase
	for i := range usable {
		kp := &usable[i]
		for _, v := range []string{"caught", "caught-3", "uncaught"} {
			kp.as = append(kp.as, e.chanProg("error:"+kp.k.Name+":"+v, "A", errProgA(kp.k, v)))
		}
	}
	for i, kp := range usable {
		for _, a := range kp.as {
			cases = append(cases, pairCase{A: a, B: kp.b})
			c.Hit("errors.kind." + kp.k.Name)
		}
		// rotation: the next kind raised and caught before this one
		next := usable[(i+1)%len(usable)]
		if next.k.Name != kp.k.Name {
			cases = append(cases, pairCase{A: next.as[0], B: kp.b})
		}
	}
	c.Note("error stream: %d of %d kinds of interpreter-raised errors raise and reach catch (Throwable) on the tree under test (left out: %s); %d (A, B) pairs (A raises the kind caught / caught three times / uncaught / the next kind caught; B raises it three frames deep, prints class, message, file, line, trace and rethrows)",
		len(usable), len(errKinds), strings.Join(unusable, ", "), len(cases))
	e.pairCheck(cases, true)
}
