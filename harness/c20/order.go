package c20

import (
	"fmt"
	"strconv"
	"strings"

	"verif/harness/vh"
)

// ---------------------------------------------------------------- script-level insertion order

// orderCase: a history of `$x['k'] = v` / `unset($x['k'])` on a string-keyed array, or of
// `$x->k = v` on a stdClass, followed by the enumerations a script has.
type orderCase struct {
	Kind string `json:"kind"` // "order"
	On   string `json:"on"`   // array | object
	Ops  []omOp `json:"ops"`
}

func (oc orderCase) code(v string) string {
	var sb strings.Builder
	if oc.On == "array" {
		fmt.Fprintf(&sb, "%s = [];\n", v)
	} else {
		fmt.Fprintf(&sb, "%s = new stdClass;\n", v)
	}
	for _, o := range oc.Ops {
		switch {
		case oc.On == "array" && o.Del:
			fmt.Fprintf(&sb, "unset(%s['%s']);\n", v, o.K)
		case oc.On == "array":
			fmt.Fprintf(&sb, "%s['%s'] = %d;\n", v, o.K, o.V)
		default:
			fmt.Fprintf(&sb, "%s->%s = %d;\n", v, o.K, o.V)
		}
	}
	fmt.Fprintf(&sb, "foreach (%s as $k => $x) { echo $k, ':', $x, ','; }\n", v)
	if oc.On == "array" {
		fmt.Fprintf(&sb, "echo '|', implode(',', array_keys(%s)), '|', count(%s), '|';\n", v, v)
	} else {
		fmt.Fprintf(&sb, "echo '|', json_encode(%s), '|';\n", v)
	}
	if oc.On == "object" {
		fmt.Fprintf(&sb, "echo serialize(%s);\n", v)
	}
	sb.WriteString("echo \"\\n\";\n")
	return sb.String()
}

// expected line, from the insertion-ordered reference
func (oc orderCase) expect() string {
	var ks []string
	var vs []int
	find := func(k string) int {
		for i, x := range ks {
			if x == k {
				return i
			}
		}
		return -1
	}
	for _, o := range oc.Ops {
		i := find(o.K)
		switch {
		case o.Del && i >= 0:
			ks = append(ks[:i:i], ks[i+1:]...)
			vs = append(vs[:i:i], vs[i+1:]...)
		case o.Del:
		case i >= 0:
			vs[i] = o.V
		default:
			ks = append(ks, o.K)
			vs = append(vs, o.V)
		}
	}
	var sb strings.Builder
	for i := range ks {
		fmt.Fprintf(&sb, "%s:%d,", ks[i], vs[i])
	}
	sb.WriteString("|")
	if oc.On == "array" {
		sb.WriteString(strings.Join(ks, ",") + "|" + strconv.Itoa(len(ks)) + "|")
		return sb.String()
	} else {
		sb.WriteString("{")
		for i := range ks {
			if i > 0 {
				sb.WriteString(",")
			}
			fmt.Fprintf(&sb, "%q:%d", ks[i], vs[i])
		}
		sb.WriteString("}|")
		fmt.Fprintf(&sb, "O:8:\"stdClass\":%d:{", len(ks))
	}
	for i := range ks {
		fmt.Fprintf(&sb, "s:%d:\"%s\";i:%d;", len(ks[i]), ks[i], vs[i])
	}
	sb.WriteString("}")
	return sb.String()
}

func (e *env) orderCheck(cases []orderCase) {
	c := e.c
	const per = 40
	var progs []*prog
	var groups [][]orderCase
	for i := 0; i < len(cases); i += per {
		g := cases[i:min(i+per, len(cases))]
		var sb strings.Builder
		sb.WriteString("<?php\n")
		for j, oc := range g {
			sb.WriteString(oc.code(fmt.Sprintf("$v%d", j)))
		}
		p := &prog{Name: fmt.Sprintf("order#%d", i/per), Origin: "order", Src: sb.String()}
		e.materialise(p)
		progs = append(progs, p)
		groups = append(groups, g)
	}
	tallies := procRepeat(e.bin, progs, 1, c.Workers)
	for gi, g := range groups {
		o := tallies[gi].first[0]
		lines := strings.Split(strings.TrimRight(o.Stdout, "\n"), "\n")
		for j, oc := range g {
			got := "<missing: status=" + strconv.Itoa(o.Status) + " " + clip(o.Stderr, 200) + ">"
			if j < len(lines) {
				got = lines[j]
			}
			want := oc.expect()
			c.Eval("order:"+oc.On+":"+omCase{Ops: oc.Ops}.line(), len(oc.Ops) >= 2)
			c.Hit("order." + oc.On)
			c.SampleSome(map[string]any{"case": oc, "got": got}, 1511)
			if got != want {
				c.Violation("order:"+oc.On, fmt.Sprintf("enumeration after the history is not the insertion-ordered list: got %q, expected %q", got, want), oc)
			}
		}
	}
}

func (e *env) orderStream() {
	c := e.c
	var cases []orderCase
	keys := []string{"a", "b", "c"}
	maxLen := c.N(4, 5)
	var rec func(prefix []omOp)
	rec = func(prefix []omOp) {
		if len(prefix) > 0 {
			cases = append(cases, orderCase{Kind: "order", On: "array", Ops: append([]omOp(nil), prefix...)})
		}
		if len(prefix) == maxLen {
			return
		}
		for _, k := range keys {
			rec(append(prefix, omOp{K: k, V: len(prefix) + 1}))
			rec(append(prefix, omOp{Del: true, K: k}))
		}
	}
	rec(nil)
	n := c.N(400, 4000)
	names := []string{"a", "b", "c", "dd", "e_e", "F", "g7"}
	for i := 0; i < n; i++ {
		on := "array"
		if c.Rand.Chance(40) {
			on = "object"
		}
		l := c.Rand.Range(2, 24)
		var ops []omOp
		for j := 0; j < l; j++ {
			k := vh.Pick(c.Rand, names)
			if on == "array" && c.Rand.Chance(30) {
				ops = append(ops, omOp{Del: true, K: k})
			} else {
				ops = append(ops, omOp{K: k, V: j + 1})
			}
		}
		cases = append(cases, orderCase{Kind: "order", On: on, Ops: ops})
	}
	e.orderCheck(cases)
}
