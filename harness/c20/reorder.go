package c20

import (
	"encoding/hex"
	"encoding/json"
	"fmt"
	"os"
	"os/exec"
	"path/filepath"
	"reflect"
	"regexp"
	"sort"
	"strings"
	"time"

	"github.com/php-any/origami/parser"
	oruntime "github.com/php-any/origami/runtime"

	"verif/harness/vh"
)

// ---------------------------------------------------------------- reorder stream (round 5)
//
// Class: a function that collects the entries of a string-keyed array from the Go map behind it and
// then *sorts* them — benign as long as the comparator cannot tie on two different entries, an order
// leak the moment it can (ksort with a numeric comparator: every non-numeric key is 0). The pool
// programs only ever called `ksort($a)` on keys that no flag could make tie.
//
// The stream is systematic and does not know which functions sort:
//
//   functions  every function of the *registered function table* of a fresh VM whose Go implementation
//              lives in std/php/array, plus every registered function whose implementation holds a
//              regenerated sort-over-map-order fact (driver command `sorts`: strtr today) — minus those
//              that are random by contract (the corpus filter's `random` rule);
//   arrays     string-keyed and list arrays built so that entries tie under some comparison:
//              non-numeric keys (all 0 numerically), numeric-equal spellings ('1', '1.0', ' 1', '01', '1e0'),
//              case variants, natural-order variants, loosely equal values under distinct keys, equal
//              nested arrays, rows with equal columns;
//   shapes     F($a), F($a, n) for every n in 0..15 (every OR of the SORT_* / COUNT_* / ARRAY_FILTER_*
//              flag values; the SORT_* constants of the VM's constant table are checked to lie in that
//              range), F($a, $b), F($a, string), F($a, callback) with callbacks that tie, the array in
//              second position F(x, $a) for callbacks / strings / numbers / a subject string made of the
//              keys, and three-argument forms;
//
// one program per function (one line of output per call: result and the array afterwards, so that
// by-reference functions show), run in fresh processes and on fresh VMs as often as the calibrated
// map-order bias requires; byte-identical stdout / stderr / status. A difference is located by line,
// the single call is confirmed serially in fresh processes and reported with the one-call program as
// its replay.
//
// Round 6 (seed C20-max-assoc-ties-map-order: max() over a string-keyed array, candidates collected from the
// Go map, first of the tied maxima wins): the class is not "functions that sort" but every built-in whose
// result depends on the order in which it visits the entries — and max lives in std/php, not std/php/array.
// The stream now calls every function of the registered function table (see notCalled for the few it does
// not), with arrays whose values tie at the top / bottom / everywhere and are distinguishable in the output;
// the functions outside std/php/array get a reduced matrix (restArrays × coreShapes, 3 executions per run).
// Results are printed as gettype:json together with the repetition that first showed them; the oracle is
// byte-identical behaviour between runs (no "one result per call inside a run": define, ini_set … keep state).
//
// Correspondence: `ksort` / `krsort` on every 2- and 3-element subset of a tie-rich key pool × flags
// against `Model.SortKeys.ksort` (driver command `ksort`): the regenerated fact says the comparator is
// the raw string order for every flag, the model sorts by it, the real array must come out in that order.

// fnInfo: one entry of the registered function table
type fnInfo struct {
	Name    string `json:"name"`
	GoType  string `json:"go_type"` // e.g. KsortFunction
	PkgPath string `json:"pkg"`     // e.g. github.com/php-any/origami/std/php/array
	NParams int    `json:"nparams"`
}

type fnTable struct {
	Funcs     []fnInfo       `json:"funcs"`
	SortConst map[string]int `json:"sort_const"` // SORT_* constants of the VM's constant table
	Err       string         `json:"err,omitempty"`
}

func init() { vh.RegisterChild("c20fns", fnsChild) }

// fnsChild builds a VM exactly as a run does (same loader) and prints its function table.
func fnsChild(args []string) int {
	proto := vh.ProtocolStdout()
	var t fnTable
	func() {
		defer func() {
			if r := recover(); r != nil {
				t.Err = fmt.Sprint(r)
			}
		}()
		p := parser.NewParser()
		vm := oruntime.NewVM(p)
		loadAll(vm)
		rvm, ok := vm.(*oruntime.VM)
		if !ok {
			t.Err = "runtime.NewVM does not return *runtime.VM any more"
			return
		}
		for _, f := range rvm.AllFuncs() {
			ty := reflect.TypeOf(f)
			for ty.Kind() == reflect.Pointer {
				ty = ty.Elem()
			}
			t.Funcs = append(t.Funcs, fnInfo{Name: f.GetName(), GoType: ty.Name(), PkgPath: ty.PkgPath(), NParams: len(f.GetParams())})
		}
		t.SortConst = map[string]int{}
		for _, n := range []string{"SORT_REGULAR", "SORT_NUMERIC", "SORT_STRING", "SORT_LOCALE_STRING", "SORT_NATURAL", "SORT_FLAG_CASE", "SORT_ASC", "SORT_DESC", "COUNT_RECURSIVE", "COUNT_NORMAL", "ARRAY_FILTER_USE_KEY", "ARRAY_FILTER_USE_BOTH"} {
			if v, ok := vm.GetConstant(n); ok && v != nil {
				if iv, ok := v.(interface{ AsInt() (int, error) }); ok {
					if x, err := iv.AsInt(); err == nil {
						t.SortConst[n] = x
					}
				}
			}
		}
	}()
	sort.Slice(t.Funcs, func(i, j int) bool { return t.Funcs[i].Name < t.Funcs[j].Name })
	b, _ := json.Marshal(t)
	proto.Write(append(b, '\n'))
	return 0
}

func functionTable(scratch string) (fnTable, error) {
	cmd := exec.Command(vh.Self(), "__child", "c20fns")
	cmd.Dir = scratch
	done := make(chan struct{})
	var out []byte
	var err error
	go func() { out, err = cmd.Output(); close(done) }()
	select {
	case <-done:
	case <-time.After(60 * time.Second):
		if cmd.Process != nil {
			cmd.Process.Kill()
		}
		return fnTable{}, fmt.Errorf("function-table child hung")
	}
	if err != nil {
		return fnTable{}, fmt.Errorf("function-table child: %v", err)
	}
	var t fnTable
	lines := strings.Split(strings.TrimSpace(string(out)), "\n")
	if e := json.Unmarshal([]byte(lines[len(lines)-1]), &t); e != nil {
		return t, e
	}
	if t.Err != "" {
		return t, fmt.Errorf("%s", t.Err)
	}
	return t, nil
}

// ---- the inputs

type tieArray struct {
	ID  string
	Lit string
}

// arrays whose entries tie under some comparison
var tieArrays = []tieArray{
	{"nonnum-keys", `['width' => 1, 'depth' => 2, 'height' => 3, '10' => 4, '9' => 5]`},
	{"two-nonnum", `['width' => 'w', 'depth' => 'd']`},
	{"numeq-keys", `['1' => 'a', '1.0' => 'b', ' 1' => 'c', '01' => 'd', '1e0' => 'e', '+1' => 'f']`},
	{"case-natural-keys", `['Ab' => 1, 'aB' => 2, 'AB' => 3, 'ab' => 4, 'img12' => 5, 'img012' => 6, 'IMG12' => 7, 'img1' => 8, 'img01' => 9]`},
	{"equal-values", `['x' => '1', 'y' => '1.0', 'z' => 1, 'w' => true, 'v' => '01', 'u' => 'Ab', 't' => 'aB', 's' => null, 'r' => '']`},
	{"nested-rows", `['p' => [1, 2], 'q' => [1, 2], 'o' => ['k' => 1], 'n' => ['k' => 1], 'm' => ['k' => '1'], 'r1' => ['id' => 1, 'n' => 'x'], 'r2' => ['id' => 1, 'n' => 'y'], 'r3' => ['id' => '1.0', 'n' => 'x'], 'r4' => ['id' => 'a', 'n' => 'z']]`},
	{"list-scalars", `['1', '1.0', ' 1', '01', '1e0', 1, 1.0, true, 'Ab', 'aB', 'AB', 'width', 'depth']`},
	{"list-rows", `[[2, 'a'], [1, 'b'], [2, 'c'], [1, 'd'], ['id' => 1, 'n' => 'x'], ['id' => '1.0', 'n' => 'x']]`},
	// round 6: values that tie under every comparison a reduction may use (numeric, loose, string after
	// trimming) and are distinguishable in the output (type and spelling), eight or more of them, at the
	// top / at the bottom / everywhere: the first-of-ties of max, min, array_search, in_array …
	{"max-ties", `['ann' => 3, 'bob' => 3.0, 'cleo' => '3', 'dave' => '3.0', 'erin' => ' 3', 'fred' => '3e0', 'gina' => '03', 'hank' => '+3', 'ivy' => 3.0, 'low' => 1, 'lower' => true]`},
	{"min-ties", `['ann' => 3, 'bob' => 3.0, 'cleo' => '3', 'dave' => '3.0', 'erin' => ' 3', 'fred' => '3e0', 'gina' => '03', 'hank' => '+3', 'ivy' => 3.0, 'high' => 7, 'higher' => '9']`},
	{"all-ties", `['ann' => 1, 'bob' => 1.0, 'cleo' => '1', 'dave' => '1.0', 'erin' => true, 'fred' => ' 1', 'gina' => '1e0', 'hank' => '01', 'ivy' => '+1', 'jack' => 1.0]`},
}

// the arrays the functions outside std/php/array are called with (ties among values, among non-numeric keys,
// among nested rows, a list) and the round-6 arrays, which every function gets with the shapes of the reduced
// matrix only (the flag enumeration is about comparators of sorts; the older arrays carry it)
var restArrays = map[string]bool{"nonnum-keys": true, "equal-values": true, "nested-rows": true, "list-scalars": true, "max-ties": true, "min-ties": true, "all-ties": true}
var round6Arrays = map[string]bool{"max-ties": true, "min-ties": true, "all-ties": true}

const reorderB = `['depth' => 9, 'Ab' => 9, '1.0' => 9, 'x' => '1', 'q' => [1, 2], 'r2' => ['id' => 1, 'n' => 'y'], 0 => '1', 1 => 'aB']`

type argShape struct {
	ID   string
	Args string
	Core bool // part of the reduced matrix used for the functions outside std/php/array
}

// the shapes every registered function is called with (the full list, 16 flag values included, is kept for
// the functions implemented in std/php/array and those holding a sort fact)
var coreShapes = map[string]bool{"a": true, "a,0": true, "a,1": true, "a,2": true, "a,b": true, "a,str": true, "a,cmp": true,
	"a,key": true, "key,a": true, "cmp,a": true, "str,a": true, "int,a": true, "subject,a": true, "b,a": true,
	"a,1,2": true, "a,1,true": true, "a,b,cmp": true, "a,str,true": true, "a,str,str": true,
	"str,str,a": true, "a,str,subject": true, "str,a,subject": true, "a,a,subject": true, "str,a,true": true}

func argShapes() []argShape {
	s := []argShape{{ID: "a", Args: "$a"}}
	for n := 0; n <= 15; n++ {
		s = append(s, argShape{ID: fmt.Sprintf("a,%d", n), Args: fmt.Sprintf("$a, %d", n)})
	}
	s = append(s,
		argShape{ID: "a,b", Args: "$a, $b"},
		argShape{ID: "a,str", Args: "$a, '1.0'"},
		argShape{ID: "a,cmp", Args: "$a, $cmp"},
		argShape{ID: "a,zero", Args: "$a, $zero"},
		argShape{ID: "a,key", Args: "$a, $key"},
		argShape{ID: "key,a", Args: "'c20key', $a"},
		argShape{ID: "cmp,a", Args: "'c20cmp', $a"},
		argShape{ID: "str,a", Args: "'1.0', $a"},
		argShape{ID: "int,a", Args: "1, $a"},
		argShape{ID: "subject,a", Args: "$s, $a"},
		argShape{ID: "b,a", Args: "$b, $a"},
		argShape{ID: "a,1,2", Args: "$a, 1, 2"},
		argShape{ID: "a,1,true", Args: "$a, 1, true"},
		argShape{ID: "a,b,cmp", Args: "$a, $b, $cmp"},
		argShape{ID: "a,cmp,1", Args: "$a, $cmp, 1"},
		argShape{ID: "a,str,true", Args: "$a, '1', true"},
		argShape{ID: "a,str,str", Args: "$a, 'id', 'n'"},
		// round 6: the array in third position, as search / replacement list, with a strictness flag
		argShape{ID: "str,str,a", Args: "'1', 'x', $a"},
		argShape{ID: "a,str,subject", Args: "$a, 'x', $s"},
		argShape{ID: "str,a,subject", Args: "'1', $a, $s"},
		argShape{ID: "a,a,subject", Args: "$a, $a, $s"},
		argShape{ID: "str,a,true", Args: "'3', $a, true"},
	)
	for i := range s {
		s[i].Core = coreShapes[s[i].ID]
	}
	return s
}

// The prelude: the arrays as functions (a fresh array per call: a by-reference function must not see what an
// earlier call left), callbacks that tie, and the printer: every call is made `reps` times in the run and
// a result is printed the first time it is seen — a deterministic program prints one line per call.
func reorderPrelude(used map[string]bool) string {
	var sb strings.Builder
	sb.WriteString("<?php\n")
	for i, a := range tieArrays {
		if used == nil || used[a.ID] {
			fmt.Fprintf(&sb, "function c20a%d() { return %s; }\n", i, a.Lit)
		}
	}
	fmt.Fprintf(&sb, "function c20b() { return %s; }\n", reorderB)
	sb.WriteString(`function c20o($k, $rep) { static $seen = []; if (!isset($seen[$k])) { $seen[$k] = 1; echo '#', $k, ' @', $rep, "\n"; } }
function c20tick($d = 1) { static $n = 0; $n += $d; return $n; }
function c20e($e) { $m = $e->getMessage(); $i = strpos($m, "\nstack: goroutine"); if ($i !== false) { $m = substr($m, 0, $i) . ' [go stack]'; } return 'T:' . get_class($e) . ':' . str_replace("\n", ' ', $m); }
function c20cmp($p, $q = 0) { return strlen(json_encode($p)) - strlen(json_encode($q)); }
function c20key($p, $q = 0) { return strlen(json_encode($p)); }
$cmp = function($p, $q = 0) { c20tick(); return strlen(json_encode($p)) - strlen(json_encode($q)); };
$zero = function($p, $q = 0) { c20tick(); return 0; };
$key = function($p, $q = 0) { c20tick(); return strlen(json_encode($p)); };
`)
	return sb.String()
}

func arrIndex(id string) int {
	for i, a := range tieArrays {
		if a.ID == id {
			return i
		}
	}
	return 0
}

// one call: `#<n> <result>|<array afterwards> @<rep>` or `#<n> T:<class>:<message> @<rep>`, printed when first seen
// together with the number of the repetition that showed it. guard: the call passes a closure to a function
// that is not known to take callbacks — its result is looked at only when the closure was invoked (a closure
// that is merely converted to a string prints heap addresses: known finding C20-closure-to-string-address).
func reorderCall(n int, fn string, arr tieArray, sh argShape, guard bool) string {
	subj := ""
	if strings.Contains(sh.Args, "$s") {
		subj = " $s = implode(' ', array_keys($a)) . ' ' . json_encode(array_values($a));"
	}
	res := "$o = gettype($r) . ':' . json_encode($r) . '|' . json_encode($a);"
	pre := ""
	if guard && (strings.Contains(sh.Args, "$cmp") || strings.Contains(sh.Args, "$zero") || strings.Contains(sh.Args, "$key")) {
		pre = " $t0 = c20tick(0);"
		res = "if (c20tick(0) == $t0) { $o = 'closure-not-invoked'; } else { " + res + " }"
	}
	return fmt.Sprintf("$a = c20a%d(); $b = c20b();%s%s try { $r = %s(%s); %s } catch (\\Throwable $e) { $o = c20e($e); } c20o('%d ' . $o, $rep);\n",
		arrIndex(arr.ID), subj, pre, fn, sh.Args, res, n)
}

// the program of a list of calls, each made `reps` times
func reorderProgram(calls []reorderCall1, reps int) string {
	var sb strings.Builder
	used := map[string]bool{}
	for _, cl := range calls {
		used[cl.Arr] = true
	}
	sb.WriteString(reorderPrelude(used))
	fmt.Fprintf(&sb, "for ($rep = 0; $rep < %d; $rep++) {\n", reps)
	for n, cl := range calls {
		arr, _ := findArr(cl.Arr)
		sh, _ := findShape(cl.Shape)
		sb.WriteString(reorderCall(n, cl.Fn, arr, sh, cl.Guard))
	}
	sb.WriteString("}\n")
	return sb.String()
}

type reorderCall1 struct {
	Fn, Arr, Shape string
	Guard          bool
}

type reorderProg struct {
	full  bool // the full matrix
	inner int
	procs int // fresh processes
	vms   int // fresh VMs
	fn    string
	p     *prog
	calls []reorderCall1
}

type reorderCase struct {
	Kind  string `json:"kind"` // reorder
	Fn    string `json:"fn"`
	Array string `json:"array"`
	Shape string `json:"shape"`
	Src   string `json:"src"`
	Reps  int    `json:"reps"`
}

func findArr(id string) (tieArray, bool) {
	for _, a := range tieArrays {
		if a.ID == id {
			return a, true
		}
	}
	return tieArray{}, false
}

func findShape(id string) (argShape, bool) {
	for _, s := range argShapes() {
		if s.ID == id {
			return s, true
		}
	}
	return argShape{}, false
}

// notCalled: registered functions the stream does not call although they take arguments, by what their
// contract is (not by what their implementation does): they end, suspend or fork the run, or act on the
// process, so that a program calling them 11 times in a row is not a sequential, input-free program any
// more. Everything else is left out only by the corpus filter's rules (time, randomness, process identity,
// concurrency, network, file writes and commands, stdin — `exclusions`), applied to the function's name.
var notCalled = map[string]string{
	"exit": "ends the run", "die": "ends the run",
	"umask":        "changes the process's file-mode mask (process state, like cwd / environment)",
	"run_php_file": "runs another file",
	"eval":         "runs its argument as a program",
	"gg":           "debug helper: dumps and ends the run",
	"dump":         "debug helper: prints Go-level representations",
	"fclose":       "closes a stream of the process", "fflush": "acts on a stream of the process",
	"stream_get_contents":   "reads a stream of the process",
	"cli_set_process_title": "changes the process title",
}

type reorderFn struct {
	fnInfo
	Full bool // the full matrix (16 flag values): implemented in std/php/array or holding a sort fact
}

// reorderFunctions: which registered functions the stream calls — all of them (round 6)
func reorderFunctions(t fnTable, sortFacts []sortFactLine) ([]reorderFn, []string) {
	var sel []reorderFn
	var skipped []string
	for _, f := range t.Funcs {
		full := strings.HasSuffix(f.PkgPath, "/std/php/array")
		for _, s := range sortFacts {
			// "std/php/core/strtr.go" + "StrtrFunction.Call" ↔ package path …/std/php/core, type StrtrFunction
			recv := s.Fn
			if i := strings.IndexByte(recv, '.'); i >= 0 {
				recv = recv[:i]
			}
			if recv == f.GoType && strings.HasSuffix(f.PkgPath, "/"+filepath.Dir(s.File)) {
				full = true
			}
		}
		if why := excluded(f.Name + "("); why != "" {
			skipped = append(skipped, f.Name+" ("+why+")")
			continue
		}
		if why, ok := notCalled[strings.ToLower(f.Name)]; ok {
			skipped = append(skipped, f.Name+" ("+why+")")
			continue
		}
		sel = append(sel, reorderFn{f, full})
	}
	return sel, skipped
}

type sortFactLine struct {
	File, Fn, Status, Cmp string
}

func askSorts(m *vh.Model) []sortFactLine {
	if m == nil {
		return nil
	}
	ans, err := m.Ask("sorts")
	if err != nil || ans == "-" || ans == "bad-op" {
		return nil
	}
	var res []sortFactLine
	for _, e := range strings.Split(ans, " ; ") {
		f := strings.SplitN(e, "|", 4)
		if len(f) == 4 {
			res = append(res, sortFactLine{f[0], f[1], f[2], f[3]})
		}
	}
	return res
}

// closureText: what data.FuncValue.AsString prints for a closure — `fmt.Sprintf("%v")` of a struct of
// pointers, i.e. heap addresses that differ from run to run (known finding C20-closure-to-string-address,
// confirmed on every run by closureProbe). Functions that hand their callback argument back (array_fill_keys,
// array_pad …) print it; the reorder stream compares outputs with exactly this text masked and attributes a
// difference that the mask removes to that finding.
var closureText = regexp.MustCompile(`(&|\\u0026)\{0x[0-9a-f]+ map\[[^\]]*\] 0x[0-9a-f]+\}`)

func maskClosures(o Outcome) Outcome {
	o.Stdout = closureText.ReplaceAllString(o.Stdout, "&{closure}")
	return o
}

// callLines: per call number, the distinct texts the outputs show for it (one text per output: all the
// lines of that call in the output, in order — a call that keeps state prints several, the same in every run)
func callLines(outs []string) map[int][]string {
	m := map[int][]string{}
	for _, s := range outs {
		per := map[int]string{}
		for _, l := range strings.Split(s, "\n") {
			if !strings.HasPrefix(l, "#") {
				continue
			}
			var n int
			if _, err := fmt.Sscanf(l, "#%d ", &n); err != nil {
				continue
			}
			if per[n] != "" {
				per[n] += " ⏎ "
			}
			per[n] += l
		}
		for n, l := range per {
			dup := false
			for _, x := range m[n] {
				dup = dup || x == l
			}
			if !dup {
				m[n] = append(m[n], l)
			}
		}
	}
	return m
}

func (e *env) reorderStream(m *vh.Model) {
	c := e.c
	t, err := functionTable(c.Scratch)
	if err != nil {
		c.Mismatch(nil, err.Error(), "", "the registered function table of a fresh VM could not be listed; reorder stream not run")
		return
	}
	for n, v := range t.SortConst {
		if v < 0 || v > 15 {
			c.Mismatch(map[string]any{"constant": n, "value": v}, fmt.Sprint(v), "0..15", "a flag constant of the VM's constant table lies outside the range of flag values the reorder stream enumerates")
		}
	}
	facts := askSorts(m)
	for _, s := range facts {
		c.Hit("reorder.sort-fact." + s.Status)
		if s.Status == "TYING" {
			c.Note("sort over a map-ordered slice with a comparator that can tie (obligation C20_sorts_over_map_order_tie_free): %s %s compares '%s'", s.File, s.Fn, s.Cmp)
		}
	}
	fns, skipped := reorderFunctions(t, facts)
	if len(fns) == 0 {
		c.Mismatch(nil, "0 functions", "> 0", "the registered function table is empty; reorder stream has nothing to call")
		return
	}
	nfull, ncalls := 0, 0
	for _, f := range fns {
		if f.Full {
			nfull++
		}
	}
	// every call is executed inner × (fresh processes + fresh VMs) ≥ the calibrated count of times
	procRuns, vmRuns := c.N(5, 20), c.N(5, 20)
	inner := (e.need + procRuns + vmRuns - 1) / (procRuns + vmRuns)
	if inner < 3 {
		inner = 3
	}
	// the functions outside std/php/array: 8 executions per run × (2 + 2) runs (32 in quick, 8 × (8 + 8) = 128 ≥
	// the calibrated count in thorough; fewer, longer runs: starting and parsing is half the cost of a short run).
	// Every round-6 array has ≥ 8 entries that tie and are pairwise distinguishable, so a first- /
	// last-of-ties reduction shows two results within 30 executions with probability > 1 - 1e-6 (no result has
	// a share above 1/4); a dependence on the relative order of just two entries (share of the rarer order ≥ 1/8)
	// is met with probability 0.98 in quick and > 1 - 1e-6 in thorough.
	innerRest := 8
	procRest, vmRest := c.N(2, 8), c.N(2, 8)
	shapes := argShapes()
	var progs []*reorderProg
	for _, f := range fns {
		rp := &reorderProg{fn: f.Name}
		for _, arr := range tieArrays {
			if !f.Full && !restArrays[arr.ID] {
				continue
			}
			for _, sh := range shapes {
				if (!f.Full || round6Arrays[arr.ID]) && !sh.Core {
					continue
				}
				rp.calls = append(rp.calls, reorderCall1{f.Name, arr.ID, sh.ID, !f.Full})
			}
		}
		rp.full, rp.inner, rp.procs, rp.vms = f.Full, inner, procRuns, vmRuns
		if !f.Full {
			rp.inner, rp.procs, rp.vms = innerRest, procRest, vmRest
		}
		rp.p = &prog{Name: "reorder:" + f.Name, Origin: "reorder", Src: reorderProgram(rp.calls, rp.inner)}
		e.materialise(rp.p)
		if d := os.Getenv("C20_DUMP"); d != "" { // development aid: keep the generated programs
			os.WriteFile(filepath.Join(d, "reorder_"+f.Name+".php"), []byte(rp.p.Src), 0o644)
		}
		progs = append(progs, rp)
	}
	for _, rp := range progs {
		ncalls += len(rp.calls)
	}
	ncore := 0
	for _, sh := range shapes {
		if sh.Core {
			ncore++
		}
	}
	c.Note("reorder stream: %d of the %d registered functions × %d tie-building arrays × argument shapes (%d functions implemented in std/php/array or holding a sort over a map-ordered slice: all %d shapes on every array; the other %d: 7 arrays × the %d shapes without the flag enumeration) = %d calls, each executed %d times in a run × (%d fresh processes + %d fresh VMs) = %d times (full matrix); not called (%d): %s",
		len(fns), len(t.Funcs), len(tieArrays), nfull, len(shapes), len(fns)-nfull, ncore, ncalls, inner, procRuns, vmRuns, inner*(procRuns+vmRuns), len(skipped), strings.Join(skipped, ", "))
	c.Note("reorder stream: the %d functions outside std/php/array are executed %d times in a run × (%d fresh processes + %d fresh VMs) = %d times", len(fns)-nfull, innerRest, procRest, vmRest, innerRest*(procRest+vmRest))

	ps := make([]*prog, len(progs))
	for i, rp := range progs {
		ps[i] = rp.p
	}
	// two groups (full matrix / the rest), each with its own number of fresh processes
	ptallies := make([]*tally, len(ps))
	for _, full := range []bool{true, false} {
		var idx []int
		var grp []*prog
		reps := procRest
		if full {
			reps = procRuns
		}
		for i, rp := range progs {
			if rp.full == full {
				idx = append(idx, i)
				grp = append(grp, ps[i])
			}
		}
		for j, t := range procRepeatWith(e.bin, grp, reps, c.Workers, maskClosures) {
			ptallies[idx[j]] = t
		}
	}
	var jobs []vmJob
	for i, rp := range progs {
		jobs = append(jobs, vmJob{ID: i, Files: []string{rp.p.File}, Reps: rp.vms, Dir: rp.p.Dir, MaxMS: 40000, MaskClosures: true})
	}
	vres := runVMJobs(c.Scratch, c.Workers, jobs, 150*time.Second)
	for i, rp := range progs {
		pt := ptallies[i]
		c.Eval("reorder:"+rp.p.Src, nontrivial(pt))
		c.Hit("reorder.fn")
		c.HitN("reorder.calls", len(rp.calls))
		c.HitN("reorder.call-executions", len(rp.calls)*rp.inner*(rp.procs+rp.vms))
		c.HitN("reorder.proc-runs", rp.procs)
		if pt.unbounded() {
			c.Hit("reorder.unbounded-skipped")
			c.Note("reorder: the program of %s does not end within the limits in a fresh process; not compared", rp.fn)
			continue
		}
		vt := &tally{}
		if r := vres[i]; r.OK {
			for j, o := range r.Ans.Distinct[0] {
				for n := 0; n < r.Ans.Counts[0][j]; n++ {
					vt.add(o, false)
				}
			}
			c.HitN("reorder.vm-runs", r.Ans.Done)
		} else {
			c.Hit("reorder.vm-not-runnable")
			c.Note("reorder: the program of %s ends or hangs the in-process runner; fresh-process runs only", rp.fn)
		}
		c.SampleSome(map[string]any{"function": rp.fn, "calls": len(rp.calls), "inner": rp.inner, "proc_runs": rp.procs, "vm_runs": rp.vms, "first_lines": clip(firstOutcome(pt), 300)}, 7)
		var outs []string
		for _, t := range []*tally{pt, vt} {
			for _, o := range t.first {
				outs = append(outs, o.Stdout)
			}
		}
		// Oracle: the program's observable behaviour is the same in every run. (Round 5 also demanded one result
		// per call *within* a run; a function that keeps state by contract — define, ini_set, set_exception_handler —
		// answers its second execution differently, deterministically. Instead every first-seen result is printed
		// with the number of the repetition that showed it: a result that depends on the order of a map shows up
		// first in different repetitions of different runs.)
		if pt.distinct() <= 1 && vt.distinct() <= 1 {
			continue
		}
		e.reorderReport(rp, pt, vt, outs)
	}
}

func firstOutcome(t *tally) string {
	if len(t.first) == 0 {
		return ""
	}
	return t.first[0].Stdout
}

func (e *env) reorderReport(rp *reorderProg, pt, vt *tally, outs []string) {
	c := e.c
	lines := callLines(outs)
	var ns []int
	for n, ls := range lines {
		if len(ls) > 1 {
			ns = append(ns, n)
		}
	}
	sort.Ints(ns)
	reported := map[string]bool{}
	confirmed, more := 0, 0
	for _, n := range ns {
		if n < 0 || n >= len(rp.calls) {
			continue
		}
		call := rp.calls[n]
		k := call.Fn + ":" + call.Shape
		if reported[k] {
			continue
		}
		if confirmed >= 3 { // one root cause usually shows under many argument shapes: three replays, the rest counted
			more++
			continue
		}
		rc := reorderCase{Kind: "reorder", Fn: call.Fn, Array: call.Arr, Shape: call.Shape, Src: reorderProgram([]reorderCall1{call}, e.need), Reps: 20}
		if e.reorderCheck(rc) {
			reported[k] = true
			confirmed++
		}
	}
	if more > 0 {
		c.Note("reorder: %s shows more than one result for %d further calls (other argument shapes / arrays); three are reported with replays", rp.fn, more)
	}
	if confirmed == 0 {
		// not attributable to one call (stderr, status, a crash, or only under parallel load): the whole program, serially
		t := &tally{}
		for i := 0; i < 20; i++ {
			t.add(maskClosures(runProcess(e.bin, rp.p.File, rp.p.Dir, procTimeout)), false)
			if t.distinct() > 1 && i >= 4 {
				break
			}
		}
		if t.distinct() > 1 {
			c.Violation("nondet:reorder:"+rp.fn+":program", fmt.Sprintf("the reorder program of %s: same program, different observable behaviour: %s — %s", rp.fn, t.firstDiff(), clip(t.describe(), 900)),
				reorderCase{Kind: "reorder", Fn: rp.fn, Src: rp.p.Src, Reps: 20})
		} else {
			c.Hit("reorder.difference-only-under-parallel-load")
			c.Note("reorder: outcomes of the program of %s differed between successive fresh VMs of one process (a listed residue channel: ini store, autoloaders …) or under parallel load, but not in 20 serial fresh processes", rp.fn)
		}
	}
}

// reorderCheck: the one-call program (the call repeated in the run), serially in fresh processes; true when
// the same call shows more than one result — within one run (two `#0` lines) or between runs
func (e *env) reorderCheck(rc reorderCase) bool {
	c := e.c
	p := &prog{Name: fmt.Sprintf("reorder:%s(%s) on %s", rc.Fn, rc.Shape, rc.Array), Origin: "reorder", Src: rc.Src}
	e.materialise(p)
	reps := rc.Reps
	if reps <= 0 {
		reps = 20
	}
	t := &tally{}
	for i := 0; i < reps; i++ {
		o := maskClosures(runProcess(e.bin, p.File, p.Dir, procTimeout))
		t.add(o, false)
		if t.distinct() > 1 && i >= 2 {
			break
		}
	}
	c.Eval("reorder1:"+rc.Src, nontrivial(t))
	if t.unbounded() || t.distinct() <= 1 {
		return false
	}
	var all []string
	for _, o := range t.first {
		all = append(all, o.Stdout)
	}
	var results []string
	for _, ls := range callLines(all) {
		results = append(results, ls...)
	}
	sort.Strings(results)
	sig := fmt.Sprintf("nondet:reorder:%s:%s", rc.Fn, rc.Shape)
	if rc.Shape == "" {
		sig = "nondet:reorder:" + rc.Fn + ":program"
	}
	c.Violation(sig, fmt.Sprintf("%s(%s) on the array '%s': the same call with the same arguments gives different results in fresh processes (the call is repeated in the run; each result is printed with the repetition that first showed it): %s", rc.Fn, rc.Shape, rc.Array, clip(strings.Join(results, "  ≠  "), 900)), rc)
	return true
}

// closureProbe: the known finding C20-closure-to-string-address, confirmed on every run
func (e *env) closureProbe() {
	c := e.c
	p := &prog{Name: "closure-to-string", Origin: "reorder", Src: "<?php\n$f = function($p) { return 1; };\necho $f, \"\\n\", 'x' . $f, \"\\n\", json_encode([$f]), \"\\n\";\n"}
	e.materialise(p)
	t := &tally{}
	for i := 0; i < 2*e.need; i++ {
		t.add(runProcess(e.bin, p.File, p.Dir, procTimeout), false)
		if t.distinct() > 1 {
			break
		}
	}
	c.Eval("closure-probe:"+p.Src, true)
	if t.distinct() > 1 {
		masked := &tally{}
		for _, o := range t.first {
			masked.add(maskClosures(o), false)
		}
		if masked.distinct() == 1 {
			c.Violation("nondet:addr:closure-to-string", "echo / string concatenation / json_encode of a closure prints Go heap addresses (data.FuncValue.AsString = fmt.Sprintf(\"%v\")), different from run to run: "+clip(t.describe(), 400),
				reorderCase{Kind: "closure", Src: p.Src})
			return
		}
		c.Violation("nondet:reorder:closure-probe", "the closure probe differs in more than the closure text: "+clip(t.describe(), 600), reorderCase{Kind: "closure", Src: p.Src})
	}
}

// panicStackProbe: the known finding C20-go-panic-message-has-stack, confirmed on every run. A Go panic inside a
// script `try` becomes an exception whose message carries runtime/debug.Stack(): goroutine ids and argument
// words, i.e. addresses. The reorder programs cut the message at "\nstack: goroutine" (c20e).
const panicStackSrc = "<?php\ntry { spl_autoload_register([[2, 'a'], [1, 'b']]); echo \"no panic\\n\"; } catch (\\Throwable $e) { echo $e->getMessage(), \"\\n\"; }\n"

var goStackText = regexp.MustCompile(`(?s)\nstack: goroutine.*`)

func (e *env) panicStackProbe() {
	c := e.c
	p := &prog{Name: "go-panic-in-try", Origin: "reorder", Src: panicStackSrc}
	e.materialise(p)
	t := &tally{}
	for i := 0; i < 2*e.need; i++ {
		t.add(runProcess(e.bin, p.File, p.Dir, procTimeout), false)
		if t.distinct() > 1 {
			break
		}
	}
	c.Eval("panic-stack-probe:"+p.Src, true)
	if t.distinct() > 1 {
		masked := &tally{}
		for _, o := range t.first {
			o.Stdout = goStackText.ReplaceAllString(o.Stdout, " [go stack]")
			masked.add(o, false)
		}
		if masked.distinct() == 1 {
			c.Violation("nondet:addr:go-panic-message-stack", "the message of the exception a Go panic inside `try` is turned into (node/try.go guard) carries runtime/debug.Stack(): argument words of the frames are heap addresses, different from run to run: "+clip(t.firstDiff(), 500),
				reorderCase{Kind: "panicstack", Src: p.Src})
			return
		}
		c.Violation("nondet:reorder:panic-stack-probe", "the go-panic probe differs in more than the stack text: "+clip(t.describe(), 600), reorderCase{Kind: "panicstack", Src: p.Src})
	}
}

// ---------------------------------------------------------------- ksort / krsort against Model.SortKeys.ksort

var ksortKeyPool = []string{"10", "9", "1", "1.0", " 1", "01", "width", "depth", "Ab", "aB", "img12", "img2"}

var ksortFlags = []int{-1, 0, 1, 2, 3, 4, 5, 6, 8, 9, 10, 13, 15} // -1: no flags argument

type ksortCase struct {
	Kind  string   `json:"kind"` // ksortm
	Fn    string   `json:"fn"`
	Keys  []string `json:"keys"`
	Flags int      `json:"flags"`
}

func (k ksortCase) code(n int) string {
	var kv []string
	for i, key := range k.Keys {
		kv = append(kv, fmt.Sprintf("'%s' => %d", key, i))
	}
	call := fmt.Sprintf("%s($a)", k.Fn)
	if k.Flags >= 0 {
		call = fmt.Sprintf("%s($a, %d)", k.Fn, k.Flags)
	}
	return fmt.Sprintf("$a = [%s]; %s; echo '#%d ', implode(',', array_keys($a)), \"\\n\";\n", strings.Join(kv, ", "), call, n)
}

func (k ksortCase) modelLine() string {
	dir := "asc"
	if k.Fn == "krsort" {
		dir = "desc"
	}
	var hs []string
	for _, key := range k.Keys {
		if key == "" {
			hs = append(hs, ".")
		} else {
			hs = append(hs, hex.EncodeToString([]byte(key)))
		}
	}
	return "ksort\t" + dir + "\t" + strings.Join(hs, " ")
}

func decodeModelKeys(ans string) string {
	if ans == "-" {
		return ""
	}
	var ks []string
	for _, h := range strings.Fields(ans) {
		if h == "." {
			ks = append(ks, "")
			continue
		}
		b, err := hex.DecodeString(h)
		if err != nil {
			return "undecodable:" + ans
		}
		ks = append(ks, string(b))
	}
	return strings.Join(ks, ",")
}

func ksortCases() []ksortCase {
	var res []ksortCase
	n := len(ksortKeyPool)
	for _, fn := range []string{"ksort", "krsort"} {
		for i := 0; i < n; i++ {
			for j := 0; j < n; j++ {
				if i == j {
					continue
				}
				// ordered pairs: both insertion orders
				for _, fl := range ksortFlags {
					res = append(res, ksortCase{"ksortm", fn, []string{ksortKeyPool[i], ksortKeyPool[j]}, fl})
				}
				for k := j + 1; k < n; k++ {
					if k == i || j < i {
						continue
					}
					for _, fl := range ksortFlags {
						res = append(res, ksortCase{"ksortm", fn, []string{ksortKeyPool[k], ksortKeyPool[i], ksortKeyPool[j]}, fl})
					}
				}
			}
		}
	}
	return res
}

func (e *env) ksortModelStream(m *vh.Model, cases []ksortCase) {
	c := e.c
	if m == nil || len(cases) == 0 {
		return
	}
	var sb strings.Builder
	sb.WriteString("<?php\n")
	lines := make([]string, len(cases))
	for i, k := range cases {
		sb.WriteString(k.code(i))
		lines[i] = k.modelLine()
	}
	p := &prog{Name: "ksort-model", Origin: "reorder", Src: sb.String()}
	e.materialise(p)
	o := runProcess(e.bin, p.File, p.Dir, 60*time.Second)
	if o.Status != 0 || o.Note != "" {
		c.Mismatch(map[string]any{"kind": "ksortm-program", "status": o.Status, "note": o.Note}, clip(o.Stderr, 300), "status 0", "the ksort/krsort correspondence program did not run to its end")
		return
	}
	got := map[int]string{}
	for _, l := range strings.Split(o.Stdout, "\n") {
		var n int
		if _, err := fmt.Sscanf(l, "#%d ", &n); err == nil {
			if i := strings.IndexByte(l, ' '); i >= 0 {
				got[n] = l[i+1:]
			}
		}
	}
	ans, err := m.AskBatch(lines)
	if err != nil {
		c.Mismatch(nil, "", err.Error(), "model driver failed on the ksort batch")
		return
	}
	bad := 0
	for i, k := range cases {
		want := decodeModelKeys(ans[i])
		c.Eval("ksortm:"+lines[i]+fmt.Sprint(k.Flags), len(k.Keys) >= 2)
		c.Hit("ksortm." + k.Fn)
		if got[i] != want {
			bad++
			if bad <= 3 {
				c.Mismatch(k, got[i], want, fmt.Sprintf("%s with flags %d rebuilds the array in another order than the raw string order the regenerated comparator fact and Model.SortKeys.ksort describe", k.Fn, k.Flags))
			}
		}
	}
	if bad > 3 {
		c.Note("ksort/krsort correspondence: %d of %d cases differ from Model.SortKeys.ksort (first 3 reported)", bad, len(cases))
	}
	c.Res.Traces += len(cases)
}
