package c20

import (
	"encoding/hex"
	"encoding/json"
	"fmt"
	"os"
	"os/exec"
	"path/filepath"
	"reflect"
	"regexp"
	"sort"
	"strings"
	"time"

	"github.com/php-any/origami/parser"
	oruntime "github.com/php-any/origami/runtime"

	"verif/harness/vh"
)

// ---------------------------------------------------------------- reorder stream (round 5)
//
// Class: a function that collects the entries of a string-keyed array from the Go map behind it and
// then *sorts* them — benign as long as the comparator cannot tie on two different entries, an order
// leak the moment it can (ksort with a numeric comparator: every non-numeric key is 0). The pool
// programs only ever called `ksort($a)` on keys that no flag could make tie.
//
// The stream is systematic and does not know which functions sort:
//
//   functions  every function of the *registered function table* of a fresh VM whose Go implementation
//              lives in std/php/array, plus every registered function whose implementation holds a
//              regenerated sort-over-map-order fact (driver command `sorts`: strtr today) — minus those
//              that are random by contract (the corpus filter's `random` rule);
//   arrays     string-keyed and list arrays built so that entries tie under some comparison:
//              non-numeric keys (all 0 numerically), numeric-equal spellings ('1', '1.0', ' 1', '01', '1e0'),
//              case variants, natural-order variants, loosely equal values under distinct keys, equal
//              nested arrays, rows with equal columns;
//   shapes     F($a), F($a, n) for every n in 0..15 (every OR of the SORT_* / COUNT_* / ARRAY_FILTER_*
//              flag values; the SORT_* constants of the VM's constant table are checked to lie in that
//              range), F($a, $b), F($a, string), F($a, callback) with callbacks that tie, the array in
//              second position F(x, $a) for callbacks / strings / numbers / a subject string made of the
//              keys, and three-argument forms;
//
// one program per function (one line of output per call: result and the array afterwards, so that
// by-reference functions show), run in fresh processes and on fresh VMs as often as the calibrated
// map-order bias requires; byte-identical stdout / stderr / status. A difference is located by line,
// the single call is confirmed serially in fresh processes and reported with the one-call program as
// its replay.
//
// Correspondence: `ksort` / `krsort` on every 2- and 3-element subset of a tie-rich key pool × flags
// against `Model.SortKeys.ksort` (driver command `ksort`): the regenerated fact says the comparator is
// the raw string order for every flag, the model sorts by it, the real array must come out in that order.

// fnInfo: one entry of the registered function table
type fnInfo struct {
	Name    string `json:"name"`
	GoType  string `json:"go_type"` // e.g. KsortFunction
	PkgPath string `json:"pkg"`     // e.g. github.com/php-any/origami/std/php/array
	NParams int    `json:"nparams"`
}

type fnTable struct {
	Funcs     []fnInfo       `json:"funcs"`
	SortConst map[string]int `json:"sort_const"` // SORT_* constants of the VM's constant table
	Err       string         `json:"err,omitempty"`
}

func init() { vh.RegisterChild("c20fns", fnsChild) }

// fnsChild builds a VM exactly as a run does (same loader) and prints its function table.
func fnsChild(args []string) int {
	proto := vh.ProtocolStdout()
	var t fnTable
	func() {
		defer func() {
			if r := recover(); r != nil {
				t.Err = fmt.Sprint(r)
			}
		}()
		p := parser.NewParser()
		vm := oruntime.NewVM(p)
		loadAll(vm)
		rvm, ok := vm.(*oruntime.VM)
		if !ok {
			t.Err = "runtime.NewVM does not return *runtime.VM any more"
			return
		}
		for _, f := range rvm.AllFuncs() {
			ty := reflect.TypeOf(f)
			for ty.Kind() == reflect.Pointer {
				ty = ty.Elem()
			}
			t.Funcs = append(t.Funcs, fnInfo{Name: f.GetName(), GoType: ty.Name(), PkgPath: ty.PkgPath(), NParams: len(f.GetParams())})
		}
		t.SortConst = map[string]int{}
		for _, n := range []string{"SORT_REGULAR", "SORT_NUMERIC", "SORT_STRING", "SORT_LOCALE_STRING", "SORT_NATURAL", "SORT_FLAG_CASE", "SORT_ASC", "SORT_DESC", "COUNT_RECURSIVE", "COUNT_NORMAL", "ARRAY_FILTER_USE_KEY", "ARRAY_FILTER_USE_BOTH"} {
			if v, ok := vm.GetConstant(n); ok && v != nil {
				if iv, ok := v.(interface{ AsInt() (int, error) }); ok {
					if x, err := iv.AsInt(); err == nil {
						t.SortConst[n] = x
					}
				}
			}
		}
	}()
	sort.Slice(t.Funcs, func(i, j int) bool { return t.Funcs[i].Name < t.Funcs[j].Name })
	b, _ := json.Marshal(t)
	proto.Write(append(b, '\n'))
	return 0
}

func functionTable(scratch string) (fnTable, error) {
	cmd := exec.Command(vh.Self(), "__child", "c20fns")
	cmd.Dir = scratch
	done := make(chan struct{})
	var out []byte
	var err error
	go func() { out, err = cmd.Output(); close(done) }()
	select {
	case <-done:
	case <-time.After(60 * time.Second):
		if cmd.Process != nil {
			cmd.Process.Kill()
		}
		return fnTable{}, fmt.Errorf("function-table child hung")
	}
	if err != nil {
		return fnTable{}, fmt.Errorf("function-table child: %v", err)
	}
	var t fnTable
	lines := strings.Split(strings.TrimSpace(string(out)), "\n")
	if e := json.Unmarshal([]byte(lines[len(lines)-1]), &t); e != nil {
		return t, e
	}
	if t.Err != "" {
		return t, fmt.Errorf("%s", t.Err)
	}
	return t, nil
}

// ---- the inputs

type tieArray struct {
	ID  string
	Lit string
}

// arrays whose entries tie under some comparison
var tieArrays = []tieArray{
	{"nonnum-keys", `['width' => 1, 'depth' => 2, 'height' => 3, '10' => 4, '9' => 5]`},
	{"two-nonnum", `['width' => 'w', 'depth' => 'd']`},
	{"numeq-keys", `['1' => 'a', '1.0' => 'b', ' 1' => 'c', '01' => 'd', '1e0' => 'e', '+1' => 'f']`},
	{"case-natural-keys", `['Ab' => 1, 'aB' => 2, 'AB' => 3, 'ab' => 4, 'img12' => 5, 'img012' => 6, 'IMG12' => 7, 'img1' => 8, 'img01' => 9]`},
	{"equal-values", `['x' => '1', 'y' => '1.0', 'z' => 1, 'w' => true, 'v' => '01', 'u' => 'Ab', 't' => 'aB', 's' => null, 'r' => '']`},
	{"nested-rows", `['p' => [1, 2], 'q' => [1, 2], 'o' => ['k' => 1], 'n' => ['k' => 1], 'm' => ['k' => '1'], 'r1' => ['id' => 1, 'n' => 'x'], 'r2' => ['id' => 1, 'n' => 'y'], 'r3' => ['id' => '1.0', 'n' => 'x'], 'r4' => ['id' => 'a', 'n' => 'z']]`},
	{"list-scalars", `['1', '1.0', ' 1', '01', '1e0', 1, 1.0, true, 'Ab', 'aB', 'AB', 'width', 'depth']`},
	{"list-rows", `[[2, 'a'], [1, 'b'], [2, 'c'], [1, 'd'], ['id' => 1, 'n' => 'x'], ['id' => '1.0', 'n' => 'x']]`},
}

const reorderB = `['depth' => 9, 'Ab' => 9, '1.0' => 9, 'x' => '1', 'q' => [1, 2], 'r2' => ['id' => 1, 'n' => 'y'], 0 => '1', 1 => 'aB']`

type argShape struct {
	ID   string
	Args string
}

func argShapes() []argShape {
	s := []argShape{{"a", "$a"}}
	for n := 0; n <= 15; n++ {
		s = append(s, argShape{fmt.Sprintf("a,%d", n), fmt.Sprintf("$a, %d", n)})
	}
	s = append(s,
		argShape{"a,b", "$a, $b"},
		argShape{"a,str", "$a, '1.0'"},
		argShape{"a,cmp", "$a, $cmp"},
		argShape{"a,zero", "$a, $zero"},
		argShape{"a,key", "$a, $key"},
		argShape{"key,a", "'c20key', $a"},
		argShape{"cmp,a", "'c20cmp', $a"},
		argShape{"str,a", "'1.0', $a"},
		argShape{"int,a", "1, $a"},
		argShape{"subject,a", "$s, $a"},
		argShape{"b,a", "$b, $a"},
		argShape{"a,1,2", "$a, 1, 2"},
		argShape{"a,1,true", "$a, 1, true"},
		argShape{"a,b,cmp", "$a, $b, $cmp"},
		argShape{"a,cmp,1", "$a, $cmp, 1"},
		argShape{"a,str,true", "$a, '1', true"},
		argShape{"a,str,str", "$a, 'id', 'n'"},
	)
	return s
}

// The prelude: the arrays as functions (a fresh array per call: a by-reference function must not see what an
// earlier call left), callbacks that tie, and the printer: every call is made `reps` times in the run and
// a result is printed the first time it is seen — a deterministic program prints one line per call.
func reorderPrelude(used map[string]bool) string {
	var sb strings.Builder
	sb.WriteString("<?php\n")
	for i, a := range tieArrays {
		if used == nil || used[a.ID] {
			fmt.Fprintf(&sb, "function c20a%d() { return %s; }\n", i, a.Lit)
		}
	}
	fmt.Fprintf(&sb, "function c20b() { return %s; }\n", reorderB)
	sb.WriteString(`function c20o($k) { static $seen = []; if (!isset($seen[$k])) { $seen[$k] = 1; echo '#', $k, "\n"; } }
function c20e($e) { return 'T:' . get_class($e) . ':' . str_replace("\n", ' ', $e->getMessage()); }
function c20cmp($p, $q = 0) { return strlen(json_encode($p)) - strlen(json_encode($q)); }
function c20key($p, $q = 0) { return strlen(json_encode($p)); }
$cmp = function($p, $q = 0) { return strlen(json_encode($p)) - strlen(json_encode($q)); };
$zero = function($p, $q = 0) { return 0; };
$key = function($p, $q = 0) { return strlen(json_encode($p)); };
`)
	return sb.String()
}

func arrIndex(id string) int {
	for i, a := range tieArrays {
		if a.ID == id {
			return i
		}
	}
	return 0
}

// one call: `#<n> <result>|<array afterwards>` or `#<n> T:<class>:<message>`, printed when first seen
func reorderCall(n int, fn string, arr tieArray, sh argShape) string {
	subj := ""
	if strings.Contains(sh.Args, "$s") {
		subj = " $s = implode(' ', array_keys($a)) . ' ' . json_encode(array_values($a));"
	}
	return fmt.Sprintf("$a = c20a%d(); $b = c20b();%s try { $r = %s(%s); $o = json_encode($r) . '|' . json_encode($a); } catch (\\Throwable $e) { $o = c20e($e); } c20o('%d ' . $o);\n",
		arrIndex(arr.ID), subj, fn, sh.Args, n)
}

// the program of a list of calls, each made `reps` times
func reorderProgram(calls []reorderCall1, reps int) string {
	var sb strings.Builder
	used := map[string]bool{}
	for _, cl := range calls {
		used[cl.Arr] = true
	}
	sb.WriteString(reorderPrelude(used))
	fmt.Fprintf(&sb, "for ($rep = 0; $rep < %d; $rep++) {\n", reps)
	for n, cl := range calls {
		arr, _ := findArr(cl.Arr)
		sh, _ := findShape(cl.Shape)
		sb.WriteString(reorderCall(n, cl.Fn, arr, sh))
	}
	sb.WriteString("}\n")
	return sb.String()
}

type reorderCall1 struct {
	Fn, Arr, Shape string
}

type reorderProg struct {
	fn    string
	p     *prog
	calls []reorderCall1
}

type reorderCase struct {
	Kind  string `json:"kind"` // reorder
	Fn    string `json:"fn"`
	Array string `json:"array"`
	Shape string `json:"shape"`
	Src   string `json:"src"`
	Reps  int    `json:"reps"`
}

func findArr(id string) (tieArray, bool) {
	for _, a := range tieArrays {
		if a.ID == id {
			return a, true
		}
	}
	return tieArray{}, false
}

func findShape(id string) (argShape, bool) {
	for _, s := range argShapes() {
		if s.ID == id {
			return s, true
		}
	}
	return argShape{}, false
}

// reorderFunctions: which registered functions the stream calls
func reorderFunctions(t fnTable, sortFacts []sortFactLine) ([]fnInfo, []string) {
	var sel []fnInfo
	var skipped []string
	for _, f := range t.Funcs {
		in := strings.HasSuffix(f.PkgPath, "/std/php/array")
		for _, s := range sortFacts {
			// "std/php/core/strtr.go" + "StrtrFunction.Call" ↔ package path …/std/php/core, type StrtrFunction
			recv := s.Fn
			if i := strings.IndexByte(recv, '.'); i >= 0 {
				recv = recv[:i]
			}
			if recv == f.GoType && strings.HasSuffix(f.PkgPath, "/"+filepath.Dir(s.File)) {
				in = true
			}
		}
		if !in {
			continue
		}
		if why := excluded(f.Name + "("); why != "" {
			skipped = append(skipped, f.Name+" ("+why+")")
			continue
		}
		sel = append(sel, f)
	}
	return sel, skipped
}

type sortFactLine struct {
	File, Fn, Status, Cmp string
}

func askSorts(m *vh.Model) []sortFactLine {
	if m == nil {
		return nil
	}
	ans, err := m.Ask("sorts")
	if err != nil || ans == "-" || ans == "bad-op" {
		return nil
	}
	var res []sortFactLine
	for _, e := range strings.Split(ans, " ; ") {
		f := strings.SplitN(e, "|", 4)
		if len(f) == 4 {
			res = append(res, sortFactLine{f[0], f[1], f[2], f[3]})
		}
	}
	return res
}

// closureText: what data.FuncValue.AsString prints for a closure — `fmt.Sprintf("%v")` of a struct of
// pointers, i.e. heap addresses that differ from run to run (known finding C20-closure-to-string-address,
// confirmed on every run by closureProbe). Functions that hand their callback argument back (array_fill_keys,
// array_pad …) print it; the reorder stream compares outputs with exactly this text masked and attributes a
// difference that the mask removes to that finding.
var closureText = regexp.MustCompile(`(&|\\u0026)\{0x[0-9a-f]+ map\[[^\]]*\] 0x[0-9a-f]+\}`)

func maskClosures(o Outcome) Outcome {
	o.Stdout = closureText.ReplaceAllString(o.Stdout, "&{closure}")
	return o
}

// callLines: per call number, the distinct lines the outputs show for it
func callLines(outs []string) map[int][]string {
	m := map[int][]string{}
	for _, s := range outs {
		for _, l := range strings.Split(s, "\n") {
			if !strings.HasPrefix(l, "#") {
				continue
			}
			var n int
			if _, err := fmt.Sscanf(l, "#%d ", &n); err != nil {
				continue
			}
			dup := false
			for _, x := range m[n] {
				dup = dup || x == l
			}
			if !dup {
				m[n] = append(m[n], l)
			}
		}
	}
	return m
}

func (e *env) reorderStream(m *vh.Model) {
	c := e.c
	t, err := functionTable(c.Scratch)
	if err != nil {
		c.Mismatch(nil, err.Error(), "", "the registered function table of a fresh VM could not be listed; reorder stream not run")
		return
	}
	for n, v := range t.SortConst {
		if v < 0 || v > 15 {
			c.Mismatch(map[string]any{"constant": n, "value": v}, fmt.Sprint(v), "0..15", "a flag constant of the VM's constant table lies outside the range of flag values the reorder stream enumerates")
		}
	}
	facts := askSorts(m)
	for _, s := range facts {
		c.Hit("reorder.sort-fact." + s.Status)
		if s.Status == "TYING" {
			c.Note("sort over a map-ordered slice with a comparator that can tie (obligation C20_sorts_over_map_order_tie_free): %s %s compares '%s'", s.File, s.Fn, s.Cmp)
		}
	}
	fns, skipped := reorderFunctions(t, facts)
	if len(fns) == 0 {
		c.Mismatch(nil, "0 functions", "> 0", "no registered function is implemented in std/php/array any more; reorder stream has nothing to call")
		return
	}
	// every call is executed inner × (fresh processes + fresh VMs) ≥ the calibrated count of times
	procRuns, vmRuns := c.N(5, 20), c.N(5, 20)
	inner := (e.need + procRuns + vmRuns - 1) / (procRuns + vmRuns)
	if inner < 3 {
		inner = 3
	}
	shapes := argShapes()
	var progs []*reorderProg
	for _, f := range fns {
		rp := &reorderProg{fn: f.Name}
		for _, arr := range tieArrays {
			for _, sh := range shapes {
				rp.calls = append(rp.calls, reorderCall1{f.Name, arr.ID, sh.ID})
			}
		}
		rp.p = &prog{Name: "reorder:" + f.Name, Origin: "reorder", Src: reorderProgram(rp.calls, inner)}
		e.materialise(rp.p)
		if d := os.Getenv("C20_DUMP"); d != "" { // development aid: keep the generated programs
			os.WriteFile(filepath.Join(d, "reorder_"+f.Name+".php"), []byte(rp.p.Src), 0o644)
		}
		progs = append(progs, rp)
	}
	c.Note("reorder stream: %d of the %d registered functions (implemented in std/php/array or holding a sort over a map-ordered slice; skipped as random by contract: %s) × %d tie-building arrays × %d argument shapes = %d calls, each executed %d times in a run × (%d fresh processes + %d fresh VMs) = %d times",
		len(fns), len(t.Funcs), strings.Join(skipped, ", "), len(tieArrays), len(shapes), len(fns)*len(tieArrays)*len(shapes), inner, procRuns, vmRuns, inner*(procRuns+vmRuns))

	ps := make([]*prog, len(progs))
	for i, rp := range progs {
		ps[i] = rp.p
	}
	ptallies := procRepeatWith(e.bin, ps, procRuns, c.Workers, maskClosures)
	var jobs []vmJob
	for i, rp := range progs {
		jobs = append(jobs, vmJob{ID: i, Files: []string{rp.p.File}, Reps: vmRuns, Dir: rp.p.Dir, MaxMS: 40000, MaskClosures: true})
	}
	vres := runVMJobs(c.Scratch, c.Workers, jobs, 150*time.Second)
	for i, rp := range progs {
		pt := ptallies[i]
		c.Eval("reorder:"+rp.p.Src, nontrivial(pt))
		c.Hit("reorder.fn")
		c.HitN("reorder.calls", len(rp.calls))
		c.HitN("reorder.call-executions", len(rp.calls)*inner*(procRuns+vmRuns))
		c.HitN("reorder.proc-runs", procRuns)
		if pt.unbounded() {
			c.Hit("reorder.unbounded-skipped")
			c.Note("reorder: the program of %s does not end within the limits in a fresh process; not compared", rp.fn)
			continue
		}
		vt := &tally{}
		if r := vres[i]; r.OK {
			for j, o := range r.Ans.Distinct[0] {
				for n := 0; n < r.Ans.Counts[0][j]; n++ {
					vt.add(o, false)
				}
			}
			c.HitN("reorder.vm-runs", r.Ans.Done)
		} else {
			c.Hit("reorder.vm-not-runnable")
			c.Note("reorder: the program of %s ends or hangs the in-process runner; fresh-process runs only", rp.fn)
		}
		c.SampleSome(map[string]any{"function": rp.fn, "calls": len(rp.calls), "inner": inner, "proc_runs": procRuns, "vm_runs": vmRuns, "first_lines": clip(firstOutcome(pt), 300)}, 7)
		var outs []string
		for _, t := range []*tally{pt, vt} {
			for _, o := range t.first {
				outs = append(outs, o.Stdout)
			}
		}
		split := false
		for _, ls := range callLines(outs) {
			split = split || len(ls) > 1
		}
		if pt.distinct() <= 1 && vt.distinct() <= 1 && !split {
			continue
		}
		e.reorderReport(rp, pt, vt, outs)
	}
}

func firstOutcome(t *tally) string {
	if len(t.first) == 0 {
		return ""
	}
	return t.first[0].Stdout
}

func (e *env) reorderReport(rp *reorderProg, pt, vt *tally, outs []string) {
	c := e.c
	lines := callLines(outs)
	var ns []int
	for n, ls := range lines {
		if len(ls) > 1 {
			ns = append(ns, n)
		}
	}
	sort.Ints(ns)
	reported := map[string]bool{}
	confirmed, more := 0, 0
	for _, n := range ns {
		if n < 0 || n >= len(rp.calls) {
			continue
		}
		call := rp.calls[n]
		k := call.Fn + ":" + call.Shape
		if reported[k] {
			continue
		}
		if confirmed >= 3 { // one root cause usually shows under many argument shapes: three replays, the rest counted
			more++
			continue
		}
		rc := reorderCase{Kind: "reorder", Fn: call.Fn, Array: call.Arr, Shape: call.Shape, Src: reorderProgram([]reorderCall1{call}, e.need), Reps: 20}
		if e.reorderCheck(rc) {
			reported[k] = true
			confirmed++
		}
	}
	if more > 0 {
		c.Note("reorder: %s shows more than one result for %d further calls (other argument shapes / arrays); three are reported with replays", rp.fn, more)
	}
	if confirmed == 0 {
		// not attributable to one call (stderr, status, a crash, or only under parallel load): the whole program, serially
		t := &tally{}
		for i := 0; i < 20; i++ {
			t.add(maskClosures(runProcess(e.bin, rp.p.File, rp.p.Dir, procTimeout)), false)
			if t.distinct() > 1 && i >= 4 {
				break
			}
		}
		if t.distinct() > 1 {
			c.Violation("nondet:reorder:"+rp.fn+":program", fmt.Sprintf("the reorder program of %s: same program, different observable behaviour: %s — %s", rp.fn, t.firstDiff(), clip(t.describe(), 900)),
				reorderCase{Kind: "reorder", Fn: rp.fn, Src: rp.p.Src, Reps: 20})
		} else {
			c.Hit("reorder.difference-only-under-parallel-load")
			c.Note("reorder: outcomes of the program of %s differed under parallel load but not in 20 serial runs", rp.fn)
		}
	}
}

// reorderCheck: the one-call program (the call repeated in the run), serially in fresh processes; true when
// the same call shows more than one result — within one run (two `#0` lines) or between runs
func (e *env) reorderCheck(rc reorderCase) bool {
	c := e.c
	p := &prog{Name: fmt.Sprintf("reorder:%s(%s) on %s", rc.Fn, rc.Shape, rc.Array), Origin: "reorder", Src: rc.Src}
	e.materialise(p)
	reps := rc.Reps
	if reps <= 0 {
		reps = 20
	}
	t := &tally{}
	within := false
	for i := 0; i < reps; i++ {
		o := maskClosures(runProcess(e.bin, p.File, p.Dir, procTimeout))
		t.add(o, false)
		for _, ls := range callLines([]string{o.Stdout}) {
			within = within || len(ls) > 1
		}
		if (t.distinct() > 1 || within) && i >= 2 {
			break
		}
	}
	c.Eval("reorder1:"+rc.Src, nontrivial(t))
	if t.unbounded() || (t.distinct() <= 1 && !within) {
		return false
	}
	var all []string
	for _, o := range t.first {
		all = append(all, o.Stdout)
	}
	var results []string
	for _, ls := range callLines(all) {
		results = append(results, ls...)
	}
	sort.Strings(results)
	sig := fmt.Sprintf("nondet:reorder:%s:%s", rc.Fn, rc.Shape)
	if rc.Shape == "" {
		sig = "nondet:reorder:" + rc.Fn + ":program"
	}
	c.Violation(sig, fmt.Sprintf("%s(%s) on the array '%s': the same call with the same arguments gives different results (call repeated in one run and in fresh processes): %s", rc.Fn, rc.Shape, rc.Array, clip(strings.Join(results, "  ≠  "), 900)), rc)
	return true
}

// closureProbe: the known finding C20-closure-to-string-address, confirmed on every run
func (e *env) closureProbe() {
	c := e.c
	p := &prog{Name: "closure-to-string", Origin: "reorder", Src: "<?php\n$f = function($p) { return 1; };\necho $f, \"\\n\", 'x' . $f, \"\\n\", json_encode([$f]), \"\\n\";\n"}
	e.materialise(p)
	t := &tally{}
	for i := 0; i < 2*e.need; i++ {
		t.add(runProcess(e.bin, p.File, p.Dir, procTimeout), false)
		if t.distinct() > 1 {
			break
		}
	}
	c.Eval("closure-probe:"+p.Src, true)
	if t.distinct() > 1 {
		masked := &tally{}
		for _, o := range t.first {
			masked.add(maskClosures(o), false)
		}
		if masked.distinct() == 1 {
			c.Violation("nondet:addr:closure-to-string", "echo / string concatenation / json_encode of a closure prints Go heap addresses (data.FuncValue.AsString = fmt.Sprintf(\"%v\")), different from run to run: "+clip(t.describe(), 400),
				reorderCase{Kind: "closure", Src: p.Src})
			return
		}
		c.Violation("nondet:reorder:closure-probe", "the closure probe differs in more than the closure text: "+clip(t.describe(), 600), reorderCase{Kind: "closure", Src: p.Src})
	}
}

// ---------------------------------------------------------------- ksort / krsort against Model.SortKeys.ksort

var ksortKeyPool = []string{"10", "9", "1", "1.0", " 1", "01", "width", "depth", "Ab", "aB", "img12", "img2"}

var ksortFlags = []int{-1, 0, 1, 2, 3, 4, 5, 6, 8, 9, 10, 13, 15} // -1: no flags argument

type ksortCase struct {
	Kind  string   `json:"kind"` // ksortm
	Fn    string   `json:"fn"`
	Keys  []string `json:"keys"`
	Flags int      `json:"flags"`
}

func (k ksortCase) code(n int) string {
	var kv []string
	for i, key := range k.Keys {
		kv = append(kv, fmt.Sprintf("'%s' => %d", key, i))
	}
	call := fmt.Sprintf("%s($a)", k.Fn)
	if k.Flags >= 0 {
		call = fmt.Sprintf("%s($a, %d)", k.Fn, k.Flags)
	}
	return fmt.Sprintf("$a = [%s]; %s; echo '#%d ', implode(',', array_keys($a)), \"\\n\";\n", strings.Join(kv, ", "), call, n)
}

func (k ksortCase) modelLine() string {
	dir := "asc"
	if k.Fn == "krsort" {
		dir = "desc"
	}
	var hs []string
	for _, key := range k.Keys {
		if key == "" {
			hs = append(hs, ".")
		} else {
			hs = append(hs, hex.EncodeToString([]byte(key)))
		}
	}
	return "ksort\t" + dir + "\t" + strings.Join(hs, " ")
}

func decodeModelKeys(ans string) string {
	if ans == "-" {
		return ""
	}
	var ks []string
	for _, h := range strings.Fields(ans) {
		if h == "." {
			ks = append(ks, "")
			continue
		}
		b, err := hex.DecodeString(h)
		if err != nil {
			return "undecodable:" + ans
		}
		ks = append(ks, string(b))
	}
	return strings.Join(ks, ",")
}

func ksortCases() []ksortCase {
	var res []ksortCase
	n := len(ksortKeyPool)
	for _, fn := range []string{"ksort", "krsort"} {
		for i := 0; i < n; i++ {
			for j := 0; j < n; j++ {
				if i == j {
					continue
				}
				// ordered pairs: both insertion orders
				for _, fl := range ksortFlags {
					res = append(res, ksortCase{"ksortm", fn, []string{ksortKeyPool[i], ksortKeyPool[j]}, fl})
				}
				for k := j + 1; k < n; k++ {
					if k == i || j < i {
						continue
					}
					for _, fl := range ksortFlags {
						res = append(res, ksortCase{"ksortm", fn, []string{ksortKeyPool[k], ksortKeyPool[i], ksortKeyPool[j]}, fl})
					}
				}
			}
		}
	}
	return res
}

func (e *env) ksortModelStream(m *vh.Model, cases []ksortCase) {
	c := e.c
	if m == nil || len(cases) == 0 {
		return
	}
	var sb strings.Builder
	sb.WriteString("<?php\n")
	lines := make([]string, len(cases))
	for i, k := range cases {
		sb.WriteString(k.code(i))
		lines[i] = k.modelLine()
	}
	p := &prog{Name: "ksort-model", Origin: "reorder", Src: sb.String()}
	e.materialise(p)
	o := runProcess(e.bin, p.File, p.Dir, 60*time.Second)
	if o.Status != 0 || o.Note != "" {
		c.Mismatch(map[string]any{"kind": "ksortm-program", "status": o.Status, "note": o.Note}, clip(o.Stderr, 300), "status 0", "the ksort/krsort correspondence program did not run to its end")
		return
	}
	got := map[int]string{}
	for _, l := range strings.Split(o.Stdout, "\n") {
		var n int
		if _, err := fmt.Sscanf(l, "#%d ", &n); err == nil {
			if i := strings.IndexByte(l, ' '); i >= 0 {
				got[n] = l[i+1:]
			}
		}
	}
	ans, err := m.AskBatch(lines)
	if err != nil {
		c.Mismatch(nil, "", err.Error(), "model driver failed on the ksort batch")
		return
	}
	bad := 0
	for i, k := range cases {
		want := decodeModelKeys(ans[i])
		c.Eval("ksortm:"+lines[i]+fmt.Sprint(k.Flags), len(k.Keys) >= 2)
		c.Hit("ksortm." + k.Fn)
		if got[i] != want {
			bad++
			if bad <= 3 {
				c.Mismatch(k, got[i], want, fmt.Sprintf("%s with flags %d rebuilds the array in another order than the raw string order the regenerated comparator fact and Model.SortKeys.ksort describe", k.Fn, k.Flags))
			}
		}
	}
	if bad > 3 {
		c.Note("ksort/krsort correspondence: %d of %d cases differ from Model.SortKeys.ksort (first 3 reported)", bad, len(cases))
	}
	c.Res.Traces += len(cases)
}
