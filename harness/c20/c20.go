// Package c20: correspondence + violation search for C20 (sequential programs are deterministic
// and leave nothing behind for the next VM).
//
//   - correspondence: the real data.OrderedMap against the Lean model `vm_c20` (and an independent
//     Go association list) on every op sequence up to the tier's length over three keys, seeded
//     longer ones over five;
//   - script level: generated histories of assignments / unsets on string-keyed arrays and
//     stdClass objects, enumeration compared with the insertion-ordered reference;
//   - repetition (model independent): each program of lexh.GenSafe, of the C20 generator and of the
//     deterministic part of the tests/ + examples/ corpus is run in fresh processes of the
//     interpreter built from the tree under test and on fresh VMs inside one process, as many times
//     as the calibrated Go map-iteration bias requires; byte-identical stdout / stderr / status;
//   - histories: (A then B) against (B alone) on fresh VMs of one process for seeded pairs;
//   - known stream: the listed residue channels are confirmed to still leak.
package c20

import (
	"encoding/json"
	"fmt"
	"math"
	"os"
	"path/filepath"
	"regexp"
	"sort"
	"strings"
	"sync"
	"time"

	"verif/harness/lexh"
	"verif/harness/vh"
)

func init() { vh.Register("C20", Run) }

// prog: one program of the pool
type prog struct {
	Name    string   `json:"name"`
	Origin  string   `json:"origin"` // gensafe | own | corpus | dirty
	Src     string   `json:"src,omitempty"`
	File    string   `json:"file,omitempty"` // where it is on disk (corpus: inside the repository)
	Dir     string   `json:"-"`
	MaskLog bool     `json:"mask_log,omitempty"`
	NoVM    bool     `json:"no_vm,omitempty"` // calls exit()/die(): os.Exit would end the harness child
	Gen     *genProg `json:"gen,omitempty"`

	procOutcome *Outcome // the unique outcome of `origami <file>` in fresh processes (set by procStream)
	vmOutcome   *Outcome // the unique outcome on fresh VMs of a long-lived process, after whatever that process ran before (set by vmStream)
	before      []string // the files that process had run before
	alone       *Outcome // the outcome on a fresh VM as the first thing a fresh process runs (set by aloneStream / pairCheck)
	selfAfter   *Outcome // non-nil: the second run in that same fresh process (fresh VM again) differed from the first
}

type repCase struct {
	Kind string `json:"kind"` // rep | pair | hist | cli
	P    prog   `json:"p"`
	A    *prog  `json:"a,omitempty"`    // pair: run A first (other VM, same process)
	Hist []prog `json:"hist,omitempty"` // hist: run all of these first, in this order, each on its own VM
	Reps int    `json:"reps,omitempty"`
	Mode string `json:"mode,omitempty"` // proc | vm
}

// ---------------------------------------------------------------- calibration

// calibrate measures, with the toolchain that also builds the interpreter, how often a two-entry
// Go map is iterated in its rarer order, and derives the number of runs after which a 2-way
// order dependence has shown both outcomes with probability > 1 - 1e-6.
func calibrate() (pMin float64, runs int) {
	const trials = 200000
	firstA := 0
	for i := 0; i < trials; i++ {
		m := map[string]int{"a": 1, "b": 2}
		for k := range m {
			if k == "a" {
				firstA++
			}
			break
		}
	}
	p := float64(firstA) / trials
	pMin = math.Min(p, 1-p)
	if pMin < 0.01 { // no usable randomisation observed: fall back to a large count
		return pMin, 400
	}
	// all `runs` runs show the majority order with probability (1-pMin)^runs  (the minority-only case is smaller)
	runs = int(math.Ceil(math.Log(1e-6)/math.Log(1-pMin))) + 1
	return pMin, runs
}

// ---------------------------------------------------------------- corpus filter

type exclusion struct {
	why string
	re  *regexp.Regexp
}

// A corpus file is kept only if its text shows none of these: what it prints would legitimately
// depend on time, randomness, process identity, addresses, the environment outside the program,
// other processes or threads, or it would interfere with a copy of itself running in parallel.
var exclusions = []exclusion{
	{"time", regexp.MustCompile(`(?i)\b(time|microtime|hrtime|date|gmdate|mktime|strtotime|strftime|localtime|getdate|date_create|sleep|usleep|set_time_limit|date_default_timezone_[gs]et)\s*\(|DateTime|REQUEST_TIME`)},
	{"random", regexp.MustCompile(`(?i)\b(rand|mt_rand|random_int|random_bytes|shuffle|array_rand|str_shuffle|uniqid|lcg_value|password_hash|tempnam|tmpfile)\s*\(`)},
	{"process-identity", regexp.MustCompile(`(?i)\b(getmypid|spl_object_hash|spl_object_id|memory_get_usage|memory_get_peak_usage|gc_collect_cycles|sys_get_temp_dir|php_uname|gethostname)\s*\(`)},
	{"concurrency", regexp.MustCompile(`(?i)\bspawn\b|\bgo\s+[a-z_$\\]|Channel|WaitGroup|Mutex|\bSignal\b|pcntl_|Fiber`)},
	{"network-or-server", regexp.MustCompile(`(?i)Net\\Http|Http\\|Server|WebSocket|->listen\s*\(|curl_|fsockopen|stream_socket|Database|PDO|mysql|sqlite|DB::|Redis`)},
	{"writes-files-or-runs-commands", regexp.MustCompile(`(?i)\b(file_put_contents|fopen|fwrite|unlink|mkdir|rmdir|rename|copy|touch|chmod|chdir|putenv|exec|shell_exec|system|passthru|proc_open|popen)\s*\(`)},
	{"reads-stdin-or-argv", regexp.MustCompile(`(?i)php://stdin|STDIN|readline\s*\(|\$argv|\$argc|\$_SERVER|\$_ENV|getenv\s*\(`)},
	{"test-runner", regexp.MustCompile(`(?i)run_tests|scandir\s*\(|glob\s*\(`)},
}

// Corpus files that use a listed residue channel, print process-wide object handles, or end the
// process themselves are run in fresh processes only (not on successive VMs of one process).
var procOnly = regexp.MustCompile(`(?i)\b(exit|die)\b|\b(ini_set|header_register_callback|spl_autoload_register|var_dump|putenv|chdir|set_time_limit)\s*\(|\b(include|require)(_once)?\b|\$_(SERVER|GET|POST|ENV|COOKIE|REQUEST|FILES|SESSION)\b|\$GLOBALS|\$argv`)

func excluded(src string) string {
	for _, e := range exclusions {
		if e.re.MatchString(src) {
			return e.why
		}
	}
	return ""
}

var exitRe = regexp.MustCompile(`(?i)\b(exit|die)\b`)

// ---------------------------------------------------------------- repetition in fresh processes

type tally struct {
	keys   []string
	counts []int
	first  []Outcome
}

func (t *tally) add(o Outcome, mask bool) {
	k := o.key(mask)
	for i := range t.keys {
		if t.keys[i] == k {
			t.counts[i]++
			return
		}
	}
	t.keys = append(t.keys, k)
	t.counts = append(t.counts, 1)
	t.first = append(t.first, o)
}

func (t *tally) distinct() int { return len(t.keys) }

// unbounded: some run hit the time or output limit
func (t *tally) unbounded() bool {
	for _, o := range t.first {
		if o.Note == "timeout" || o.Note == "output-limit" {
			return true
		}
	}
	return false
}

func (t *tally) describe() string {
	var sb strings.Builder
	for i := range t.keys {
		fmt.Fprintf(&sb, "[%d× %s]", t.counts[i], clip(strings.ReplaceAll(t.keys[i], "\n", "⏎"), 400))
	}
	return sb.String()
}

func clip(s string, n int) string {
	if len(s) > n {
		return s[:n] + "…"
	}
	return s
}

// firstDiff: the first differing region of the two most frequent outcomes (for the report)
func (t *tally) firstDiff() string {
	if len(t.keys) < 2 {
		return ""
	}
	a, b := t.keys[0], t.keys[1]
	i := 0
	for i < len(a) && i < len(b) && a[i] == b[i] {
		i++
	}
	lo := max(0, i-60)
	return fmt.Sprintf("outcomes differ at byte %d: %q vs %q", i, clip(a[lo:], 160), clip(b[lo:], 160))
}

const procTimeout = 8 * time.Second

// procRepeat runs every program `reps` times in fresh processes, `workers` at a time.
func procRepeat(bin string, ps []*prog, reps, workers int) []*tally {
	return procRepeatWith(bin, ps, reps, workers, nil)
}

// procRepeatWith: canon (may be nil) is applied to every outcome before it is tallied
func procRepeatWith(bin string, ps []*prog, reps, workers int, canon func(Outcome) Outcome) []*tally {
	res := make([]*tally, len(ps))
	type task struct{ i int }
	var mu sync.Mutex
	for i := range ps {
		res[i] = &tally{}
	}
	ch := make(chan task, 256)
	var wg sync.WaitGroup
	for w := 0; w < workers; w++ {
		wg.Add(1)
		go func() {
			defer wg.Done()
			for t := range ch {
				o := runProcess(bin, ps[t.i].File, ps[t.i].Dir, procTimeout)
				if canon != nil {
					o = canon(o)
				}
				mu.Lock()
				res[t.i].add(o, ps[t.i].MaskLog)
				mu.Unlock()
			}
		}()
	}
	// interleave programs so that the runs of one program are spread over the stream
	for r := 0; r < reps; r++ {
		for i := range ps {
			ch <- task{i}
		}
	}
	close(ch)
	wg.Wait()
	return res
}

// ---------------------------------------------------------------- the runner

type env struct {
	c       *vh.Ctx
	bin     string
	progDir string
	nfile   int
	need    int // runs needed per program (calibrated)
	all     []*prog
}

func (e *env) materialise(p *prog) {
	if p.File != "" {
		return
	}
	e.nfile++
	p.File = filepath.Join(e.progDir, fmt.Sprintf("p%05d.php", e.nfile))
	p.Dir = e.progDir
	os.WriteFile(p.File, []byte(p.Src), 0o644)
}

func Run(c *vh.Ctx) {
	var m *vh.Model
	if c.ModelPath != "" {
		var err error
		m, err = vh.StartModel(c.ModelPath)
		if err != nil {
			c.Note("model driver could not be started: %v", err)
			m = nil
		} else {
			c.Res.ModelUsed = true
			defer m.Close()
		}
	}
	c.Res.Rule = "omap: an op sequence of length ≥ 2, distinct by its text; repetition: a program that produced output or a diagnostic, distinct by its source text; pair: an (A, B) pair, distinct by both texts"
	e := &env{c: c, progDir: filepath.Join(c.Scratch, "progs")}
	os.MkdirAll(e.progDir, 0o755)
	os.WriteFile(filepath.Join(e.progDir, "c20_inc.php"), []byte("<?php\nfunction c20_included() { return 'included-fn'; }\necho 'include-ran;';\n"), 0o644)

	if len(c.ReplayRaw) > 0 {
		e.replay(m)
		return
	}
	if m != nil {
		if bad, err := m.Ask("bad"); err == nil && bad != "-" && bad != "bad-op" {
			c.Note("classification obligations: not in order for the tree under test: %s", bad)
		}
	}

	// 1. OrderedMap correspondence (exhaustive + seeded)
	omStream(c, m)
	c.Res.Exhaustive = true
	c.Res.ExhaustiveWhat = fmt.Sprintf("data.OrderedMap: every sequence of Set/Delete of length ≤ %d over 3 keys (values distinct), observed through Range, Range-with-stop, Len, Get/GetZVal of 5 keys and GetByIndex(-1 … len+1); script level: every history of assignments/unsets of length ≤ %d over 3 string keys on an array", c.N(5, 7), c.N(4, 5))
	if m != nil {
		c.Res.ModelLines = m.Lines
	}

	// 2. repetition / history search on the real interpreter
	pMin, need := calibrate()
	e.need = need
	c.Note("calibration: a two-entry Go map is iterated in its rarer order with frequency %.4f; %d runs per program make a 2-way order dependence show both outcomes with probability > 1 - 1e-6", pMin, need)
	bin, err := buildOrigami(c.Repo, c.Scratch)
	if err != nil {
		c.Mismatch(nil, err.Error(), "", "the interpreter under test could not be built; repetition search not run")
		return
	}
	e.bin = bin

	t0 := time.Now()
	lap := func(what string) {
		c.Note("phase %s: %.1fs", what, time.Since(t0).Seconds())
		t0 = time.Now()
	}
	if os.Getenv("C20_ONLY") == "reorder" { // development aid: only the round-5 streams
		e.reorderStream(m)
		lap("reorder stream")
		e.closureProbe()
		e.panicStackProbe()
		e.ksortModelStream(m, ksortCases())
		lap("closure probe; ksort/krsort against the model")
		return
	}
	if os.Getenv("C20_ONLY") == "unbalanced" { // development aid: only the round-7 streams
		e.unbalancedStream()
		e.obModelStream(m, obCases(c.N(5, 7)))
		lap("unbalanced stream; output-buffer stack against the model")
		return
	}
	if os.Getenv("C20_ONLY") == "errors" { // development aid: only the round-8 stream
		e.errorStream()
		lap("error stream")
		return
	}
	e.orderStream()
	lap("script-level insertion order")
	pool := e.buildPool()
	e.all = pool
	ok := e.procStream(pool)
	lap("fresh processes")
	e.probeTableCheck(m)
	ok = e.vmStream(ok)
	lap("fresh VMs")
	ok = e.aloneStream(ok)
	lap("first program of a fresh process; command line against in-process runner")
	e.pairStream(ok)
	lap("pairs")
	e.knownStream()
	lap("known stream")
	e.unbalancedStream()
	e.obModelStream(m, obCases(c.N(5, 7)))
	lap("unbalanced stream; output-buffer stack against the model")
	e.errorStream()
	lap("error stream")
	e.reorderStream(m)
	lap("reorder stream")
	e.closureProbe()
	e.panicStackProbe()
	e.ksortModelStream(m, ksortCases())
	lap("closure probe; ksort/krsort against the model")
}

// ---------------------------------------------------------------- pool

func (e *env) buildPool() []*prog {
	c := e.c
	var pool []*prog
	nSafe := c.N(60, 400)
	for i := 0; i < nSafe; i++ {
		src := "<?php\n" + lexh.GenSafe(c.Rand)
		pool = append(pool, &prog{Name: fmt.Sprintf("gensafe#%d", i), Origin: "gensafe", Src: src})
	}
	nOwn := c.N(150, 1200)
	for i := 0; i < nOwn; i++ {
		g := genOwn(c.Rand)
		pool = append(pool, &prog{Name: fmt.Sprintf("own#%d", i), Origin: "own", Src: g.src(), Gen: &g})
	}
	// corpus: the deterministic part of tests/ + examples/
	reasons := map[string]int{}
	kept := 0
	for _, in := range lexh.Corpus(c.Repo) {
		if why := excluded(in.Src); why != "" {
			reasons[why]++
			continue
		}
		kept++
		f := filepath.Join(c.Repo, in.Name)
		pool = append(pool, &prog{Name: in.Name, Origin: "corpus", File: f, Dir: filepath.Dir(f), Src: in.Src,
			MaskLog: strings.Contains(in.Src, "Log::"), NoVM: procOnly.MatchString(in.Src)})
	}
	var rs []string
	for k, v := range reasons {
		rs = append(rs, fmt.Sprintf("%s=%d", k, v))
		c.HitN("corpus.excluded."+k, v)
	}
	sort.Strings(rs)
	c.HitN("corpus.kept", kept)
	c.Note("corpus: %d files kept, excluded by the syntactic filter: %s; in kept files that call Log:: the printed wall-clock second is masked (<ts>), nothing else", kept, strings.Join(rs, " "))
	for _, p := range pool {
		if p.Origin != "corpus" {
			p.NoVM = exitRe.MatchString(p.Src)
		}
		e.materialise(p)
	}
	return pool
}

// ---------------------------------------------------------------- process stream

func nontrivial(t *tally) bool {
	return len(t.first) > 0 && (t.first[0].Stdout != "" || t.first[0].Stderr != "")
}

// procStream: R runs of every program in fresh processes; returns the programs that were
// deterministic and terminated (the later streams build on their single outcome).
func (e *env) procStream(pool []*prog) []*prog {
	c := e.c
	reps := c.N(5, 20)
	tallies := procRepeat(e.bin, pool, reps, c.Workers)
	var ok []*prog
	for i, p := range pool {
		t := tallies[i]
		c.Eval("rep:"+p.Src, nontrivial(t))
		c.Hit("proc." + p.Origin)
		c.HitN("proc.runs", reps)
		if len(t.first) > 0 {
			c.Hit(fmt.Sprintf("proc.status=%d", t.first[0].Status))
		}
		c.SampleSome(map[string]any{"program": p.Name, "mode": "proc", "runs": reps, "outcome": clip(t.describe(), 300)}, 97)
		if t.unbounded() {
			// does not terminate within the limits (time / output size): not comparable, another property's subject
			c.Hit("proc.unbounded-skipped")
			continue
		}
		if t.distinct() == 1 {
			p.procOutcome = &t.first[0]
			ok = append(ok, p)
			continue
		}
		e.reportNondet(p, t, "proc", reps)
	}
	return ok
}

// confirm: serial re-runs of one program alone (no copy of itself or other programs in parallel)
func (e *env) confirmProc(p *prog, runs int) *tally {
	t := &tally{}
	for i := 0; i < runs; i++ {
		t.add(runProcess(e.bin, p.File, p.Dir, procTimeout), p.MaskLog)
		if (t.distinct() > 1 && i >= 4) || t.unbounded() {
			break
		}
	}
	return t
}

func (e *env) reportNondet(p *prog, t *tally, mode string, reps int) {
	c := e.c
	// a difference seen while 16 programs ran in parallel must reproduce when the program runs alone
	if mode == "proc" {
		t2 := e.confirmProc(p, 2*e.need)
		if t2.unbounded() {
			c.Hit("proc.unbounded-skipped")
			return
		}
		if t2.distinct() == 1 {
			c.Hit("proc.difference-only-under-parallel-load")
			c.Note("%s: outcomes differed under parallel load but not in %d serial runs: %s", p.Name, 2*e.need, clip(t.firstDiff(), 300))
			return
		}
		t = t2
	}
	sig := "nondet:" + p.Origin
	cas := repCase{Kind: "rep", P: *p, Reps: 2 * e.need, Mode: mode}
	switch p.Origin {
	case "own":
		if mode == "proc" && p.Gen != nil {
			g := e.shrinkOwn(*p.Gen)
			sp := prog{Name: p.Name + "(shrunk)", Origin: "own", Src: g.src(), Gen: &g}
			cas.P = sp
			sig = "nondet:own:" + g.tags()
		} else if p.Gen != nil {
			sig = "nondet:own:" + p.Gen.tags()
		}
	case "corpus":
		sig = "nondet:corpus:" + p.Name
		cas.P.Src = ""
	}
	cas.P.File, cas.P.Dir = "", ""
	if p.Origin == "corpus" {
		cas.P.File = p.Name // relative to the repository
	}
	c.Violation(sig, fmt.Sprintf("%s (%s, %d runs): same program, same inputs, different observable behaviour: %s — %s", p.Name, mode, reps, t.firstDiff(), clip(t.describe(), 900)), cas)
}

// shrinkOwn drops blocks while the program still shows more than one outcome.
func (e *env) shrinkOwn(g genProg) genProg {
	differs := func(g genProg) bool {
		p := &prog{Origin: "own", Src: g.src()}
		e.materialise(p)
		return e.confirmProc(p, 2*e.need).distinct() > 1
	}
	cur := g
	for changed := true; changed && len(cur.Blocks) > 1; {
		changed = false
		for i := range cur.Blocks {
			cand := genProg{Blocks: append(append([]block(nil), cur.Blocks[:i]...), cur.Blocks[i+1:]...)}
			if differs(cand) {
				cur, changed = cand, true
				break
			}
		}
	}
	return cur
}

// ---------------------------------------------------------------- fresh-VM stream

// vmStream: every program again, on fresh VMs inside one process, so that the total number of runs
// reaches the calibrated count. Returns the programs whose in-process outcome is unique.
func (e *env) vmStream(pool []*prog) []*prog {
	c := e.c
	reps := e.need - c.N(5, 20)
	if reps < 20 {
		reps = 20
	}
	var jobs []vmJob
	var idx []int
	for i, p := range pool {
		if p.NoVM {
			c.Hit("vm.skipped-calls-exit")
			continue
		}
		jobs = append(jobs, vmJob{ID: i, Files: []string{p.File}, Reps: reps, Dir: p.Dir, MaxMS: 25000})
		idx = append(idx, i)
	}
	res := runVMJobs(c.Scratch, c.Workers, jobs, 120*time.Second)
	var ok []*prog
	for k, r := range res {
		p := pool[idx[k]]
		if !r.OK {
			// the child died or hung on this program: once more alone, to tell a program that cannot run in-process from a flaky one
			again := runVMJobs(c.Scratch, 1, []vmJob{r.Job}, 120*time.Second)[0]
			if !again.OK {
				c.Hit("vm.not-runnable-in-process")
				c.Note("%s: ends or hangs the harness child when run in-process (twice); fresh-process runs only", p.Name)
				continue
			}
			r = again
			c.Hit("vm.child-died-once")
			c.Violation("nondet:vm-crash:"+p.Origin, fmt.Sprintf("%s: killed the in-process runner once and completed the second time", p.Name), repCase{Kind: "rep", P: stripped(p), Reps: reps, Mode: "vm"})
			continue
		}
		t := &tally{}
		for j, o := range r.Ans.Distinct[0] {
			for n := 0; n < r.Ans.Counts[0][j]; n++ {
				t.add(o, p.MaskLog)
			}
		}
		c.Eval("vm:"+p.Src, nontrivial(t))
		c.Hit("vm." + p.Origin)
		c.HitN("vm.runs", r.Ans.Done)
		if r.Ans.Done < reps {
			c.Hit("vm.slow-program-fewer-runs")
			c.Note("%s: slow in-process (%d ms for %d runs): %d instead of %d fresh-VM runs", p.Name, r.Ans.MilliS, r.Ans.Done, r.Ans.Done, reps)
		}
		c.SampleSome(map[string]any{"program": p.Name, "mode": "vm", "runs": reps, "ms": r.Ans.MilliS, "outcome": clip(t.describe(), 300)}, 131)
		if t.distinct() == 1 {
			p.vmOutcome = &t.first[0]
			p.before = r.Before
			ok = append(ok, p)
			continue
		}
		e.reportNondet(p, t, "vm", reps)
	}
	return ok
}

func stripped(p *prog) prog {
	q := *p
	q.File, q.Dir = "", ""
	if q.Origin == "corpus" {
		q.File, q.Src = p.Name, ""
	}
	return q
}

// ---------------------------------------------------------------- replay

func (e *env) replay(m *vh.Model) {
	c := e.c
	var probe struct {
		Kind string `json:"kind"`
	}
	json.Unmarshal(c.ReplayRaw, &probe)
	switch probe.Kind {
	case "omap":
		var cs omCase
		if json.Unmarshal(c.ReplayRaw, &cs) == nil {
			omCheck(c, m, []omCase{cs})
		}
		return
	case "obstack":
		var oc obCase
		if json.Unmarshal(c.ReplayRaw, &oc) == nil {
			bin, err := buildOrigami(c.Repo, c.Scratch)
			if err != nil {
				c.Mismatch(nil, err.Error(), "", "interpreter build failed")
				return
			}
			e.bin = bin
			e.obModelStream(m, []obCase{oc})
		}
		return
	case "reorder", "ksortm", "closure", "panicstack":
		bin, err := buildOrigami(c.Repo, c.Scratch)
		if err != nil {
			c.Mismatch(nil, err.Error(), "", "interpreter build failed")
			return
		}
		e.bin = bin
		_, e.need = calibrate()
		if probe.Kind == "closure" {
			e.closureProbe()
		} else if probe.Kind == "panicstack" {
			e.panicStackProbe()
		} else if probe.Kind == "reorder" {
			var rc reorderCase
			if json.Unmarshal(c.ReplayRaw, &rc) == nil {
				e.reorderCheck(rc)
			}
		} else {
			var kc ksortCase
			if json.Unmarshal(c.ReplayRaw, &kc) == nil {
				e.ksortModelStream(m, []ksortCase{kc})
			}
		}
		return
	case "order":
		var oc orderCase
		if json.Unmarshal(c.ReplayRaw, &oc) == nil {
			bin, err := buildOrigami(c.Repo, c.Scratch)
			if err != nil {
				c.Mismatch(nil, err.Error(), "", "interpreter build failed")
				return
			}
			e.bin = bin
			e.orderCheck([]orderCase{oc})
		}
		return
	}
	var rc repCase
	if err := json.Unmarshal(c.ReplayRaw, &rc); err != nil {
		c.Note("replay: cannot parse case: %v", err)
		return
	}
	bin, err := buildOrigami(c.Repo, c.Scratch)
	if err != nil {
		c.Mismatch(nil, err.Error(), "", "interpreter build failed")
		return
	}
	e.bin = bin
	_, e.need = calibrate()
	fix := func(p *prog) {
		if p.Origin == "corpus" && p.File != "" {
			p.Name = p.File
			p.File = filepath.Join(c.Repo, p.File)
			p.Dir = filepath.Dir(p.File)
			b, _ := os.ReadFile(p.File)
			p.Src = string(b)
		} else {
			p.File = ""
			if p.Gen != nil && p.Src == "" {
				p.Src = p.Gen.src()
			}
			e.materialise(p)
		}
	}
	fix(&rc.P)
	switch rc.Kind {
	case "rep":
		reps := rc.Reps
		if reps <= 0 {
			reps = 2 * e.need
		}
		if rc.Mode == "vm" {
			r := runVMJobs(c.Scratch, 1, []vmJob{{ID: 0, Files: []string{rc.P.File}, Reps: reps, Dir: rc.P.Dir}}, 300*time.Second)[0]
			t := &tally{}
			if r.OK {
				for j, o := range r.Ans.Distinct[0] {
					for n := 0; n < r.Ans.Counts[0][j]; n++ {
						t.add(o, rc.P.MaskLog)
					}
				}
			}
			c.Eval("vm:"+rc.P.Src, true)
			c.Sample(map[string]any{"program": rc.P.Name, "mode": "vm", "outcomes": t.describe()})
			if t.distinct() > 1 {
				e.reportNondet(&rc.P, t, "vm", reps)
			}
			return
		}
		t := e.confirmProc(&rc.P, reps)
		c.Eval("rep:"+rc.P.Src, true)
		c.Sample(map[string]any{"program": rc.P.Name, "mode": "proc", "outcomes": t.describe()})
		if t.distinct() > 1 {
			sig := "nondet:" + rc.P.Origin
			if rc.P.Origin == "own" && rc.P.Gen != nil {
				sig = "nondet:own:" + rc.P.Gen.tags()
			} else if rc.P.Origin == "corpus" {
				sig = "nondet:corpus:" + rc.P.Name
			}
			c.Violation(sig, fmt.Sprintf("%s: %s — %s", rc.P.Name, t.firstDiff(), clip(t.describe(), 900)), rc)
		}
	case "pair":
		if rc.A == nil {
			return
		}
		fix(rc.A)
		e.pairCheck([]pairCase{{A: rc.A, B: &rc.P, Sig: rc.Mode}}, true)
	case "hist":
		var hist []*prog
		for i := range rc.Hist {
			fix(&rc.Hist[i])
			hist = append(hist, &rc.Hist[i])
		}
		e.aloneOf([]*prog{&rc.P})
		c.Eval("hist:"+rc.P.Src, true)
		if rc.P.alone == nil {
			c.Note("replay: the program does not complete as the first program of a fresh process")
			return
		}
		if o := e.afterHistory(hist, &rc.P); o != nil && o.key(rc.P.MaskLog) != rc.P.alone.key(rc.P.MaskLog) {
			c.Violation("residue:history:"+featureOf(&rc.P), fmt.Sprintf("%s behaves differently after %d other programs ran on other VMs of the process: alone %q, after them %q",
				rc.P.Name, len(hist), clip(rc.P.alone.key(rc.P.MaskLog), 400), clip(o.key(rc.P.MaskLog), 400)), rc)
		}
	case "cli":
		t := e.confirmProc(&rc.P, 3)
		if t.distinct() == 1 {
			rc.P.procOutcome = &t.first[0]
		}
		e.aloneOf([]*prog{&rc.P})
		c.Eval("cli:"+rc.P.Src, true)
		e.cliAgainstRunner(&rc.P)
	}
}
