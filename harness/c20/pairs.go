package c20

import (
	"fmt"
	"strings"
	"time"

	"verif/harness/vh"
)

// ---------------------------------------------------------------- (A then B) vs (B alone)

type pairCase struct {
	A, B *prog
	Sig  string // non-empty: the residue channel this pair probes (signature when it leaks)
}

// channel: a way a program could leave something behind, and a probe that would see it.
type channel struct {
	Name  string
	A, B  string
	Known string // non-empty: listed residue channel (cell) — confirmed in the known stream
}

// Channels that must be clean: state that belongs to the VM (or to the run) and must not survive
// into a fresh VM of the same process.
var channels = []channel{
	{Name: "static-property", A: `class S1 { static $x = 1; static function bump() { self::$x++; return self::$x; } } S1::$x = 5; echo S1::bump();`,
		B: `class S1 { static $x = 1; static function bump() { self::$x++; return self::$x; } } echo S1::$x, S1::bump();`},
	{Name: "constant", A: `define('C20_K1', 5); const C20_K2 = 6; echo C20_K1, C20_K2, defined('C20_K1') ? 'defined' : 'undefined', defined('C20_K2') ? 'defined' : 'undefined';`,
		B: `echo defined('C20_K1') ? 'defined' : 'undefined', defined('C20_K2') ? 'defined' : 'undefined';`},
	{Name: "function-and-class-tables", A: `function c20_f() { return 1; } class C20Cls { public $p = 1; } interface C20If {} echo c20_f(), function_exists('c20_f') ? 'F' : 'f', class_exists('C20Cls') ? 'C' : 'c', interface_exists('C20If') ? 'I' : 'i', method_exists('C20Cls', 'nope') ? 'M' : 'm', property_exists('C20Cls', 'p') ? 'P' : 'p';`,
		B: `echo function_exists('c20_f') ? 'F' : 'f', class_exists('C20Cls') ? 'C' : 'c', interface_exists('C20If') ? 'I' : 'i'; class C20Cls { public $q = 2; } echo property_exists('C20Cls', 'p') ? 'P' : 'p', property_exists('C20Cls', 'q') ? 'Q' : 'q';`},
	{Name: "same-class-name-other-body", A: `class Shape { public $sides = 3; function name() { return 'triangle'; } } $s = new Shape(); echo $s->name(), $s->sides;`,
		B: `class Shape { public $sides = 4; public $extra = 'e'; function name() { return 'square'; } } $s = new Shape(); echo $s->name(), $s->sides, json_encode($s);`},
	// one name, two declarations with different relations: everything a VM answers about a class must
	// come from that VM's declaration (catch clauses, typed parameters / returns / properties, instanceof, reflection)
	{Name: "same-class-name-other-parent-catch", A: `class C20Err extends RuntimeException {} foreach ([1, 2] as $i) { try { throw new C20Err("a"); } catch (LogicException $e) { echo "logic;"; } catch (RuntimeException $e) { echo "runtime;"; } catch (Exception $e) { echo "exception;"; } }`,
		B: `class C20Err extends LogicException {} foreach ([1, 2] as $i) { try { throw new C20Err("b"); } catch (RuntimeException $e) { echo "runtime;"; } catch (LogicException $e) { echo "logic;"; } catch (Exception $e) { echo "exception;"; } }`},
	{Name: "same-class-name-other-parent-typehint", A: `class C20P1 {} class C20P2 {} class C20Kid extends C20P1 {} function c20_t1(C20P1 $x) { return "p1;"; } function c20_t2(C20P2 $x) { return "p2;"; } function c20_r(): C20P1 { return new C20Kid(); } class C20Box { public C20P1 $v; } try { echo c20_t1(new C20Kid()); } catch (\Throwable $e) { echo "t1-rejected;"; } try { echo c20_t2(new C20Kid()); } catch (\Throwable $e) { echo "t2-rejected;"; } try { c20_r(); echo "r-ok;"; } catch (\Throwable $e) { echo "r-rejected;"; } try { $b = new C20Box(); $b->v = new C20Kid(); echo "prop-ok;"; } catch (\Throwable $e) { echo "prop-rejected;"; }`,
		B: `class C20P1 {} class C20P2 {} class C20Kid extends C20P2 {} function c20_t1(C20P1 $x) { return "p1;"; } function c20_t2(C20P2 $x) { return "p2;"; } function c20_r(): C20P1 { return new C20Kid(); } class C20Box { public C20P1 $v; } try { echo c20_t1(new C20Kid()); } catch (\Throwable $e) { echo "t1-rejected;"; } try { echo c20_t2(new C20Kid()); } catch (\Throwable $e) { echo "t2-rejected;"; } try { c20_r(); echo "r-ok;"; } catch (\Throwable $e) { echo "r-rejected;"; } try { $b = new C20Box(); $b->v = new C20Kid(); echo "prop-ok;"; } catch (\Throwable $e) { echo "prop-rejected;"; }`},
	{Name: "same-class-name-other-interface", A: `interface C20I1 {} interface C20I2 {} class C20Impl implements C20I1 {} function c20_i1(C20I1 $x) { return "i1;"; } function c20_i2(C20I2 $x) { return "i2;"; } $o = new C20Impl(); echo $o instanceof C20I1 ? "is-i1;" : "not-i1;", $o instanceof C20I2 ? "is-i2;" : "not-i2;"; try { echo c20_i1($o); } catch (\Throwable $e) { echo "i1-rejected;"; } try { echo c20_i2($o); } catch (\Throwable $e) { echo "i2-rejected;"; } echo json_encode(array_values(class_implements($o)));`,
		B: `interface C20I1 {} interface C20I2 {} class C20Impl implements C20I2 {} function c20_i1(C20I1 $x) { return "i1;"; } function c20_i2(C20I2 $x) { return "i2;"; } $o = new C20Impl(); echo $o instanceof C20I1 ? "is-i1;" : "not-i1;", $o instanceof C20I2 ? "is-i2;" : "not-i2;"; try { echo c20_i1($o); } catch (\Throwable $e) { echo "i1-rejected;"; } try { echo c20_i2($o); } catch (\Throwable $e) { echo "i2-rejected;"; } echo json_encode(array_values(class_implements($o)));`},
	{Name: "same-class-name-other-parent-reflection", A: `class C20Q1 {} class C20Q2 {} class C20Sub extends C20Q1 {} $o = new C20Sub(); echo $o instanceof C20Q1 ? "q1;" : "-;", $o instanceof C20Q2 ? "q2;" : "-;", is_a($o, 'C20Q1') ? "a1;" : "-;", is_subclass_of($o, 'C20Q2') ? "s2;" : "-;", get_parent_class($o), ";";`,
		B: `class C20Q1 {} class C20Q2 {} class C20Sub extends C20Q2 {} $o = new C20Sub(); echo $o instanceof C20Q1 ? "q1;" : "-;", $o instanceof C20Q2 ? "q2;" : "-;", is_a($o, 'C20Q1') ? "a1;" : "-;", is_subclass_of($o, 'C20Q2') ? "s2;" : "-;", get_parent_class($o), ";";`},
	{Name: "same-interface-name-other-parent", A: `interface C20Base1 {} interface C20Base2 {} interface C20Mid extends C20Base1 {} class C20Leaf implements C20Mid {} function c20_b1(C20Base1 $x) { return "b1;"; } function c20_b2(C20Base2 $x) { return "b2;"; } try { echo c20_b1(new C20Leaf()); } catch (\Throwable $e) { echo "b1-rejected;"; } try { echo c20_b2(new C20Leaf()); } catch (\Throwable $e) { echo "b2-rejected;"; }`,
		B: `interface C20Base1 {} interface C20Base2 {} interface C20Mid extends C20Base2 {} class C20Leaf implements C20Mid {} function c20_b1(C20Base1 $x) { return "b1;"; } function c20_b2(C20Base2 $x) { return "b2;"; } try { echo c20_b1(new C20Leaf()); } catch (\Throwable $e) { echo "b1-rejected;"; } try { echo c20_b2(new C20Leaf()); } catch (\Throwable $e) { echo "b2-rejected;"; }`},
	{Name: "same-function-name-other-body", A: `function c20_same($x = 1) { static $calls = 0; $calls++; return "A" . $x . $calls . ";"; } echo c20_same(), c20_same(2);`,
		B: `function c20_same($x = 7, $y = 8) { static $calls = 0; $calls++; return "B" . $x . $y . $calls . ";"; } echo c20_same(), c20_same(2);`},
	{Name: "same-class-name-other-members", A: `class C20Mem { const K = 'ka'; public static $s = 'sa'; private $p = 'pa'; function get() { return $this->p; } static function make() { return new static(); } } echo C20Mem::K, C20Mem::$s, C20Mem::make()->get(), method_exists('C20Mem', 'only_in_a') ? 'y' : 'n';`,
		B: `class C20Mem { const K = 'kb'; public static $s = 'sb'; protected $p = 'pb'; function get() { return $this->p; } function only_in_b() { return 1; } static function make() { return new static(); } } echo C20Mem::K, C20Mem::$s, C20Mem::make()->get(), method_exists('C20Mem', 'only_in_b') ? 'y' : 'n';`},
	{Name: "global-variables", A: `$g = 5; function c20_h() { global $g; $g++; return $g; } echo c20_h();`,
		B: `echo isset($g) ? 'set' : 'unset'; function c20_h() { global $g; return json_encode($g); } echo c20_h();`},
	{Name: "output-buffer-left-open", A: `ob_start(); echo "inside-A";`,
		B: `echo "b-out"; echo ob_get_level();`},
	{Name: "output-buffer-nested", A: `ob_start(); echo "x"; ob_start(); echo "y"; $in = ob_get_clean(); echo strtoupper($in);`,
		B: `ob_start(); echo "b"; $c = ob_get_clean(); echo "[", $c, "]", ob_get_level();`},
	{Name: "exception-handler", A: `set_exception_handler(function($e) { echo "A-handler:", $e->getMessage(); }); echo "a";`,
		B: `echo "b"; throw new Exception("from-b");`},
	{Name: "shutdown-function", A: `register_shutdown_function(function() { echo "A-shutdown"; }); echo "a";`,
		B: `register_shutdown_function(function() { echo "B-shutdown"; }); echo "b";`},
	{Name: "error-handler", A: `set_error_handler(function($no, $msg) { echo "A-errh:", $msg; return true; }); trigger_error("ea", E_USER_WARNING); echo "a";`,
		B: `echo "b"; trigger_error("eb", E_USER_WARNING); echo "after";`},
	{Name: "class-alias", A: `class C20Orig { function n() { return 'o'; } } class_alias('C20Orig', 'C20Alias'); $x = new C20Alias(); echo $x->n();`,
		B: `echo class_exists('C20Alias') ? 'A' : 'a', class_exists('C20Orig') ? 'O' : 'o';`},
	{Name: "function-static-variable", A: `function c20_counter() { static $n = 0; $n++; return $n; } echo c20_counter(), c20_counter();`,
		B: `function c20_counter() { static $n = 0; $n++; return $n; } echo c20_counter();`},
	{Name: "uncaught-exception-in-A", A: `echo "a"; throw new RuntimeException("A dies");`,
		B: `echo "b"; try { throw new Exception("in-b"); } catch (Exception $e) { echo $e->getMessage(); }`},
	{Name: "object-ids-spl", A: `$keep = []; for ($i = 0; $i < 5; $i++) { $keep[] = new stdClass; } echo count($keep);`,
		B: `$o = new stdClass; $p = new stdClass; echo spl_object_id($o) == spl_object_id($o) ? 'same' : 'diff', spl_object_id($o) == spl_object_id($p) ? 'same' : 'diff';`},

	{Name: "user-output-flag", A: `echo "a printed something";`,
		B: `abstract class C20Abs { abstract function f(); abstract function g(); } class C20Conc extends C20Abs { } $x = new C20Conc();`},
	{Name: "user-output-flag-uncaught", A: `var_dump(1); echo "x";`,
		B: `function c20_t() { throw new LogicException("only diagnostics"); } c20_t();`},
	{Name: "error-reporting-level", A: `error_reporting(0); echo "a";`, B: `echo error_reporting();`},
	{Name: "header-callback-list", A: `header_register_callback(function() { echo "A-header-callback;"; });`, B: `echo "b";`},
	{Name: "output-buffer-three-levels", A: `ob_start(); echo "1"; ob_start(); echo "2"; ob_start(); echo "3";`,
		B: `ob_start(); echo "b1"; ob_start(); echo "b2"; $x = ob_get_clean(); $y = ob_get_clean(); echo $y, "|", $x, ob_get_level();`},

	// listed residue channels (package-level state shared by all VMs of a process)
	{Name: "ini-store", Known: "residue:cell:std/php/core.iniStore", A: `ini_set('precision', '3'); echo ini_get('precision');`,
		B: `echo json_encode(ini_get('precision'));`},
	{Name: "var-dump-object-handles", Known: "residue:cell:std/php.varDumpObjIDs", A: `$a = new stdClass; $b = new stdClass; $c = new stdClass; var_dump($a); var_dump($b); var_dump($c);`,
		B: `$o = new stdClass; $o->p = 1; var_dump($o);`},
	{Name: "include-once-cache", Known: "residue:cell:node.includeOnceCache", A: `include_once __DIR__ . '/c20_inc.php'; echo c20_included();`,
		B: `include_once __DIR__ . '/c20_inc.php'; echo function_exists('c20_included') ? c20_included() : 'function-missing';`},
	{Name: "superglobal-cache", Known: "residue:cell:node.superglobals", A: `$_SERVER['C20_MARK'] = 'from-A'; $_GET['C20_G'] = 'g'; $_ENV['C20_E'] = 'e'; echo "a";`,
		B: `echo isset($_SERVER['C20_MARK']) ? $_SERVER['C20_MARK'] : 'clean', isset($_GET['C20_G']) ? 'G' : 'g', isset($_ENV['C20_E']) ? 'E' : 'e';`},
	{Name: "argv-cache", Known: "residue:cell:node.argvValue", A: `$argv = ['from-A']; echo "a";`,
		B: `echo is_array($argv) && count($argv) == 1 && $argv[0] === 'from-A' ? 'leak' : 'clean';`},
	{Name: "header-output-started", Known: "residue:cell:std/php/core.headerOutputStarted", A: `echo "a";`,
		B: `header_register_callback(function() { echo "B-header-callback;"; }); echo "b";`},
	{Name: "autoloaders", Known: "residue:cell:parser.autoload", A: `spl_autoload_register(function($c) { echo "A-autoload:", $c, ";"; }); echo "a";`,
		B: `echo class_exists('C20Missing2') ? 'y' : 'n';`},
	{Name: "stream-context-ids", Known: "residue:cell:std/php/stream.nextStreamContextID", A: `$c = stream_context_create(); $d = stream_context_create(); echo "a";`,
		B: `var_dump(stream_context_create());`},
	{Name: "time-limit", Known: "residue:cell:std/php/core.executionDeadline", A: `set_time_limit(1); echo "a";`,
		B: `$t = microtime(true); $n = 0; while (microtime(true) - $t < 1.4) { $n++; } echo "survived";`},
	{Name: "process-environment", Known: "residue:cell:process.os.Setenv", A: `putenv('C20_ENV_MARK=from-A'); echo "a";`,
		B: `echo json_encode(getenv('C20_ENV_MARK'));`},
}

// ---- reset-per-run cells: every way a script dirties the cell × every function that reads it
//
// The cells whose discipline (Proofs/C20Sites.lean) is "reset before read" / "restored at the end of
// the run" are clean only as long as the reset is really executed on every run. For each such cell
// that a script can leave in more than one state, the translator lists the functions that read it
// (Generated/C20Resets.lean); C20Sites.probes maps each of them to the channels below (checked by
// C20_reset_observers_probed; probeTableCheck checks the names exist here). A = one way of
// dirtying, B = a program that reaches the reader before anything else could mask the effect
// (B itself prints nothing to stdout before the diagnostic).
type side struct{ Name, Code string }

type resetCell struct {
	Prefix    string
	Dirtiers  []side // A sides
	Observers []side // B sides
}

var resetCells = []resetCell{
	{Prefix: "reset:user-output", // data.userOutputEmitted: MarkUserOutput (DefaultOutputWriter, var_dump) / HasUserOutput
		Dirtiers: []side{
			{"echo", `echo "a printed something";`},
			{"var_dump", `var_dump(1);`},
			{"inline-html", `$x = 1; ?>text outside the php tags<?php $y = 2;`},
		},
		Observers: []side{
			// parser.printPHPUncaughtError
			{"uncaught-error", `abstract class C20AbsU { abstract function f(); } $x = new C20AbsU();`},
			// parser.printPHPCompileFatal
			{"compile-fatal", `abstract class C20Abs { abstract function f(); abstract function g(); } class C20Conc extends C20Abs { } $x = new C20Conc();`},
			// core.CallUserFuncFunction.resolveObjectCallback (Deprecated: Callables of the form …)
			{"callable-deprecation", `class C20K { static function m() { return 1; } function go() { return call_user_func([$this, 'C20K::m']); } } $k = new C20K(); $r = $k->go();`},
		}},
	{Prefix: "reset:output-writer", // data.WriteOutput (+ core.obStack): ob_start / FlushAllBuffers at the end of the run and in the throw control
		Dirtiers: []side{
			{"open-buffer", `ob_start(); echo "inside-A";`},
			{"throw-in-buffer", `ob_start(); echo "inside-A"; throw new Exception("A dies inside a buffer");`},
		},
		Observers: []side{
			{"echo", `echo "b-out"; echo ob_get_level();`},                          // node.EchoStatement.GetValue
			{"inline-html", `$x = 1; ?>b-inline<?php $y = ob_get_level();`},         // node.InlineHTMLNode.GetValue
			{"open-buffer", `ob_start(); echo "b-buffered"; ob_start(); echo "2";`}, // core.FlushAllBuffers
		}},
	// core.headerCallbacks: header_register_callback / RunHeaderCallbacks at shutdown. The callbacks print with
	// var_dump: `echo` would set core.headerOutputStarted (a listed residue channel) and mask the probe, and
	// fwrite(STDERR, …) prints nothing in this interpreter.
	{Prefix: "reset:header-callbacks",
		Dirtiers: []side{
			{"registered", `header_register_callback(function() { var_dump("A-header-callback"); });`},
		},
		Observers: []side{
			{"register", `header_register_callback(function() { var_dump("B-header-callback"); });`}, // HeaderRegisterCallbackFunction.Call
			{"shutdown", `$x = 1;`}, // core.RunHeaderCallbacks (stored in the hook by php.Load)
			{"shutdown-after-callbacks", `register_shutdown_function(function() { var_dump("B-shutdown"); });`},
		}},
}

func init() {
	for _, rc := range resetCells {
		for _, d := range rc.Dirtiers {
			for _, o := range rc.Observers {
				channels = append(channels, channel{Name: rc.Prefix + ":" + d.Name + "->" + o.Name, A: d.Code, B: o.Code})
			}
		}
	}
}

func (e *env) chanProg(name, role, code string) *prog {
	p := &prog{Name: "channel:" + name + ":" + role, Origin: "dirty", Src: "<?php\n" + code + "\n"}
	e.materialise(p)
	return p
}

// pairCheck runs A then B (each on its own fresh VM) in a fresh process and compares what B shows
// with B as the first program of a fresh process. main=true: a difference is a violation (signature
// from the programs); otherwise the pair probes a listed channel and a difference confirms the
// known finding.
func (e *env) pairCheck(cases []pairCase, main bool) {
	c := e.c
	var need []*prog
	for _, pc := range cases {
		if pc.B.alone == nil {
			need = append(need, pc.B)
		}
	}
	e.aloneOf(need)
	e.channelProgsAgainstCLI(cases)
	var jobs []vmJob
	var idx []int
	for i, pc := range cases {
		if pc.B.alone != nil && pc.B.selfAfter != nil {
			// the probe run twice in one fresh process (two fresh VMs) already shows two outcomes: what its own first
			// run left behind is visible to the second
			c.Eval("pair:"+pc.A.Src+"\x00"+pc.B.Src, true)
			what := fmt.Sprintf("the program %s run on two successive fresh VMs of one fresh process shows different outcomes: first %q, second %q; %s", pc.B.Name,
				clip(pc.B.alone.key(pc.B.MaskLog), 300), clip(pc.B.selfAfter.key(pc.B.MaskLog), 300), diffAt(pc.B.alone.key(pc.B.MaskLog), pc.B.selfAfter.key(pc.B.MaskLog)))
			if pc.Sig != "" {
				c.Violation(pc.Sig, what, repCase{Kind: "pair", P: stripped(pc.B), A: ptr(stripped(pc.A)), Mode: pc.Sig})
			} else {
				c.Violation("residue:"+featureOf(pc.B)+"->"+featureOf(pc.B), what, repCase{Kind: "pair", P: stripped(pc.B), A: ptr(stripped(pc.B))})
			}
			continue
		}
		if pc.B.alone == nil || pc.A.NoVM || pc.B.NoVM {
			c.Hit("pair.skipped-B-does-not-complete-alone")
			if pc.A.Origin == "dirty" && !pc.A.NoVM && !pc.B.NoVM {
				c.Mismatch(repCase{Kind: "pair", P: stripped(pc.B), A: ptr(stripped(pc.A)), Mode: pc.Sig}, "", "", fmt.Sprintf("channel probe %s does not complete as the first program of a fresh process: the channel is not exercised", pc.B.Name))
			}
			continue
		}
		jobs = append(jobs, vmJob{ID: i, Files: []string{pc.A.File, pc.B.File}, Reps: 2, Dir: pc.B.Dir})
		idx = append(idx, i)
	}
	res := runFreshJobs(c.Scratch, c.Workers, jobs, 120*time.Second)
	for k, r := range res {
		pc := cases[idx[k]]
		c.Eval("pair:"+pc.A.Src+"\x00"+pc.B.Src, true)
		c.Hit("pair." + pc.A.Origin + "->" + pc.B.Origin)
		if !r.OK {
			c.Hit("pair.child-died")
			if pc.Sig != "" {
				// B alone completes on a fresh VM; after A the process was ended (os.Exit / fatal): what A left behind did it
				c.Violation(pc.Sig, fmt.Sprintf("B alone completes (%s), B after A ends the whole process (%s ; %s)", clip(pc.B.alone.key(false), 200), pc.A.Name, pc.B.Name),
					repCase{Kind: "pair", P: stripped(pc.B), A: ptr(stripped(pc.A)), Mode: pc.Sig})
				continue
			}
			c.Note("pair %s ; %s: the in-process runner died", pc.A.Name, pc.B.Name)
			continue
		}
		alone := pc.B.alone.key(pc.B.MaskLog)
		var diff *Outcome
		for j := range r.Ans.Distinct[1] {
			if r.Ans.Distinct[1][j].key(pc.B.MaskLog) != alone {
				diff = &r.Ans.Distinct[1][j]
				break
			}
		}
		c.SampleSome(map[string]any{"A": pc.A.Name, "B": pc.B.Name, "B_alone": clip(alone, 200), "differs": diff != nil}, 53)
		if pc.Sig != "" {
			if diff != nil {
				c.Violation(pc.Sig, fmt.Sprintf("B after A differs from B alone (%s ; %s): alone %q, after A %q", pc.A.Name, pc.B.Name, clip(alone, 300), clip(diff.key(pc.B.MaskLog), 300)),
					repCase{Kind: "pair", P: stripped(pc.B), A: ptr(stripped(pc.A)), Mode: pc.Sig})
			}
			continue
		}
		if diff == nil {
			continue
		}
		sig := "residue:" + featureOf(pc.A) + "->" + featureOf(pc.B)
		c.Violation(sig, fmt.Sprintf("a program run on a fresh VM behaves differently after another program ran on another VM of the same process: A=%s B=%s; B as the first program of a fresh process %q, B after A %q",
			pc.A.Name, pc.B.Name, clip(alone, 400), clip(diff.key(pc.B.MaskLog), 400)),
			repCase{Kind: "pair", P: stripped(pc.B), A: ptr(stripped(pc.A))})
	}
	_ = main
}

// channelProgsAgainstCLI: the hand-written channel programs (both sides) exercise ends of a run that
// the generated pool rarely reaches (a throw inside an open output buffer, shutdown and header
// callbacks, fatal errors before any output): each is also run by `origami <file>` and the in-process
// runner must show the same for it as the first program of a fresh process.
func (e *env) channelProgsAgainstCLI(cases []pairCase) {
	if e.bin == "" {
		return
	}
	seen := map[*prog]bool{}
	var ps []*prog
	for _, pc := range cases {
		for _, p := range []*prog{pc.A, pc.B} {
			if p.Origin == "dirty" && !p.NoVM && !seen[p] && p.procOutcome == nil {
				seen[p] = true
				ps = append(ps, p)
			}
		}
	}
	if len(ps) == 0 {
		return
	}
	e.aloneOf(ps)
	for i, t := range procRepeat(e.bin, ps, 1, e.c.Workers) {
		if t.distinct() == 1 && !t.unbounded() {
			ps[i].procOutcome = &t.first[0]
			e.cliAgainstRunner(ps[i])
		}
	}
}

func ptr[T any](v T) *T { return &v }

// diffAt: where two outcomes part (long diagnostics share a long prefix)
func diffAt(a, b string) string {
	i := 0
	for i < len(a) && i < len(b) && a[i] == b[i] {
		i++
	}
	lo := max(0, i-60)
	return fmt.Sprintf("they part at byte %d: %q vs %q", i, clip(a[lo:], 200), clip(b[lo:], 200))
}

func featureOf(p *prog) string {
	switch {
	case p.Gen != nil:
		return "own:" + p.Gen.tags()
	case p.Origin == "corpus" || p.Origin == "dirty":
		return p.Name
	}
	return p.Origin
}

// pairStream: seeded pairs over the programs that are deterministic alone, plus every clean
// channel (A dirties VM-owned state, B would see it).
func (e *env) pairStream(ok []*prog) {
	c := e.c
	var cases []pairCase
	if len(ok) >= 2 {
		n := c.N(150, 1500)
		for i := 0; i < n; i++ {
			a, b := vh.Pick(c.Rand, ok), vh.Pick(c.Rand, ok)
			if a == b {
				continue
			}
			cases = append(cases, pairCase{A: a, B: b})
		}
	}
	for _, ch := range channels {
		if ch.Known != "" {
			continue
		}
		cases = append(cases, pairCase{A: e.chanProg(ch.Name, "A", ch.A), B: e.chanProg(ch.Name, "B", ch.B)})
	}
	e.pairCheck(cases, true)
}

// knownStream: the listed residue channels, each with its own probe; a difference confirms the
// finding (KNOWN-FINDING), no difference means it no longer reproduces.
func (e *env) knownStream() {
	var cases []pairCase
	for _, ch := range channels {
		if ch.Known == "" {
			continue
		}
		cases = append(cases, pairCase{A: e.chanProg(ch.Name, "A", ch.A), B: e.chanProg(ch.Name, "B", ch.B), Sig: ch.Known})
	}
	e.pairCheck(cases, false)
	_ = strings.TrimSpace
}
