package c20

import (
	"fmt"
	"strings"

	"verif/harness/vh"
)

// The C20 generator: programs made of independent blocks (each block uses its own class /
// variable names, suffix = block number), so that a failing program can be shrunk by dropping
// blocks. Every block builds data whose enumeration order or lookup goes through a Go map or the
// ordered property store somewhere in the interpreter, and prints it. All output is a function of
// the program text only (no time, randomness, addresses, environment).

type block struct {
	Tag  string `json:"tag"`
	Code string `json:"code"`
}

type genProg struct {
	Blocks []block `json:"blocks"`
}

func (p genProg) src() string {
	var sb strings.Builder
	sb.WriteString("<?php\n")
	for _, b := range p.Blocks {
		sb.WriteString("// block " + b.Tag + "\n")
		sb.WriteString(b.Code)
		sb.WriteString("echo \"\\n\";\n")
	}
	return sb.String()
}

func (p genProg) tags() string {
	var t []string
	seen := map[string]bool{}
	for _, b := range p.Blocks {
		if !seen[b.Tag] {
			seen[b.Tag] = true
			t = append(t, b.Tag)
		}
	}
	return strings.Join(t, "+")
}

var propNames = []string{"alpha", "b", "Cc", "delta", "e5", "f", "gamma", "h_h", "i", "jay", "k", "l0", "mm", "n"}

func lit(r *vh.Rand) string {
	switch r.Intn(8) {
	case 0:
		return fmt.Sprint(r.Intn(100))
	case 1:
		return "'" + vh.Pick(r, []string{"x", "yy", "", "a b", "Z"}) + "'"
	case 2:
		return vh.Pick(r, []string{"true", "false", "null"})
	case 3:
		return fmt.Sprintf("%d.5", r.Intn(9))
	case 4:
		return "[1, 2, 3]"
	case 5:
		return "['p' => 1, 'q' => [2, 3]]"
	case 6:
		return fmt.Sprint(-r.Intn(50))
	}
	return "\"s" + fmt.Sprint(r.Intn(9)) + "\""
}

func pickNames(r *vh.Rand, n int) []string {
	idx := make([]int, len(propNames))
	for i := range idx {
		idx[i] = i
	}
	for i := len(idx) - 1; i > 0; i-- {
		j := r.Intn(i + 1)
		idx[i], idx[j] = idx[j], idx[i]
	}
	var out []string
	for i := 0; i < n && i < len(idx); i++ {
		out = append(out, propNames[idx[i]])
	}
	return out
}

// dump: the ways a script can enumerate $v
// (var_dump of an *object* prints a process-wide handle number, a listed residue channel: arrays only)
func dump(r *vh.Rand, v string, isObject bool) string {
	var sb strings.Builder
	ways := []string{
		"foreach (%s as $k => $x) { echo $k, '=', json_encode($x), ';'; }\n",
		"echo json_encode(%s), \"\\n\";\n",
		"echo serialize(%s), \"\\n\";\n",
		"var_export(%s); echo \"\\n\";\n",
		"foreach (%s as $x) { echo json_encode($x), ','; }\n",
	}
	if !isObject {
		ways = append(ways, "var_dump(%s);\n")
	}
	n := r.Range(1, 3)
	for i := 0; i < n; i++ {
		sb.WriteString(fmt.Sprintf(vh.Pick(r, ways), v))
	}
	return sb.String()
}

// ---- blocks -----------------------------------------------------------------------------------

// class with many declared properties (defaults), constructor writes, dynamic properties
func blkObjProps(r *vh.Rand, id int) block {
	var sb strings.Builder
	names := pickNames(r, r.Range(2, 9))
	vis := []string{"public", "public", "public", "protected", "private"}
	cls := fmt.Sprintf("Obj%d", id)
	parent := ""
	if r.Chance(40) {
		parent = fmt.Sprintf("ObjBase%d", id)
		pn := pickNames(r, r.Range(1, 5))
		fmt.Fprintf(&sb, "class %s {\n", parent)
		for _, n := range pn {
			fmt.Fprintf(&sb, "  public $p_%s = %s;\n", n, lit(r))
		}
		sb.WriteString("  function base() { return 'b'; }\n}\n")
	}
	if parent != "" {
		fmt.Fprintf(&sb, "class %s extends %s {\n", cls, parent)
	} else {
		fmt.Fprintf(&sb, "class %s {\n", cls)
	}
	for _, n := range names {
		if r.Chance(85) {
			fmt.Fprintf(&sb, "  %s $%s = %s;\n", vh.Pick(r, vis[:3]), n, lit(r))
		} else {
			fmt.Fprintf(&sb, "  public $%s;\n", n)
		}
	}
	if r.Chance(50) {
		sb.WriteString("  function __construct() {\n")
		for i := 0; i < r.Range(1, 3); i++ {
			fmt.Fprintf(&sb, "    $this->%s = %s;\n", vh.Pick(r, append(names, "dyn"+fmt.Sprint(i))), lit(r))
		}
		sb.WriteString("  }\n")
	}
	for i := 0; i < r.Range(0, 4); i++ {
		fmt.Fprintf(&sb, "  function m%d() { return %d; }\n", i, i)
	}
	sb.WriteString("}\n")
	v := fmt.Sprintf("$o%d", id)
	fmt.Fprintf(&sb, "%s = new %s();\n", v, cls)
	for i := 0; i < r.Range(0, 3); i++ {
		fmt.Fprintf(&sb, "%s->%s = %s;\n", v, vh.Pick(r, []string{"zz", "added", names[0], "y1"}), lit(r))
	}
	sb.WriteString(dump(r, v, true))
	if r.Chance(30) {
		fmt.Fprintf(&sb, "$c%d = clone %s; $c%d->cl = 1;\n", id, v, id)
		sb.WriteString(dump(r, fmt.Sprintf("$c%d", id), true))
	}
	return block{"objprops", sb.String()}
}

// stdClass / (object) cast with many dynamic properties
func blkStdClass(r *vh.Rand, id int) block {
	var sb strings.Builder
	v := fmt.Sprintf("$s%d", id)
	names := pickNames(r, r.Range(2, 10))
	if r.Bool() {
		fmt.Fprintf(&sb, "%s = new stdClass;\n", v)
		for _, n := range names {
			fmt.Fprintf(&sb, "%s->%s = %s;\n", v, n, lit(r))
		}
	} else {
		var kv []string
		for _, n := range names {
			kv = append(kv, fmt.Sprintf("'%s' => %s", n, lit(r)))
		}
		fmt.Fprintf(&sb, "%s = (object)[%s];\n", v, strings.Join(kv, ", "))
	}
	for i := 0; i < r.Range(0, 3); i++ {
		fmt.Fprintf(&sb, "%s->%s = %s;\n", v, vh.Pick(r, append(names, "late")), lit(r))
	}
	sb.WriteString(dump(r, v, true))
	return block{"stdclass", sb.String()}
}

// string-keyed arrays: literal, assignments, unset, nested
func blkAssoc(r *vh.Rand, id int) block {
	var sb strings.Builder
	v := fmt.Sprintf("$a%d", id)
	names := pickNames(r, r.Range(2, 10))
	var kv []string
	for _, n := range names {
		kv = append(kv, fmt.Sprintf("'%s' => %s", n, lit(r)))
	}
	fmt.Fprintf(&sb, "%s = [%s];\n", v, strings.Join(kv, ", "))
	for i := 0; i < r.Range(0, 4); i++ {
		switch r.Intn(3) {
		case 0:
			fmt.Fprintf(&sb, "%s['%s'] = %s;\n", v, vh.Pick(r, append(names, "nw", "nx")), lit(r))
		case 1:
			fmt.Fprintf(&sb, "unset(%s['%s']);\n", v, vh.Pick(r, names))
		case 2:
			fmt.Fprintf(&sb, "%s['%s'] = ['u' => 1, 'v' => 2, 'w' => 3];\n", v, vh.Pick(r, []string{"nest", "n2"}))
		}
	}
	sb.WriteString(dump(r, v, false))
	switch r.Intn(5) {
	case 0:
		fmt.Fprintf(&sb, "echo json_encode(array_keys(%s)), count(%s), \"\\n\";\n", v, v)
	case 1:
		fmt.Fprintf(&sb, "foreach (array_filter(%s) as $k => $x) { echo $k, ','; }\n", v)
	case 2:
		fmt.Fprintf(&sb, "foreach (array_filter(%s, function($x) { return !is_array($x) && $x !== null; }) as $k => $x) { echo $k, ','; }\n", v)
	case 3:
		fmt.Fprintf(&sb, "echo isset(%s['%s']) ? 'set' : 'unset', array_key_exists('%s', %s) ? 'Y' : 'N', \"\\n\";\n", v, names[0], names[1%len(names)], v)
	}
	return block{"assoc", sb.String()}
}

// array functions on string-keyed arrays (they walk the property store of the array)
func blkArrayFn(r *vh.Rand, id int) block {
	var sb strings.Builder
	mk := func(v string, n int) []string {
		names := pickNames(r, n)
		var kv []string
		for _, nm := range names {
			kv = append(kv, fmt.Sprintf("'%s' => %s", nm, vh.Pick(r, []string{"1", "2", "3", "'x'", "'y'", "2", "'x'"})))
		}
		fmt.Fprintf(&sb, "%s = [%s];\n", v, strings.Join(kv, ", "))
		return names
	}
	a, b := fmt.Sprintf("$fa%d", id), fmt.Sprintf("$fb%d", id)
	mk(a, r.Range(2, 9))
	mk(b, r.Range(2, 6))
	show := "foreach (%s as $k => $x) { echo $k, '=', json_encode($x), ';'; }\n"
	for i := 0; i < r.Range(1, 3); i++ {
		switch r.Intn(9) {
		case 0:
			fmt.Fprintf(&sb, "echo json_encode(array_values(%s)), \"\\n\";\n", a)
		case 1:
			fmt.Fprintf(&sb, show, fmt.Sprintf("array_merge(%s, %s)", a, b))
		case 2:
			fmt.Fprintf(&sb, show, fmt.Sprintf("array_replace(%s, %s)", a, b))
		case 3:
			fmt.Fprintf(&sb, show, fmt.Sprintf("array_slice(%s, 1, 3)", a))
		case 4:
			fmt.Fprintf(&sb, show, fmt.Sprintf("array_unique(%s)", a))
		case 5:
			fmt.Fprintf(&sb, show, fmt.Sprintf("array_merge_recursive(%s, %s)", a, b))
		case 6:
			fmt.Fprintf(&sb, show, fmt.Sprintf("array_replace_recursive(%s, %s)", a, b))
		case 7:
			fmt.Fprintf(&sb, "ksort(%s); "+show, a, a)
		case 8:
			fmt.Fprintf(&sb, "echo json_encode(array_keys(%s)), json_encode(array_key_first(%s)), \"\\n\";\n", a, a)
		}
	}
	return block{"arrayfn", sb.String()}
}

// class names resolved with a different case, including two classes that differ only by case
func blkClassCase(r *vh.Rand, id int) block {
	var sb strings.Builder
	base := fmt.Sprintf("Kls%dName", id)
	fmt.Fprintf(&sb, "class %s { public $v = 1; function who() { return '%s'; } static function st() { return 'st-%s'; } }\n", base, base, base)
	variants := []string{strings.ToLower(base), strings.ToUpper(base), strings.ToUpper(base[:1]) + strings.ToLower(base[1:])}
	if r.Chance(50) {
		// classes differing only by case: the exact name wins, any other spelling resolves to one fixed class
		for _, w := range variants[:r.Range(1, 3)] {
			fmt.Fprintf(&sb, "class %s { public $v = 2; function who() { return '%s'; } static function st() { return 'st-%s'; } }\n", w, w, w)
		}
	}
	probe := []string{strings.ToLower(base[:3]) + strings.ToUpper(base[3:]), variants[0], variants[1], base}
	for i := 0; i < r.Range(1, 4); i++ {
		n := vh.Pick(r, probe)
		switch r.Intn(4) {
		case 0:
			fmt.Fprintf(&sb, "$k%d = new %s(); echo get_class($k%d), ':', $k%d->who(), ';';\n", id, n, id, id)
		case 1:
			fmt.Fprintf(&sb, "echo %s::st(), ';';\n", n)
		case 2:
			fmt.Fprintf(&sb, "echo class_exists('%s') ? 'E' : 'e', ';';\n", n)
		case 3:
			fmt.Fprintf(&sb, "$k%d = new %s(); echo ($k%d instanceof %s) ? 'I' : 'i', ';';\n", id, base, id, n)
		}
	}
	return block{"classcase", sb.String()}
}

// json / serialize round trips
func blkCodec(r *vh.Rand, id int) block {
	var sb strings.Builder
	names := pickNames(r, r.Range(2, 9))
	var kv []string
	for i, n := range names {
		val := fmt.Sprint(i)
		if r.Chance(25) {
			val = `{"in1":1,"in2":[1,2],"in3":"s"}`
		}
		kv = append(kv, fmt.Sprintf(`"%s":%s`, n, val))
	}
	js := "{" + strings.Join(kv, ",") + "}"
	v := fmt.Sprintf("$j%d", id)
	switch r.Intn(4) {
	case 0:
		fmt.Fprintf(&sb, "%s = json_decode('%s');\n", v, js)
		sb.WriteString(dump(r, v, true))
	case 1:
		fmt.Fprintf(&sb, "%s = json_decode('%s', true);\n", v, js)
		fmt.Fprintf(&sb, "foreach (%s as $k => $x) { echo $k, '=', json_encode($x), ';'; }\n", v)
	case 2:
		var akv []string
		for _, n := range names {
			akv = append(akv, fmt.Sprintf("'%s' => %s", n, lit(r)))
		}
		fmt.Fprintf(&sb, "%s = unserialize(serialize([%s]));\n", v, strings.Join(akv, ", "))
		sb.WriteString(dump(r, v, false))
	case 3:
		fmt.Fprintf(&sb, "%s = new stdClass;\n", v)
		for _, n := range names {
			fmt.Fprintf(&sb, "%s->%s = %s;\n", v, n, lit(r))
		}
		fmt.Fprintf(&sb, "%s = json_decode(json_encode(%s));\n", v, v)
		sb.WriteString(dump(r, v, true))
	}
	return block{"codec", sb.String()}
}

// closures capturing several variables (use-list is a Go map in LambdaExpression)
func blkClosure(r *vh.Rand, id int) block {
	var sb strings.Builder
	n := r.Range(2, 6)
	var vars []string
	for i := 0; i < n; i++ {
		v := fmt.Sprintf("$u%d_%d", id, i)
		vars = append(vars, v)
		fmt.Fprintf(&sb, "%s = %s;\n", v, lit(r))
	}
	fmt.Fprintf(&sb, "$f%d = function($z) use (%s) { return json_encode([%s, $z]); };\n", id, strings.Join(vars, ", "), strings.Join(vars, ", "))
	fmt.Fprintf(&sb, "echo $f%d(%d), \"\\n\";\n", id, r.Intn(9))
	return block{"closure", sb.String()}
}

// strtr with a replacement table (sorted by length through a Go map)
func blkStrtr(r *vh.Rand, id int) block {
	var sb strings.Builder
	pairs := []string{"'he' => 'A'", "'hello' => 'B'", "'l' => 'C'", "'lo' => 'D'", "'wor' => 'E'", "'o' => 'F'", "'ld' => 'G'", "'h' => 'H'", "' ' => '_'"}
	n := r.Range(2, len(pairs))
	var sel []string
	for _, i := range pickIdx(r, len(pairs), n) {
		sel = append(sel, pairs[i])
	}
	fmt.Fprintf(&sb, "echo strtr('hello world hello', [%s]), \"\\n\";\n", strings.Join(sel, ", "))
	return block{"strtr", sb.String()}
}

func pickIdx(r *vh.Rand, n, k int) []int {
	idx := make([]int, n)
	for i := range idx {
		idx[i] = i
	}
	for i := n - 1; i > 0; i-- {
		j := r.Intn(i + 1)
		idx[i], idx[j] = idx[j], idx[i]
	}
	return idx[:k]
}

// SPL containers and iterator_to_array
func blkSpl(r *vh.Rand, id int) block {
	var sb strings.Builder
	names := pickNames(r, r.Range(2, 8))
	var kv []string
	for _, n := range names {
		kv = append(kv, fmt.Sprintf("'%s' => %s", n, lit(r)))
	}
	v := fmt.Sprintf("$it%d", id)
	switch r.Intn(3) {
	case 0:
		fmt.Fprintf(&sb, "%s = new ArrayIterator([%s]);\n", v, strings.Join(kv, ", "))
		fmt.Fprintf(&sb, "foreach (iterator_to_array(%s, true) as $k => $x) { echo $k, '=', json_encode($x), ';'; }\n", v)
	case 1:
		fmt.Fprintf(&sb, "%s = new ArrayObject([%s]);\n", v, strings.Join(kv, ", "))
		fmt.Fprintf(&sb, "foreach (%s as $k => $x) { echo $k, '=', json_encode($x), ';'; }\necho count(%s);\n", v, v)
	case 2:
		fmt.Fprintf(&sb, "%s = new ArrayIterator([%s]);\n", v, strings.Join(kv, ", "))
		fmt.Fprintf(&sb, "foreach (iterator_to_array(%s, false) as $x) { echo json_encode($x), ';'; }\n", v)
	}
	return block{"spl", sb.String()}
}

// statics, constants, methods looked up through the class tables
func blkStatic(r *vh.Rand, id int) block {
	var sb strings.Builder
	cls := fmt.Sprintf("St%d", id)
	fmt.Fprintf(&sb, "class %s {\n", cls)
	names := pickNames(r, r.Range(2, 6))
	for i, n := range names {
		fmt.Fprintf(&sb, "  const K_%s = %d;\n  public static $s_%s = %s;\n", strings.ToUpper(n), i, n, lit(r))
	}
	for i, n := range names {
		fmt.Fprintf(&sb, "  static function f_%s() { return %d; }\n", n, i)
	}
	sb.WriteString("}\n")
	for _, n := range names {
		fmt.Fprintf(&sb, "echo %s::K_%s, json_encode(%s::$s_%s), %s::f_%s(), ';';\n", cls, strings.ToUpper(n), cls, n, cls, n)
	}
	if r.Chance(50) {
		fmt.Fprintf(&sb, "echo method_exists('%s', 'f_%s') ? 'M' : 'm', property_exists('%s', 's_%s') ? 'P' : 'p';\n", cls, names[0], cls, names[0])
	}
	return block{"static", sb.String()}
}

// interface / abstract bookkeeping that walks method tables
func blkIface(r *vh.Rand, id int) block {
	var sb strings.Builder
	names := pickNames(r, r.Range(2, 5))
	fmt.Fprintf(&sb, "interface If%d {\n", id)
	for _, n := range names {
		fmt.Fprintf(&sb, "  function i_%s();\n", n)
	}
	sb.WriteString("}\n")
	fmt.Fprintf(&sb, "abstract class Ab%d implements If%d {\n", id, id)
	fmt.Fprintf(&sb, "  abstract function a_x();\n  abstract function a_y();\n  function i_%s() { return 1; }\n}\n", names[0])
	fmt.Fprintf(&sb, "class Im%d extends Ab%d {\n  function a_x() { return 'x'; }\n  function a_y() { return 'y'; }\n", id, id)
	for _, n := range names[1:] {
		fmt.Fprintf(&sb, "  function i_%s() { return 2; }\n", n)
	}
	sb.WriteString("}\n")
	fmt.Fprintf(&sb, "$im%d = new Im%d(); echo $im%d->a_x(), $im%d->i_%s(), ($im%d instanceof If%d) ? 'T' : 'F', json_encode(class_implements($im%d)), json_encode(class_parents($im%d));\n",
		id, id, id, id, names[len(names)-1], id, id, id, id)
	return block{"iface", sb.String()}
}

// terminal blocks: the program ends here with a diagnostic and a non-zero status
func blkFatal(r *vh.Rand, id int) block {
	var sb strings.Builder
	switch r.Intn(5) {
	case 4: // static initialisers of an anonymous class: which failing one is reported
		fmt.Fprintf(&sb, "$an%d = new class { public static $a = c20_undef_a(1); public static $b = c20_undef_b(2); public static $c = c20_undef_c(3); public static $d = c20_undef_d(4); public $z = 1; };\n", id)
		return block{"fatal-anonstatic", sb.String()}
	case 0: // several unimplemented abstract methods: the message lists them
		fmt.Fprintf(&sb, "abstract class Fa%d { abstract function zeta(); abstract function alpha(); abstract function mid(); abstract function beta(); }\n", id)
		fmt.Fprintf(&sb, "class Fc%d extends Fa%d { function mid() { return 1; } }\n$x = new Fc%d();\n", id, id, id)
		return block{"fatal-abstract", sb.String()}
	case 1:
		fmt.Fprintf(&sb, "function thrower%d($n) { if ($n == 0) { throw new Exception('boom %d'); } return thrower%d($n - 1); }\nthrower%d(3);\n", id, id, id, id)
		return block{"fatal-uncaught", sb.String()}
	case 2:
		fmt.Fprintf(&sb, "interface Fi%d { function one(); function two(); function three(); }\nclass Fd%d implements Fi%d { function two() { return 2; } }\n$x = new Fd%d();\n", id, id, id, id)
		return block{"fatal-iface", sb.String()}
	}
	fmt.Fprintf(&sb, "echo 'before'; undefined_function_%d(1, 2);\n", id)
	return block{"fatal-undefined", sb.String()}
}

var blockMakers = []func(*vh.Rand, int) block{blkObjProps, blkObjProps, blkStdClass, blkAssoc, blkAssoc, blkArrayFn, blkArrayFn, blkClassCase, blkCodec, blkClosure, blkStrtr, blkSpl, blkStatic, blkIface}

func genOwn(r *vh.Rand) genProg {
	n := r.Range(1, 5)
	var p genProg
	if r.Chance(6) { // nothing but a diagnostic: no output before it
		p.Blocks = append(p.Blocks, blkFatal(r, 0))
		return p
	}
	for i := 0; i < n; i++ {
		p.Blocks = append(p.Blocks, vh.Pick(r, blockMakers)(r, i))
	}
	if r.Chance(15) {
		p.Blocks = append(p.Blocks, blkFatal(r, n))
	}
	return p
}
