package c20

import (
	"bufio"
	"bytes"
	"context"
	"encoding/json"
	"fmt"
	"io"
	"os"
	"os/exec"
	"path/filepath"
	"reflect"
	"regexp"
	goruntime "runtime"
	"strings"
	"sync"
	"syscall"
	"time"

	"github.com/php-any/origami/cmd"
	"github.com/php-any/origami/data"
	"github.com/php-any/origami/parser"
	"github.com/php-any/origami/std"
	netannotation "github.com/php-any/origami/std/net/annotation"
	"github.com/php-any/origami/std/net/http"
	"github.com/php-any/origami/std/net/websocket"
	"github.com/php-any/origami/std/php"
	"github.com/php-any/origami/std/system"

	"verif/harness/vh"
)

// ---------------------------------------------------------------- what one run shows

// Outcome of one run of one program: everything the statement calls observable.
type Outcome struct {
	Stdout string `json:"o"`
	Stderr string `json:"e"`
	Status int    `json:"s"`           // exit status (process) / 0 | 1 (fresh VM: 1 = uncaught throw reached the VM's throw control)
	Note   string `json:"n,omitempty"` // go-panic:<msg> | timeout | killed
}

// Log::info and friends print the wall-clock second; the Log calls of the test corpus are kept
// (275 of 331 files use them) and this one field is masked. Nothing else is canonicalised.
var logStamp = regexp.MustCompile(`[0-9]{4}-[0-9]{2}-[0-9]{2} [0-9]{2}:[0-9]{2}:[0-9]{2}`)

func (o Outcome) key(maskLog bool) string {
	so, se := o.Stdout, o.Stderr
	if maskLog {
		so, se = logStamp.ReplaceAllString(so, "<ts>"), logStamp.ReplaceAllString(se, "<ts>")
	}
	return fmt.Sprintf("status=%d note=%s\nstdout:\n%s\nstderr:\n%s", o.Status, o.Note, so, se)
}

// ---------------------------------------------------------------- fresh processes

// buildOrigami builds the interpreter binary from the repository under test, once per run.
func buildOrigami(repo, scratch string) (string, error) {
	out := filepath.Join(scratch, "origami")
	cmd := exec.Command("go", "build", "-o", out, ".")
	cmd.Dir = repo
	env := []string{}
	for _, kv := range os.Environ() {
		if strings.HasPrefix(kv, "GOTOOLCHAIN=") || strings.HasPrefix(kv, "GOSUMDB=") || strings.HasPrefix(kv, "GOFLAGS=") || strings.HasPrefix(kv, "GOPROXY=") {
			continue
		}
		env = append(env, kv)
	}
	cmd.Env = append(env, "GOFLAGS=-mod=mod", "GOPROXY=off")
	b, err := cmd.CombinedOutput()
	if err != nil {
		return "", fmt.Errorf("go build of the interpreter failed: %v: %s", err, lastLines(string(b), 5))
	}
	return out, nil
}

func lastLines(s string, n int) string {
	ls := strings.Split(strings.TrimSpace(s), "\n")
	if len(ls) > n {
		ls = ls[len(ls)-n:]
	}
	return strings.Join(ls, " | ")
}

// limitBuf keeps at most max bytes and reports when more arrived.
type limitBuf struct {
	buf  bytes.Buffer
	max  int
	over func()
	once sync.Once
}

func (l *limitBuf) Write(p []byte) (int, error) {
	if l.buf.Len()+len(p) > l.max {
		l.once.Do(l.over)
		return len(p), nil
	}
	return l.buf.Write(p)
}

const outputLimit = 4 << 20

// A Go panic / fatal error that kills the interpreter prints a goroutine traceback full of
// addresses; the crash is another property's subject. What C20 compares of such a run is: what was
// printed before, the panic line itself and the status.
func canonCrash(stderr string) (string, string) {
	for _, marker := range []string{"panic: ", "fatal error: "} {
		i := strings.Index(stderr, marker)
		if i < 0 || (i > 0 && stderr[i-1] != '\n') {
			continue
		}
		if !strings.Contains(stderr[i:], "goroutine ") {
			continue
		}
		line := firstLine(stderr[i:])
		return stderr[:i] + line + "\n<go traceback dropped>\n", "go-crash"
	}
	return stderr, ""
}

// runProcess runs `origami <file>` in a fresh process (SIGKILL on timeout: origami ignores SIGTERM).
func runProcess(bin, file, dir string, timeout time.Duration) Outcome {
	ctx, cancel := context.WithTimeout(context.Background(), timeout)
	defer cancel()
	cmd := exec.CommandContext(ctx, bin, file)
	cmd.Dir = dir
	cmd.Stdin = nil
	overflow := false
	kill := func() {
		overflow = true
		if cmd.Process != nil {
			syscall.Kill(-cmd.Process.Pid, syscall.SIGKILL)
		}
	}
	so := &limitBuf{max: outputLimit, over: kill}
	se := &limitBuf{max: outputLimit, over: kill}
	cmd.Stdout, cmd.Stderr = so, se
	cmd.SysProcAttr = &syscall.SysProcAttr{Setpgid: true}
	cmd.Cancel = func() error { return syscall.Kill(-cmd.Process.Pid, syscall.SIGKILL) }
	cmd.WaitDelay = 2 * time.Second
	err := cmd.Run()
	o := Outcome{Stdout: so.buf.String(), Stderr: se.buf.String()}
	if overflow {
		return Outcome{Note: "output-limit", Status: -1}
	}
	if ctx.Err() != nil {
		return Outcome{Note: "timeout", Status: -1}
	}
	if err != nil {
		if ee, ok := err.(*exec.ExitError); ok {
			o.Status = ee.ExitCode()
			if o.Status < 0 {
				o.Note = "killed"
			}
		} else {
			o.Note = "start-failed"
			o.Status = -2
		}
	}
	if o.Status == 2 {
		o.Stderr, o.Note = canonCrash(o.Stderr)
	}
	return o
}

// ---------------------------------------------------------------- fresh VMs inside one process (child of the harness)

// ---- the entry path of a run, mirrored
//
// A fresh-VM run goes through cmd.RunScriptFile itself — the function `origami <file>` calls — with
// a runtime loader that makes the Load calls of zy.go's init. The one thing that cannot be kept is the
// end of the VM's default throw control (runtime.NewVM: flush the output buffers, report the control,
// os.Exit(1)): the loader replaces it by the same three steps with "the run is over, status 1" instead
// of os.Exit(1) (runtime.Goexit of the script goroutine, which no script-level `try` can intercept).
// What these functions do is regenerated from the source on every check run and compared with the
// table this mirror was written from (theorem C20_entry_path_as_mirrored, C20Sites.expectedEntry).

// runState: the status of the run in progress (in-process runs are serial within a child)
type runState struct {
	status int
}

var curRun *runState

// parserOf reaches the parser the VM was built with (runtime.VM.parser, the one the default throw
// control reports with); there is no accessor.
func parserOf(vm data.VM) *parser.Parser {
	rv := reflect.ValueOf(vm)
	if rv.Kind() != reflect.Pointer || rv.Elem().Kind() != reflect.Struct {
		return nil
	}
	f := rv.Elem().FieldByName("parser")
	if !f.IsValid() || f.Kind() != reflect.Pointer || f.IsNil() {
		return nil
	}
	return (*parser.Parser)(f.UnsafePointer())
}

func init() { cmd.SetRuntimeLoader(loadAll) }

// loadAll: what zy.go's init hands to cmd.SetRuntimeLoader, with the VM's throw control replaced (see above)
func loadAll(vm data.VM) {
	{
		// zy.go init
		std.Load(vm)
		php.Load(vm)
		http.Load(vm)
		websocket.Load(vm)
		netannotation.Load(vm)
		system.Load(vm)
		// runtime.NewVM's throw control, with the end of the process replaced by the end of the run
		p := parserOf(vm)
		vm.SetThrowControl(func(acl data.Control) {
			if data.FlushAllBuffersFn != nil {
				data.FlushAllBuffersFn()
			}
			if p != nil {
				p.ShowControl(acl)
			} else {
				fmt.Fprintln(os.Stderr, "c20 harness: runtime.VM has no field `parser` any more; cannot report the control")
			}
			if curRun != nil {
				curRun.status = 1
			}
			goruntime.Goexit()
		})
	}
}

var (
	capOut, capErr *os.File
	realStdout     *os.File // protocol channel of the child (a dup of the original fd 1)
)

func capSetup(dir string) error {
	fd, err := syscall.Dup(1)
	if err != nil {
		return err
	}
	realStdout = os.NewFile(uintptr(fd), "proto")
	if capOut, err = os.OpenFile(filepath.Join(dir, fmt.Sprintf("cap-%d.out", os.Getpid())), os.O_RDWR|os.O_CREATE|os.O_TRUNC, 0o600); err != nil {
		return err
	}
	if capErr, err = os.OpenFile(filepath.Join(dir, fmt.Sprintf("cap-%d.err", os.Getpid())), os.O_RDWR|os.O_CREATE|os.O_TRUNC, 0o600); err != nil {
		return err
	}
	// fd 1 and 2 of the child now are the capture files, for every writer in the process
	if err = syscall.Dup2(int(capOut.Fd()), 1); err != nil {
		return err
	}
	return syscall.Dup2(int(capErr.Fd()), 2)
}

func capReset() {
	capOut.Truncate(0)
	capOut.Seek(0, io.SeekStart)
	capErr.Truncate(0)
	capErr.Seek(0, io.SeekStart)
}

func capRead() (string, string) {
	read := func(f *os.File) string {
		st, err := f.Stat()
		if err != nil || st.Size() == 0 {
			return ""
		}
		b := make([]byte, st.Size())
		n, _ := f.ReadAt(b, 0)
		return string(b[:n])
	}
	return read(capOut), read(capErr)
}

// runVM runs the script file on a brand-new VM through cmd.RunScriptFile, the entry point of
// `origami <file>` (zy.go main: status 1 when it returns an error). An uncaught throw reaching the
// VM's throw control ends the run with status 1 (see the loader above).
func runVM(file string) (o Outcome) {
	capReset()
	done := make(chan struct{})
	st := &runState{}
	curRun = st
	go func() {
		defer close(done)
		defer func() {
			if r := recover(); r != nil {
				if ctl, ok := r.(data.Control); ok {
					o.Note = "go-panic:control:" + firstLine(ctl.AsString())
				} else {
					o.Note = "go-panic:" + firstLine(fmt.Sprint(r))
				}
				st.status = 2
			}
		}()
		if err := cmd.RunScriptFile(file); err != nil {
			st.status = 1
		}
	}()
	<-done
	curRun = nil
	o.Status = st.status
	o.Stdout, o.Stderr = capRead()
	return o
}

func firstLine(s string) string {
	if i := strings.IndexByte(s, '\n'); i >= 0 {
		return s[:i]
	}
	return s
}

// job sent to the child; one answer line per job.
type vmJob struct {
	ID    int      `json:"id"`
	Files []string `json:"files"`  // run these in this order, each on its own fresh VM …
	Reps  int      `json:"reps"`   // … and repeat the whole sequence this many times
	Dir   string   `json:"dir"`    // working directory for the job
	MaxMS int64    `json:"max_ms"` // stop repeating after this much time (0 = no limit); at least 3 repetitions are made
	// reorder stream: compare outputs with the text of a stringified closure (heap addresses, a listed known finding) masked
	MaskClosures bool `json:"mask_closures,omitempty"`
}

// vmAnswer: per position in Files, the distinct outcomes seen over the repetitions with counts.
type vmAnswer struct {
	ID       int         `json:"id"`
	Distinct [][]Outcome `json:"distinct"`
	Counts   [][]int     `json:"counts"`
	MilliS   int64       `json:"ms"`
	Done     int         `json:"done"` // repetitions completed (fewer than asked when the job's time budget ran out)
}

func init() { vh.RegisterChild("c20vm", vmChild) }

func vmChild(args []string) int {
	if len(args) < 1 {
		return 2
	}
	if err := capSetup(args[0]); err != nil {
		fmt.Fprintln(os.Stderr, "c20vm: capture setup:", err)
		return 2
	}
	in := bufio.NewReaderSize(os.Stdin, 1<<20)
	w := bufio.NewWriter(realStdout)
	home, _ := os.Getwd()
	for {
		line, err := in.ReadBytes('\n')
		if len(line) > 0 {
			var j vmJob
			if json.Unmarshal(line, &j) != nil {
				return 2
			}
			t0 := time.Now()
			ans := vmAnswer{ID: j.ID, Distinct: make([][]Outcome, len(j.Files)), Counts: make([][]int, len(j.Files))}
			if j.Dir != "" {
				os.Chdir(j.Dir)
			}
			for r := 0; r < j.Reps; r++ {
				if j.MaxMS > 0 && r >= 3 && time.Since(t0).Milliseconds() > j.MaxMS {
					break
				}
				ans.Done++
				for i, f := range j.Files {
					o := runVM(f)
					if j.MaskClosures {
						o = maskClosures(o)
					}
					found := false
					for k := range ans.Distinct[i] {
						if ans.Distinct[i][k] == o {
							ans.Counts[i][k]++
							found = true
							break
						}
					}
					if !found && len(ans.Distinct[i]) < 6 {
						ans.Distinct[i] = append(ans.Distinct[i], o)
						ans.Counts[i] = append(ans.Counts[i], 1)
					}
				}
			}
			os.Chdir(home)
			ans.MilliS = time.Since(t0).Milliseconds()
			b, _ := json.Marshal(ans)
			w.Write(b)
			w.WriteByte('\n')
			w.Flush()
		}
		if err != nil {
			return 0
		}
	}
}

// vmWorker is one child process of the harness running vmJobs.
type vmWorker struct {
	cmd *exec.Cmd
	in  io.WriteCloser
	out *bufio.Reader
}

func startVMWorker(scratch string) (*vmWorker, error) {
	cmd := exec.Command(vh.Self(), "__child", "c20vm", scratch)
	cmd.Dir = scratch
	in, err := cmd.StdinPipe()
	if err != nil {
		return nil, err
	}
	out, err := cmd.StdoutPipe()
	if err != nil {
		return nil, err
	}
	cmd.Stderr = nil
	cmd.SysProcAttr = &syscall.SysProcAttr{Setpgid: true}
	if err := cmd.Start(); err != nil {
		return nil, err
	}
	return &vmWorker{cmd: cmd, in: in, out: bufio.NewReaderSize(out, 1<<20)}, nil
}

func (w *vmWorker) kill() {
	if w == nil || w.cmd == nil || w.cmd.Process == nil {
		return
	}
	syscall.Kill(-w.cmd.Process.Pid, syscall.SIGKILL)
	w.cmd.Wait()
}

// do runs one job with a deadline; ok=false when the child died or hung (it is then dead).
func (w *vmWorker) do(j vmJob, timeout time.Duration) (vmAnswer, bool) {
	b, _ := json.Marshal(j)
	if _, err := w.in.Write(append(b, '\n')); err != nil {
		return vmAnswer{}, false
	}
	type res struct {
		a  vmAnswer
		ok bool
	}
	ch := make(chan res, 1)
	go func() {
		line, err := w.out.ReadBytes('\n')
		var a vmAnswer
		if err != nil || json.Unmarshal(line, &a) != nil {
			ch <- res{ok: false}
			return
		}
		ch <- res{a, true}
	}()
	select {
	case r := <-ch:
		return r.a, r.ok
	case <-time.After(timeout):
		w.kill()
		return vmAnswer{}, false
	}
}

// vmPool runs jobs on n children; a job whose child dies is reported with ok=false.
type vmResult struct {
	Job    vmJob
	Ans    vmAnswer
	OK     bool
	Before []string // the files the same child had run before this job (empty: the job had a child of its own)
}

// runVMJobs: long-lived children, each taking the next job when it is free — a job runs after
// whatever its child happened to run before (recorded in Before).
func runVMJobs(scratch string, n int, jobs []vmJob, timeout time.Duration) []vmResult {
	return runJobs(scratch, n, jobs, timeout, false)
}

// runFreshJobs: every job in a brand-new child process that is ended afterwards — the first program
// of the job is the first thing that process runs.
func runFreshJobs(scratch string, n int, jobs []vmJob, timeout time.Duration) []vmResult {
	return runJobs(scratch, n, jobs, timeout, true)
}

func runJobs(scratch string, n int, jobs []vmJob, timeout time.Duration, fresh bool) []vmResult {
	res := make([]vmResult, len(jobs))
	var mu sync.Mutex
	next := 0
	var wg sync.WaitGroup
	for i := 0; i < n; i++ {
		wg.Add(1)
		go func() {
			defer wg.Done()
			var w *vmWorker
			var before []string
			defer func() { w.kill() }()
			for {
				mu.Lock()
				if next >= len(jobs) {
					mu.Unlock()
					return
				}
				k := next
				next++
				mu.Unlock()
				if w == nil {
					var err error
					before = nil
					if w, err = startVMWorker(scratch); err != nil {
						res[k] = vmResult{Job: jobs[k]}
						w = nil
						continue
					}
				}
				a, ok := w.do(jobs[k], timeout)
				res[k] = vmResult{Job: jobs[k], Ans: a, OK: ok, Before: append([]string(nil), before...)}
				before = append(before, jobs[k].Files...)
				if !ok || fresh {
					w.kill()
					w = nil
				}
			}
		}()
	}
	wg.Wait()
	return res
}
