package c02

// place.go: the "placement" stream. Some decisions about how a function body is run are taken once,
// when the function node is built, by a PRE-SCAN of the body (`containsYield` → the function is a
// generator; a seeded `containsStatic` → the persistent static store is bound; likewise any future
// has-return / uses-this / needs-scope flag). A scan that does not open every node kind that can
// hold the construct silently treats the construct as absent. The generators of the other streams
// write `static` only as the leading statements of a function body, so no scan could ever be wrong
// about them. This stream enumerates placements systematically:
//
//	construct ∈ {static (single, ++ / = +1 update), static comma list, return, break, continue,
//	             nested function declaration, yield}
//	× every statement container of the grammar (if / elseif / else, while, do-while, for, foreach,
//	  switch case / default, match arm block, try / catch / finally), nested 1..3 deep
//	× ≥ 3 calls + a recursive call (statics), 3 iterations of an enclosing loop (break / continue)
//
// Every block carries a marker behind the construct (`r<level>`: the rest of the block) and every
// container one behind itself (`s<level>`), so that the judge sees exactly which constructs a jump
// leaves. try / catch / finally, match-arm blocks, generators and nested declarations are outside
// the Lean model: each program carries its own expected output, computed here from the outcome
// table of the reference semantics (loops and switch consume break / continue, nothing else does;
// return leaves the function; a static is one cell per function shared by all activations; a
// yield hands its value to the consumer in program order).

import (
	"fmt"
	"strconv"
	"strings"
)

type container struct {
	name     string
	consumes bool // a loop or a switch: break / continue end here
	// open / close around the inner block at nesting level l (variables are made unique by l)
	open  func(l int) string
	close func(l int) string
}

func lv(l int) string { return strconv.Itoa(l) }

var containers = []container{
	{name: "if", open: func(l int) string { return "if ($t == 1) {" }, close: func(l int) string { return "}" }},
	{name: "elseif", open: func(l int) string { return "if ($t == 0) { echo 'x'; } elseif ($t == 1) {" }, close: func(l int) string { return "}" }},
	{name: "else", open: func(l int) string { return "if ($t == 0) { echo 'x'; } else {" }, close: func(l int) string { return "}" }},
	{name: "while", consumes: true, open: func(l int) string { return "$w" + lv(l) + " = 0; while ($w" + lv(l) + " < 1) { $w" + lv(l) + "++;" }, close: func(l int) string { return "}" }},
	{name: "do", consumes: true, open: func(l int) string { return "do {" }, close: func(l int) string { return "} while ($t == 0);" }},
	{name: "for", consumes: true, open: func(l int) string {
		return "for ($i" + lv(l) + " = 0; $i" + lv(l) + " < 1; $i" + lv(l) + "++) {"
	}, close: func(l int) string { return "}" }},
	{name: "foreach", consumes: true, open: func(l int) string { return "foreach ([7] as $e" + lv(l) + ") {" }, close: func(l int) string { return "}" }},
	{name: "case", consumes: true, open: func(l int) string { return "switch ($t) { case 1:" }, close: func(l int) string { return "break; default: echo 'x'; }" }},
	{name: "default", consumes: true, open: func(l int) string { return "switch ($t) { case 0: echo 'x'; break; default:" }, close: func(l int) string { return "}" }},
	{name: "match-arm", open: func(l int) string { return "$m" + lv(l) + " = match ($t) { 1 => {" }, close: func(l int) string { return "}, default => 0 };" }},
	{name: "try", open: func(l int) string { return "try {" }, close: func(l int) string { return "} catch (Exception $x" + lv(l) + ") { echo 'x'; }" }},
	{name: "catch", open: func(l int) string { return "try { throw new Exception('e'); } catch (Exception $x" + lv(l) + ") {" }, close: func(l int) string { return "}" }},
	{name: "finally", open: func(l int) string { return "try { echo ''; } finally {" }, close: func(l int) string { return "}" }},
}

// constructs
var placeConstructs = []string{"static-incr", "static-assign", "static-list", "return", "break", "continue", "fndecl", "yield"}

// outcome of running a block
const (
	oNormal = iota
	oBreak
	oCont
	oRet
)

type placeSim struct {
	out strings.Builder
}

// simWrap: the output and outcome of the wrapper statement at level l (0 = outermost) around the construct.
func (s *placeSim) simWrap(cs []int, l int, inner func() int) int {
	if l == len(cs) {
		return inner()
	}
	c := containers[cs[l]]
	o := s.simWrap(cs, l+1, inner)
	if o == oNormal {
		s.out.WriteString("r" + lv(l))
	}
	if c.consumes && (o == oBreak || o == oCont) {
		o = oNormal
	}
	return o
}

// wrapSrc writes the nested containers around `inner`, with the markers.
func wrapSrc(b *strings.Builder, cs []int, l int, ind string, inner string) {
	if l == len(cs) {
		b.WriteString(ind + inner + "\n")
		return
	}
	c := containers[cs[l]]
	b.WriteString(ind + c.open(l) + "\n")
	wrapSrc(b, cs, l+1, ind+"  ", inner)
	b.WriteString(ind + "  echo 'r" + lv(l) + "';\n")
	b.WriteString(ind + c.close(l) + "\n")
}

func placeName(construct string, cs []int) string {
	ns := make([]string, len(cs))
	for i, c := range cs {
		ns[i] = containers[c].name
	}
	return construct + "/" + strings.Join(ns, ">")
}

func buildPlace(construct string, cs []int) neighCase {
	var b strings.Builder
	s := &placeSim{}
	b.WriteString("<?php\n")
	// after the outermost container: its `s` marker (skipped when the outcome leaves the container's block)
	after := func(o int) {
		if o == oNormal {
			s.out.WriteString("s")
		}
	}
	switch construct {
	case "static-incr", "static-assign", "static-list":
		decl, upd, show := "static $a = 0;", "$a++;", "echo $a, ',';"
		if construct == "static-assign" {
			upd = "$a = $a + 1;"
		}
		if construct == "static-list" {
			decl, upd, show = "static $a = 0, $b = 10;", "$a = $a + 1; $b = $b + $a;", "echo $a, ':', $b, ',';"
		}
		b.WriteString("function f($n) {\n  $t = 1;\n")
		wrapSrc(&b, cs, 0, "  ", decl)
		b.WriteString("  echo 's';\n  " + upd + "\n  if ($n > 0) { f($n - 1); }\n  " + show + "\n  return $a;\n}\n")
		b.WriteString("f(0); f(0); f(0); f(2); f(0);\n")
		var cellA, cellB int64 = 0, 10
		var call func(n int)
		call = func(n int) {
			after(s.simWrap(cs, 0, func() int { return oNormal }))
			cellA++
			cellB += cellA
			if n > 0 {
				call(n - 1)
			}
			if construct == "static-list" {
				s.out.WriteString(p64(cellA) + ":" + p64(cellB) + ",")
			} else {
				s.out.WriteString(p64(cellA) + ",")
			}
		}
		for _, n := range []int{0, 0, 0, 2, 0} {
			call(n)
		}
	case "return":
		b.WriteString("function f($t, $v) {\n")
		wrapSrc(&b, cs, 0, "  ", "return $v + 1;")
		b.WriteString("  echo 's';\n  return -1;\n}\n")
		b.WriteString("echo '[', f(1, 1), ']'; echo '[', f(1, 5), ']'; echo '[', f(1, 9), ']';\n")
		for _, v := range []int64{1, 5, 9} {
			s.out.WriteString("[")
			o := s.simWrap(cs, 0, func() int { return oRet })
			after(o)
			if o == oRet {
				s.out.WriteString(p64(v+1) + "]")
			} else {
				s.out.WriteString("-1]")
			}
		}
	case "break", "continue":
		b.WriteString("function f($t) {\n  for ($k = 0; $k < 3; $k++) {\n    echo 'k', $k;\n")
		wrapSrc(&b, cs, 0, "    ", construct+";")
		b.WriteString("    echo 's';\n  }\n  echo 'e', $k;\n  return 0;\n}\nf(1); echo '|'; f(1);\n")
		for call := 0; call < 2; call++ {
			if call == 1 {
				s.out.WriteString("|")
			}
			k := 0
			for ; k < 3; k++ {
				s.out.WriteString("k" + strconv.Itoa(k))
				o := s.simWrap(cs, 0, func() int {
					if construct == "break" {
						return oBreak
					}
					return oCont
				})
				after(o)
				if o == oBreak {
					break
				}
			}
			s.out.WriteString("e" + strconv.Itoa(k))
		}
	case "fndecl":
		b.WriteString("function f($t) {\n")
		wrapSrc(&b, cs, 0, "  ", "function inner() { return 7; }")
		b.WriteString("  echo 's';\n  return inner() + 1;\n}\necho '[', f(1), ']';\n")
		s.out.WriteString("[")
		after(s.simWrap(cs, 0, func() int { return oNormal }))
		s.out.WriteString("8]")
	case "yield":
		// Generators are outside the modelled core; what is judged here is only the decision the body
		// scan takes: calling a function with a `yield` anywhere in its body runs nothing (the call
		// returns a generator), the body starts when the consumer asks for the first value.
		b.WriteString("function g($t) {\n  echo 'in';\n")
		wrapSrc(&b, cs, 0, "  ", "yield 1;")
		b.WriteString("  echo 's';\n}\necho 'a'; $q = g(1); echo 'b';\nforeach ($q as $v) { echo '[', $v, ']'; break; }\n")
		s.out.WriteString("abin[1]")
	}
	return neighCase{Name: placeName(construct, cs), Source: b.String(), Expect: s.out.String()}
}

// placements of depth d: all container sequences of that length
func placeSeqs(d int) [][]int {
	if d == 0 {
		return [][]int{{}}
	}
	var out [][]int
	for _, p := range placeSeqs(d - 1) {
		for c := range containers {
			out = append(out, append(append([]int{}, p...), c))
		}
	}
	return out
}

// placeSig: the signature names the construct and the container kinds of the chain that fail ALONE
// (depth 1, same construct, same run) — the outermost such kind; a chain none of whose containers
// fails alone is named by its whole set of kinds. So a failure is attributed to the smallest
// placement that shows it, and a failure under another container is never signed as a known one.
func placeSig(nc neighCase, kind string, alone map[string]bool) string {
	parts := strings.SplitN(nc.Name, "/", 2)
	chain := strings.Split(parts[1], ">")
	for _, n := range chain {
		if alone[parts[0]+"/"+n] {
			return "ctl:placement:" + parts[0] + "{" + n + "}/" + kind
		}
	}
	seen := map[string]bool{}
	var ks []string
	for _, c := range containers { // table order: stable
		for _, n := range chain {
			if n == c.name && !seen[n] {
				seen[n] = true
				ks = append(ks, n)
			}
		}
	}
	return "ctl:placement:" + parts[0] + "{" + strings.Join(ks, ",") + "}/" + kind
}

// placement runs the stream: depth 1 and 2 exhaustively, depth 3 exhaustively in the thorough tier and
// a seeded sample in the quick tier. Returns (programs, exhaustive depth).
func placement(r *runner) (int, int) {
	c := r.c
	var cs []neighCase
	for _, k := range placeConstructs {
		for d := 0; d <= 2; d++ {
			for _, seq := range placeSeqs(d) {
				if placeParses(k, seq) {
					cs = append(cs, buildPlace(k, seq))
				}
			}
		}
	}
	deep := 3
	d3 := placeSeqs(3)
	per := c.N(120, len(d3))
	if per >= len(d3) {
		for _, k := range placeConstructs {
			for _, seq := range d3 {
				if placeParses(k, seq) {
					cs = append(cs, buildPlace(k, seq))
				}
			}
		}
	} else {
		deep = 2
		for _, k := range placeConstructs {
			for i := 0; i < per; i++ {
				if seq := d3[c.Rand.Range(0, len(d3)-1)]; placeParses(k, seq) {
					cs = append(cs, buildPlace(k, seq))
				}
			}
		}
	}
	judgePlace(r, cs)
	return len(cs), deep
}

func judgePlace(r *runner, cs []neighCase) {
	c := r.c
	reqs := make([]runReq, len(cs))
	for i, nc := range cs {
		reqs[i] = runReq{ID: i, Src: nc.Source, Tag: "p"}
	}
	res := r.pool.run(reqs)
	knownSeen := map[string]int{}
	nviol := 0
	alone := map[string]bool{}
	for i, nc := range cs {
		if !strings.Contains(nc.Name, ">") && !strings.HasSuffix(nc.Name, "/") && !(res[i].Status == "done" && res[i].Out == nc.Expect) {
			alone[nc.Name] = true
		}
	}
	for i, nc := range cs {
		if r.stopped {
			break
		}
		construct := strings.SplitN(nc.Name, "/", 2)[0]
		c.Eval("place:"+nc.Name, true)
		c.Hit("stream:placement")
		c.Hit("place-construct:" + construct)
		got := res[i]
		if got.Status == "done" && got.Out == nc.Expect {
			continue
		}
		kind := "output-differs"
		if got.Status != "done" {
			kind = "status-done-became-" + got.Status
		}
		sig := placeSig(nc, kind, alone)
		knownSeen[sig]++
		if knownSeen[sig] > 2 {
			c.Hit("divergence-more:" + sig)
			continue
		}
		what := fmt.Sprintf("origami prints %q (%s %s), the reference semantics prescribe %q [%s] for:\n%s", got.Out, got.Status, got.Detail, nc.Expect, nc.Name, nc.Source)
		c.Violation(sig, what, map[string]any{"place": nc})
		c.Hit("divergence:" + sig)
		if !c.Known[sig] {
			nviol++
		}
		if nviol >= 60 {
			c.Note("placement stream: stopped reporting after %d divergences", nviol)
			break
		}
	}
}

// placeParses: the switch parser rejects statements behind a `break` written directly in a case body
// (notes/C02.md, "Not covered"); the `r` marker would be such a statement.
func placeParses(construct string, seq []int) bool {
	if len(seq) == 0 {
		return true
	}
	in := containers[seq[len(seq)-1]].name
	return !(construct == "break" && (in == "case" || in == "default"))
}
