package c02

// gen.go: seeded typed program generator. Every program terminates by construction
// (loops run on reserved counters, recursion on a reserved depth parameter), is
// well-typed (ints, bools, strings never meet the wrong operator — the scalar layer is
// C03's subject) and initialises every variable before use.

import (
	"strconv"

	"verif/harness/vh"
)

// variable id layout inside one scope
const (
	vInt     = 0  // 0..3  int variables
	vBool    = 10 // 10,11 bool variables
	vStr     = 20 // 20,21 string variables
	vList    = 30 // 30    list variable
	vCounter = 40 // 40+d  loop counters (never assigned by generated statements)
	vKey     = 50 // 50+d  foreach keys
	vVal     = 60 // 60+d  foreach values
	vParam   = 70 // 70..  parameters (70 is the depth parameter of a recursive function)
	vStatic  = 80 // 80,81 static locals
)

type fnInfo struct {
	name      int
	nparams   int
	ndefaults int // trailing parameters with a default
	recursive bool
	retStr    bool
	nstatics  int
}

type gen struct {
	r         *vh.Rand
	funs      []*fnInfo // callable from the scope being generated
	cur       *fnInfo   // nil: main program
	exits     int       // enclosing loops + switches (legal targets of break/continue)
	depth     int       // nesting depth of compound statements
	loops     int       // counters handed out in this scope
	selfCall  int       // recursive call sites left in this function
	tagN      int
	maxDepth  int
	multi     bool // known stream: break/continue levels >= 2 allowed
	intVars   []int
	strVars   []int
	boolVars  []int
	noStrVars bool // building the new value of a string variable: no string variables inside (growth stays linear)
}

func (g *gen) tag() *E {
	g.tagN++
	return Str(string(rune('a'+g.tagN%26)) + strconv.Itoa(g.tagN))
}

func (g *gen) smallInt() *E { return Int(int64(g.r.Range(-2, 6))) }

func (g *gen) intVar() int { return vh.Pick(g.r, g.intVars) }

func (g *gen) intExpr(d int) *E {
	if d <= 0 || g.r.Chance(35) {
		if g.r.Chance(45) {
			return g.smallInt()
		}
		return Var(g.intVar())
	}
	switch g.r.Intn(12) {
	case 0, 1, 2:
		return Bin("add", g.intExpr(d-1), g.intExpr(d-1))
	case 3, 4:
		return Bin("sub", g.intExpr(d-1), g.intExpr(d-1))
	case 5:
		return Bin("mul", g.intExpr(d-1), g.intExpr(d-1))
	case 6:
		if x := g.writableInt(); x >= 0 {
			return Inc(vh.Pick(g.r, []string{"postinc", "postdec", "preinc", "predec"}), x)
		}
		return g.smallInt()
	case 7, 8:
		if c := g.callExpr(false, d-1); c != nil {
			return c
		}
		return Var(g.intVar())
	default:
		return Var(g.intVar())
	}
}

// topInt / topStr: an expression that is not an operand. `match` is only written there:
// the expression parser does not accept it inside parentheses (outside the modelled core).
func (g *gen) topInt(d int) *E {
	if g.r.Chance(12) {
		return g.matchExpr(false, d)
	}
	return g.intExpr(d)
}

func (g *gen) topStr(d int) *E {
	if g.r.Chance(12) {
		return g.matchExpr(true, d)
	}
	return g.strExpr(d)
}

// writableInt: an int variable generated code may assign (not a counter, not the depth parameter).
func (g *gen) writableInt() int {
	var c []int
	for _, x := range g.intVars {
		if x >= vCounter && x < vParam {
			continue
		}
		if g.cur != nil && g.cur.recursive && x == vParam {
			continue
		}
		c = append(c, x)
	}
	if len(c) == 0 {
		return -1
	}
	return vh.Pick(g.r, c)
}

func (g *gen) strExpr(d int) *E {
	if d <= 0 || g.r.Chance(40) {
		if g.r.Chance(50) || len(g.strVars) == 0 || g.noStrVars {
			return Str(vh.Pick(g.r, []string{"x", "y", "ab", "q ", ""}))
		}
		return Var(vh.Pick(g.r, g.strVars))
	}
	switch g.r.Intn(6) {
	case 0, 1:
		return Bin("cat", g.strExpr(d-1), g.intExpr(d-1))
	case 2:
		return Bin("cat", g.intExpr(d-1), g.strExpr(d-1))
	case 3:
		return Bin("cat", g.strExpr(d-1), g.strExpr(d-1))
	case 4:
		if c := g.callExpr(true, d-1); c != nil {
			return c
		}
		return g.strExpr(0)
	default:
		return g.strExpr(d - 1)
	}
}

func (g *gen) boolExpr(d int) *E {
	if d <= 0 || g.r.Chance(25) {
		switch g.r.Intn(4) {
		case 0:
			return Bool(g.r.Bool())
		case 1:
			if len(g.boolVars) > 0 {
				return Var(vh.Pick(g.r, g.boolVars))
			}
		}
		return Bin(vh.Pick(g.r, []string{"lt", "le", "gt", "ge", "eq", "ne"}), Var(g.intVar()), g.smallInt())
	}
	switch g.r.Intn(8) {
	case 0, 1, 2:
		return Bin(vh.Pick(g.r, []string{"lt", "le", "gt", "ge", "eq", "ne"}), g.intExpr(d-1), g.intExpr(d-1))
	case 3:
		return Bin(vh.Pick(g.r, []string{"eq", "ne"}), g.strExpr(d-1), g.strExpr(d-1))
	case 4:
		return Not(g.boolExpr(d - 1))
	case 5:
		return &E{K: "and", A: g.boolExpr(d - 1), Bx: g.boolExpr(d - 1)}
	case 6:
		return &E{K: "or", A: g.boolExpr(d - 1), Bx: g.boolExpr(d - 1)}
	default:
		return Bin("le", Var(g.intVar()), g.smallInt()) // VarIntLe
	}
}

func (g *gen) callExpr(wantStr bool, d int) *E {
	var cands []*fnInfo
	for _, f := range g.funs {
		if f.retStr != wantStr {
			continue
		}
		if g.cur != nil && f == g.cur {
			if g.selfCall <= 0 {
				continue
			}
		}
		cands = append(cands, f)
	}
	if len(cands) == 0 {
		return nil
	}
	f := vh.Pick(g.r, cands)
	n := f.nparams - g.r.Intn(f.ndefaults+1)
	args := make([]*E, 0, n)
	for i := 0; i < n; i++ {
		if i == 0 && f.recursive {
			if g.cur == f {
				g.selfCall--
				args = append(args, Bin("sub", Var(vParam), Int(1)))
			} else {
				args = append(args, Int(int64(g.r.Intn(4))))
			}
			continue
		}
		args = append(args, g.intExpr(min(d, 1)))
	}
	return Call(f.name, args...)
}

func (g *gen) matchExpr(wantStr bool, d int) *E {
	res := func() *E {
		if wantStr {
			return g.strExpr(min(d, 1))
		}
		return g.intExpr(min(d, 1))
	}
	m := &E{K: "match", A: g.intExpr(min(d, 1)), D: res()}
	next := int64(g.r.Range(-1, 1))
	for i, n := 0, g.r.Range(1, 3); i < n; i++ {
		arm := Arm{R: res()}
		for j, k := 0, g.r.Range(1, 2); j < k; j++ {
			arm.Conds = append(arm.Conds, Int(next))
			next += int64(g.r.Range(1, 2))
		}
		m.Arms = append(m.Arms, arm)
	}
	return m
}

// ---------------------------------------------------------------- statements

func (g *gen) echo() *S {
	if g.r.Chance(50) {
		return Echo(g.tag(), g.topInt(2), Str(" "))
	}
	return Echo(g.tag(), g.topStr(2), Str(" "))
}

func (g *gen) assign() *S {
	switch g.r.Intn(10) {
	case 0, 1, 2, 3:
		x := g.writableInt()
		if x < 0 {
			return g.echo()
		}
		switch g.r.Intn(6) {
		case 0:
			return ExprS(Set(x, Var(g.intVar()))) // VarFastAssign copy
		case 1:
			return ExprS(Set(x, g.smallInt())) // VarFastAssign literal
		case 2:
			return ExprS(Set(x, Bin(vh.Pick(g.r, []string{"add", "mul"}), g.operand(), g.operand()))) // VarFastAssign add/mul
		default:
			return ExprS(Set(x, g.topInt(2)))
		}
	case 4, 5:
		x := g.writableInt()
		if x < 0 {
			return g.echo()
		}
		return ExprS(OpSet(vh.Pick(g.r, []string{"add", "sub", "mul"}), x, g.intExpr(1)))
	case 6:
		x := g.writableInt()
		if x < 0 {
			return g.echo()
		}
		return ExprS(Inc(vh.Pick(g.r, []string{"postinc", "postdec", "preinc", "predec"}), x))
	case 7:
		if len(g.strVars) > 0 {
			x := vh.Pick(g.r, g.strVars)
			if g.r.Chance(25) {
				return ExprS(Set(x, Var(vh.Pick(g.r, g.strVars)))) // VarFastAssign copy of a non-int: the fallback path
			}
			g.noStrVars = true
			defer func() { g.noStrVars = false }()
			if g.r.Bool() {
				return ExprS(OpSet("cat", x, g.strExpr(1)))
			}
			return ExprS(Set(x, g.topStr(2)))
		}
	case 8:
		if len(g.boolVars) > 0 {
			return ExprS(Set(vh.Pick(g.r, g.boolVars), g.boolExpr(2)))
		}
	}
	return ExprS(Set(vList, List(g.listLit()...)))
}

func (g *gen) operand() *E {
	if g.r.Chance(55) {
		return Var(g.intVar())
	}
	if g.r.Chance(80) {
		return g.smallInt()
	}
	return g.intExpr(1)
}

func (g *gen) listLit() []int64 {
	n := g.r.Intn(4)
	l := make([]int64, n)
	for i := range l {
		l[i] = int64(g.r.Range(0, 5))
	}
	return l
}

func (g *gen) block(n int) []*S {
	var ss []*S
	for i := 0; i < n; i++ {
		ss = append(ss, g.stmt()...)
	}
	return ss
}

func one(s *S) []*S { return []*S{s} }

func (g *gen) body() []*S { return g.block(g.r.Range(1, 3)) }

func (g *gen) jump() *S {
	if g.cur != nil && (g.exits == 0 || g.r.Chance(25)) {
		return g.ret()
	}
	if g.exits == 0 {
		return g.echo()
	}
	n := 1
	if g.multi && g.exits >= 2 && g.r.Chance(70) {
		n = g.r.Range(2, g.exits)
	}
	if g.r.Bool() {
		return Break(n)
	}
	return Continue(n)
}

func (g *gen) ret() *S {
	if g.cur.retStr {
		return Ret(g.topStr(2))
	}
	return Ret(g.topInt(2))
}

func (g *gen) counter() int {
	c := vCounter + g.loops
	g.loops++
	return c
}

func (g *gen) nested(exit bool, f func() []*S) []*S {
	g.depth++
	if exit {
		g.exits++
	}
	ss := f()
	if exit {
		g.exits--
	}
	g.depth--
	return ss
}

func (g *gen) stmt() []*S {
	if g.depth >= g.maxDepth {
		switch g.r.Intn(5) {
		case 0:
			return one(g.jump())
		case 1, 2:
			return one(g.assign())
		default:
			return one(g.echo())
		}
	}
	switch g.r.Intn(20) {
	case 0, 1, 2:
		return one(g.echo())
	case 3, 4, 5:
		return one(g.assign())
	case 6, 7, 8:
		s := &S{K: "if", E: g.boolExpr(2)}
		s.Then = g.nested(false, g.body)
		for i, n := 0, g.r.Intn(3); i < n && g.r.Chance(50); i++ {
			s.Elifs = append(s.Elifs, Elif{C: g.boolExpr(2), B: g.nested(false, g.body)})
		}
		if g.r.Chance(50) {
			s.Else = g.nested(false, g.body)
		}
		return one(s)
	case 9:
		return one(g.jump())
	case 10:
		return g.whileLoop()
	case 11:
		return g.doLoop()
	case 12, 13:
		return g.forLoop()
	case 14:
		return one(g.foreachLoop())
	case 15, 16:
		return one(g.switchStmt())
	case 17:
		if c := g.callExpr(g.r.Chance(30), 1); c != nil {
			return one(ExprS(c))
		}
		return one(g.echo())
	case 18:
		// a guarded jump: the common shape `if (cond) { break; }`
		return one(If(g.boolExpr(1), []*S{g.jump()}, nil))
	default:
		return one(g.echo())
	}
}

// while / do-while come as a pair: counter initialisation, loop.
func seq(ss ...*S) []*S { return ss }

// counterWrite: a statement of the loop body that writes the loop's own counter and keeps the
// loop finite (an upward counter only moves up or to its bound, a downward one down or to 0).
func (g *gen) counterWrite(c int, up bool, bound int64) *S {
	if !up {
		switch g.r.Intn(4) {
		case 0:
			return ExprS(Inc("postdec", c))
		case 1:
			return ExprS(Inc("predec", c))
		case 2:
			return ExprS(OpSet("sub", c, Int(1)))
		default:
			return ExprS(Set(c, Int(0)))
		}
	}
	switch g.r.Intn(7) {
	case 0:
		return ExprS(Inc("postinc", c))
	case 1:
		return ExprS(Inc("preinc", c))
	case 2:
		return ExprS(OpSet("add", c, Int(1)))
	case 3:
		return ExprS(Set(c, Bin("add", Var(c), Int(1))))
	case 4:
		return ExprS(Set(c, Int(bound)))
	case 5:
		return ExprS(Set(c, Bin("add", Var(c), Int(2))))
	default:
		return ExprS(Set(c, Bin("mul", Var(c), Int(2)))) // 0 stays 0: the loop's own step still ends it
	}
}

// loopBody: the body of a loop driven by counter c. The counter can be read by everything in the
// body and is sometimes written by it (directly or under a condition on the counter).
func (g *gen) loopBody(c int, up bool, bound int64) []*S {
	saved := g.intVars
	g.intVars = append(append([]int{}, saved...), c)
	body := g.nested(true, g.body)
	g.intVars = saved
	if g.r.Chance(30) {
		w := g.counterWrite(c, up, bound)
		if g.r.Bool() {
			w = If(Bin(vh.Pick(g.r, []string{"eq", "ge", "lt"}), Var(c), Int(int64(g.r.Range(0, 3)))), []*S{w}, nil)
		}
		pos := g.r.Intn(len(body) + 1)
		body = append(append(append([]*S{}, body[:pos]...), w), body[pos:]...)
	}
	return body
}

// afterLoop: the counter is (often) looked at once the loop is over.
func (g *gen) afterLoop(c int, ss []*S) []*S {
	if g.r.Chance(55) {
		ss = append(ss, Echo(g.tag(), Var(c), Str(" ")))
	}
	return ss
}

func (g *gen) whileLoop() []*S {
	c := g.counter()
	k := int64(g.r.Range(1, 4))
	if g.r.Chance(30) {
		// while ($c++ < k) { … }
		body := g.loopBody(c, true, k)
		return g.afterLoop(c, seq(ExprS(Set(c, Int(0))), While(Bin("lt", Inc("postinc", c), Int(k)), body)))
	}
	body := g.loopBody(c, true, k)
	body = append([]*S{ExprS(Inc("postinc", c))}, body...)
	return g.afterLoop(c, seq(ExprS(Set(c, Int(0))), While(Bin(vh.Pick(g.r, []string{"lt", "le"}), Var(c), Int(k)), body)))
}

func (g *gen) doLoop() []*S {
	c := g.counter()
	k := int64(g.r.Range(1, 4))
	body := g.loopBody(c, true, k)
	body = append([]*S{ExprS(Inc("postinc", c))}, body...)
	return g.afterLoop(c, seq(ExprS(Set(c, Int(0))), Do(body, Bin(vh.Pick(g.r, []string{"lt", "le"}), Var(c), Int(k)))))
}

// forLoop: every combination of the condition / increment shapes that select a specialised node
// (`$c <= n` → VarIntLe, `$c++` → VarStmtIncr, `$c += 1`, `$c = $c + 1` → VarFastAssign) and of the
// neighbouring shapes that do not, with the initialisation inside or before the loop header.
func (g *gen) forLoop() []*S {
	c := g.counter()
	k := int64(g.r.Range(1, 4))
	if g.r.Chance(20) { // downward
		body := g.loopBody(c, false, 0)
		inc := vh.Pick(g.r, []*E{Inc("postdec", c), Inc("predec", c), OpSet("sub", c, Int(1)), Set(c, Bin("sub", Var(c), Int(1)))})
		cond := vh.Pick(g.r, []*E{Bin("gt", Var(c), Int(0)), Bin("ge", Var(c), Int(1)), Bin("lt", Int(0), Var(c))})
		return g.afterLoop(c, []*S{For([]*E{Set(c, Int(k))}, cond, []*E{inc}, body)})
	}
	step := int64(1)
	var incs []*E
	switch g.r.Intn(7) {
	case 0, 1:
		incs = []*E{Inc("postinc", c)} // VarStmtIncr
	case 2:
		incs = []*E{Inc("preinc", c)}
	case 3:
		incs = []*E{OpSet("add", c, Int(1))}
	case 4:
		incs = []*E{Set(c, Bin("add", Var(c), Int(1)))}
	case 5:
		incs = []*E{OpSet("add", c, Int(2))}
		step = 2
	default:
		if x := g.writableInt(); x >= 0 {
			incs = []*E{Inc("postinc", c), Inc("postinc", x)}
		} else {
			incs = []*E{Inc("postinc", c)}
		}
	}
	hi := k * step // the loop runs while c < hi
	var cond *E
	switch g.r.Intn(6) {
	case 0, 1:
		cond = Bin("le", Var(c), Int(hi-1)) // VarIntLe
	case 2:
		cond = Bin("lt", Var(c), Int(hi))
	case 3:
		cond = Bin("ge", Int(hi-1), Var(c))
	case 4:
		cond = Bin("gt", Int(hi), Var(c))
	default:
		cond = Bin("le", Var(c), Bin("sub", Int(hi), Int(1))) // not a literal: plain BinaryLe
	}
	body := g.loopBody(c, true, hi)
	if g.r.Chance(25) { // for (; cond; inc) with the counter set before the loop
		return g.afterLoop(c, []*S{ExprS(Set(c, Int(0))), For(nil, cond, incs, body)})
	}
	return g.afterLoop(c, []*S{For([]*E{Set(c, Int(0))}, cond, incs, body)})
}

func (g *gen) foreachLoop() *S {
	d := g.loops
	g.loops++
	kv := -1
	if g.r.Chance(40) {
		kv = vKey + d
	}
	vv := vVal + d
	saved := g.intVars
	g.intVars = append(append([]int{}, saved...), vv) // the loop variables exist only inside the body
	if kv >= 0 {
		g.intVars = append(g.intVars, kv)
	}
	defer func() { g.intVars = saved }()
	var subj *E
	if g.r.Chance(60) {
		subj = List(g.listLit()...)
	} else {
		subj = Var(vList)
	}
	body := g.nested(true, g.body)
	return Foreach(subj, kv, vv, body)
}

func (g *gen) switchStmt() *S {
	s := &S{K: "switch"}
	if len(g.strVars) > 0 && g.r.Chance(20) {
		s.E = Var(vh.Pick(g.r, g.strVars))
		for _, l := range []string{"x", "y", "ab"} {
			if g.r.Chance(60) {
				s.Cases = append(s.Cases, Case{L: Str(l), B: g.caseBody()})
			}
		}
	} else {
		s.E = g.intExpr(1)
		next := int64(g.r.Range(-1, 1))
		for i, n := 0, g.r.Range(1, 4); i < n; i++ {
			s.Cases = append(s.Cases, Case{L: Int(next), B: g.caseBody()})
			next += int64(g.r.Range(1, 2))
		}
	}
	if g.r.Chance(60) {
		s.Dflt = g.caseBody()
		if len(s.Dflt) == 0 {
			s.Dflt = []*S{g.echo()}
		}
	}
	return s
}

// caseBody: empty (stacked label), falling through, or ending in break. A `break` written
// directly in the case body is always its last statement (the switch parser ends the case
// there and rejects what follows).
func (g *gen) caseBody() []*S {
	cut := func(b []*S) []*S {
		for i, s := range b {
			if s.K == "break" {
				return b[:i+1]
			}
		}
		return b
	}
	switch g.r.Intn(10) {
	case 0, 1:
		return nil
	case 2, 3, 4:
		return cut(g.nested(true, func() []*S { return g.block(g.r.Range(1, 2)) }))
	default:
		b := g.nested(true, func() []*S { return g.block(g.r.Range(1, 2)) })
		return cut(append(b, Break(1)))
	}
}

// ---------------------------------------------------------------- scopes

func (g *gen) initScope() []*S {
	var ss []*S
	g.intVars, g.strVars, g.boolVars = nil, nil, nil
	for i, n := 0, g.r.Range(2, 4); i < n; i++ {
		g.intVars = append(g.intVars, vInt+i)
		ss = append(ss, ExprS(Set(vInt+i, g.smallInt())))
	}
	for i, n := 0, g.r.Intn(3); i < n; i++ {
		g.strVars = append(g.strVars, vStr+i)
		ss = append(ss, ExprS(Set(vStr+i, Str(vh.Pick(g.r, []string{"x", "y", "ab"})))))
	}
	for i, n := 0, g.r.Intn(3); i < n; i++ {
		g.boolVars = append(g.boolVars, vBool+i)
		ss = append(ss, ExprS(Set(vBool+i, Bool(g.r.Bool()))))
	}
	ss = append(ss, ExprS(Set(vList, List(g.listLit()...))))
	// the parser hands out indexes in order of first appearance: shuffle it
	for i := len(ss) - 1; i > 0; i-- {
		j := g.r.Intn(i + 1)
		ss[i], ss[j] = ss[j], ss[i]
	}
	return ss
}

func (g *gen) function(info *fnInfo, callable []*fnInfo, size int) *Fn {
	g.cur, g.exits, g.depth, g.loops = info, 0, 0, 0
	g.funs = callable
	if info.recursive {
		g.funs = append(append([]*fnInfo{}, callable...), info)
		g.selfCall = 2
	}
	f := &Fn{Name: info.name}
	body := g.initScope()
	for i := 0; i < info.nparams; i++ {
		p := Param{X: vParam + i}
		if i >= info.nparams-info.ndefaults {
			p.Dflt = g.smallInt()
		}
		f.Params = append(f.Params, p)
		g.intVars = append(g.intVars, vParam+i)
	}
	for i := 0; i < info.nstatics; i++ {
		f.Statics = append(f.Statics, Static{X: vStatic + i, Init: g.smallInt()})
		g.intVars = append(g.intVars, vStatic+i)
	}
	if info.recursive {
		left := g.selfCall
		g.selfCall = 0 // the base case does not recurse
		body = append(body, If(Bin("le", Var(vParam), Int(0)), []*S{g.ret()}, nil))
		g.selfCall = left
	}
	if info.nstatics > 0 && g.r.Chance(80) {
		body = append(body, ExprS(Inc("postinc", vStatic)))
	}
	body = append(body, g.block(size)...)
	body = append(body, g.ret())
	f.Body = body
	return f
}

// Config of one generated program.
type GenOpts struct {
	MaxDepth int
	Multi    bool // levels >= 2 (known stream)
	NoReturn bool // drop the final return of one function (known stream)
}

// Generate makes one program.
func Generate(r *vh.Rand, o GenOpts) *Prog {
	g := &gen{r: r, maxDepth: o.MaxDepth, multi: o.Multi}
	p := &Prog{}
	var infos []*fnInfo
	for i, n := 0, r.Intn(4); i < n; i++ {
		info := &fnInfo{name: i, nparams: r.Range(0, 3), recursive: r.Chance(35), retStr: r.Chance(25), nstatics: 0}
		if info.recursive && info.nparams == 0 {
			info.nparams = 1
		}
		if r.Chance(40) {
			info.nstatics = r.Range(1, 2)
		}
		maxDef := info.nparams
		if info.recursive {
			maxDef--
		}
		if maxDef > 0 && r.Chance(50) {
			info.ndefaults = r.Range(1, maxDef)
		}
		p.Funs = append(p.Funs, g.function(info, infos, r.Range(1, 4)))
		infos = append(infos, info)
	}
	g.cur, g.exits, g.depth, g.loops = nil, 0, 0, 0
	g.funs = infos
	main := g.initScope()
	main = append(main, g.block(r.Range(2, 6))...)
	// make sure every function is exercised at least once
	for _, info := range infos {
		if c := g.callOf(info); c != nil {
			main = append(main, Echo(g.tag(), c, Str(" ")))
			if info.nstatics > 0 || r.Chance(30) {
				main = append(main, Echo(g.tag(), g.callOf(info), Str(" ")))
			}
		}
	}
	p.Main = main
	if o.NoReturn {
		// an int function loses its final return; its last statement becomes an int assignment,
		// so that the value the interpreter hands back instead of null keeps the program well-typed
		var cands []int
		for i, info := range infos {
			if !info.retStr {
				cands = append(cands, i)
			}
		}
		if len(cands) > 0 {
			f := p.Funs[vh.Pick(r, cands)]
			f.Body = append(f.Body[:len(f.Body)-1], ExprS(Set(vInt, g.smallInt())))
		}
	}
	return p
}

func (g *gen) callOf(f *fnInfo) *E {
	n := f.nparams - g.r.Intn(f.ndefaults+1)
	args := make([]*E, 0, n)
	for i := 0; i < n; i++ {
		if i == 0 && f.recursive {
			args = append(args, Int(int64(g.r.Intn(4))))
		} else {
			args = append(args, g.intExpr(1))
		}
	}
	return Call(f.name, args...)
}
