package c02

// neigh.go: the "fast-path neighbourhood" stream. The parser replaces a few loop-header and
// assignment shapes by specialised nodes (`$i <= n` → VarIntLe, `$i++` as a for increment →
// VarStmtIncr, `$i += 1` / `$i = $i + 1` → VarFastAssign, …). A specialisation is only right if the
// loop variable stays an ordinary variable: readable after the loop, assignable by the body, shared
// through a reference, captured by a closure, usable as an array index, unset and recreated, a
// parameter or a static local. This stream enumerates every header shape (those that select a
// specialised node and their neighbours that do not) against everything the body can do to the loop
// variable. References, closures, arrays and unset are outside the Lean model: each program carries
// its own little simulation (Go closures over the loop variable), origami is judged against that.

import (
	"fmt"
	"strconv"
	"strings"
)

type loopSim struct {
	i   int64
	out *strings.Builder
}

// deco: something the loop body does with the loop variable, as source text and as its effect.
type deco struct {
	name string
	pre  string // before the loop
	head string // first statements of the body
	tail string // last statements of the body
	simH func(s *loopSim, m int64)
	simT func(s *loopSim, m int64)
}

func p64(n int64) string { return strconv.FormatInt(n, 10) }

func decos(m, hi int64) []deco {
	M, HI := p64(m), p64(hi)
	return []deco{
		{name: "none"},
		{name: "assign-bound", head: "if ($i == " + M + ") { $i = " + HI + "; }",
			simH: func(s *loopSim, m int64) {
				if s.i == m {
					s.i = hi
				}
			}},
		{name: "skip-ahead", tail: "if ($i == " + M + ") { $i = $i + 1; }",
			simT: func(s *loopSim, m int64) {
				if s.i == m {
					s.i++
				}
			}},
		{name: "body-incr", tail: "$i++;", simT: func(s *loopSim, m int64) { s.i++ }},
		{name: "body-decr-once", tail: "if ($i == " + M + " && $once == 0) { $once = 1; $i--; }", pre: "$once = 0;",
			simT: nil}, // filled below (needs state)
		{name: "ref-alias-write", pre: "$r = &$i;", head: "if ($i == " + M + ") { $r = " + HI + "; }",
			simH: func(s *loopSim, m int64) {
				if s.i == m {
					s.i = hi
				}
			}},
		{name: "ref-alias-incr", pre: "$r = &$i;", tail: "if ($i == " + M + ") { $r++; }",
			simT: func(s *loopSim, m int64) {
				if s.i == m {
					s.i++
				}
			}},
		{name: "ref-alias-read", pre: "$r = &$i;", tail: "echo 'r', $r, ' ';",
			simT: func(s *loopSim, m int64) { s.out.WriteString("r" + p64(s.i) + " ") }},
		{name: "closure-by-value", tail: "$f = function() use ($i) { return $i * 10; }; echo 'c', $f(), ' ';",
			simT: func(s *loopSim, m int64) { s.out.WriteString("c" + p64(s.i*10) + " ") }},
		{name: "closure-by-ref", tail: "$f = function() use (&$i) { if ($i == " + M + ") { $i = $i + 1; } return 0; }; $f();",
			simT: func(s *loopSim, m int64) {
				if s.i == m {
					s.i++
				}
			}},
		{name: "array-index", pre: "$a = [10, 11, 12, 13, 14, 15, 16, 17, 18, 19];", tail: "echo 'a', $a[$i], ' ';",
			simT: func(s *loopSim, m int64) { s.out.WriteString("a" + p64(10+s.i) + " ") }},
		{name: "array-write", pre: "$a = [0, 0, 0, 0, 0, 0, 0, 0, 0, 0];", tail: "$a[$i] = $i + 1; echo 'w', $a[$i], ' ';",
			simT: func(s *loopSim, m int64) { s.out.WriteString("w" + p64(s.i+1) + " ") }},
		{name: "unset-recreate", head: "if ($i == " + M + ") { unset($i); $i = " + p64(m+1) + "; }",
			simH: func(s *loopSim, m int64) {
				if s.i == m {
					s.i = m + 1
				}
			}},
		{name: "copy-out", tail: "$j = $i; $j = $j + 100; echo 'j', $j, ' ';",
			simT: func(s *loopSim, m int64) { s.out.WriteString("j" + p64(s.i+100) + " ") }},
		{name: "continue", head: "if ($i == " + M + ") { continue; }", simH: nil}, // handled in the driver loop
		{name: "break", head: "if ($i == " + M + ") { break; }", simH: nil},
	}
}

type header struct {
	name    string
	init    string // inside the header ("" = before the loop)
	cond    func(i, hi int64) bool
	condSrc func(hi int64) string
	incSrc  string
	inc     func(i int64) int64
}

func headers() []header {
	le := func(i, hi int64) bool { return i < hi }
	var hs []header
	conds := []struct {
		name string
		src  func(hi int64) string
	}{
		{"le-lit", func(hi int64) string { return "$i <= " + p64(hi-1) }},           // VarIntLe
		{"lt-lit", func(hi int64) string { return "$i < " + p64(hi) }},              // BinaryLt
		{"ge-rev", func(hi int64) string { return p64(hi-1) + " >= $i" }},           // BinaryGe
		{"le-var", func(hi int64) string { return "$i <= $n" }},                     // BinaryLe on two variables
		{"le-expr", func(hi int64) string { return "$i <= (" + p64(hi) + " - 1)" }}, // BinaryLe on an expression
		{"le-and", func(hi int64) string { return "$i <= " + p64(hi-1) + " && true" }},
	}
	incs := []struct {
		name, src string
		f         func(i int64) int64
	}{
		{"post", "$i++", func(i int64) int64 { return i + 1 }},           // VarStmtIncr
		{"pre", "++$i", func(i int64) int64 { return i + 1 }},            // UnaryIncr
		{"pluseq", "$i += 1", func(i int64) int64 { return i + 1 }},      // VarFastAssign add
		{"assign", "$i = $i + 1", func(i int64) int64 { return i + 1 }},  // VarFastAssign add
		{"post-two", "$i++, $z++", func(i int64) int64 { return i + 1 }}, // two increments
		{"step2", "$i += 2", func(i int64) int64 { return i + 2 }},
	}
	for _, c := range conds {
		for _, in := range incs {
			for _, initIn := range []bool{true, false} {
				h := header{name: c.name + "/" + in.name, cond: le, condSrc: c.src, incSrc: in.src, inc: in.f}
				if initIn {
					h.init = "$i = 0"
					h.name += "/init-in"
				} else {
					h.name += "/init-before"
				}
				hs = append(hs, h)
			}
		}
	}
	return hs
}

// where the loop variable lives
var places = []string{"main", "function-local", "parameter", "static"}

type neighCase struct {
	Name   string `json:"name"`
	Source string `json:"source"`
	Expect string `json:"expect"`
}

func buildNeigh(h header, d deco, place string, hi, m int64) neighCase {
	// ---- expected behaviour
	s := &loopSim{out: &strings.Builder{}}
	once := false
	run := func(start int64) int64 {
		s.i = start
		for h.cond(s.i, hi) {
			if d.name == "continue" && s.i == m {
				s.i = h.inc(s.i)
				continue
			}
			if d.name == "break" && s.i == m {
				break
			}
			if d.simH != nil {
				d.simH(s, m)
			}
			s.out.WriteString("i" + p64(s.i) + " ")
			if d.name == "body-decr-once" {
				if s.i == m && !once {
					once = true
					s.i--
				}
			} else if d.simT != nil {
				d.simT(s, m)
			}
			s.i = h.inc(s.i)
		}
		s.out.WriteString("after" + p64(s.i) + " ")
		return s.i
	}
	// ---- source
	var b strings.Builder
	loop := func(ind string) {
		b.WriteString(ind + "$n = " + p64(hi-1) + "; $z = 0;\n")
		if d.pre != "" && !(strings.HasPrefix(d.pre, "$r = &$i") && h.init != "") {
			b.WriteString(ind + d.pre + "\n")
		}
		if h.init == "" {
			if place != "parameter" && place != "static" {
				b.WriteString(ind + "$i = 0;\n")
			}
			if strings.HasPrefix(d.pre, "$r = &$i") {
				// the alias is made once the variable exists
			}
			b.WriteString(ind + "for (; " + h.condSrc(hi) + "; " + h.incSrc + ") {\n")
		} else {
			b.WriteString(ind + "for (" + h.init + "; " + h.condSrc(hi) + "; " + h.incSrc + ") {\n")
		}
		if strings.HasPrefix(d.pre, "$r = &$i") && h.init != "" {
			b.WriteString(ind + "  $r = &$i;\n")
		}
		if d.head != "" {
			b.WriteString(ind + "  " + d.head + "\n")
		}
		b.WriteString(ind + "  echo 'i', $i, ' ';\n")
		if d.tail != "" {
			b.WriteString(ind + "  " + d.tail + "\n")
		}
		b.WriteString(ind + "}\n")
		b.WriteString(ind + "echo 'after', $i, ' ';\n")
	}
	b.WriteString("<?php\n")
	switch place {
	case "main":
		loop("")
		run(0)
	case "function-local":
		b.WriteString("function g() {\n")
		loop("  ")
		b.WriteString("  return $i;\n}\necho '[', g(), ']';\n")
		s.out.WriteString("[") // echo prints its operands one after the other
		v := run(0)
		s.out.WriteString(p64(v) + "]")
	case "parameter":
		b.WriteString("function g($i) {\n")
		loop("  ")
		b.WriteString("  return $i;\n}\n$x = 0;\necho '[', g($x), ']', $x;\n")
		s.out.WriteString("[")
		v := run(0)
		s.out.WriteString(p64(v) + "]0")
	case "static":
		b.WriteString("function g() {\n  static $i = 0;\n")
		loop("  ")
		b.WriteString("  return $i;\n}\necho '[', g(), ']';\necho '[', g(), ']';\n")
		s.out.WriteString("[")
		v := run(0)
		s.out.WriteString(p64(v) + "]")
		start := v
		if h.init != "" {
			start = 0
		}
		once = false
		s.out.WriteString("[")
		v = run(start)
		s.out.WriteString(p64(v) + "]")
	}
	return neighCase{Name: place + "/" + h.name + "/" + d.name, Source: b.String(), Expect: s.out.String()}
}

func neighCases() []neighCase {
	var cs []neighCase
	const hi, m = 4, 1
	for _, place := range places {
		for _, h := range headers() {
			for _, d := range decos(m, hi) {
				if (place == "parameter" || place == "static") && h.init == "" && strings.HasPrefix(d.pre, "$r = &$i") {
					// fine: the variable exists on entry
				}
				if d.name == "body-decr-once" && strings.Contains(h.name, "step2") {
					continue // i-1 then +2 never meets m again, but keep the family simple
				}
				if d.name == "unset-recreate" && place == "static" {
					continue // unset of a static local rebinds it: another subject
				}
				cs = append(cs, buildNeigh(h, d, place, hi, m))
			}
		}
	}
	return cs
}

// neighbourhood runs the stream; returns the number of programs.
func neighbourhood(r *runner) int {
	cs := neighCases()
	judgeNeigh(r, cs)
	return len(cs)
}

func judgeNeigh(r *runner, cs []neighCase) {
	c := r.c
	reqs := make([]runReq, len(cs))
	for i, nc := range cs {
		reqs[i] = runReq{ID: i, Src: nc.Source, Tag: "n"}
	}
	res := r.pool.run(reqs)
	for i, nc := range cs {
		if r.stopped {
			break
		}
		parts := strings.Split(nc.Name, "/")
		c.Eval("neigh:"+nc.Name, true)
		c.Hit("stream:fastpath-neighbourhood")
		c.Hit("neigh-deco:" + parts[len(parts)-1])
		got := res[i]
		if got.Status == "done" && got.Out == nc.Expect {
			continue
		}
		kind := "output-differs"
		if got.Status != "done" {
			kind = "status-done-became-" + got.Status
		}
		sig := "ctl:neighbourhood:" + parts[len(parts)-1] + "/" + kind
		what := fmt.Sprintf("origami prints %q (%s %s), the loop prescribes %q [%s] for:\n%s", got.Out, got.Status, got.Detail, nc.Expect, nc.Name, nc.Source)
		c.Violation(sig, what, map[string]any{"neigh": nc})
		c.Hit("divergence:" + sig)
		if c.Res.ViolationCount >= 40 && !r.stopped {
			r.stopped = true
			c.Note("stopped after %d violations", c.Res.ViolationCount)
		}
	}
}
