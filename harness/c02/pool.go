package c02

// pool.go: origami runs in child processes (a program may hang or kill the process);
// each request = one program: run it on a fresh VM, dump the parser's node tree.

import (
	"bufio"
	"encoding/json"
	"io"
	"os"
	"os/exec"
	"runtime/debug"
	"sync"
	"time"

	"verif/harness/vh"
)

type runReq struct {
	ID    int    `json:"id"`
	Src   string `json:"src"`
	Tag   string `json:"tag"`
	Nodes bool   `json:"nodes"`
}

type runResp struct {
	ID       int      `json:"id"`
	Out      string   `json:"out"`
	Status   string   `json:"status"` // done | error | go-panic | parse-error | hang | died
	Detail   string   `json:"detail,omitempty"`
	Nodes    string   `json:"nodes,omitempty"`
	Problems []string `json:"problems,omitempty"`
	NodeErr  string   `json:"node_err,omitempty"`
}

func init() { vh.RegisterChild("c02run", childRun) }

func runSourceFresh(src string) implRes {
	env := vh.NewEnv()
	o := env.RunSource(src, "/verif-c02.php")
	res := implRes{Out: o.Out, Detail: o.Detail}
	switch {
	case o.Kind == "ok" && len(env.Thrown) == 0:
		res.Status = "done"
	case o.Kind == "ok" || o.Kind == "uncaught":
		res.Status = "error"
		if len(env.Thrown) > 0 {
			res.Detail = firstLine(env.Thrown[0])
		}
	default:
		res.Status = o.Kind
	}
	return res
}

func childRun(args []string) int {
	debug.SetMaxStack(512 << 20)
	in := bufio.NewReaderSize(os.Stdin, 1<<20)
	out := bufio.NewWriterSize(os.Stdout, 1<<20)
	penv := vh.NewEnv()
	for {
		line, err := in.ReadBytes('\n')
		if len(line) == 0 && err != nil {
			return 0
		}
		var rq runReq
		if json.Unmarshal(line, &rq) != nil {
			continue
		}
		r := runSourceFresh(rq.Src)
		rs := runResp{ID: rq.ID, Out: r.Out, Status: r.Status, Detail: r.Detail}
		if rq.Nodes {
			rs.Nodes, rs.Problems, rs.NodeErr = DumpNodes(penv.Parser, rq.Src, rq.Tag)
		}
		jb, _ := json.Marshal(rs)
		out.Write(jb)
		out.WriteByte('\n')
		out.Flush()
	}
}

type worker struct {
	cmd *exec.Cmd
	in  io.WriteCloser
	out *bufio.Reader
}

func startWorker() (*worker, error) {
	cmd := exec.Command(vh.Self(), "__child", "c02run")
	cmd.Env = append(os.Environ(), "GOMEMLIMIT=1500MiB")
	in, err := cmd.StdinPipe()
	if err != nil {
		return nil, err
	}
	so, err := cmd.StdoutPipe()
	if err != nil {
		return nil, err
	}
	if err := cmd.Start(); err != nil {
		return nil, err
	}
	return &worker{cmd: cmd, in: in, out: bufio.NewReaderSize(so, 1<<20)}, nil
}

func (w *worker) kill() {
	w.in.Close()
	w.cmd.Process.Kill()
	w.cmd.Wait()
}

const runTimeout = 10 * time.Second

// runAll runs the requests on n workers, results in request order.
func runAll(n int, reqs []runReq) []runResp {
	res := make([]runResp, len(reqs))
	var next int
	var mu sync.Mutex
	var wg sync.WaitGroup
	if n > len(reqs) {
		n = len(reqs)
	}
	for i := 0; i < n; i++ {
		wg.Add(1)
		go func() {
			defer wg.Done()
			var w *worker
			defer func() {
				if w != nil {
					w.kill()
				}
			}()
			for {
				mu.Lock()
				idx := next
				next++
				mu.Unlock()
				if idx >= len(reqs) {
					return
				}
				if w == nil {
					var err error
					if w, err = startWorker(); err != nil {
						res[idx] = runResp{ID: reqs[idx].ID, Status: "died", Detail: "cannot start worker: " + err.Error()}
						w = nil
						continue
					}
				}
				jb, _ := json.Marshal(reqs[idx])
				type rd struct {
					line []byte
					err  error
				}
				ch := make(chan rd, 1)
				go func(w *worker) {
					w.in.Write(append(jb, '\n'))
					l, err := w.out.ReadBytes('\n')
					ch <- rd{l, err}
				}(w)
				select {
				case r := <-ch:
					if r.err != nil {
						res[idx] = runResp{ID: reqs[idx].ID, Status: "died", Detail: "the interpreter process exited"}
						w.kill()
						w = nil
						continue
					}
					var rs runResp
					json.Unmarshal(r.line, &rs)
					res[idx] = rs
				case <-time.After(runTimeout):
					res[idx] = runResp{ID: reqs[idx].ID, Status: "hang", Detail: "no answer within " + runTimeout.String()}
					w.kill()
					w = nil
				}
			}
		}()
	}
	wg.Wait()
	return res
}
