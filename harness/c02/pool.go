package c02

// pool.go: origami runs in child processes (a program may hang or kill the process);
// each request = one program: run it on a fresh VM, dump the parser's node tree.

import (
	"bufio"
	"encoding/json"
	"fmt"
	"io"
	"os"
	"os/exec"
	"runtime/debug"
	"strings"
	"sync"
	"sync/atomic"
	"syscall"
	"time"

	"github.com/php-any/origami/data"

	"verif/harness/vh"
)

type runReq struct {
	ID    int    `json:"id"`
	Src   string `json:"src"`
	Tag   string `json:"tag"`
	Nodes bool   `json:"nodes"`
}

type runResp struct {
	ID       int      `json:"id"`
	Out      string   `json:"out"`
	Status   string   `json:"status"` // done | error | go-panic | parse-error | hang | died
	Detail   string   `json:"detail,omitempty"`
	Nodes    string   `json:"nodes,omitempty"`
	Problems []string `json:"problems,omitempty"`
	NodeErr  string   `json:"node_err,omitempty"`
	Ms       int64    `json:"ms"` // wall time of the run in the child
}

func init() {
	vh.RegisterChild("c02run", childRun)
	// debugging aid: `vh __child c02parse files…` prints ok / parse-error per file
	vh.RegisterChild("c02parse", func(args []string) int {
		env := vh.NewEnv()
		for _, f := range args {
			b, err := os.ReadFile(f)
			if err != nil {
				continue
			}
			func() {
				defer func() {
					if r := recover(); r != nil {
						os.Stdout.WriteString(f + " panic\n")
					}
				}()
				_, acl := env.Parser.Clone().ParseString(string(b), f)
				if acl != nil {
					os.Stdout.WriteString(f + " parse-error\n")
				} else {
					os.Stdout.WriteString(f + " ok\n")
				}
			}()
		}
		return 0
	})
	// debugging aid: `vh __child c02nodes < file.php` prints the parser's node tree
	vh.RegisterChild("c02nodes", func(args []string) int {
		b, _ := io.ReadAll(os.Stdin)
		text, problems, err := DumpNodes(vh.NewEnv().Parser, string(b), "")
		os.Stdout.WriteString(text + "\n")
		for _, p := range problems {
			os.Stdout.WriteString("problem: " + p + "\n")
		}
		if err != "" {
			os.Stdout.WriteString("error: " + err + "\n")
		}
		r := runSourceFresh(string(b))
		os.Stdout.WriteString(r.Status + "|" + r.Out + "|" + r.Detail + "\n")
		return 0
	})
}

// outputCap bounds what one program may print: a runaway loop must not fill memory.
const outputCap = 256 << 10

type outputLimit struct{}

// runSourceFresh parses and runs src on a brand-new VM (the way vh.RunSource does), with the
// captured output capped: past the cap the run is aborted and reported as status "output-limit".
func runSourceFresh(src string) (res implRes) {
	env := vh.NewEnv()
	var sb strings.Builder
	old := data.WriteOutput
	data.WriteOutput = func(s string) {
		if sb.Len()+len(s) > outputCap {
			panic(outputLimit{})
		}
		sb.WriteString(s)
	}
	defer func() {
		data.WriteOutput = old
		res.Out = sb.String()
		if r := recover(); r != nil {
			switch x := r.(type) {
			case outputLimit:
				res.Status = "output-limit"
			case data.Control:
				res.Status = "error"
				res.Detail = firstLine(x.AsString())
			default:
				res.Status = "go-panic"
				res.Detail = firstLine(fmt.Sprint(r))
			}
		}
	}()
	p := env.Parser.Clone()
	prog, acl := p.ParseString(src, "/verif-c02.php")
	if acl != nil {
		res.Status = "parse-error"
		res.Detail = firstLine(acl.AsString())
		return
	}
	vars := p.GetVariables()
	ctx := env.VM.CreateContext(vars)
	if env.Raw != nil {
		env.Raw.RegisterGlobalContext(vars, ctx)
	}
	_, ctl := prog.GetValue(ctx)
	if data.FlushAllBuffersFn != nil {
		data.FlushAllBuffersFn()
	}
	switch {
	case ctl != nil:
		res.Status = "error"
		res.Detail = firstLine(ctl.AsString())
	case len(env.Thrown) > 0:
		res.Status = "error"
		res.Detail = firstLine(env.Thrown[0])
	default:
		res.Status = "done"
	}
	return
}

func childRun(args []string) int {
	debug.SetMaxStack(256 << 20)
	debug.SetMemoryLimit(1 << 30)
	// hard ceiling on the address space of this child: a runaway script kills only its own process
	lim := syscall.Rlimit{Cur: 6 << 30, Max: 6 << 30}
	syscall.Setrlimit(syscall.RLIMIT_AS, &lim)
	// the protocol goes to a private duplicate of fd 1; whatever the interpreter prints straight to
	// os.Stdout (var_dump, notices) ends in /dev/null instead of being read as an answer
	proto := vh.ProtocolStdout()
	in := bufio.NewReaderSize(os.Stdin, 1<<20)
	out := bufio.NewWriterSize(proto, 1<<20)
	penv := vh.NewEnv()
	for {
		line, err := in.ReadBytes('\n')
		if len(line) == 0 && err != nil {
			return 0
		}
		var rq runReq
		if json.Unmarshal(line, &rq) != nil {
			continue
		}
		t0 := time.Now()
		r := runSourceFresh(rq.Src)
		rs := runResp{ID: rq.ID, Out: r.Out, Status: r.Status, Detail: r.Detail, Ms: time.Since(t0).Milliseconds()}
		if rq.Nodes {
			rs.Nodes, rs.Problems, rs.NodeErr = DumpNodes(penv.Parser, rq.Src, rq.Tag)
		}
		jb, _ := json.Marshal(rs)
		out.Write(jb)
		out.WriteByte('\n')
		out.Flush()
	}
}

type worker struct {
	cmd *exec.Cmd
	in  io.WriteCloser
	out *bufio.Reader
}

func startWorker() (*worker, error) {
	cmd := exec.Command(vh.Self(), "__child", "c02run")
	cmd.Env = append(os.Environ(), "GOMEMLIMIT=1500MiB")
	// a worker stuck in a script's endless loop must not outlive a killed harness
	cmd.SysProcAttr = &syscall.SysProcAttr{Pdeathsig: syscall.SIGKILL}
	in, err := cmd.StdinPipe()
	if err != nil {
		return nil, err
	}
	so, err := cmd.StdoutPipe()
	if err != nil {
		return nil, err
	}
	if err := cmd.Start(); err != nil {
		return nil, err
	}
	return &worker{cmd: cmd, in: in, out: bufio.NewReaderSize(so, 1<<20)}, nil
}

func (w *worker) kill() {
	w.in.Close()
	w.cmd.Process.Kill()
	w.cmd.Wait()
}

const runTimeout = 3 * time.Second

// pool keeps its worker processes for the whole run.
type pool struct {
	mu   sync.Mutex
	idle []*worker
	n    int
}

func newPool(n int) *pool { return &pool{n: n} }

func (p *pool) get() (*worker, error) {
	p.mu.Lock()
	if k := len(p.idle); k > 0 {
		w := p.idle[k-1]
		p.idle = p.idle[:k-1]
		p.mu.Unlock()
		return w, nil
	}
	p.mu.Unlock()
	return startWorker()
}

func (p *pool) put(w *worker) {
	p.mu.Lock()
	p.idle = append(p.idle, w)
	p.mu.Unlock()
}

func (p *pool) close() {
	p.mu.Lock()
	for _, w := range p.idle {
		w.kill()
	}
	p.idle = nil
	p.mu.Unlock()
}

// askWorker runs a single request on worker w; ok=false: the worker is gone.
var reqSeq int64

func askWorker(w *worker, rq runReq) (runResp, bool) {
	want := rq.ID
	rq.ID = int(atomic.AddInt64(&reqSeq, 1)) // every request of the run has its own id
	jb, _ := json.Marshal(rq)
	type rd struct {
		line []byte
		err  error
	}
	ch := make(chan rd, 1)
	go func() {
		w.in.Write(append(jb, '\n'))
		l, err := w.out.ReadBytes('\n')
		ch <- rd{l, err}
	}()
	select {
	case r := <-ch:
		if r.err != nil {
			w.kill()
			return runResp{ID: rq.ID, Status: "died", Detail: "the interpreter process exited"}, false
		}
		var rs runResp
		if err := json.Unmarshal(r.line, &rs); err != nil || rs.ID != rq.ID {
			// not the answer to this request: the stream is out of step, drop the worker
			w.kill()
			return runResp{ID: want, Status: "died", Detail: "protocol out of step"}, false
		}
		rs.ID = want
		return rs, true
	case <-time.After(runTimeout):
		w.kill()
		return runResp{ID: rq.ID, Status: "hang", Detail: "no answer within " + runTimeout.String()}, false
	}
}

// run processes the requests on up to n workers, results in request order.
func (p *pool) run(reqs []runReq) []runResp {
	res := make([]runResp, len(reqs))
	var next int
	var mu sync.Mutex
	var wg sync.WaitGroup
	n := p.n
	if n > len(reqs) {
		n = len(reqs)
	}
	for i := 0; i < n; i++ {
		wg.Add(1)
		go func() {
			defer wg.Done()
			var w *worker
			defer func() {
				if w != nil {
					p.put(w)
				}
			}()
			for {
				mu.Lock()
				idx := next
				next++
				mu.Unlock()
				if idx >= len(reqs) {
					return
				}
				if w == nil {
					var err error
					if w, err = p.get(); err != nil {
						res[idx] = runResp{ID: reqs[idx].ID, Status: "died", Detail: "cannot start worker: " + err.Error()}
						w = nil
						continue
					}
				}
				var ok bool
				if res[idx], ok = askWorker(w, reqs[idx]); !ok {
					w = nil
				}
			}
		}()
	}
	wg.Wait()
	return res
}
