package c02

// clause.go: the "clause-list" stream. switch / match / if-elseif are ORDERED scans over a clause
// list: the tests are evaluated top to bottom up to and including the first that succeeds, the
// FIRST matching clause is the entry point, side effects of the tests in front of it happen, those
// behind it do not. A construction-time LOOKUP TABLE / index built from the clause list (label →
// clause index, a sorted label array, a type → handler map …) replaces the scan by one lookup and is
// right only if every key maps to the FIRST clause carrying it and no skipped test has an effect.
// The other streams never wrote a clause list with a repeated or loosely-equal key (the generator
// numbers case labels 0,1,2…), so "last wins" / "any wins" could not be seen. This stream enumerates
// clause lists over a small label alphabet WITH repetition:
//
//	labels ∈ {1, 2, '1', 'a', 1.0, lab(n,1), lab(n,2)}   (lab echoes its position: an effect)
//	× every list of length 2..3 (length 4 over the int literals {1,2,3})
//	× every break / fall-through pattern of the bodies × {default, no default}         (switch)
//	× every grouping of neighbouring labels into multi-condition arms                  (match)
//	× if / elseif chains over repeated tests with effects
//	× conditions of every scalar kind in the core, the first two repeated at the end (the table is
//	  built once, a cache would be filled by the first round)
//
// Every program carries its expected output, computed here from the reference semantics: first
// match in source order, labels evaluated in order until the match, loose `==` for switch, strict
// `===` for match. Harness-only (labels with effects, strings, floats and null are outside Spec.Ctl).
//
// Label comparison (fix C02-switch-loose-compare): a switch label matches iff `cond == label`, the
// interpreter's ONE comparison rule (data.LooseCompare, shared by ==, !=, <, <=> … since e39f8c4).
// looseEq below is an independent Go statement of that rule on scalars, arrays and objects; the
// "pairs" sub-stream runs every ordered pair of a value alphabet covering every kind through a switch
// AND through `==` in the same program and requires both to agree with each other and with looseEq.

import (
	"fmt"
	"sort"
	"strconv"
	"strings"
)

// a PHP scalar
type pv struct {
	k string // int | str | float | null | bool | arr (i = length, s = identity) | obj (s = identity)
	i int64
	s string
	f float64
	b bool
}

func (v pv) num() (float64, bool) {
	switch v.k {
	case "int":
		return float64(v.i), true
	case "float":
		return v.f, true
	case "str":
		// a numeric string is what strconv parses (no surrounding blanks, no trailing text)
		if f, err := strconv.ParseFloat(v.s, 64); err == nil {
			return f, true
		}
	}
	return 0, false
}

func (v pv) truthy() bool {
	switch v.k {
	case "int":
		return v.i != 0
	case "float":
		return v.f != 0
	case "str":
		// the interpreter's truthiness of a string (StringValue.AsBool, also what `if ('0')` uses and
		// what Spec.Ctl.truthy states): non-empty. PHP also counts '0' as false; that is a property of
		// truthiness, not of the switch — `false == '0'` and `switch (false) { case '0': }` agree.
		return v.s != ""
	case "bool":
		return v.b
	case "arr":
		return v.i != 0
	case "obj":
		return true
	}
	return false
}

func (v pv) str() string {
	switch v.k {
	case "int":
		return strconv.FormatInt(v.i, 10)
	case "float":
		return strconv.FormatFloat(v.f, 'G', -1, 64)
	case "str":
		return v.s
	case "bool":
		if v.b {
			return "1"
		}
	}
	return ""
}

// looseEq: `==` as the interpreter defines it (data.LooseCompare(a, b) == 0, plus "the same value
// is equal to itself"), which is PHP 8's loose comparison table on the scalar pairs of the streams:
//   - null or bool on either side: both sides as booleans; null against a string: null is ""
//   - int / float: by numeric value (1.5 != 1, 1.0 == 1)
//   - string / string: the same bytes ('1' != '1.0': PHP compares two numeric strings as numbers;
//     origami's `==` does not — a property of `==` (C03), the switch has to agree with it)
//   - number / string: numeric string → by value, otherwise the number's text against the string
//   - arrays and objects: against null / bool by truthiness, the same object is equal to itself,
//     everything else is unordered = not equal (PHP compares two arrays element-wise: again `==`, C03;
//     the pairs sub-stream asks only for switch = `==` there, see pairCase)
func looseEq(a, b pv) bool {
	if (a.k == "obj" || a.k == "arr") && a.k == b.k {
		return a.k == "obj" && a.s == b.s
	}
	if a.k == "bool" || b.k == "bool" {
		return a.truthy() == b.truthy()
	}
	if a.k == "null" && b.k == "null" {
		return true
	}
	if a.k == "null" || b.k == "null" {
		o := a
		if a.k == "null" {
			o = b
		}
		if o.k == "str" {
			return o.s == ""
		}
		return !o.truthy()
	}
	if a.k == "obj" || a.k == "arr" || b.k == "obj" || b.k == "arr" {
		return false
	}
	if a.k == "str" && b.k == "str" {
		return a.s == b.s
	}
	an, aok := a.num()
	bn, bok := b.num()
	if a.k != "str" && b.k != "str" {
		return an == bn
	}
	// number against string
	if aok && bok {
		return an == bn
	}
	return a.str() == b.str()
}

func strictEq(a, b pv) bool {
	if a.k != b.k {
		return false
	}
	switch a.k {
	case "int":
		return a.i == b.i
	case "float":
		return a.f == b.f
	case "str":
		return a.s == b.s
	case "bool":
		return a.b == b.b
	case "arr", "obj":
		return a.s == b.s
	}
	return true
}

type clabel struct {
	kind   string // int | str | float | call
	val    pv
	src    func(pos int) string
	effect bool
}

func litLabel(kind, src string, v pv) clabel {
	return clabel{kind: kind, val: v, src: func(int) string { return src }}
}

func callLabel(n int64) clabel {
	return clabel{kind: "call", val: pv{k: "int", i: n}, effect: true,
		src: func(pos int) string { return "lab(" + strconv.Itoa(pos) + ", " + strconv.FormatInt(n, 10) + ")" }}
}

var clauseLabels = []clabel{
	litLabel("int", "1", pv{k: "int", i: 1}),
	litLabel("int", "2", pv{k: "int", i: 2}),
	litLabel("str", "'1'", pv{k: "str", s: "1"}),
	litLabel("str", "'a'", pv{k: "str", s: "a"}),
	litLabel("float", "1.0", pv{k: "float", f: 1}),
	callLabel(1),
	callLabel(2),
}

var intLabels = []clabel{
	litLabel("int", "1", pv{k: "int", i: 1}),
	litLabel("int", "2", pv{k: "int", i: 2}),
	litLabel("int", "3", pv{k: "int", i: 3}),
}

type ccond struct {
	kind string
	src  string
	val  pv
}

// conditions of the main sub-stream; the first two come again at the end
var clauseConds = []ccond{
	{"int", "1", pv{k: "int", i: 1}},
	{"int", "2", pv{k: "int", i: 2}},
	{"int", "3", pv{k: "int", i: 3}},
	{"str", "'1'", pv{k: "str", s: "1"}},
	{"str", "'a'", pv{k: "str", s: "a"}},
	{"float", "1.0", pv{k: "float", f: 1}},
	{"null", "null", pv{k: "null"}},
	{"bool", "true", pv{k: "bool", b: true}},
	{"bool", "false", pv{k: "bool", b: false}},
	{"frac", "1.5", pv{k: "float", f: 1.5}},
	{"int", "1", pv{k: "int", i: 1}},
	{"int", "2", pv{k: "int", i: 2}},
}

// the value alphabet of the pairs sub-stream: every kind a label or a condition can have
var pairVals = []ccond{
	{"null", "null", pv{k: "null"}},
	{"bool", "false", pv{k: "bool", b: false}},
	{"bool", "true", pv{k: "bool", b: true}},
	{"int", "0", pv{k: "int", i: 0}},
	{"int", "1", pv{k: "int", i: 1}},
	{"int", "2", pv{k: "int", i: 2}},
	{"int", "-1", pv{k: "int", i: -1}},
	{"float", "0.0", pv{k: "float", f: 0}},
	{"float", "1.0", pv{k: "float", f: 1}},
	{"frac", "1.5", pv{k: "float", f: 1.5}},
	{"str", "''", pv{k: "str", s: ""}},
	{"numstr", "'0'", pv{k: "str", s: "0"}},
	{"numstr", "'1'", pv{k: "str", s: "1"}},
	{"numstr", "'1.0'", pv{k: "str", s: "1.0"}},
	{"numstr", "'1.5'", pv{k: "str", s: "1.5"}},
	{"numstr", "'01'", pv{k: "str", s: "01"}},
	{"str", "'a'", pv{k: "str", s: "a"}},
	{"str", "'1a'", pv{k: "str", s: "1a"}},
	{"str", "'1 '", pv{k: "str", s: "1 "}},
	{"arr", "[]", pv{k: "arr", i: 0, s: "[]"}},
	{"arr", "[1]", pv{k: "arr", i: 1, s: "[1]"}},
	{"arr", "[2]", pv{k: "arr", i: 1, s: "[2]"}},
	{"obj", "$o", pv{k: "obj", s: "o"}},
	{"obj", "$p", pv{k: "obj", s: "p"}},
}

// pairCase: one condition against every value of the alphabet, as a literal-label switch inside a
// function (sw) and as `==` (eq). Per pair the program prints the switch outcome and whether `==`
// says the same ('y' / 'n'); the expected segment is looseEq + 'y'. For two arrays / two different
// objects `==` is the business of C03 (element-wise comparison is not implemented there): only the
// agreement is printed and required.
func pairCase(c ccond) clauseCase {
	var b, out strings.Builder
	b.WriteString("<?php\nclass K { public $a = 1; }\n" +
		"function sw($a, $b) { switch ($a) { case $b: return 1; } return 0; }\n" +
		"function eq($a, $b) { if ($a == $b) { return 1; } return 0; }\n" +
		"function yn($a, $b) { if (sw($a, $b) == eq($a, $b)) { return 'y'; } return 'n'; }\n" +
		"$o = new K(); $p = new K();\n$c = " + c.src + ";\n")
	var kinds []string
	for _, l := range pairVals {
		kinds = append(kinds, c.kind)
		open := (c.val.k == "arr" && l.val.k == "arr") || (c.val.k == "obj" && l.val.k == "obj" && c.val.s != l.val.s)
		if open {
			b.WriteString("echo yn($c, " + l.src + "), '|';\n")
			out.WriteString("y|")
			continue
		}
		b.WriteString("echo sw($c, " + l.src + "), yn($c, " + l.src + "), '|';\n")
		if looseEq(c.val, l.val) {
			out.WriteString("1y|")
		} else {
			out.WriteString("0y|")
		}
	}
	return clauseCase{Name: "switch-pairs/" + c.src, Source: b.String(), Expect: out.String(), Conds: kinds, Class: "switch-pairs"}
}

type clauseCase struct {
	Name   string `json:"name"`
	Source string `json:"source"`
	Expect string `json:"expect"`
	// per condition: its kind and the expected segment (the output is split at '|')
	Conds []string `json:"conds"`
	Class string   `json:"class"` // construct{label kinds;dup|nodup}
}

const labFn = "function lab($n, $v) { echo 'L', $n; return $v; }\n"

func labelClass(construct string, ls []clabel) string {
	ks := map[string]bool{}
	dup := false
	for i, l := range ls {
		ks[l.kind] = true
		for _, m := range ls[:i] {
			if looseEq(l.val, m.val) {
				dup = true
			}
		}
	}
	var names []string
	for k := range ks {
		names = append(names, k)
	}
	sort.Strings(names)
	d := "nodup"
	if dup {
		d = "dup"
	}
	return construct + "{" + strings.Join(names, ",") + ";" + d + "}"
}

// one switch: labels, brk[i] = body i ends in break, def = has a default (last)
func buildSwitch(ls []clabel, brk []bool, def bool, conds []ccond, tag string) clauseCase {
	var b strings.Builder
	b.WriteString("<?php\n" + labFn + "function t($x) {\n  switch ($x) {\n")
	nm := tag
	for i, l := range ls {
		b.WriteString("    case " + l.src(i) + ": echo 'a" + strconv.Itoa(i) + "';")
		if brk[i] {
			b.WriteString(" break;")
			nm += "B"
		} else {
			nm += "F"
		}
		b.WriteString("\n")
	}
	if def {
		b.WriteString("    default: echo 'd';\n")
		nm += "+d"
	}
	b.WriteString("  }\n  echo '|';\n}\n")
	var out strings.Builder
	var kinds []string
	for _, c := range conds {
		b.WriteString("t(" + c.src + "); ")
		kinds = append(kinds, c.kind)
		matched, done := false, false
		for i, l := range ls {
			if !matched {
				if l.effect {
					out.WriteString("L" + strconv.Itoa(i))
				}
				if !looseEq(c.val, l.val) {
					continue
				}
				matched = true
			}
			out.WriteString("a" + strconv.Itoa(i))
			if brk[i] {
				done = true
				break
			}
		}
		if def && !done {
			out.WriteString("d")
		}
		out.WriteString("|")
	}
	b.WriteString("\n")
	var ln []string
	for i, l := range ls {
		ln = append(ln, l.src(i))
	}
	return clauseCase{Name: "switch/" + strings.Join(ln, ";") + "/" + nm, Source: b.String(), Expect: out.String(), Conds: kinds, Class: labelClass("switch", ls)}
}

// one match: arms[i] = labels of arm i (a multi-condition arm has several), default always there
// (a match without default that matches nothing is outside the core: notes "Not covered")
func buildMatch(ls []clabel, cut []bool) clauseCase {
	var b strings.Builder
	b.WriteString("<?php\n" + labFn + "function m($x) {\n  return match ($x) {\n")
	arm := make([]int, len(ls))
	a := 0
	b.WriteString("    ")
	for i, l := range ls {
		arm[i] = a
		b.WriteString(l.src(i))
		if i == len(ls)-1 || cut[i] {
			b.WriteString(" => 'a" + strconv.Itoa(a) + "',\n    ")
			a++
		} else {
			b.WriteString(", ")
		}
	}
	b.WriteString("default => 'd'\n  };\n}\n")
	var out strings.Builder
	var kinds []string
	for _, c := range clauseConds {
		b.WriteString("$r = m(" + c.src + "); echo $r, '|'; ")
		kinds = append(kinds, c.kind)
		res := "d"
		for i, l := range ls {
			if l.effect {
				out.WriteString("L" + strconv.Itoa(i))
			}
			if strictEq(c.val, l.val) {
				res = "a" + strconv.Itoa(arm[i])
				break
			}
		}
		out.WriteString(res + "|")
	}
	b.WriteString("\n")
	var ln []string
	for i, l := range ls {
		s := l.src(i)
		if i < len(ls)-1 && !cut[i] {
			s += ","
		}
		ln = append(ln, s)
	}
	return clauseCase{Name: "match/" + strings.Join(ln, ";"), Source: b.String(), Expect: out.String(), Conds: kinds, Class: labelClass("match", ls)}
}

// if / elseif over tests with effects; tests may repeat
var ifTests = []struct {
	src string
	ok  func(x int64) bool
}{
	{"$x == 1", func(x int64) bool { return x == 1 }},
	{"$x == 2", func(x int64) bool { return x == 2 }},
	{"$x > 0", func(x int64) bool { return x > 0 }},
}

func buildIf(ts []int, els bool) clauseCase {
	var b strings.Builder
	b.WriteString("<?php\n" + labFn + "function c($x) {\n")
	var ln []string
	for i, t := range ts {
		kw := "  if"
		if i > 0 {
			kw = " elseif"
		}
		b.WriteString(kw + " (lab(" + strconv.Itoa(i) + ", " + ifTests[t].src + ")) { echo 'a" + strconv.Itoa(i) + "'; }")
		ln = append(ln, ifTests[t].src)
	}
	nm := ""
	if els {
		b.WriteString(" else { echo 'd'; }")
		nm = "+else"
	}
	b.WriteString("\n  echo '|';\n}\n")
	var out strings.Builder
	var kinds []string
	for _, x := range []int64{0, 1, 2, 3, 1, 2} {
		b.WriteString("c(" + strconv.FormatInt(x, 10) + "); ")
		kinds = append(kinds, "int")
		hit := false
		for i, t := range ts {
			out.WriteString("L" + strconv.Itoa(i))
			if ifTests[t].ok(x) {
				out.WriteString("a" + strconv.Itoa(i))
				hit = true
				break
			}
		}
		if !hit && els {
			out.WriteString("d")
		}
		out.WriteString("|")
	}
	b.WriteString("\n")
	return clauseCase{Name: "if/" + strings.Join(ln, ";") + nm, Source: b.String(), Expect: out.String(), Conds: kinds, Class: "if{call;dup}"}
}

func labelLists(alpha []clabel, n int) [][]clabel {
	if n == 0 {
		return [][]clabel{{}}
	}
	var out [][]clabel
	for _, p := range labelLists(alpha, n-1) {
		for _, l := range alpha {
			out = append(out, append(append([]clabel{}, p...), l))
		}
	}
	return out
}

func boolLists(n int) [][]bool {
	if n == 0 {
		return [][]bool{{}}
	}
	var out [][]bool
	for _, p := range boolLists(n - 1) {
		out = append(out, append(append([]bool{}, p...), false), append(append([]bool{}, p...), true))
	}
	return out
}

func clauseCases() []clauseCase {
	var cs []clauseCase
	for n := 2; n <= 3; n++ {
		for _, ls := range labelLists(clauseLabels, n) {
			for _, brk := range boolLists(n) {
				for _, def := range []bool{false, true} {
					cs = append(cs, buildSwitch(ls, brk, def, clauseConds, ""))
				}
			}
			for _, cut := range boolLists(n - 1) {
				cs = append(cs, buildMatch(ls, append(cut, true)))
			}
		}
	}
	// dispatch-style switches: int literals only, four cases
	for _, ls := range labelLists(intLabels, 4) {
		for _, brk := range boolLists(4) {
			for _, def := range []bool{false, true} {
				cs = append(cs, buildSwitch(ls, brk, def, clauseConds, ""))
			}
		}
	}
	for n := 2; n <= 3; n++ {
		var rec func(p []int)
		rec = func(p []int) {
			if len(p) == n {
				cs = append(cs, buildIf(p, false), buildIf(p, true))
				return
			}
			for t := range ifTests {
				rec(append(append([]int{}, p...), t))
			}
		}
		rec(nil)
	}
	// pairs sub-stream: every ordered pair of the value alphabet, switch against `==` against looseEq
	for _, c := range pairVals {
		cs = append(cs, pairCase(c))
	}
	return cs
}

// clauseSig: construct{label kinds;dup}/cond-<kind of the first condition whose segment differs>
func clauseSig(cc clauseCase, got runResp) string {
	if got.Status != "done" {
		return "ctl:clause:" + cc.Class + "/status-done-became-" + got.Status
	}
	want := strings.Split(cc.Expect, "|")
	have := strings.Split(got.Out, "|")
	for i, k := range cc.Conds {
		if i >= len(have) || i >= len(want) || have[i] != want[i] {
			return "ctl:clause:" + cc.Class + "/cond-" + k + "/output-differs"
		}
	}
	return "ctl:clause:" + cc.Class + "/output-differs"
}

// clauses runs the stream; returns the number of programs.
func clauses(r *runner) int {
	cs := clauseCases()
	judgeClause(r, cs)
	return len(cs)
}

func judgeClause(r *runner, cs []clauseCase) {
	c := r.c
	reqs := make([]runReq, len(cs))
	for i, cc := range cs {
		reqs[i] = runReq{ID: i, Src: cc.Source, Tag: "c"}
	}
	res := r.pool.run(reqs)
	seen := map[string]int{}
	nviol := 0
	for i, cc := range cs {
		if r.stopped {
			break
		}
		c.Eval("clause:"+cc.Name, true)
		c.Hit("stream:clause-list")
		c.Hit("clause-class:" + cc.Class)
		got := res[i]
		if got.Status == "done" && got.Out == cc.Expect {
			continue
		}
		sig := clauseSig(cc, got)
		seen[sig]++
		if seen[sig] > 2 {
			c.Hit("divergence-more:" + sig)
			continue
		}
		what := fmt.Sprintf("origami prints %q (%s %s), the reference semantics (first matching clause in source order, tests evaluated in order up to the match) prescribe %q [%s] for:\n%s", got.Out, got.Status, got.Detail, cc.Expect, cc.Name, cc.Source)
		c.Violation(sig, what, map[string]any{"clause": cc})
		c.Hit("divergence:" + sig)
		if !c.Known[sig] {
			nviol++
		}
		if nviol >= 40 {
			c.Note("clause-list stream: stopped reporting after %d divergences", nviol)
			break
		}
	}
}
