// Package c02: correspondence and violation search for property C02
// (control flow and function calls behave as the reference semantics prescribe).
//
// ast.go: the generator's own AST of the control-flow core, its two renderings
// (origami source text, S-expression for the Lean driver vm_c02) and syntactic
// feature extraction.
package c02

import (
	"encoding/hex"
	"fmt"
	"sort"
	"strconv"
	"strings"
)

// E is an expression.
//
//	K: int bool str null list | var | bin not and or | set opset | inc | call | match
type E struct {
	K    string  `json:"k"`
	I    int64   `json:"i,omitempty"`
	B    bool    `json:"b,omitempty"`
	S    string  `json:"s,omitempty"`
	L    []int64 `json:"l,omitempty"`
	X    int     `json:"x,omitempty"`  // variable id (var, set, opset, inc)
	Op   string  `json:"op,omitempty"` // bin/opset: add sub mul lt le gt ge eq ne cat ; inc: preinc predec postinc postdec
	A    *E      `json:"a,omitempty"`
	Bx   *E      `json:"bx,omitempty"`
	F    int     `json:"f,omitempty"` // callee
	Args []*E    `json:"args,omitempty"`
	Arms []Arm   `json:"arms,omitempty"`
	D    *E      `json:"d,omitempty"` // match default
}

type Arm struct {
	Conds []*E `json:"c"`
	R     *E   `json:"r"`
}

// S is a statement.
//
//	K: echo expr if while do for foreach switch break continue ret
type S struct {
	K     string `json:"k"`
	Es    []*E   `json:"es,omitempty"` // echo operands
	E     *E     `json:"e,omitempty"`  // expr / condition / subject / return value (nil: bare return)
	Then  []*S   `json:"then,omitempty"`
	Elifs []Elif `json:"elifs,omitempty"`
	Else  []*S   `json:"else,omitempty"`
	Body  []*S   `json:"body,omitempty"`
	Inits []*E   `json:"inits,omitempty"`
	Incs  []*E   `json:"incs,omitempty"`
	KVar  int    `json:"kvar,omitempty"` // foreach key variable, -1 = none
	VVar  int    `json:"vvar,omitempty"`
	Cases []Case `json:"cases,omitempty"`
	Dflt  []*S   `json:"dflt,omitempty"`
	N     int    `json:"n,omitempty"` // break/continue level
}

type Elif struct {
	C *E   `json:"c"`
	B []*S `json:"b"`
}

type Case struct {
	L *E   `json:"l"`
	B []*S `json:"b"`
}

type Param struct {
	X    int `json:"x"`
	Dflt *E  `json:"d,omitempty"` // literal
}

type Static struct {
	X    int `json:"x"`
	Init *E  `json:"i"`
}

type Fn struct {
	Name    int      `json:"name"`
	Params  []Param  `json:"params,omitempty"`
	Statics []Static `json:"statics,omitempty"`
	Body    []*S     `json:"body"`
}

type Prog struct {
	Funs []*Fn `json:"funs,omitempty"`
	Main []*S  `json:"main"`
}

// ---------------------------------------------------------------- constructors

func Int(i int64) *E                  { return &E{K: "int", I: i} }
func Bool(b bool) *E                  { return &E{K: "bool", B: b} }
func Str(s string) *E                 { return &E{K: "str", S: s} }
func List(l ...int64) *E              { return &E{K: "list", L: l} }
func Var(x int) *E                    { return &E{K: "var", X: x} }
func Bin(op string, a, b *E) *E       { return &E{K: "bin", Op: op, A: a, Bx: b} }
func Not(a *E) *E                     { return &E{K: "not", A: a} }
func Set(x int, e *E) *E              { return &E{K: "set", X: x, A: e} }
func OpSet(op string, x int, e *E) *E { return &E{K: "opset", Op: op, X: x, A: e} }
func Inc(kind string, x int) *E       { return &E{K: "inc", Op: kind, X: x} }
func Call(f int, args ...*E) *E       { return &E{K: "call", F: f, Args: args} }

func Echo(es ...*E) *S             { return &S{K: "echo", Es: es} }
func ExprS(e *E) *S                { return &S{K: "expr", E: e} }
func If(c *E, t []*S, els []*S) *S { return &S{K: "if", E: c, Then: t, Else: els} }
func While(c *E, b []*S) *S        { return &S{K: "while", E: c, Body: b} }
func Do(b []*S, c *E) *S           { return &S{K: "do", E: c, Body: b} }
func For(inits []*E, c *E, incs []*E, b []*S) *S {
	return &S{K: "for", Inits: inits, E: c, Incs: incs, Body: b}
}
func Foreach(e *E, k, v int, b []*S) *S       { return &S{K: "foreach", E: e, KVar: k, VVar: v, Body: b} }
func Switch(e *E, cases []Case, dflt []*S) *S { return &S{K: "switch", E: e, Cases: cases, Dflt: dflt} }
func Break(n int) *S                          { return &S{K: "break", N: n} }
func Continue(n int) *S                       { return &S{K: "continue", N: n} }
func Ret(e *E) *S                             { return &S{K: "ret", E: e} }

// ---------------------------------------------------------------- origami source

var opText = map[string]string{"add": "+", "sub": "-", "mul": "*", "lt": "<", "le": "<=", "gt": ">", "ge": ">=", "eq": "==", "ne": "!=", "cat": "."}

func vname(x int) string { return "$v" + strconv.Itoa(x) }

// fname: function names are made unique per case (tag) so that one VM could run many cases.
func fname(tag string, f int) string { return "f" + tag + "_" + strconv.Itoa(f) }

type printer struct {
	tag string
	sb  strings.Builder
}

func litSrc(e *E) string {
	switch e.K {
	case "int":
		return strconv.FormatInt(e.I, 10)
	case "bool":
		if e.B {
			return "true"
		}
		return "false"
	case "str":
		return "'" + e.S + "'"
	case "null":
		return "null"
	case "list":
		parts := make([]string, len(e.L))
		for i, v := range e.L {
			parts[i] = strconv.FormatInt(v, 10)
		}
		return "[" + strings.Join(parts, ", ") + "]"
	}
	return "?"
}

// expr renders e; top says the expression is not an operand (no parentheses needed).
func (p *printer) expr(e *E, top bool) string {
	switch e.K {
	case "int", "bool", "str", "null", "list":
		return litSrc(e)
	case "var":
		return vname(e.X)
	case "bin":
		s := p.expr(e.A, false) + " " + opText[e.Op] + " " + p.expr(e.Bx, false)
		if top {
			return s
		}
		return "(" + s + ")"
	case "not":
		return "!" + p.expr(e.A, false)
	case "and", "or":
		op := " && "
		if e.K == "or" {
			op = " || "
		}
		s := p.expr(e.A, false) + op + p.expr(e.Bx, false)
		if top {
			return s
		}
		return "(" + s + ")"
	case "set":
		return vname(e.X) + " = " + p.expr(e.A, true)
	case "opset":
		return vname(e.X) + " " + opText[e.Op] + "= " + p.expr(e.A, true)
	case "inc":
		switch e.Op {
		case "preinc":
			return "++" + vname(e.X)
		case "predec":
			return "--" + vname(e.X)
		case "postinc":
			return vname(e.X) + "++"
		default:
			return vname(e.X) + "--"
		}
	case "call":
		parts := make([]string, len(e.Args))
		for i, a := range e.Args {
			parts[i] = p.expr(a, true)
		}
		return fname(p.tag, e.F) + "(" + strings.Join(parts, ", ") + ")"
	case "match":
		var sb strings.Builder
		sb.WriteString("match (" + p.expr(e.A, true) + ") { ")
		for _, arm := range e.Arms {
			cs := make([]string, len(arm.Conds))
			for i, c := range arm.Conds {
				cs[i] = p.expr(c, true)
			}
			sb.WriteString(strings.Join(cs, ", ") + " => " + p.expr(arm.R, true) + ", ")
		}
		sb.WriteString("default => " + p.expr(e.D, true) + " }")
		if top {
			return sb.String()
		}
		return "(" + sb.String() + ")"
	}
	return "?"
}

func (p *printer) exprs(es []*E) string {
	parts := make([]string, len(es))
	for i, e := range es {
		parts[i] = p.expr(e, true)
	}
	return strings.Join(parts, ", ")
}

func (p *printer) block(ss []*S, ind string) {
	p.sb.WriteString("{\n")
	for _, s := range ss {
		p.stmt(s, ind+"  ")
	}
	p.sb.WriteString(ind + "}")
}

func (p *printer) stmt(s *S, ind string) {
	w := &p.sb
	w.WriteString(ind)
	switch s.K {
	case "echo":
		w.WriteString("echo " + p.exprs(s.Es) + ";\n")
	case "expr":
		w.WriteString(p.expr(s.E, true) + ";\n")
	case "if":
		w.WriteString("if (" + p.expr(s.E, true) + ") ")
		p.block(s.Then, ind)
		for _, el := range s.Elifs {
			w.WriteString(" elseif (" + p.expr(el.C, true) + ") ")
			p.block(el.B, ind)
		}
		if len(s.Else) > 0 {
			w.WriteString(" else ")
			p.block(s.Else, ind)
		}
		w.WriteString("\n")
	case "while":
		w.WriteString("while (" + p.expr(s.E, true) + ") ")
		p.block(s.Body, ind)
		w.WriteString("\n")
	case "do":
		w.WriteString("do ")
		p.block(s.Body, ind)
		w.WriteString(" while (" + p.expr(s.E, true) + ");\n")
	case "for":
		w.WriteString("for (" + p.exprs(s.Inits) + "; " + p.expr(s.E, true) + "; " + p.exprs(s.Incs) + ") ")
		p.block(s.Body, ind)
		w.WriteString("\n")
	case "foreach":
		w.WriteString("foreach (" + p.expr(s.E, true) + " as ")
		if s.KVar >= 0 {
			w.WriteString(vname(s.KVar) + " => ")
		}
		w.WriteString(vname(s.VVar) + ") ")
		p.block(s.Body, ind)
		w.WriteString("\n")
	case "switch":
		w.WriteString("switch (" + p.expr(s.E, true) + ") {\n")
		for _, c := range s.Cases {
			w.WriteString(ind + "  case " + p.expr(c.L, true) + ":\n")
			for _, st := range c.B {
				p.stmt(st, ind+"    ")
			}
		}
		if len(s.Dflt) > 0 {
			w.WriteString(ind + "  default:\n")
			for _, st := range s.Dflt {
				p.stmt(st, ind+"    ")
			}
		}
		w.WriteString(ind + "}\n")
	case "break":
		if s.N == 1 {
			w.WriteString("break;\n")
		} else {
			w.WriteString("break " + strconv.Itoa(s.N) + ";\n")
		}
	case "continue":
		if s.N == 1 {
			w.WriteString("continue;\n")
		} else {
			w.WriteString("continue " + strconv.Itoa(s.N) + ";\n")
		}
	case "ret":
		if s.E == nil {
			w.WriteString("return;\n")
		} else {
			w.WriteString("return " + p.expr(s.E, true) + ";\n")
		}
	}
}

// Source renders the program as origami source; tag makes the function names unique.
func (pr *Prog) Source(tag string) string {
	p := &printer{tag: tag}
	p.sb.WriteString("<?php\n")
	for _, f := range pr.Funs {
		ps := make([]string, len(f.Params))
		for i, pa := range f.Params {
			ps[i] = vname(pa.X)
			if pa.Dflt != nil {
				ps[i] += " = " + litSrc(pa.Dflt)
			}
		}
		p.sb.WriteString("function " + fname(tag, f.Name) + "(" + strings.Join(ps, ", ") + ") {\n")
		for _, st := range f.Statics {
			p.sb.WriteString("  static " + vname(st.X) + " = " + litSrc(st.Init) + ";\n")
		}
		for _, s := range f.Body {
			p.stmt(s, "  ")
		}
		p.sb.WriteString("}\n")
	}
	for _, s := range pr.Main {
		p.stmt(s, "")
	}
	return p.sb.String()
}

// ---------------------------------------------------------------- S-expression for vm_c02

func litSexp(e *E) string {
	switch e.K {
	case "int":
		return "(i " + strconv.FormatInt(e.I, 10) + ")"
	case "bool":
		if e.B {
			return "(b 1)"
		}
		return "(b 0)"
	case "str":
		if e.S == "" {
			return "(s)"
		}
		return "(s " + hex.EncodeToString([]byte(e.S)) + ")"
	case "null":
		return "(n)"
	case "list":
		var sb strings.Builder
		sb.WriteString("(l")
		for _, v := range e.L {
			sb.WriteString(" " + strconv.FormatInt(v, 10))
		}
		sb.WriteString(")")
		return sb.String()
	}
	return "(?)"
}

func exprSexp(e *E) string {
	switch e.K {
	case "int", "bool", "str", "null", "list":
		return litSexp(e)
	case "var":
		return "(v " + strconv.Itoa(e.X) + ")"
	case "bin":
		return "(bin " + e.Op + " " + exprSexp(e.A) + " " + exprSexp(e.Bx) + ")"
	case "not":
		return "(not " + exprSexp(e.A) + ")"
	case "and", "or":
		return "(" + e.K + " " + exprSexp(e.A) + " " + exprSexp(e.Bx) + ")"
	case "set":
		return "(set " + strconv.Itoa(e.X) + " " + exprSexp(e.A) + ")"
	case "opset":
		// node/binary.go: `$x op= e` is built as `$x = $x op e`
		return "(set " + strconv.Itoa(e.X) + " (bin " + e.Op + " (v " + strconv.Itoa(e.X) + ") " + exprSexp(e.A) + "))"
	case "inc":
		return "(inc " + e.Op + " " + strconv.Itoa(e.X) + ")"
	case "call":
		var sb strings.Builder
		sb.WriteString("(call " + strconv.Itoa(e.F))
		for _, a := range e.Args {
			sb.WriteString(" " + exprSexp(a))
		}
		sb.WriteString(")")
		return sb.String()
	case "match":
		var sb strings.Builder
		sb.WriteString("(match " + exprSexp(e.A) + " " + exprSexp(e.D))
		for _, arm := range e.Arms {
			for _, c := range arm.Conds { // `c, c' => r` is two arms
				sb.WriteString(" (arm " + exprSexp(c) + " " + exprSexp(arm.R) + ")")
			}
		}
		sb.WriteString(")")
		return sb.String()
	}
	return "(?)"
}

func blockSexp(ss []*S) string {
	var sb strings.Builder
	sb.WriteString("(blk")
	for _, s := range ss {
		sb.WriteString(" " + stmtSexp(s))
	}
	sb.WriteString(")")
	return sb.String()
}

func argsSexp(es []*E) string {
	var sb strings.Builder
	sb.WriteString("(args")
	for _, e := range es {
		sb.WriteString(" " + exprSexp(e))
	}
	sb.WriteString(")")
	return sb.String()
}

func stmtSexp(s *S) string {
	switch s.K {
	case "echo":
		var sb strings.Builder
		sb.WriteString("(echo")
		for _, e := range s.Es {
			sb.WriteString(" " + exprSexp(e))
		}
		sb.WriteString(")")
		return sb.String()
	case "expr":
		return "(expr " + exprSexp(s.E) + ")"
	case "if":
		var sb strings.Builder
		sb.WriteString("(if " + exprSexp(s.E) + " " + blockSexp(s.Then))
		for _, el := range s.Elifs {
			sb.WriteString(" (elif " + exprSexp(el.C) + " " + blockSexp(el.B) + ")")
		}
		sb.WriteString(" " + blockSexp(s.Else) + ")")
		return sb.String()
	case "while":
		return "(while " + exprSexp(s.E) + " " + blockSexp(s.Body) + ")"
	case "do":
		return "(do " + blockSexp(s.Body) + " " + exprSexp(s.E) + ")"
	case "for":
		return "(for " + argsSexp(s.Inits) + " " + exprSexp(s.E) + " " + argsSexp(s.Incs) + " " + blockSexp(s.Body) + ")"
	case "foreach":
		k := "-"
		if s.KVar >= 0 {
			k = strconv.Itoa(s.KVar)
		}
		return "(foreach " + exprSexp(s.E) + " " + k + " " + strconv.Itoa(s.VVar) + " " + blockSexp(s.Body) + ")"
	case "switch":
		var sb strings.Builder
		sb.WriteString("(switch " + exprSexp(s.E))
		for _, c := range s.Cases {
			sb.WriteString(" (case " + exprSexp(c.L) + " " + blockSexp(c.B) + ")")
		}
		sb.WriteString(" " + blockSexp(s.Dflt) + ")")
		return sb.String()
	case "break":
		return "(break " + strconv.Itoa(s.N) + ")"
	case "continue":
		return "(continue " + strconv.Itoa(s.N) + ")"
	case "ret":
		if s.E == nil {
			return "(ret)"
		}
		return "(ret " + exprSexp(s.E) + ")"
	}
	return "(?)"
}

// Sexp renders the program for vm_c02 (see lean/Drivers/C02.lean).
func (pr *Prog) Sexp() string {
	var sb strings.Builder
	sb.WriteString("(prog")
	for _, f := range pr.Funs {
		sb.WriteString(" (fun " + strconv.Itoa(f.Name) + " (params")
		for _, pa := range f.Params {
			if pa.Dflt != nil {
				sb.WriteString(" (p " + strconv.Itoa(pa.X) + " " + litSexp(pa.Dflt) + ")")
			} else {
				sb.WriteString(" (p " + strconv.Itoa(pa.X) + ")")
			}
		}
		sb.WriteString(") (statics")
		for _, st := range f.Statics {
			sb.WriteString(" (st " + strconv.Itoa(st.X) + " " + litSexp(st.Init) + ")")
		}
		sb.WriteString(") " + blockSexp(f.Body) + ")")
	}
	sb.WriteString(" " + blockSexp(pr.Main) + ")")
	return sb.String()
}

// ---------------------------------------------------------------- traversal helpers

func walkE(e *E, f func(*E)) {
	if e == nil {
		return
	}
	f(e)
	walkE(e.A, f)
	walkE(e.Bx, f)
	for _, a := range e.Args {
		walkE(a, f)
	}
	for _, arm := range e.Arms {
		for _, c := range arm.Conds {
			walkE(c, f)
		}
		walkE(arm.R, f)
	}
	walkE(e.D, f)
}

func walkS(ss []*S, fs func(*S), fe func(*E)) {
	for _, s := range ss {
		if fs != nil {
			fs(s)
		}
		if fe != nil {
			for _, e := range s.Es {
				walkE(e, fe)
			}
			walkE(s.E, fe)
			for _, e := range s.Inits {
				walkE(e, fe)
			}
			for _, e := range s.Incs {
				walkE(e, fe)
			}
			for _, el := range s.Elifs {
				walkE(el.C, fe)
			}
			for _, c := range s.Cases {
				walkE(c.L, fe)
			}
		}
		walkS(s.Then, fs, fe)
		for _, el := range s.Elifs {
			walkS(el.B, fs, fe)
		}
		walkS(s.Else, fs, fe)
		walkS(s.Body, fs, fe)
		for _, c := range s.Cases {
			walkS(c.B, fs, fe)
		}
		walkS(s.Dflt, fs, fe)
	}
}

func (pr *Prog) walk(fs func(*S), fe func(*E)) {
	for _, f := range pr.Funs {
		walkS(f.Body, fs, fe)
	}
	walkS(pr.Main, fs, fe)
}

// Features: the constructs a program uses (for signatures and the histogram).
func (pr *Prog) Features() []string {
	set := map[string]bool{}
	pr.walk(func(s *S) {
		switch s.K {
		case "break", "continue":
			if s.N >= 2 {
				set[s.K+"N"] = true
			} else {
				set[s.K] = true
			}
		case "echo", "expr":
		default:
			set[s.K] = true
		}
	}, func(e *E) {
		switch e.K {
		case "call", "match", "inc", "opset", "and", "or":
			set[e.K] = true
		}
	})
	for _, f := range pr.Funs {
		if len(f.Statics) > 0 {
			set["static"] = true
		}
		for _, p := range f.Params {
			if p.Dflt != nil {
				set["default"] = true
			}
		}
		if !endsInReturn(f.Body) {
			set["noreturn"] = true
		}
	}
	if len(pr.Funs) > 0 {
		set["function"] = true
	}
	var fs []string
	for k := range set {
		fs = append(fs, k)
	}
	sort.Strings(fs)
	return fs
}

func endsInReturn(body []*S) bool {
	return len(body) > 0 && body[len(body)-1].K == "ret"
}

// MultiLevel: some break/continue has a level other than 1.
func (pr *Prog) MultiLevel() bool {
	m := false
	pr.walk(func(s *S) {
		if (s.K == "break" || s.K == "continue") && s.N != 1 {
			m = true
		}
	}, nil)
	return m
}

// ImplicitReturn: some function body does not end in a return statement.
func (pr *Prog) ImplicitReturn() bool {
	for _, f := range pr.Funs {
		if !endsInReturn(f.Body) {
			return true
		}
	}
	return false
}

// ArityOK: every call of a declared function passes required..total arguments.
func (pr *Prog) ArityOK() bool {
	ok := true
	fn := map[int]*Fn{}
	for i := len(pr.Funs) - 1; i >= 0; i-- {
		fn[pr.Funs[i].Name] = pr.Funs[i]
	}
	pr.walk(nil, func(e *E) {
		if e.K != "call" {
			return
		}
		f, have := fn[e.F]
		if !have {
			return
		}
		req := 0
		for _, p := range f.Params {
			if p.Dflt != nil {
				break
			}
			req++
		}
		if len(e.Args) < req || len(e.Args) > len(f.Params) {
			ok = false
		}
	})
	return ok
}

// InFragment mirrors Spec.Ctl.inFragment (checked against the driver's answer).
func (pr *Prog) InFragment() bool {
	for _, f := range pr.Funs {
		seen := map[int]bool{}
		for _, p := range f.Params {
			if seen[p.X] {
				return false
			}
			seen[p.X] = true
		}
	}
	return !pr.MultiLevel() && !pr.ImplicitReturn() && pr.ArityOK()
}

func (pr *Prog) Size() int {
	n := 0
	pr.walk(func(*S) { n++ }, func(*E) { n++ })
	return n
}

func (pr *Prog) String() string { return fmt.Sprintf("%s", pr.Source("")) }
