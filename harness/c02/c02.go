package c02

// c02.go: the runner. For every program (corpus, exhaustive two-level skeletons, seeded
// generated programs):
//   * origami runs the source in-process on a fresh VM                     (implementation)
//   * the reference interpreter of ref.go runs the generator's AST         (property oracle)
//   * vm_c02 answers for Model.Ctl (must equal origami: correspondence), for Spec.Ctl
//     (must equal the reference interpreter), prints the node tree Model.Ctl.compile
//     builds (must equal the parser's tree) and decides Spec.Ctl.inFragment.
// A disagreement origami/reference is a property violation; it is shrunk and signed by
// the constructs of the shrunk program. Programs using what is known to be broken
// (break/continue levels >= 2, a function without return) live in separate known streams.

import (
	"encoding/json"
	"fmt"
	"os"
	"runtime/debug"
	"strconv"
	"strings"

	"verif/harness/vh"
)

func init() { vh.Register("C02", Run) }

const (
	sigMulti    = "ctl:break-continue-level-ignored"
	sigNoReturn = "ctl:implicit-return-value"
	sigArity    = "ctl:missing-argument-is-null"
	modelFuel   = 20000
	refBudgetN  = 30000
)

type gcase struct {
	Prog   *Prog  `json:"prog"`
	Stream string `json:"stream"`
	Source string `json:"source,omitempty"` // informational: the origami text of Prog
}

type implRes struct {
	Out    string
	Status string // done | error | go-panic | parse-error
	Detail string
}

func (r implRes) String() string { return r.Status + "|" + r.Out }

type runner struct {
	c          *vh.Ctx
	m          *vh.Model
	pool       *pool
	n          int
	pending    []gcase
	shrunk     map[string]int
	shrinkRuns int
	stopped    bool
}

func (r *runner) tagFor() string { r.n++; return strconv.Itoa(r.n) }

// runImpl runs the program on a fresh VM in a child process.
func (r *runner) runImpl(p *Prog, tag string) implRes {
	rs := r.pool.run([]runReq{{Src: p.Source(tag), Tag: tag}})[0]
	return implRes{Out: rs.Out, Status: rs.Status, Detail: rs.Detail}
}

func firstLine(s string) string {
	if i := strings.IndexByte(s, '\n'); i >= 0 {
		return s[:i]
	}
	return s
}

func unescape(s string) string {
	var sb strings.Builder
	for i := 0; i < len(s); i++ {
		if s[i] == '\\' && i+1 < len(s) {
			i++
			switch s[i] {
			case 'n':
				sb.WriteByte('\n')
			case 't':
				sb.WriteByte('\t')
			case 'r':
				sb.WriteByte('\r')
			default:
				sb.WriteByte(s[i])
			}
			continue
		}
		sb.WriteByte(s[i])
	}
	return sb.String()
}

func parseModel(line string) implRes {
	parts := strings.SplitN(line, "\t", 2)
	res := implRes{Status: parts[0]}
	if len(parts) == 2 {
		res.Out = unescape(parts[1])
	}
	return res
}

func (r *runner) add(g gcase) {
	if r.stopped || badCaseBreak(g.Prog) {
		return
	}
	r.pending = append(r.pending, g)
	if len(r.pending) >= 200 {
		r.flush()
	}
}

func differs(impl implRes, ref RefResult) bool {
	return impl.Status != ref.Status || impl.Out != ref.Out
}

func divergenceKind(impl implRes, ref RefResult) string {
	switch {
	case impl.Status == "go-panic" || impl.Status == "hang" || impl.Status == "died" || impl.Status == "output-limit":
		return impl.Status
	case impl.Status == "parse-error":
		return "rejected"
	case impl.Status != ref.Status:
		return "status-" + ref.Status + "-became-" + impl.Status
	case strings.HasPrefix(ref.Out, impl.Out):
		return "output-missing"
	case strings.HasPrefix(impl.Out, ref.Out):
		return "output-extra"
	}
	return "output-differs"
}

func sigOf(p *Prog, kind string) string {
	switch {
	case p.MultiLevel():
		return sigMulti
	case p.ImplicitReturn():
		return sigNoReturn
	case !p.ArityOK():
		return sigArity
	}
	return "ctl:{" + strings.Join(p.Features(), ",") + "}/" + kind
}

func (r *runner) flush() {
	c := r.c
	// the reference interpreter first: a program over its step budget is not run at all
	var cases []gcase
	var refs []RefResult
	for gi, g := range r.pending {
		if os.Getenv("C02_DEBUG") != "" {
			os.WriteFile("/tmp/c02/lastprog.php", []byte(g.Prog.Source("")), 0o644)
			fmt.Fprintf(os.Stderr, "ref %d\n", gi)
		}
		ref := RunRef(g.Prog, refBudgetN)
		if ref.Status == "budget" {
			c.Hit("skipped:reference-budget")
			continue
		}
		cases = append(cases, g)
		refs = append(refs, ref)
	}
	r.pending = nil
	if len(cases) == 0 {
		return
	}
	dbg := os.Getenv("C02_DEBUG") != ""
	if dbg {
		fmt.Fprintf(os.Stderr, "[%6.1fs] flush %d cases (stream %s), evals so far %d\n", c.Elapsed().Seconds(), len(cases), cases[0].Stream, c.Res.Evaluations)
	}
	reqs := make([]runReq, len(cases))
	for i, g := range cases {
		tag := r.tagFor()
		reqs[i] = runReq{ID: i, Src: g.Prog.Source(tag), Tag: tag, Nodes: true}
	}
	impls := r.pool.run(reqs)
	if dbg {
		fmt.Fprintf(os.Stderr, "[%6.1fs]   origami answered\n", c.Elapsed().Seconds())
	}
	// A program of a known stream may run (nearly) forever under the known defect — `break 3`
	// that ends one loop only, inside recursion. The interpreter shows it by its time; the model has
	// no clock, so it is not asked about those.
	ask := make([]int, len(cases)) // index of the case's first answer line, -1 = not asked
	var lines []string
	for i, g := range cases {
		slow := impls[i].Status == "hang" || impls[i].Status == "died" || impls[i].Status == "output-limit" || impls[i].Ms > 400
		if strings.HasPrefix(g.Stream, "known") && slow {
			ask[i] = -1
			continue
		}
		ask[i] = len(lines)
		sx := g.Prog.Sexp()
		lines = append(lines, "model\t"+strconv.Itoa(modelFuel)+"\t"+sx, "spec\t"+strconv.Itoa(modelFuel)+"\t"+sx, "nodes\t"+sx, "frag\t"+sx)
	}
	var answers []string
	if dbg {
		os.WriteFile("/tmp/c02/lastbatch.txt", []byte(strings.Join(lines, "\n")+"\n"), 0o644)
	}
	if r.m != nil {
		var err error
		answers, err = r.m.AskBatch(lines)
		if err != nil {
			c.Mismatch(nil, "", "", "model driver died: "+err.Error())
			r.m = nil
			r.stopped = true
			return
		}
	}
	if dbg {
		fmt.Fprintf(os.Stderr, "[%6.1fs]   model answered\n", c.Elapsed().Seconds())
	}
	for i, g := range cases {
		if r.stopped {
			break
		}
		p := g.Prog
		if dbg {
			fmt.Fprintf(os.Stderr, "[%6.1fs]   case %d\n", c.Elapsed().Seconds(), i)
		}
		ref := refs[i]
		impl := implRes{Out: impls[i].Out, Status: impls[i].Status, Detail: impls[i].Detail}
		feats := p.Features()
		key := g.Stream + ":" + hash64(p.Sexp()) // a short key: the harness keeps no program texts
		c.Eval(key, len(feats) >= 2 && len(ref.Out) > 0)
		c.Hit("stream:" + g.Stream)
		c.Hit("status:" + ref.Status)
		for _, f := range feats {
			c.Hit("uses:" + f)
		}
		c.Hit(fmt.Sprintf("steps:<%d", bucket(ref.Steps)))
		if g.Source == "" {
			g.Source = p.Source("")
		}
		c.SampleSome(map[string]any{"stream": g.Stream, "source": g.Source, "output": ref.Out}, 97)

		// ---- correspondence with the Lean model
		if ask[i] < 0 {
			c.Hit("model-not-asked:slow-under-known-defect")
		}
		if answers != nil && ask[i] >= 0 {
			model := parseModel(answers[ask[i]])
			spec := parseModel(answers[ask[i]+1])
			nodes := answers[ask[i]+2]
			frag := answers[ask[i]+3]
			if model.Status == "timeout" && (impl.Status == "died" || impl.Status == "hang" || impl.Status == "output-limit") {
				c.Hit("both-diverge") // the model runs out of fuel, the interpreter out of stack / time
			} else if model.Status != impl.Status || model.Out != impl.Out {
				c.Mismatch(g, impl.String(), model.String(), "Model.Ctl.run vs origami")
			}
			if spec.Status != ref.Status || spec.Out != ref.Out {
				c.Mismatch(g, ref.Status+"|"+ref.Out, spec.String(), "Spec.Ctl.run vs the Go reference interpreter (machinery)")
			}
			if (frag == "yes") != p.InFragment() {
				c.Mismatch(g, fmt.Sprint(p.InFragment()), frag, "Spec.Ctl.inFragment vs the harness's fragment test (machinery)")
			}
			text, problems, perr := impls[i].Nodes, impls[i].Problems, impls[i].NodeErr
			switch {
			case impl.Status == "hang" || impl.Status == "died" || impl.Status == "output-limit":
			case perr != "":
				if impl.Status != "parse-error" {
					c.Mismatch(g, perr, nodes, "node tree: parser failed")
				}
			case len(problems) > 0:
				c.Mismatch(g, strings.Join(problems, "; "), nodes, "node tree: node kinds outside the modelled core")
			case text != nodes:
				c.Mismatch(g, text, nodes, "node tree: parser vs Model.Ctl.compile")
			default:
				c.Res.Traces++
				nodeHistogram(c, text)
			}
		}

		// ---- the property itself: origami vs the reference semantics
		if !differs(impl, ref) {
			continue
		}
		kind := divergenceKind(impl, ref)
		known := g.Stream == "known-multi" && p.MultiLevel() || g.Stream == "known-noreturn" && p.ImplicitReturn() ||
			g.Stream == "known-arity" && !p.ArityOK()
		quick := sigOf(p, kind)
		if known && r.shrunk[quick] >= 2 {
			// already have shrunk witnesses of this known kind; the model explains this one too
			// (checked above), just count it
			c.Violation(quick, "origami and the reference semantics differ ("+kind+") on a program of the known stream; the model predicts origami's output", g)
			c.Hit("known-divergence:" + quick)
			continue
		}
		if dbg {
			fmt.Fprintf(os.Stderr, "[%6.1fs]   shrinking case %d (%s, %s)\n", c.Elapsed().Seconds(), i, g.Stream, kind)
		}
		sp := p
		if os.Getenv("C02_NOSHRINK") == "" {
			sp = r.shrink(p, g.Stream, ref.Status, kind)
		}
		if dbg {
			fmt.Fprintf(os.Stderr, "[%6.1fs]   shrunk\n", c.Elapsed().Seconds())
		}
		sref := RunRef(sp, refBudgetN)
		simpl := r.runImpl(sp, r.tagFor())
		skind := divergenceKind(simpl, sref)
		sig := sigOf(sp, skind)
		r.shrunk[sig]++
		what := fmt.Sprintf("origami prints %q (%s), the reference semantics prescribe %q (%s) [%s] for:\n%s", simpl.Out, simpl.Status, sref.Out, sref.Status, skind, sp.Source(""))
		c.Violation(sig, what, gcase{Prog: sp, Stream: g.Stream, Source: sp.Source("")})
		c.Hit("divergence:" + sig)
		if c.Res.ViolationCount >= 40 && !r.stopped {
			// plenty of failing inputs: the verdict is settled, do not spend the budget on more
			r.stopped = true
			c.Note("stopped after %d violations", c.Res.ViolationCount)
		}
	}
}

// nodeHistogram counts, per kind, the specialised (fast-path) and general nodes the parser built
// for a program whose tree was compared with the model's.
var nodeKinds = []string{"FastAssign(copy", "FastAssign(mul", "FastAssign(add", "AssignVar(", "VarIntLe(", "StmtIncr(",
	"PostIncr(", "PostDecr(", "PreIncr(", "PreDecr(", "Bin(le", "Bin(lt", "Match(", "Switch(", "Foreach(", "For(", "While(", "Do(", "Call("}

func nodeHistogram(c *vh.Ctx, tree string) {
	for _, k := range nodeKinds {
		if n := strings.Count(tree, k); n > 0 {
			c.HitN("node:"+strings.TrimRight(k, "("), n)
		}
	}
}

func hash64(s string) string {
	h := uint64(1469598103934665603)
	for i := 0; i < len(s); i++ {
		h = (h ^ uint64(s[i])) * 1099511628211
	}
	return strconv.FormatUint(h, 36)
}

func bucket(n int) int {
	b := 10
	for b < n {
		b *= 10
	}
	return b
}

// ---------------------------------------------------------------- shrinking

func clone(p *Prog) *Prog {
	b, _ := json.Marshal(p)
	var q Prog
	json.Unmarshal(b, &q)
	fixKeys(&q)
	return &q
}

// fixKeys: nothing to repair today (KVar -1 survives JSON); kept for replay files written by hand.
func fixKeys(p *Prog) {}

type reducer struct {
	target, n int
	done      bool
}

func (r *reducer) hit() bool {
	if r.done {
		return false
	}
	r.n++
	if r.n-1 == r.target {
		r.done = true
		return true
	}
	return false
}

func childBlocks(s *S) []*[]*S {
	var bs []*[]*S
	bs = append(bs, &s.Then)
	for i := range s.Elifs {
		bs = append(bs, &s.Elifs[i].B)
	}
	bs = append(bs, &s.Else, &s.Body)
	for i := range s.Cases {
		bs = append(bs, &s.Cases[i].B)
	}
	bs = append(bs, &s.Dflt)
	return bs
}

func (r *reducer) block(ss *[]*S) {
	for i := 0; i < len(*ss); i++ {
		if r.hit() { // drop statement i
			*ss = append(append([]*S{}, (*ss)[:i]...), (*ss)[i+1:]...)
			return
		}
		s := (*ss)[i]
		for _, b := range childBlocks(s) {
			if len(*b) == 0 {
				continue
			}
			if r.hit() { // replace the compound statement by one of its blocks
				n := append(append([]*S{}, (*ss)[:i]...), (*b)...)
				*ss = append(n, (*ss)[i+1:]...)
				return
			}
		}
		if s.K == "switch" && len(s.Cases) > 0 {
			for ci := range s.Cases {
				if r.hit() { // drop one case
					s.Cases = append(append([]Case{}, s.Cases[:ci]...), s.Cases[ci+1:]...)
					return
				}
			}
		}
		if len(s.Elifs) > 0 && r.hit() {
			s.Elifs = s.Elifs[1:]
			return
		}
		if len(s.Es) > 1 && r.hit() { // echo a, b, c → echo a
			s.Es = s.Es[:1]
			return
		}
		for _, b := range childBlocks(s) {
			r.block(b)
			if r.done {
				return
			}
		}
	}
}

// reduce applies reduction number k; ok=false when k is past the last one.
func reduce(p *Prog, k int) (*Prog, bool) {
	q := clone(p)
	r := &reducer{target: k}
	for i := 0; i < len(q.Funs) && !r.done; i++ {
		if r.hit() {
			q.Funs = append(append([]*Fn{}, q.Funs[:i]...), q.Funs[i+1:]...)
			break
		}
		f := q.Funs[i]
		if len(f.Statics) > 0 && r.hit() {
			f.Statics = f.Statics[1:]
			break
		}
		r.block(&f.Body)
	}
	if !r.done {
		r.block(&q.Main)
	}
	return q, r.done
}

// shrink keeps a divergence origami/reference while removing program parts. Outside the
// known streams the program stays inside the fragment, so that a main-stream failure can
// never be signed as a known finding.
func (r *runner) shrink(p *Prog, stream string, refStatus, kind string) *Prog {
	origUndef := RunRef(p, refBudgetN).Undef
	keepFragment := !strings.HasPrefix(stream, "known") && p.InFragment()
	cur := p
	budget := 300
	if kind == "hang" || kind == "died" {
		budget = 10 // every candidate may cost a full timeout
		if r.shrunk["#"+kind] >= 2 {
			budget = 0 // two shrunk witnesses of a hang are enough
		}
		r.shrunk["#"+kind]++
	}
	if r.shrinkRuns > 3000 {
		budget = 0
	}
	for improved := true; improved && budget > 0; {
		improved = false
		for k := 0; budget > 0; k++ {
			q, ok := reduce(cur, k)
			if !ok {
				break
			}
			if keepFragment && !q.InFragment() || badCaseBreak(q) {
				continue
			}
			// shrinking never introduces a construct with a known finding that the case did not have
			if q.MultiLevel() && !p.MultiLevel() || q.ImplicitReturn() && !p.ImplicitReturn() || !q.ArityOK() && p.ArityOK() {
				continue
			}
			// in a known stream the construct the stream is about stays in the program
			if stream == "known-multi" && !q.MultiLevel() || stream == "known-noreturn" && !q.ImplicitReturn() ||
				stream == "known-arity" && q.ArityOK() {
				continue
			}
			ref := RunRef(q, refBudgetN)
			if ref.Status != refStatus || ref.Undef && !origUndef {
				// e.g. an initialisation was removed: a different class of programs (reading an
				// unset variable makes the scalar layer, not control flow, decide)
				continue
			}
			budget--
			r.shrinkRuns++
			impl := r.runImpl(q, r.tagFor())
			if differs(impl, ref) && divergenceKind(impl, ref) == kind {
				cur = q
				improved = true
				break
			}
		}
	}
	return cur
}

// badCaseBreak: a `break;` written directly in a case body with statements behind it. The
// switch parser ends the case at such a break and then rejects the dead statements; the
// generator never writes them (parser restriction outside the modelled core).
func badCaseBreak(p *Prog) bool {
	bad := false
	chk := func(b []*S) {
		for i, s := range b {
			if s.K == "break" && i+1 < len(b) {
				bad = true
			}
		}
	}
	p.walk(func(s *S) {
		if s.K == "switch" {
			for _, c := range s.Cases {
				chk(c.B)
			}
			chk(s.Dflt)
		}
	}, nil)
	return bad
}

// ---------------------------------------------------------------- exhaustive skeletons

var loopKinds = []string{"while", "do", "for", "foreach", "switch"}

// wrapLoop builds one breakable construct of the given kind around body; ctr is its counter
// variable (counts iterations 1,2,… as seen inside the body; for a switch it stays 1).
func wrapLoop(kind string, ctr int, body []*S, mark string) []*S {
	switch kind {
	case "while":
		b := append([]*S{ExprS(Inc("postinc", ctr))}, body...)
		return []*S{ExprS(Set(ctr, Int(0))), While(Bin("lt", Var(ctr), Int(2)), b)}
	case "do":
		b := append([]*S{ExprS(Inc("postinc", ctr))}, body...)
		return []*S{ExprS(Set(ctr, Int(0))), Do(b, Bin("lt", Var(ctr), Int(2)))}
	case "for":
		return []*S{For([]*E{Set(ctr, Int(1))}, Bin("le", Var(ctr), Int(2)), []*E{Inc("postinc", ctr)}, body)}
	case "foreach":
		return []*S{Foreach(List(1, 2), -1, ctr, body)}
	case "switch":
		return []*S{ExprS(Set(ctr, Int(1))), Switch(Var(ctr), []Case{
			{L: Int(0), B: []*S{Echo(Str(mark + "c0 "))}},
			{L: Int(1), B: body},
			{L: Int(2), B: []*S{Echo(Str(mark + "c2 ")), Break(1)}},
		}, []*S{Echo(Str(mark + "d "))})}
	case "if":
		return []*S{ExprS(Set(ctr, Int(1))), If(Bin("eq", Var(ctr), Int(1)), body, []*S{Echo(Str(mark + "else "))})}
	}
	return body
}

// skeletons enumerates outer × inner × jump × guard × position × placement.
func skeletons(levels []int) []*Prog {
	var ps []*Prog
	inners := append([]string{"none", "if"}, loopKinds...)
	for _, outer := range loopKinds {
		for _, inner := range inners {
			for _, jump := range []string{"none", "break", "continue", "return"} {
				for _, guarded := range []bool{false, true} {
					for _, early := range []bool{true, false} {
						for _, inFn := range []bool{false, true} {
							if jump == "return" && !inFn {
								continue
							}
							if jump == "none" && (guarded || !early) {
								continue
							}
							for _, lvl := range levels {
								if (jump == "none" || jump == "return") && lvl != levels[0] {
									continue
								}
								exits := 1
								if inner != "none" && inner != "if" {
									exits = 2
								}
								if lvl > exits {
									continue
								}
								ps = append(ps, skeleton(outer, inner, jump, guarded, early, inFn, lvl))
							}
						}
					}
				}
			}
		}
	}
	return ps
}

func skeleton(outer, inner, jump string, guarded, early, inFn bool, lvl int) *Prog {
	const o, n = 40, 41 // counters
	var j *S
	switch jump {
	case "break":
		j = Break(lvl)
	case "continue":
		j = Continue(lvl)
	case "return":
		j = Ret(Int(7))
	}
	if j != nil && guarded {
		j = If(&E{K: "and", A: Bin("eq", Var(o), Int(1)), Bx: Bin("ge", Var(n), Int(1))}, []*S{j}, nil)
	}
	core := []*S{Echo(Str("n"), Var(n), Str(" "))}
	if j != nil {
		if early {
			core = append([]*S{j}, core...)
		} else {
			core = append(core, j)
		}
	}
	core = append(core, Echo(Str("m ")))
	var innerS []*S
	if inner == "none" {
		innerS = append([]*S{ExprS(Set(n, Int(1)))}, core...)
	} else {
		innerS = wrapLoop(inner, n, core, "i")
	}
	ob := append([]*S{Echo(Str("o"), Var(o), Str(" "))}, innerS...)
	ob = append(ob, Echo(Str("p ")))
	all := wrapLoop(outer, o, ob, "o")
	all = append(all, Echo(Str("q ")))
	if !inFn {
		return &Prog{Main: all}
	}
	body := append(all, Ret(Int(9)))
	return &Prog{
		Funs: []*Fn{{Name: 0, Body: body}},
		Main: []*S{Echo(Str("["), Call(0), Str("]")), Echo(Str("["), Call(0), Str("]"))},
	}
}

// ---------------------------------------------------------------- fixed corpus

// corpus: hand-written programs for every finding of DESIGN §4 rows 5-7 and those found
// while building (all fixed ones must now agree with the reference semantics).
func corpus() []gcase {
	i, j, x := 0, 1, 2
	var cs []gcase
	add := func(stream string, p *Prog) { cs = append(cs, gcase{Prog: p, Stream: stream}) }
	// row 5: continue in while skips the rest of the body
	add("corpus", &Prog{Main: []*S{ExprS(Set(i, Int(0))), While(Bin("lt", Var(i), Int(5)), []*S{ExprS(Inc("postinc", i)), If(Bin("eq", Var(i), Int(2)), []*S{Continue(1)}, nil), Echo(Str("w"), Var(i), Str(" "))})}})
	// row 7: stacked labels / fall-through / continue inside switch inside a loop
	add("corpus", &Prog{Main: []*S{Switch(Int(1), []Case{{L: Int(1)}, {L: Int(2), B: []*S{Echo(Str("stacked")), Break(1)}}, {L: Int(3), B: []*S{Echo(Str("three"))}}}, nil)}})
	add("corpus", &Prog{Main: []*S{Switch(Int(1), []Case{{L: Int(1), B: []*S{Echo(Str("one"))}}, {L: Int(2), B: []*S{Echo(Str("two")), Break(1)}}, {L: Int(3), B: []*S{Echo(Str("three"))}}}, []*S{Echo(Str("dflt"))})}})
	add("corpus", &Prog{Main: []*S{For([]*E{Set(i, Int(0))}, Bin("lt", Var(i), Int(3)), []*E{Inc("postinc", i)}, []*S{
		Switch(Var(i), []Case{{L: Int(1), B: []*S{Continue(1), Echo(Str("sw"))}}}, []*S{Echo(Str("d"), Var(i), Str(" "))}), Echo(Str("after"), Var(i), Str(" "))})}})
	// a callee's for-increment must not touch the caller's variable / the default literal
	add("corpus", &Prog{Funs: []*Fn{{Name: 0, Params: []Param{{X: 70}}, Body: []*S{For([]*E{Set(i, Int(0))}, Bin("lt", Var(i), Int(3)), []*E{Inc("postinc", 70)}, []*S{ExprS(Inc("postinc", i))}), Ret(Var(70))}}},
		Main: []*S{ExprS(Set(x, Int(10))), ExprS(Set(j, Call(0, Var(x)))), Echo(Str("x="), Var(x), Str(" y="), Var(j))}})
	add("corpus", &Prog{Funs: []*Fn{{Name: 0, Params: []Param{{X: 70, Dflt: Int(0)}}, Body: []*S{Echo(Str("[p="), Var(70), Str("]")), For(nil, Bin("lt", Var(70), Int(3)), []*E{Inc("postinc", 70)}, nil), Ret(Var(70))}}},
		Main: []*S{Echo(Call(0), Str(" "), Call(0))}})
	add("corpus", &Prog{Main: []*S{ExprS(Set(30, List(1, 2, 3))), Foreach(Var(30), -1, 60, []*S{For([]*E{Set(j, Int(0))}, Bin("lt", Var(j), Int(1)), []*E{Inc("postinc", 60)}, []*S{ExprS(Inc("postinc", j))})}),
		Foreach(Var(30), 50, 60, []*S{Echo(Var(50), Str("="), Var(60), Str(" "))})}})
	// static locals: assignment + return, recursion
	add("corpus", &Prog{Funs: []*Fn{{Name: 0, Statics: []Static{{X: 80, Init: Int(0)}}, Body: []*S{ExprS(Set(80, Bin("add", Var(80), Int(1)))), Ret(Var(80))}}},
		Main: []*S{Echo(Call(0), Call(0), Call(0))}})
	add("corpus", &Prog{Funs: []*Fn{{Name: 0, Statics: []Static{{X: 80, Init: Int(0)}}, Body: []*S{ExprS(OpSet("add", 80, Int(1))), Ret(Var(80))}}},
		Main: []*S{Echo(Call(0), Call(0), Call(0))}})
	add("corpus", &Prog{Funs: []*Fn{{Name: 0, Params: []Param{{X: 70}}, Statics: []Static{{X: 80, Init: Int(0)}}, Body: []*S{ExprS(Inc("postinc", 80)), If(Bin("gt", Var(70), Int(0)), []*S{ExprS(Call(0, Bin("sub", Var(70), Int(1))))}, nil), Echo(Str("g"), Var(70), Str(":"), Var(80), Str(" ")), Ret(Var(80))}}},
		Main: []*S{ExprS(Call(0, Int(2))), ExprS(Call(0, Int(0)))}})
	// break outside a loop inside a function: an error, not the end of the caller's loop
	add("corpus", &Prog{Funs: []*Fn{{Name: 0, Body: []*S{Break(1), Ret(Int(0))}}},
		Main: []*S{For([]*E{Set(i, Int(0))}, Bin("lt", Var(i), Int(3)), []*E{Inc("postinc", i)}, []*S{Echo(Str("i"), Var(i), Str(" ")), ExprS(Call(0)), Echo(Str("after "))})}})
	add("corpus", &Prog{Main: []*S{Echo(Str("a")), Break(1), Echo(Str("b"))}})
	add("corpus", &Prog{Main: []*S{Echo(Str("a")), ExprS(Call(5)), Echo(Str("b"))}})
	add("corpus", &Prog{Main: []*S{Echo(Str("a")), Ret(nil), Echo(Str("b"))}})
	// defaults, recursion, early return out of nested loops
	add("corpus", &Prog{Funs: []*Fn{{Name: 0, Params: []Param{{X: 70}, {X: 71, Dflt: Int(5)}}, Statics: []Static{{X: 80, Init: Int(0)}}, Body: []*S{ExprS(Inc("postinc", 80)), Ret(Bin("add", Bin("add", Var(70), Var(71)), Var(80)))}}},
		Main: []*S{Echo(Call(0, Int(1)), Str(" "), Call(0, Int(1), Int(2)), Str(" "), Call(0, Int(1)))}})
	add("corpus", &Prog{Funs: []*Fn{{Name: 0, Params: []Param{{X: 70}}, Body: []*S{If(Bin("le", Var(70), Int(0)), []*S{Ret(Int(0))}, nil), Ret(Bin("add", Var(70), Call(0, Bin("sub", Var(70), Int(1)))))}}},
		Main: []*S{Echo(Call(0, Int(4)))}})
	add("corpus", &Prog{Funs: []*Fn{{Name: 0, Body: []*S{Foreach(List(1, 2, 3), -1, 60, []*S{While(Bool(true), []*S{If(Bin("eq", Var(60), Int(2)), []*S{Ret(Bin("cat", Str("r"), Var(60)))}, nil), Break(1)})}), Ret(Str("none"))}}},
		Main: []*S{Echo(Call(0))}})
	// the Lean negation witnesses progBreak2 / progContinue2 / progNoReturn / progTooFew, verbatim
	forUp := func(x int, n int64, body []*S) *S {
		return For([]*E{Set(x, Int(0))}, Bin("lt", Var(x), Int(n)), []*E{Inc("postinc", x)}, body)
	}
	add("known-multi", &Prog{Main: []*S{forUp(0, 2, []*S{forUp(1, 2, []*S{Break(2)}), Echo(Str("a"))})}})
	add("known-multi", &Prog{Main: []*S{forUp(0, 2, []*S{Switch(Int(1), []Case{{L: Int(1), B: []*S{Continue(2)}}}, nil), Echo(Str("a"))})}})
	// known: levels
	add("known-multi", &Prog{Main: []*S{For([]*E{Set(i, Int(0))}, Bin("lt", Var(i), Int(3)), []*E{Inc("postinc", i)}, []*S{For([]*E{Set(j, Int(0))}, Bin("lt", Var(j), Int(3)), []*E{Inc("postinc", j)}, []*S{If(Bin("eq", Var(j), Int(1)), []*S{Break(2)}, nil), Echo(Str("f"), Var(i), Var(j), Str(" "))})})}})
	add("known-multi", &Prog{Main: []*S{For([]*E{Set(i, Int(0))}, Bin("lt", Var(i), Int(3)), []*E{Inc("postinc", i)}, []*S{Switch(Var(i), []Case{{L: Int(1), B: []*S{Continue(2)}}}, []*S{Echo(Str("d"), Var(i), Str(" "))}), Echo(Str("after"), Var(i), Str(" "))})}})
	// known: a missing required argument is null, not an error
	add("known-arity", &Prog{Funs: []*Fn{{Name: 0, Params: []Param{{X: 70}, {X: 71}}, Body: []*S{Ret(Var(70))}}},
		Main: []*S{Echo(Call(0, Int(1))), Echo(Str("after"))}})
	// known: implicit return value
	add("known-noreturn", &Prog{Funs: []*Fn{{Name: 0, Body: []*S{ExprS(Set(i, Int(5)))}}}, Main: []*S{Echo(Str("["), Call(0), Str("]"))}})
	return cs
}

// ---------------------------------------------------------------- run

func Run(c *vh.Ctx) {
	debug.SetMemoryLimit(2 << 30) // the parent keeps counters, a bounded sample and the first violations only
	r := &runner{c: c, shrunk: map[string]int{}, pool: newPool(c.Workers)}
	defer r.pool.close()
	if c.ModelPath != "" {
		m, err := vh.StartModel(c.ModelPath)
		if err != nil {
			c.Note("cannot start model: %v", err)
		} else {
			r.m = m
			defer m.Close()
			c.Res.ModelUsed = true
		}
	}
	if len(c.ReplayRaw) > 0 {
		var nr struct {
			Neigh  *neighCase  `json:"neigh"`
			Place  *neighCase  `json:"place"`
			Clause *clauseCase `json:"clause"`
		}
		if json.Unmarshal(c.ReplayRaw, &nr) == nil && nr.Neigh != nil {
			judgeNeigh(r, []neighCase{*nr.Neigh})
			return
		}
		if nr.Place != nil {
			judgePlace(r, []neighCase{*nr.Place})
			return
		}
		if nr.Clause != nil {
			judgeClause(r, []clauseCase{*nr.Clause})
			return
		}
		var g gcase
		if err := json.Unmarshal(c.ReplayRaw, &g); err != nil || g.Prog == nil {
			c.Note("bad replay: %v", err)
			return
		}
		r.add(g)
		r.flush()
		return
	}
	c.Res.Rule = "a case = one program of the control-flow core, run by origami on a fresh VM, by the Go reference interpreter over the generator's AST and by the Lean model/spec driver; non-trivial = uses at least two kinds of constructs and prints something; distinct = distinct program text per stream"

	for _, g := range corpus() {
		r.add(g)
	}
	r.flush()
	nsk := 0
	for _, p := range skeletons([]int{1}) {
		if !badCaseBreak(p) { // statements behind a direct `break` in a case: rejected by the switch parser
			r.add(gcase{Prog: p, Stream: "skeleton"})
			nsk++
		}
	}
	nm := 0
	for _, p := range skeletons([]int{2}) {
		if p.MultiLevel() && !badCaseBreak(p) {
			r.add(gcase{Prog: p, Stream: "known-multi"})
			nm++
		}
	}
	r.flush()
	if !r.stopped {
		c.Res.Exhaustive = true
		c.Res.ExhaustiveWhat = fmt.Sprintf("all two-level skeletons: outer in {while,do,for,foreach,switch} x inner in {none,if,while,do,for,foreach,switch} x jump in {none,break,continue,return} x {unguarded, guarded by the counters} x {before, after the inner echo} x {main program, function body called twice}, minus those with statements behind a `break` written directly in a case body (rejected by the switch parser): %d programs with level 1, %d with level 2 (known stream)", nsk, nm)
	}
	nn := neighbourhood(r)
	if !r.stopped {
		c.Res.ExhaustiveWhat += fmt.Sprintf("; the fast-path neighbourhood of counted loops (harness-only: header shapes x what the body does to the loop variable, incl. reference alias, closure capture, array index, unset, parameter / static as loop variable): %d programs", nn)
	}
	np, pd := placement(r)
	if !r.stopped {
		c.Res.ExhaustiveWhat += fmt.Sprintf("; placements (harness-only: static single / comma list, return, break, continue, nested function declaration, yield inside every statement container — if / elseif / else, while, do-while, for, foreach, switch case / default, match-arm block, try / catch / finally — nested 1..%d deep exhaustively, deeper sampled; 5 calls incl. recursion): %d programs", pd, np)
	}
	ncl := clauses(r)
	if !r.stopped {
		c.Res.ExhaustiveWhat += fmt.Sprintf("; clause lists with repeated and loosely-equal keys (harness-only: switch over every label list of length 2..3 from {1, 2, '1', 'a', 1.0, call with effect = 1, = 2} and length 4 from {1,2,3} x every break / fall-through pattern x default or not; match over the same lists x every grouping into multi-condition arms; if / elseif chains over repeated tests with effects; conditions int, string, float, fractional float, null, true, false, each list run 12 times; every ordered pair of 24 values of every kind — null, bools, ints, floats, numeric / non-numeric strings, arrays, objects — through a switch and through `==`, which must agree with each other and with the Go statement of the comparison rule): %d programs", ncl)
	}
	// seeded programs
	n := c.N(1500, 60000)
	if v, err := strconv.Atoi(os.Getenv("C02_N")); err == nil {
		n = v
	}
	for i := 0; i < n && !r.stopped; i++ {
		if os.Getenv("C02_DEBUG") != "" {
			fmt.Fprintf(os.Stderr, "gen %d\n", i)
		}
		r.add(gcase{Prog: Generate(c.Rand, GenOpts{MaxDepth: c.Rand.Range(2, 5)}), Stream: "main"})
	}
	for i := 0; i < n/10 && !r.stopped; i++ {
		r.add(gcase{Prog: Generate(c.Rand, GenOpts{MaxDepth: c.Rand.Range(2, 4), Multi: true}), Stream: "known-multi"})
	}
	for i := 0; i < n/20 && !r.stopped; i++ {
		r.add(gcase{Prog: Generate(c.Rand, GenOpts{MaxDepth: c.Rand.Range(2, 3), NoReturn: true}), Stream: "known-noreturn"})
	}
	r.flush()
	if r.m != nil {
		c.Res.ModelLines = r.m.Lines
	}
	if os.Getenv("C02_DEBUG") != "" {
		fmt.Fprintf(os.Stderr, "[%6.1fs] run finished\n", c.Elapsed().Seconds())
	}
}
