package c02

// ref.go: the reference interpreter. It works on the generator's own AST and knows
// nothing about origami or the Lean model: PHP reference semantics of the control-flow
// core — every loop and every switch is one level for `break n` / `continue n`
// (`continue` targeting a switch behaves as `break`), switch falls through, a function
// call has its own locals, static locals are shared cells, a function that runs off its
// end returns null, a missing required argument is an error.

import (
	"strconv"
	"strings"
)

type rval struct {
	k string // int bool str null list
	i int64
	b bool
	s string
	l []int64
}

var rnull = rval{k: "null"}

func (v rval) str() string {
	switch v.k {
	case "int":
		return strconv.FormatInt(v.i, 10)
	case "str":
		return v.s
	case "bool": // origami prints true/false (C03's subject; the generator never echoes a bool)
		if v.b {
			return "true"
		}
		return "false"
	case "list":
		return "Array"
	}
	return ""
}

func (v rval) truthy() bool {
	switch v.k {
	case "int":
		return v.i != 0
	case "bool":
		return v.b
	case "str":
		return v.s != ""
	case "list":
		return len(v.l) > 0
	}
	return false
}

type refErr struct{ msg string }
type refBudget struct{}

type outcome struct {
	k string // "" normal | brk | cont | ret
	n int
	v rval
}

type frame struct {
	r       *refInterp
	vars    map[int]rval
	fn      *Fn
	statics map[int]*rval // static cells visible in this activation
}

type refInterp struct {
	prog    *Prog
	funs    map[int]*Fn
	statics map[int]map[int]*rval
	out     strings.Builder
	steps   int
	budget  int
	depth   int
	undef   bool // a variable was read before anything was assigned to it
}

func (r *refInterp) tick() {
	r.steps++
	if r.steps > r.budget {
		panic(refBudget{})
	}
}

func (f *frame) get(x int) rval {
	if c, ok := f.statics[x]; ok {
		return *c
	}
	if v, ok := f.vars[x]; ok {
		return v
	}
	if f.r != nil {
		f.r.undef = true
	}
	return rnull
}

func (f *frame) set(x int, v rval) {
	if c, ok := f.statics[x]; ok {
		*c = v
		return
	}
	f.vars[x] = v
}

func lit(e *E) rval {
	switch e.K {
	case "int":
		return rval{k: "int", i: e.I}
	case "bool":
		return rval{k: "bool", b: e.B}
	case "str":
		return rval{k: "str", s: e.S}
	case "list":
		return rval{k: "list", l: append([]int64(nil), e.L...)}
	}
	return rnull
}

func refBin(op string, a, b rval) rval {
	if a.k == "int" && b.k == "int" {
		switch op {
		case "add":
			return rval{k: "int", i: a.i + b.i}
		case "sub":
			return rval{k: "int", i: a.i - b.i}
		case "mul":
			return rval{k: "int", i: a.i * b.i}
		case "lt":
			return rval{k: "bool", b: a.i < b.i}
		case "le":
			return rval{k: "bool", b: a.i <= b.i}
		case "gt":
			return rval{k: "bool", b: a.i > b.i}
		case "ge":
			return rval{k: "bool", b: a.i >= b.i}
		case "eq":
			return rval{k: "bool", b: a.i == b.i}
		case "ne":
			return rval{k: "bool", b: a.i != b.i}
		}
	}
	if op == "cat" && (a.k == "int" || a.k == "str") && (b.k == "int" || b.k == "str") {
		s := a.str() + b.str()
		if len(s) > 4096 {
			panic(refBudget{})
		}
		return rval{k: "str", s: s}
	}
	if a.k == b.k && (a.k == "str" || a.k == "bool") {
		eq := a.s == b.s && a.b == b.b
		switch op {
		case "eq":
			return rval{k: "bool", b: eq}
		case "ne":
			return rval{k: "bool", b: !eq}
		}
	}
	panic(refErr{"operator " + op + " on " + a.k + "," + b.k})
}

func sameVal(a, b rval) bool {
	if a.k != b.k {
		return false
	}
	switch a.k {
	case "int":
		return a.i == b.i
	case "bool":
		return a.b == b.b
	case "str":
		return a.s == b.s
	case "list":
		if len(a.l) != len(b.l) {
			return false
		}
		for i := range a.l {
			if a.l[i] != b.l[i] {
				return false
			}
		}
	}
	return true
}

// refLooseEq: a switch label matches iff `cond == label` (Spec.Ctl.looseEq; data.LooseCompare == 0 in
// the code since fix C02-switch-loose-compare): equal kinds by value, null against a string as "",
// null / bool on either side → both as booleans, int against string by the int's text (the generator
// writes no numeric string labels), lists unordered against everything but null / bool.
func refLooseEq(a, b rval) bool {
	switch {
	case a.k == "list" && b.k == "list":
		return false
	case a.k == b.k:
		return sameVal(a, b)
	case a.k == "null" && b.k == "str":
		return b.s == ""
	case a.k == "str" && b.k == "null":
		return a.s == ""
	case a.k == "bool" || b.k == "bool" || a.k == "null" || b.k == "null":
		return a.truthy() == b.truthy()
	case a.k == "int" && b.k == "str":
		return strconv.FormatInt(a.i, 10) == b.s
	case a.k == "str" && b.k == "int":
		return a.s == strconv.FormatInt(b.i, 10)
	}
	return false
}

func (r *refInterp) eval(fr *frame, e *E) rval {
	r.tick()
	switch e.K {
	case "int", "bool", "str", "null", "list":
		return lit(e)
	case "var":
		return fr.get(e.X)
	case "bin":
		a := r.eval(fr, e.A)
		b := r.eval(fr, e.Bx)
		return refBin(e.Op, a, b)
	case "not":
		return rval{k: "bool", b: !r.eval(fr, e.A).truthy()}
	case "and":
		if !r.eval(fr, e.A).truthy() {
			return rval{k: "bool", b: false}
		}
		return rval{k: "bool", b: r.eval(fr, e.Bx).truthy()}
	case "or":
		if r.eval(fr, e.A).truthy() {
			return rval{k: "bool", b: true}
		}
		return rval{k: "bool", b: r.eval(fr, e.Bx).truthy()}
	case "set":
		v := r.eval(fr, e.A)
		fr.set(e.X, v)
		return v
	case "opset":
		a := fr.get(e.X)
		b := r.eval(fr, e.A)
		v := refBin(e.Op, a, b)
		fr.set(e.X, v)
		return v
	case "inc":
		old := fr.get(e.X)
		if old.k == "null" && e.Op != "predec" {
			old = rval{k: "int", i: 0}
		}
		if old.k != "int" {
			panic(refErr{"++/-- on " + old.k})
		}
		nv := old
		if e.Op == "preinc" || e.Op == "postinc" {
			nv.i++
		} else {
			nv.i--
		}
		fr.set(e.X, nv)
		if e.Op == "preinc" || e.Op == "predec" {
			return nv
		}
		return old
	case "call":
		return r.call(fr, e)
	case "match":
		v := r.eval(fr, e.A)
		for _, arm := range e.Arms {
			for _, c := range arm.Conds {
				if sameVal(v, r.eval(fr, c)) {
					return r.eval(fr, arm.R)
				}
			}
		}
		return r.eval(fr, e.D)
	}
	panic(refErr{"bad expression " + e.K})
}

func (r *refInterp) call(fr *frame, e *E) rval {
	f, ok := r.funs[e.F]
	if !ok {
		panic(refErr{"undefined function"})
	}
	args := make([]rval, len(e.Args))
	for i, a := range e.Args {
		args[i] = r.eval(fr, a)
	}
	nf := &frame{r: r, vars: map[int]rval{}, fn: f, statics: map[int]*rval{}}
	for i, p := range f.Params {
		switch {
		case i < len(args):
			nf.vars[p.X] = args[i]
		case p.Dflt != nil:
			nf.vars[p.X] = lit(p.Dflt)
		default:
			panic(refErr{"too few arguments"})
		}
	}
	cells := r.statics[f.Name]
	if cells == nil {
		cells = map[int]*rval{}
		r.statics[f.Name] = cells
	}
	for _, st := range f.Statics {
		c, ok := cells[st.X]
		if !ok {
			v := lit(st.Init)
			c = &v
			cells[st.X] = c
		}
		nf.statics[st.X] = c
	}
	r.depth++
	if r.depth > 200 {
		panic(refBudget{})
	}
	o := r.block(nf, f.Body)
	r.depth--
	switch o.k {
	case "ret":
		return o.v
	case "brk", "cont":
		panic(refErr{"break/continue outside a loop"})
	}
	return rnull
}

func (r *refInterp) block(fr *frame, ss []*S) outcome {
	for _, s := range ss {
		if o := r.stmt(fr, s); o.k != "" {
			return o
		}
	}
	return outcome{}
}

// loopExit: what a loop does with the outcome of its body; again = next iteration.
func loopExit(o outcome) (again bool, out outcome) {
	switch o.k {
	case "":
		return true, outcome{}
	case "cont":
		if o.n <= 1 {
			return true, outcome{}
		}
		return false, outcome{k: "cont", n: o.n - 1}
	case "brk":
		if o.n <= 1 {
			return false, outcome{}
		}
		return false, outcome{k: "brk", n: o.n - 1}
	}
	return false, o
}

func (r *refInterp) stmt(fr *frame, s *S) outcome {
	r.tick()
	switch s.K {
	case "echo":
		for _, e := range s.Es {
			v := r.eval(fr, e)
			r.out.WriteString(v.str())
			if r.out.Len() > 128<<10 {
				panic(refBudget{})
			}
		}
	case "expr":
		r.eval(fr, s.E)
	case "if":
		if r.eval(fr, s.E).truthy() {
			return r.block(fr, s.Then)
		}
		for _, el := range s.Elifs {
			if r.eval(fr, el.C).truthy() {
				return r.block(fr, el.B)
			}
		}
		return r.block(fr, s.Else)
	case "while":
		for r.eval(fr, s.E).truthy() {
			again, o := loopExit(r.block(fr, s.Body))
			if !again {
				return o
			}
		}
	case "do":
		for {
			again, o := loopExit(r.block(fr, s.Body))
			if !again {
				return o
			}
			if !r.eval(fr, s.E).truthy() {
				break
			}
		}
	case "for":
		for _, e := range s.Inits {
			r.eval(fr, e)
		}
		for r.eval(fr, s.E).truthy() {
			again, o := loopExit(r.block(fr, s.Body))
			if !again {
				return o
			}
			for _, e := range s.Incs {
				r.eval(fr, e)
			}
		}
	case "foreach":
		v := r.eval(fr, s.E)
		if v.k == "null" {
			return outcome{}
		}
		if v.k != "list" {
			panic(refErr{"foreach over " + v.k})
		}
		for i, x := range v.l {
			fr.set(s.VVar, rval{k: "int", i: x})
			if s.KVar >= 0 {
				fr.set(s.KVar, rval{k: "int", i: int64(i)})
			}
			again, o := loopExit(r.block(fr, s.Body))
			if !again {
				return o
			}
		}
	case "switch":
		v := r.eval(fr, s.E)
		start := -1
		for i, c := range s.Cases {
			l := r.eval(fr, c.L)
			if refLooseEq(v, l) {
				start = i
				break
			}
		}
		var bodies [][]*S
		if start >= 0 {
			for _, c := range s.Cases[start:] {
				bodies = append(bodies, c.B)
			}
		}
		bodies = append(bodies, s.Dflt)
		for _, b := range bodies {
			o := r.block(fr, b)
			switch o.k {
			case "":
				continue
			case "brk", "cont": // inside a switch `continue` is `break`
				if o.n <= 1 {
					return outcome{}
				}
				return outcome{k: o.k, n: o.n - 1}
			}
			return o
		}
	case "break":
		if s.N < 1 {
			panic(refErr{"break 0"})
		}
		return outcome{k: "brk", n: s.N}
	case "continue":
		if s.N < 1 {
			panic(refErr{"continue 0"})
		}
		return outcome{k: "cont", n: s.N}
	case "ret":
		if s.E == nil {
			return outcome{k: "ret", v: rnull}
		}
		return outcome{k: "ret", v: r.eval(fr, s.E)}
	}
	return outcome{}
}

// RefResult is what the reference semantics prescribe.
type RefResult struct {
	Out    string
	Status string // done | error | budget
	Steps  int
	Undef  bool // the run read a variable nothing had been assigned to (outside the typed core)
}

// RunRef runs the reference interpreter with a step budget.
func RunRef(p *Prog, budget int) (res RefResult) {
	r := &refInterp{prog: p, funs: map[int]*Fn{}, statics: map[int]map[int]*rval{}, budget: budget}
	for i := len(p.Funs) - 1; i >= 0; i-- {
		r.funs[p.Funs[i].Name] = p.Funs[i]
	}
	defer func() {
		res.Out = r.out.String()
		res.Steps = r.steps
		res.Undef = r.undef
		if x := recover(); x != nil {
			switch x.(type) {
			case refErr:
				res.Status = "error"
			case refBudget:
				res.Status = "budget"
			default:
				panic(x)
			}
		}
	}()
	fr := &frame{r: r, vars: map[int]rval{}, statics: map[int]*rval{}}
	o := r.block(fr, p.Main)
	res.Status = "done"
	if o.k == "brk" || o.k == "cont" {
		res.Status = "error"
	}
	return
}
