package c02

// nodes.go: prints the node tree origami's parser builds for a source text in the same
// notation as `vm_c02 nodes` prints `Model.Ctl.compile` — ties the variable indexes of
// parser/scope_manager.go and the fused-node selection of node/fused_assign.go,
// node/binary_assign.go, node/binary_le.go, node/postfix_incr.go, node/for.go to the model.

import (
	"fmt"
	"reflect"
	"strconv"
	"strings"

	"github.com/php-any/origami/data"
	"github.com/php-any/origami/node"
	"github.com/php-any/origami/parser"
)

var binNames = map[string]string{
	"BinaryAdd": "add", "BinarySub": "sub", "BinaryMul": "mul", "BinaryLt": "lt", "BinaryLe": "le",
	"BinaryGt": "gt", "BinaryGe": "ge", "BinaryEq": "eq", "BinaryNe": "ne", "BinaryDot": "cat",
}

type dumper struct {
	tag string // function name prefix to strip
	bad []string
}

func (d *dumper) unknown(x any) string {
	s := fmt.Sprintf("?%T", x)
	d.bad = append(d.bad, s)
	return s
}

func dumpVal(v data.Value) string {
	switch x := v.(type) {
	case *data.IntValue:
		return "int:" + strconv.Itoa(x.Value)
	case *data.BoolValue:
		if x.Value {
			return "bool:1"
		}
		return "bool:0"
	case *data.StringValue:
		return "str:" + x.Value
	case *data.NullValue:
		return "null"
	}
	return fmt.Sprintf("?%T", v)
}

// litOf: a literal node as a model value text, "" if n is not a literal.
func litOf(n data.GetValue) string {
	switch x := n.(type) {
	case *node.IntLiteral:
		return dumpVal(x.V)
	case *node.BooleanLiteral:
		if x.Value {
			return "bool:1"
		}
		return "bool:0"
	case *node.StringLiteral:
		return "str:" + x.Value
	case *node.NullLiteral:
		return "null"
	case *node.Array:
		if len(x.Keys) > 0 {
			return ""
		}
		parts := make([]string, len(x.V))
		for i, e := range x.V {
			il, ok := e.(*node.IntLiteral)
			if !ok {
				return ""
			}
			iv, ok := il.V.(*data.IntValue)
			if !ok {
				return ""
			}
			parts[i] = strconv.Itoa(iv.Value)
		}
		return "list:" + strings.Join(parts, ",")
	}
	return ""
}

func opnd(idx, lit int) string {
	switch {
	case idx >= 0:
		return "slot:" + strconv.Itoa(idx)
	case idx == -1:
		return "lit:" + strconv.Itoa(lit)
	}
	return "complex"
}

func (d *dumper) fn(name string) string {
	name = strings.TrimPrefix(name, "\\")
	return strings.TrimPrefix(name, "f"+d.tag+"_")
}

func (d *dumper) expr(n data.GetValue) string {
	if l := litOf(n); l != "" {
		return "Lit(" + l + ")"
	}
	switch x := n.(type) {
	case *node.VariableExpression:
		return "Var(" + strconv.Itoa(x.Index) + ")"
	case *node.VarIntLe:
		return fmt.Sprintf("VarIntLe(%d,%d,%s)", x.VarIdx, x.Lit, d.expr(x.Le))
	case *node.UnaryExpression:
		if x.Operator == "!" {
			return "Not(" + d.expr(x.Right) + ")"
		}
	case *node.BinaryLand:
		return "And(" + d.expr(x.Left) + "," + d.expr(x.Right) + ")"
	case *node.BinaryLor:
		return "Or(" + d.expr(x.Left) + "," + d.expr(x.Right) + ")"
	case *node.BinaryAssignVariable:
		if v, ok := x.Left.(*node.VariableExpression); ok {
			return "AssignVar(" + strconv.Itoa(v.Index) + "," + d.expr(x.Right) + ")"
		}
	case *node.VarFastAssign:
		op := reflect.ValueOf(x).Elem().FieldByName("op").Uint()
		opName := []string{"copy", "mul", "add"}[op]
		r := "-"
		if opName != "copy" {
			r = opnd(x.RhsIdx, x.RhsLit)
		}
		if x.Dst == nil || x.Dst.Index != x.DstIdx {
			d.bad = append(d.bad, "VarFastAssign.Dst/DstIdx disagree")
		}
		return fmt.Sprintf("FastAssign(%s,%d,%s,%s,%s)", opName, x.DstIdx, opnd(x.LhsIdx, x.LhsLit), r, d.expr(x.Slow))
	case *node.VarPostIncr:
		if fb, ok := x.Fallback.Left.(*node.VariableExpression); !ok || fb.Index != x.VarIdx {
			d.bad = append(d.bad, "VarPostIncr fallback on another variable")
		}
		return "PostIncr(" + strconv.Itoa(x.VarIdx) + ")"
	case *node.VarPostDecr:
		if fb, ok := x.Fallback.Left.(*node.VariableExpression); !ok || fb.Index != x.VarIdx {
			d.bad = append(d.bad, "VarPostDecr fallback on another variable")
		}
		return "PostDecr(" + strconv.Itoa(x.VarIdx) + ")"
	case *node.VarStmtIncr:
		if fb, ok := x.Fallback.Left.(*node.VariableExpression); !ok || fb.Index != x.VarIdx {
			d.bad = append(d.bad, "VarStmtIncr fallback on another variable")
		}
		return "StmtIncr(" + strconv.Itoa(x.VarIdx) + ")"
	case *node.UnaryIncr:
		if v, ok := x.Right.(*node.VariableExpression); ok {
			return "PreIncr(" + strconv.Itoa(v.Index) + ")"
		}
	case *node.UnaryDecr:
		if v, ok := x.Right.(*node.VariableExpression); ok {
			return "PreDecr(" + strconv.Itoa(v.Index) + ")"
		}
	case *node.CallLater:
		return d.call(x.CallExpression)
	case *node.CallExpression:
		return d.call(x)
	case *node.MatchStatement:
		var sb strings.Builder
		sb.WriteString("Match(" + d.expr(x.Condition))
		for _, arm := range x.Arms {
			if arm.Expression == nil {
				d.bad = append(d.bad, "match arm with a block")
				continue
			}
			for _, c := range arm.Conditions {
				sb.WriteString(";" + d.expr(c) + "=>" + d.expr(arm.Expression))
			}
		}
		if len(x.Default) == 1 {
			sb.WriteString(";default=>" + d.expr(x.Default[0]) + ")")
		} else {
			sb.WriteString(";default=>?)")
			d.bad = append(d.bad, "match default shape")
		}
		return sb.String()
	}
	// the plain binary operators: one struct per operator with Left/Right
	t := reflect.TypeOf(n)
	if t != nil && t.Kind() == reflect.Ptr {
		if op, ok := binNames[t.Elem().Name()]; ok {
			v := reflect.ValueOf(n).Elem()
			l, _ := v.FieldByName("Left").Interface().(data.GetValue)
			r, _ := v.FieldByName("Right").Interface().(data.GetValue)
			return "Bin(" + op + "," + d.expr(l) + "," + d.expr(r) + ")"
		}
	}
	return d.unknown(n)
}

func (d *dumper) call(x *node.CallExpression) string {
	var sb strings.Builder
	sb.WriteString("Call(" + d.fn(x.FunName))
	for _, a := range x.Args {
		sb.WriteString("," + d.expr(a))
	}
	sb.WriteString(")")
	return sb.String()
}

func (d *dumper) args(es []data.GetValue) string {
	var sb strings.Builder
	for _, e := range es {
		sb.WriteString("," + d.expr(e))
	}
	return sb.String()
}

func (d *dumper) block(ss []data.GetValue) string {
	var sb strings.Builder
	sb.WriteString("{")
	for i := 0; i < len(ss); i++ {
		sb.WriteString(d.stmt(ss[i]) + ";")
		// `continue n` is parsed as `continue; n;`: the literal statement behind a Continue can
		// never run, the model does not have it
		if _, ok := ss[i].(*node.ContinueStatement); ok && i+1 < len(ss) {
			if _, lit := ss[i+1].(*node.IntLiteral); lit {
				i++
			}
		}
	}
	sb.WriteString("}")
	return sb.String()
}

func (d *dumper) stmt(n data.GetValue) string {
	switch x := n.(type) {
	case *node.EchoStatement:
		return "Echo(" + d.args(x.Expressions) + ")"
	case *node.IfStatement:
		var sb strings.Builder
		sb.WriteString("If(" + d.expr(x.Condition) + d.block(x.ThenBranch))
		for _, el := range x.ElseIf {
			sb.WriteString("elif(" + d.expr(el.Condition) + ")" + d.block(el.ThenBranch))
		}
		sb.WriteString("else" + d.block(x.ElseBranch) + ")")
		return sb.String()
	case *node.WhileStatement:
		return "While(" + d.expr(x.Condition) + d.block(x.Body) + ")"
	case *node.DoWhileStatement:
		return "Do(" + d.block(x.Body) + d.expr(x.Condition) + ")"
	case *node.ForStatement:
		return "For(" + d.args(x.Initializers) + ";" + d.expr(x.Condition) + ";" + d.args(x.Increments) + d.block(x.Body) + ")"
	case *node.ForeachStatement:
		k := "-"
		if x.Key != nil {
			k = strconv.Itoa(x.Key.GetIndex())
		}
		return "Foreach(" + d.expr(x.Array) + "," + k + "," + strconv.Itoa(x.Value.GetIndex()) + d.block(x.Body) + ")"
	case *node.SwitchStatement:
		var sb strings.Builder
		sb.WriteString("Switch(" + d.expr(x.Condition))
		for _, c := range x.Cases {
			sb.WriteString("case(" + d.expr(c.CaseValue) + ")" + d.block(c.Statements))
		}
		sb.WriteString("default" + d.block(x.DefaultCase) + ")")
		return sb.String()
	case *node.BreakStatement:
		return "Break(" + strconv.Itoa(x.Level) + ")"
	case *node.ContinueStatement:
		return "Continue"
	case *node.ReturnStatement:
		if x.Value == nil {
			return "Return()"
		}
		return "Return(" + d.expr(x.Value) + ")"
	}
	return d.expr(n)
}

func (d *dumper) function(f *node.FunctionStatement) string {
	var ps []string
	for _, p := range f.Params {
		pa, ok := p.(*node.Parameter)
		if !ok {
			ps = append(ps, d.unknown(p))
			continue
		}
		s := strconv.Itoa(pa.Index)
		if pa.DefaultValue != nil {
			s += "=" + litOf(pa.DefaultValue)
		}
		ps = append(ps, s)
	}
	body := f.Body
	var ss []string
	for len(body) > 0 {
		st, ok := body[0].(*node.StaticVarStatement)
		if !ok {
			break
		}
		ss = append(ss, strconv.Itoa(st.Var.GetIndex())+"="+litOf(st.Initializer))
		body = body[1:]
	}
	return fmt.Sprintf("Function(%s;params=%s;nvars=%d;statics=%s;body=%s)", d.fn(f.Name), strings.Join(ps, ","), len(f.GetVariables()), strings.Join(ss, ","), d.block(body))
}

// DumpNodes parses src with origami's parser and prints the tree; problems = node kinds
// outside the modelled core.
func DumpNodes(p *parser.Parser, src, tag string) (text string, problems []string, err string) {
	defer func() {
		if r := recover(); r != nil {
			err = fmt.Sprint("panic: ", r)
		}
	}()
	pp := p.Clone()
	prog, acl := pp.ParseString(src, "/verif-c02.php")
	if acl != nil {
		return "", nil, "parse-error: " + acl.AsString()
	}
	d := &dumper{tag: tag}
	var funs []string
	var main []data.GetValue
	for _, st := range prog.Statements {
		if f, ok := st.(*node.FunctionStatement); ok {
			funs = append(funs, d.function(f))
		} else {
			main = append(main, st)
		}
	}
	text = strings.Join(funs, " ") + fmt.Sprintf(" Main(nvars=%d;body=%s)", len(pp.GetVariables()), d.block(main))
	return text, d.bad, ""
}
