import Model.Frag
/-!
# Spec.Frag — the line of a position in the source, as C18 states it for every token:
the line of the token that contains it plus the number of `\n` BYTES between the token's first
byte and the position.
-/
namespace Spec.Frag

/-- line of byte offset `off` of `text`, when `text` starts on line `line0` -/
def lineAt (text : List Nat) (off : Nat) (line0 : Nat) : Nat := line0 + (text.take off).count 10

/-- byte offset, in `string(runes)`, of the rune with index `k` -/
def byteOffset (runes : List Nat) (k : Nat) : Nat := (Model.Frag.encode (runes.take k)).length

end Spec.Frag
