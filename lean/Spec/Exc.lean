import Model.Exc
import Spec.Hier
/-!
C05 — PHP's rules for `throw` / `try` / `catch` / `finally`, written from the manual, not from `node/try.go`:

* a thrown object unwinds to the innermost enclosing `try`; its `catch` clauses are examined **in source order**
  and the first one naming the object's class, an ancestor or an implemented interface (any member of `A | B`)
  runs, with the variable bound to **that same object**; with no such clause the object goes on to the next
  enclosing `try`, then out of the function, then out of the script;
* the `finally` block of a `try` that was entered runs **exactly once** when control leaves the `try`/`catch`
  part, whichever way: end of block, `return`, `break`, `continue`, a throw nobody caught here, a throw out of a
  `catch` body. What was pending (the return value, the exception, the jump) is resumed afterwards — unless the
  `finally` block itself returns, throws or jumps, which **replaces** what was pending;
* `throw $e` in a `catch` rethrows the same object;
* a failure of the host (a Go panic inside the interpreter) inside a `try` is a class-less throwable that only
  `Throwable` / `Exception` / `Error` clauses catch; outside any `try` it ends the process;
* a function call runs the function's body in a **new activation**: its own parameter `$n`, no catch variable; what
  the caller has pending (a return value held over a `finally` block, a caught object, a loop) belongs to the caller's
  activation and is out of the callee's reach, also when the callee is the same function.

The subtype test is a parameter (`Rules.sub`): any decision procedure for the declared hierarchy
(`Spec.Hier.IsA`, C08) will do. Handlers are a list of (types, continuation); selection is `pick`.
-/
namespace Spec.Exc
open Model.Hier (Name Cls Graph getClass throwableName exceptionName errorName)
open Model.Exc (Thrown Out Ev Res Stmt Block Catches Act Prog tag)

structure Rules where
  sub : Thrown → Name → Bool        -- is the thrown value an instance of the named type
  newObj : Name → Nat → Thrown      -- what `throw new K("s<site>")` throws

/-- the declared subtype relation on thrown values -/
def TypeOk (G : Graph) : Thrown → Name → Prop
  | .obj n _, ty => ∃ c, getClass G n = some c ∧ Spec.Hier.IsA G c ty
  | .internal, ty => ty = throwableName ∨ ty = exceptionName ∨ ty = errorName

/-- `R` decides the hierarchy `G` -/
structure Rules.Decides (R : Rules) (G : Graph) : Prop where
  sub : ∀ t ty, R.sub t ty = true ↔ TypeOk G t ty
  newObj : ∀ cls site, R.newObj cls site = Model.Exc.thrownNew G cls site

/-- a host failure is seen by the script as a class-less throwable -/
def raise : Out → Out
  | .panic => .thr .internal
  | o => o

abbrev Handler := Nat → Thrown → List Ev → Res

/-- what the caller sees of a call that came back with `r`: the value of a `return` (or none), printed; anything
else the callee let out is now pending in the caller -/
def returned (r : Res) : Res :=
  match r.1 with
  | .ret v => (.normal, r.2 ++ [.result (some v)])
  | .normal => (.normal, r.2 ++ [.result none])
  | _ => r

/-- first clause, in source order, one of whose types the thrown value is an instance of; `k` counts clauses -/
def pick (sub : Thrown → Name → Bool) (t : Thrown) : List (List Name × Handler) → Nat → Option (Nat × Handler)
  | [], _ => none
  | (tys, h) :: rest, k => if tys.any (sub t) then some (k, h) else pick sub t rest (k+1)

def iterate (step : List Ev → Res) : Nat → List Ev → Res
  | 0, tr => (.normal, tr)
  | k+1, tr =>
    let r := step tr
    match r.1 with
    | .normal => iterate step k r.2
    | .cont => iterate step k r.2
    | .brk => (.normal, r.2)
    | _ => r

/-- what is pending after the try/catch part -/
def afterCatch (sub : Thrown → Name → Bool) (hs : List (List Name × Handler)) (b : Res) : Res :=
  match raise b.1 with
  | .thr t =>
    match pick sub t hs 0 with
    | some (k, h) => let r := h k t b.2; (raise r.1, r.2)
    | none => (.thr t, b.2)
  | o => (o, b.2)

/-- the finally block ran with result `f`: what it did replaces what was pending, unless it completed normally -/
def resume (pending : Out) (f : Res) : Res :=
  (if raise f.1 = .normal then pending else raise f.1, f.2)

mutual
def exec (R : Rules) (cur : Option Thrown) (A : Act) : Stmt → List Ev → Res
  | .echo m, tr => (.normal, tr ++ [.echo A.lvl m])
  | .throw cls site, tr => (.thr (R.newObj cls (tag A.lvl site)), tr)
  | .rethrow, tr => (.thr (cur.getD .internal), tr)
  | .gopanic, tr => (.panic, tr)
  | .ret v, tr => (.ret (tag A.lvl v), tr)
  | .brk, tr => (.brk, tr)
  | .cont, tr => (.cont, tr)
  | .loop k body, tr => iterate (fun t => execB R cur A body t) k tr
  | .call body, tr => returned (execB R none A body tr)
  | .callf k, tr => if A.lvl = 0 then (.normal, tr) else returned (A.env k tr)
  | .try_ i body cs hasFin fin, tr =>
    let pending := afterCatch R.sub (handlers R A i cs) (execB R cur A body (tr ++ [.enterTry A.lvl i]))
    if hasFin then resume pending.1 (execB R cur A fin (pending.2 ++ [.enterFinally A.lvl i]))
    else pending
def execB (R : Rules) (cur : Option Thrown) (A : Act) : Block → List Ev → Res
  | .nil, tr => (.normal, tr)
  | .cons s rest, tr =>
    let r := exec R cur A s tr
    if r.1 = .normal then execB R cur A rest r.2 else r
def handlers (R : Rules) (A : Act) (i : Nat) : Catches → List (List Name × Handler)
  | .nil => []
  | .cons tys body rest =>
    (tys, fun k t tr => execB R (some t) A body (tr ++ [.caught A.lvl i k t])) :: handlers R A i rest
end

/-- a call of named function `k` from an activation with `$n = n`: a new activation with `$n = n - 1` -/
def envAt (R : Rules) (fns : List Block) : Nat → Nat → List Ev → Res
  | 0, _, tr => (.normal, tr)
  | n+1, k, tr =>
    match fns[k]? with
    | some b => execB R none ⟨n, envAt R fns n⟩ b tr
    | none => (.thr .internal, tr)

def run (R : Rules) (p : Prog) : Model.Exc.Final × List Ev :=
  let r := execB R none ⟨p.depth, envAt R p.fns p.depth⟩ p.main []
  (Model.Exc.final r.1, r.2)

/-- the catch variable holds the thrown object itself -/
def boundValue (t : Thrown) : Model.Exc.Bound := .object t

/-! ### the clause PHP selects, as a relation on the syntax (used to state `C05_first_match`) -/

def ClauseOk (G : Graph) (t : Thrown) (tys : List Name) : Prop := ∃ ty ∈ tys, TypeOk G t ty

/-- `FirstMatch G t cs k₀ k body`: counting the clauses of `cs` from `k₀`, clause `k` with body `body` is the first
whose type list contains a type of `t` -/
inductive FirstMatch (G : Graph) (t : Thrown) : Catches → Nat → Nat → Block → Prop
  | here {tys body rest k₀} : ClauseOk G t tys → FirstMatch G t (.cons tys body rest) k₀ k₀ body
  | later {tys b rest k₀ k body} : ¬ ClauseOk G t tys → FirstMatch G t rest (k₀+1) k body →
      FirstMatch G t (.cons tys b rest) k₀ k body

def NoMatch (G : Graph) (t : Thrown) : Catches → Prop
  | .nil => True
  | .cons tys _ rest => ¬ ClauseOk G t tys ∧ NoMatch G t rest

/-! ### an executable subtype test for the driver's `spec` command (closure of the declared edges) -/

def superStep (G : Graph) (ns : List Name) : List Name :=
  ns.foldl (fun acc n =>
    let a := match getClass G n with
             | some c => c.ext.toList ++ c.impl
             | none => []
    let b := match Model.Hier.getIface G n with
             | some d => d.ext
             | none => []
    (a ++ b).foldl (fun acc x => if acc.contains x then acc else acc ++ [x]) acc) ns

def supers (G : Graph) (c : Cls) : List Name :=
  let start := [c.name] ++ c.ext.toList ++ c.impl
  (List.range (G.classes.length + G.ifaces.length + 1)).foldl (fun acc _ => superStep G acc) start

/-- every declared class that is an `Exception` (or an `Error`) is a `Throwable` (std declares
`Exception implements Throwable`); makes the `Throwable` fallback of `catchTypeMatches` harmless (C08) -/
def ThrowableRooted (G : Graph) : Prop := ∀ n c, getClass G n = some c → Spec.Hier.ThrowableOK G c

def subByClosure (G : Graph) : Thrown → Name → Bool
  | .obj n _, ty =>
    match getClass G n with
    | some c => (supers G c).contains ty
    | none => false
  | .internal, ty => ty == throwableName || ty == exceptionName || ty == errorName

def rulesOf (G : Graph) : Rules := ⟨subByClosure G, Model.Exc.thrownNew G⟩

/-! ### vocabulary for "finally exactly once" -/

mutual
/-- a `try` numbered `i` occurs in the statement -/
def mentionsS (i : Nat) : Stmt → Bool
  | .loop _ b => mentionsB i b
  | .call b => mentionsB i b
  | .try_ j b cs _ fin => j == i || mentionsB i b || mentionsC i cs || mentionsB i fin
  | _ => false
def mentionsB (i : Nat) : Block → Bool
  | .nil => false
  | .cons s r => mentionsS i s || mentionsB i r
def mentionsC (i : Nat) : Catches → Bool
  | .nil => false
  | .cons _ b r => mentionsB i b || mentionsC i r
end

mutual
/-- every `try` numbered `i` has a `finally` block and does not contain another `try` numbered `i`
(numbers identify `try` statements: the generator gives every `try` its own) -/
def goodS (i : Nat) : Stmt → Bool
  | .loop _ b => goodB i b
  | .call b => goodB i b
  | .try_ j b cs hasFin fin =>
    (if j == i then hasFin && !mentionsB i b && !mentionsC i cs && !mentionsB i fin else true)
      && goodB i b && goodC i cs && goodB i fin
  | _ => true
def goodB (i : Nat) : Block → Bool
  | .nil => true
  | .cons s r => goodS i s && goodB i r
def goodC (i : Nat) : Catches → Bool
  | .nil => true
  | .cons _ b r => goodB i b && goodC i r
end

def mentionsP (i : Nat) (p : Prog) : Bool := mentionsB i p.main || p.fns.any (mentionsB i)
def goodP (i : Nat) (p : Prog) : Bool := goodB i p.main && p.fns.all (goodB i)

/-- the events of try `i` executed by an activation with `$n = L` -/
def isTryEv (L i : Nat) : Ev → Bool
  | .enterTry a j => a == L && j == i
  | .enterFinally a j => a == L && j == i
  | _ => false

/-- the events of try `i` at level `L` in a trace, in order -/
def proj (L i : Nat) (tr : List Ev) : List Ev := tr.filter (isTryEv L i)

/-- `enterTry L i, enterFinally L i` repeated: every entry into try `i` by an activation of level `L` is followed by
exactly one entry into its finally block by that activation before the next such entry (or the end) -/
def Alternates (L i : Nat) (l : List Ev) : Prop :=
  ∃ n, l = (List.replicate n [Ev.enterTry L i, Ev.enterFinally L i]).flatten

end Spec.Exc
