import Model.ReqLimit
/-!
# Spec.ReqLimit — what a handler author relies on for limits (C11)

Whether a call is refused for being too deep depends on how deep *this request* is: a call is
refused iff the frames the request itself holds of the kinds the limit counts, the one being
entered included, exceed the limit.  No other request, schedule or counter exists in this
definition.
-/
namespace Spec.ReqLimit
open Model.ReqLimit

structure Limit where
  counts : List Callee
  max    : Nat

def go (lim : Callee → Option Limit) : List Step → List Callee → Outcome → Outcome
  | [], _, out => out
  | .enter k :: rest, st, out =>
    match lim k with
    | none => go lim rest (k :: st) out
    | some l =>
      let own := (st.filter (fun j => l.counts.contains j)).length + (if l.counts.contains k then 1 else 0)
      if own > l.max then .refused own else go lim rest (k :: st) out
  | .leave :: rest, st, out => go lim rest st.tail out
  | .gate :: rest, st, out => go lim rest st out
  | .write :: rest, st, _ => go lim rest st .ok

/-- the limits a guard table enforces per request -/
def limitsOf (g : Guards) : Callee → Option Limit := fun k =>
  match g k with
  | some gd => if gd.on = .own then some ⟨gd.ownCounts, gd.ownLimit⟩ else none
  | none => none

/-- the response the request alone determines -/
def respond (g : Guards) (prog : List Step) : Outcome := go (limitsOf g) prog [] .running

end Spec.ReqLimit
