/-
C15 — what docs/array_methods.md promises: "these methods follow the Node.js
naming and signature style".  Each function below is the documented behaviour,
written from the documentation and, where it is silent, from
`Array.prototype.*` (ECMA-262 §23.1.3): relative indexes (`k < 0 ↦ max(len+k,0)`,
else `min(k,len)`), clamped counts, variadic items, `flat` depth default 1,
callbacks invoked as `(element, index, array)`.

Documented deviations from JavaScript that the spec follows (notes 5 and 6 of
the document): elements are compared and ordered through their string form
(`AsString()`), so `indexOf`/`includes`/`sort`/`join` use `asString`; `find`
answers `null` where JavaScript answers `undefined`.  The language has no
`undefined`: an optional argument that is omitted and one that is an explicit
`null` are the same thing ("not given"), as for every optional parameter of
the language.  `reduce` of an empty array without initial value (a TypeError
in JavaScript, unspecified in the document) is `null`.

The spec is phrased over the receiver's element list and typed optional
arguments; `Binds` relates a raw argument list to them.  Every function
returns the value **and** the receiver afterwards: note 3 of the document
(push, pop, shift, unshift, splice, reverse, sort change the receiver) and
note 4 (all others leave it alone) are part of the spec.
-/
import Model.Meth
namespace Spec.Js
open Model.Meth (Val Out asString)

/-- argument `i` of a call read as an optional integer: omitted or `null` → not given -/
def Binds (args : List Val) (i : Nat) (o : Option Int) : Prop :=
  match args[i]? with
  | none => o = none
  | some .null => o = none
  | some (.int n) => o = some n
  | some _ => False

/-- argument `i` read as an optional value of any kind -/
def BindsVal (args : List Val) (i : Nat) (o : Option Val) : Prop :=
  match args[i]? with
  | none => o = none
  | some .null => o = none
  | some v => o = some v

/-- relative index → position in `0..len` -/
def rel (len : Nat) (k : Int) : Nat :=
  if k < 0 then (len + k).toNat else min k.toNat len

def push (xs items : List Val) : Out := ⟨.int (xs.length + items.length), xs ++ items⟩

def unshift (xs items : List Val) : Out := ⟨.int (items.length + xs.length), items ++ xs⟩

def pop (xs : List Val) : Out :=
  match xs.getLast? with
  | none => ⟨.null, []⟩
  | some v => ⟨v, xs.dropLast⟩

def shift (xs : List Val) : Out :=
  match xs.head? with
  | none => ⟨.null, []⟩
  | some v => ⟨v, xs.tail⟩

/-- the half-open index range `[a, b)` of `xs` (empty when `b ≤ a`) -/
def range (xs : List Val) (a b : Nat) : List Val := (xs.take b).drop a

def slice (xs : List Val) (start stop : Option Int) : Out :=
  let a := rel xs.length (start.getD 0)
  let b := match stop with
    | none => xs.length
    | some e => rel xs.length e
  ⟨.list (range xs a b), xs⟩

def splice (xs : List Val) (start deleteCount : Option Int) (items : List Val) : Out :=
  let a := rel xs.length (start.getD 0)
  let n := match deleteCount with
    | none => xs.length - a
    | some d => min d.toNat (xs.length - a)
  ⟨.list (range xs a (a + n)), xs.take a ++ items ++ xs.drop (a + n)⟩

/-- `concat` spreads array items one level -/
def spreadable : Val → List Val
  | .list l => l
  | v => [v]

def concat (xs items : List Val) : Out := ⟨.list (xs ++ items.flatMap spreadable), xs⟩

/-- the strings with the separator between neighbours -/
def joinWith (sep : String) : List String → String
  | [] => ""
  | [a] => a
  | a :: b :: r => a ++ sep ++ joinWith sep (b :: r)

def join (xs : List Val) (sep : Option Val) : Out :=
  let s := match sep with
    | none => ","
    | some v => asString v
  ⟨.str (joinWith s (xs.map asString)), xs⟩

def reverse (xs : List Val) : Out := ⟨.list xs.reverse, xs.reverse⟩

/-- `ys` is *the* sort of `xs` in the documented order: ascending by string
form, and elements with the same string form keep their relative order
(ECMA-262 requires `sort` to be stable). The second clause also makes `ys` a
rearrangement of `xs`. -/
def IsSortOf (xs ys : List Val) : Prop :=
  ys.Pairwise (fun a b => ¬ asString b < asString a) ∧
  ∀ k : String, ys.filter (fun v => asString v == k) = xs.filter (fun v => asString v == k)

/-- first position `≥ from` whose element has the same string form -/
def firstMatch (xs : List Val) (key : Val) (fromIndex : Option Int) : Option Nat :=
  let k := rel xs.length (fromIndex.getD 0)
  ((xs.zipIdx).drop k).find? (fun p => asString p.1 == asString key) |>.map (·.2)

def indexOf (xs : List Val) (key : Val) (fromIndex : Option Int) : Out :=
  match firstMatch xs key fromIndex with
  | some i => ⟨.int i, xs⟩
  | none => ⟨.int (-1), xs⟩

def includes (xs : List Val) (key : Val) (fromIndex : Option Int) : Out :=
  ⟨.bool ((xs.drop (rel xs.length (fromIndex.getD 0))).any (fun v => asString v == asString key)), xs⟩

/-- FlattenIntoArray -/
def flatDepth : Nat → List Val → List Val
  | 0, xs => xs
  | d + 1, xs => xs.flatMap (fun v => match v with
      | .list l => flatDepth d l
      | v => [v])

def flat (xs : List Val) (depth : Option Int) : Out :=
  ⟨.list (flatDepth (depth.getD 1).toNat xs), xs⟩

def length (xs : List Val) : Out := ⟨.int xs.length, xs⟩

/-! callbacks: `(element, index, array)`; `xs.zipIdx` pairs every element with its
index, `p.1` is the element and `p.2` the index -/
abbrev Cb := Val → Int → List Val → Val
abbrev Pred := Val → Int → List Val → Bool
abbrev Cb4 := Val → Val → Int → List Val → Val

/-- the invocations a full iteration makes, in order -/
def calls (xs : List Val) : List Model.Meth.CallEv :=
  xs.zipIdx.map (fun p => ⟨p.1, p.2, xs⟩)

def forEach (xs : List Val) : Out := ⟨.null, xs⟩

def map (xs : List Val) (f : Cb) : Out :=
  ⟨.list (xs.zipIdx.map (fun p => f p.1 p.2 xs)), xs⟩

def filter (xs : List Val) (p : Pred) : Out :=
  ⟨.list ((xs.zipIdx.filter (fun q => p q.1 q.2 xs)).map (·.1)), xs⟩

def find (xs : List Val) (p : Pred) : Out :=
  match xs.zipIdx.find? (fun q => p q.1 q.2 xs) with
  | some q => ⟨q.1, xs⟩
  | none => ⟨.null, xs⟩

def findIndex (xs : List Val) (p : Pred) : Out :=
  match xs.zipIdx.find? (fun q => p q.1 q.2 xs) with
  | some q => ⟨.int q.2, xs⟩
  | none => ⟨.int (-1), xs⟩

def every (xs : List Val) (p : Pred) : Out :=
  ⟨.bool (xs.zipIdx.all (fun q => p q.1 q.2 xs)), xs⟩

def someP (xs : List Val) (p : Pred) : Out :=
  ⟨.bool (xs.zipIdx.any (fun q => p q.1 q.2 xs)), xs⟩

def flatMap (xs : List Val) (f : Cb) : Out :=
  ⟨.list (xs.zipIdx.flatMap (fun p => spreadable (f p.1 p.2 xs))), xs⟩

def reduce (xs : List Val) (f : Cb4) (init : Option Val) : Out :=
  match init, xs with
  | some a, _ => ⟨xs.zipIdx.foldl (fun acc p => f acc p.1 p.2 xs) a, xs⟩
  | none, [] => ⟨.null, xs⟩
  | none, x :: r => ⟨(r.zipIdx 1).foldl (fun acc p => f acc p.1 p.2 xs) x, xs⟩

/-- note 3 of the document: the methods that change the array they are called on -/
def documentedMutator : Model.Meth.Call → Bool
  | .push _ | .pop | .shift | .unshift _ | .splice _ | .reverse | .sort => true
  | _ => false

end Spec.Js
