import Model.Access
import Spec.Access
/-!
C07 — PHP's visibility rule when several classes of a chain declare a member of the same name, stated on the
declared hierarchy and the declarations only.

Code of class `scope` uses member `n` on an object of class `r`:

* if `scope` itself declares `n` PRIVATE and `r` is `scope` or inherits it, the access means `scope`'s own member
  and is allowed;
* otherwise it means the declaration found from `r` upwards (`Nearest`) and PHP's rule (`Spec.Access.allowed`)
  applies to (scope, the class of that declaration, its modifier).

In particular a private member of an ANCESTOR of `scope`, on an object of that ancestor, is never usable from
`scope`, whether or not `scope` declares the name too.
-/
namespace Spec.AccessDecl
open Model.Access (Name Hier Mod)
open Spec.Access

/-- `d` is the first class at or above `r` that declares the name -/
def Nearest (H : Hier) (D : Name → Option Mod) (r d : Name) : Prop :=
  Sub H r d ∧ (D d).isSome ∧ ∀ c, Sub H r c → (D c).isSome → Sub H d c

def allowedOn (H : Hier) (D : Name → Option Mod) (scope : Option Name) (r : Name) : Prop :=
  (∃ s, scope = some s ∧ Sub H r s ∧ D s = some .priv) ∨
  (∃ d m, Nearest H D r d ∧ D d = some m ∧ allowed H m scope d)

/-- what PHP demands of the declarations (a compile error otherwise): redeclaring a non-private inherited
member never reduces its visibility -/
def ValidOverride (H : Hier) (D : Name → Option Mod) : Prop :=
  ∀ a b ma mb, Sub H b a → D a = some ma → D b = some mb → ma ≠ .priv → (mb ≠ .priv ∧ (ma = .pub → mb = .pub))

/-- declared hierarchies have no cycle (C08) -/
def Acyclic (H : Hier) : Prop := ∀ a b, Sub H a b → Sub H b a → a = b

end Spec.AccessDecl
