import Model.Inst
/-
C07 — the abstract-class rules, stated on the declared world only:

* `Anc W c a`      — `a` is `c` or a class `c` inherits from;
* `IReach W i j`   — interface `j` is `i` or a declared interface `i` extends, directly or indirectly;
* `Requires W c m` — some strict ancestor of `c` declares `m` abstract, or `m` is a method of an interface
                     that `c` or an ancestor implements (through any chain of interface inheritance);
* `Provides W c m` — `c` or an ancestor declares a concrete `m`;
* `Complete W c`   — everything required is provided.
-/
namespace Spec.Inst
open Model.Inst

inductive Anc (W : World) : ACls → ACls → Prop
  | refl (c : ACls) : Anc W c c
  | step {c d a : ACls} {p : Name} : c.ext = some p → getClass W p = some d → Anc W d a → Anc W c a

inductive IReach (W : World) : Name → Name → Prop
  | refl (i : Name) : IReach W i i
  | step {i k j : Name} {d : AIfc} : getIface W i = some d → k ∈ d.ext → IReach W k j → IReach W i j

def Provides (W : World) (c : ACls) (m : Name) : Prop := ∃ a, Anc W c a ∧ m ∈ a.concrete

def Requires (W : World) (c : ACls) (m : Name) : Prop :=
  (∃ p d a, c.ext = some p ∧ getClass W p = some d ∧ Anc W d a ∧ m ∈ a.abstr) ∨
  (∃ a i j e, Anc W c a ∧ i ∈ a.impl ∧ IReach W i j ∧ getIface W j = some e ∧ m ∈ e.meths)

def Complete (W : World) (c : ACls) : Prop := ∀ m, Requires W c m → Provides W c m

end Spec.Inst
