/-
C17 — what a user of `RegisterFunction` / `RegisterReflectClass` / `utils.Convert[T]` relies on,
written without any kind-switch table: a script value *denotes* one Go value at a Go type whose
kind carries the same class of data, and a Go value of such a kind denotes one script value.
Nothing here looks at accessors, `reflect.ValueOf`, `.Convert` or the generic type switch.
-/
import Model.Conv
namespace Spec.Conv
open Model.Conv

/-- the kinds the reflective registration supports as parameters and results -/
def supported : List Kind := [.string, .bool, .int, .int64, .float64]

/-- The Go value of type `t` that *is* script value `v` (same data, nothing coerced):
string ↔ string kind, bool ↔ bool kind, int ↔ any integer kind that can represent it,
float ↔ float64 kind.  (`float32` is left out: not every float64 is a float32.) -/
def denote (t : GoType) (v : SVal) : Option GoVal :=
  match v with
  | .str s => if t.kind = .string then some ⟨t, .str s⟩ else none
  | .bool b => if t.kind = .bool then some ⟨t, .bool b⟩ else none
  | .int n => if t.kind.fits n then some ⟨t, .int n⟩ else none
  | .float f => if t.kind = .float64 then some ⟨t, .flt f⟩ else none
  | .null => none

/-- The script value that *is* Go value `g`. -/
def reflectBack (g : GoVal) : Option SVal :=
  match g.ty.kind, g.val with
  | .string, .str s => some (.str s)
  | .bool, .bool b => some (.bool b)
  | .float64, .flt f => some (.float f)
  | k, .int n => if k.isSigned && k.fits n then some (.int n) else none
  | _, _ => none

/-- argument lists: every parameter is given a value that denotes at its type -/
def denoteAll : List GoType → List SVal → Option (List GoVal)
  | [], [] => some []
  | t :: ts, v :: vs =>
    match denote t v, denoteAll ts vs with
    | some g, some gs => some (g :: gs)
    | _, _ => none
  | _, _ => none

/-- a signature over the supported kinds (any names, any arity) -/
def supportedSig (s : Sig) : Bool :=
  s.params.all (fun t => supported.contains t.kind) && s.results.all (fun t => supported.contains t.kind)

/-- the Go function returns well-typed values of its declared result types -/
def bodyRespects (s : Sig) (body : List GoVal → List GoVal) : Prop :=
  ∀ gs, (body gs).map (·.ty) = s.results ∧ ∀ r ∈ body gs, r.wt = true

end Spec.Conv
