import Model.Cli
/-!
C05 — what a caller of `zy <script>` (a shell, `make`, a CI job) relies on:

* a script that cannot be loaded (missing, does not parse) or that ends with an uncaught throwable / an interpreter
  failure produces a diagnostic and a **non-zero** status; a normal end gives 0, `exit(n)` gives `n`;
* everything echoed before the end is on standard output, whatever the way the script ends; text captured by
  `ob_start` and taken back with `ob_get_clean` is the script's, text still sitting in an open buffer is flushed
  at shutdown (PHP's rule).
-/
namespace Spec.Cli
open Model.Cli (Step End Input)

/-- must the status be non-zero? -/
def mustFail : Input → Bool
  | .missing => true
  | .parseError => true
  | .script _ .uncaught => true
  | .script _ .lateControl => true
  | .script _ .goPanic => true
  | .script _ (.exit n) => n != 0
  | .script _ .normal => false

def wantsDiag : Input → Bool
  | .script _ .normal => false
  | .script _ (.exit _) => false
  | _ => true

/-- the output a user must see: buffers are a stack; closing one by `ob_get_clean` removes its text, the end of
the script flushes what is still open, innermost buffer last in time but nested text keeps its position -/
def visible : List Step → List Nat → List (List Nat) → List Nat
  | [], out, bufs => out ++ (bufs.reverse.flatten)
  | .echo m :: r, out, [] => visible r (out ++ [m]) []
  | .echo m :: r, out, b :: bs => visible r out ((b ++ [m]) :: bs)
  | .obStart :: r, out, bufs => visible r out ([] :: bufs)
  | .obGetClean :: r, out, bufs => visible r out (bufs.drop 1)

def stdout : Input → List Nat
  | .script steps _ => visible steps [] []
  | _ => []

/-- no user-level output buffering in the script -/
def Direct (steps : List Step) : Prop := ∀ s ∈ steps, ∃ m, s = .echo m

end Spec.Cli
