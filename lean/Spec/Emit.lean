import Model.Emit
/-!
# Spec.Emit — what survives a round trip through the generated Go source

`erase` is the statement of what the user may rely on, written without outcomes and without
literals: the AST that the compiled program evaluates is the AST the parser built, except that

* position info is reset (the flag `hasNode` becomes "a fresh Node was allocated"),
* a field of a reflectively emitted struct that is tagged `pp:"-"` is absent (Go zero value),
* a field that a hand-written handler does not read is absent.

`dropped` lists every (type, field) pair that `erase` removes anywhere in a tree, and
`staticDrops` computes from the struct tables alone every pair that can ever be removed.
The theorems in `Proofs.Properties.C16` connect the three; the obligations on the regenerated
tables bound `staticDrops` by two short lists kept in the property file.
-/
namespace Spec.Emit
open Model.Emit

/-- rebuilt position flag of an object dispatched on its own type -/
def rebuiltNode (tbl : Tables) (ty : String) (hasNode : Bool) : Bool :=
  match path tbl ty with
  | .special _ => true
  | .scalar _ => true
  | .reflective d => needsNode tbl d
  | _ => hasNode

def keepField (m : Mode) (name : String) : Bool :=
  fieldAct m name == .emit

/-- the tree the compiled program evaluates, for a tree the generator accepts -/
def erase (tbl : Tables) (m : Mode) (ty : String) : Val → Val
  | .nil => .nil
  | .scalar s => .scalar s
  | .blob => .blob
  | .plainPtr => .plainPtr
  | .unnamed => .unnamed
  | .obj oty hn fields =>
      .obj oty (if m.isInline then true else rebuiltNode tbl oty hn)
        (erase tbl (objMode tbl m oty) (chainTy m oty) fields)
  | .list items => .list (erase tbl .elems ty items)
  | .fnil => .fnil
  | .fcons name v rest =>
      if keepField m name then .fcons name (erase tbl (valueMode m ty name) ty v) (erase tbl m ty rest)
      else erase tbl m ty rest

/-- every (type, field) that `erase` removes in the tree; `(ty, "Node")` when position info that
was there is not rebuilt. `ty` is the type owning the chain being walked. -/
def dropped (tbl : Tables) (m : Mode) (ty : String) : Val → List (String × String)
  | .obj oty hn fields =>
      (if !m.isInline && hn && !rebuiltNode tbl oty hn then [(oty, "Node")] else [])
      ++ dropped tbl (objMode tbl m oty) (chainTy m oty) fields
  | .list items => dropped tbl .elems ty items
  | .fcons name v rest =>
      if keepField m name then dropped tbl (valueMode m ty name) ty v ++ dropped tbl m ty rest
      else (ty, name) :: dropped tbl m ty rest
  | _ => []

/-- forget position flags -/
def stripPos : Val → Val
  | .obj ty _ fields => .obj ty true (stripPos fields)
  | .list items => .list (stripPos items)
  | .fcons name v rest => .fcons name (stripPos v) (stripPos rest)
  | v => v

/-- names of a field chain -/
def chainNames : Val → List String
  | .fcons name _ rest => name :: chainNames rest
  | _ => []

/-- names of the fields of a chain that the walk in mode `m` leaves out -/
def levelDrops (m : Mode) (fields : Val) : List String :=
  (chainNames fields).filter (fun n => !keepField m n)

/-! ### what can be dropped at all, from the tables alone -/

/-- fields of a reflectively emitted struct that the literal leaves out although they are data -/
def reflDrops (tbl : Tables) (d : StructDesc) : List (String × String) :=
  (d.fields.filter (fun f => !f.embeddedNode && f.ppSkip)).map (fun f => (d.name, f.name))
  ++ (if d.fields.any (·.embeddedNode) && !needsNode tbl d then [(d.name, "Node")] else [])

/-- fields of a hand-emitted struct that the handler does not read -/
def handlerDrops (tbl : Tables) (h : Handler) : List (String × String) :=
  match findStruct tbl h.ty with
  | none => [(h.ty, "?")]
  | some d => (d.fields.filter (fun f => !f.embeddedNode && !h.reads.contains f.name)).map (fun f => (h.ty, f.name))

/-- fields of an embedded struct that a handler takes apart itself and does not read;
keyed `Outer>Embedded` -/
def innerDrops (tbl : Tables) (h : Handler) : List (String × String) :=
  h.inner.flatMap fun e =>
    match findStruct tbl h.ty with
    | none => [(h.ty, "?")]
    | some d =>
      match d.fields.find? (fun f => f.name == e.1) with
      | none => [(h.ty ++ ">" ++ e.1, "?")]
      | some _ =>
        -- the embedded struct's description: its type is `node.<field name>` (Go embedding)
        match findStruct tbl ("node." ++ e.1) with
        | none => [(h.ty ++ ">" ++ e.1, "?")]
        | some ed => (ed.fields.filter (fun f => !f.embeddedNode && !e.2.contains f.name)).map
                       (fun f => (h.ty ++ ">" ++ "node." ++ e.1, f.name))

def isHandled (tbl : Tables) (ty : String) : Bool :=
  (findHandler tbl.special ty).isSome || (findHandler tbl.scalars ty).isSome

/-- structs that take the reflective path and produce a literal (all fields exported) -/
def emittable (tbl : Tables) : List StructDesc :=
  tbl.structs.filter (fun d => !isHandled tbl d.name && (firstUnexported d).isNone)

def staticDrops (tbl : Tables) : List (String × String) :=
  (emittable tbl).flatMap (reflDrops tbl)
  ++ (tbl.special ++ tbl.scalars ++ tbl.aux).flatMap (handlerDrops tbl)
  ++ tbl.special.flatMap (innerDrops tbl)

/-- field kinds `emitReflectValue` turns into text or into an explicit error -/
def kindOk (tbl : Tables) (k : FKind) : Bool :=
  match k with
  | .ptrPlain => !tbl.ptrAssertUnchecked
  | _ => true

/-- no emittable struct has a field whose value makes the compile command panic -/
def noCrashKinds (tbl : Tables) : Bool :=
  (emittable tbl).all fun d => d.fields.all fun f => f.embeddedNode || f.ppSkip || kindOk tbl f.kind

/-- a field whose slice / map element type has no name cannot be written by the reflective path
(`emitSlice` prints `[]{`): every struct that has one and takes the reflective path when handed to
`Emit` is one the handlers write by hand (registry `aux`: it never reaches `Emit` alone) -/
def unnamedByHand (tbl : Tables) : Bool :=
  (emittable tbl).all fun d =>
    d.fields.all (fun f => f.embeddedNode || f.ppSkip || f.kind != .unnamedElems)
      || (findHandler tbl.aux d.name).isSome

end Spec.Emit
