/-!
# Spec.Codec — the formats themselves (C14, part 1)

Written from the RFCs, independently of `Model.Codec`: table look-ups instead
of arithmetic on character codes, strict (canonical) decoders.

* hex: RFC 4648 §8 (base16), decoder accepts both cases (`encoding/hex`).
* base64: RFC 4648 §4, alphabet table, `=` padding, decoder is the strict one
  (length a multiple of 4, no line breaks).
* percent-encoding: RFC 3986 §2.1/§2.3; form encoding (HTML
  `application/x-www-form-urlencoded`): space ↔ `+`.
-/
namespace Spec.Codec

abbrev Bytes := List Nat

/-! ## base16 -/

/-- "0123456789abcdef" -/
def lowerHex : List Nat := [48,49,50,51,52,53,54,55,56,57,97,98,99,100,101,102]
/-- "0123456789ABCDEF" -/
def upperHex : List Nat := [48,49,50,51,52,53,54,55,56,57,65,66,67,68,69,70]

def isLowerHex (c : Nat) : Bool := lowerHex.contains c

/-- value of a hex digit of either case -/
def hexVal (c : Nat) : Option Nat :=
  if lowerHex.contains c then some (lowerHex.idxOf c)
  else if upperHex.contains c then some (upperHex.idxOf c)
  else none

/-- `hex.DecodeString`: pairs of digits, odd length or a non-digit is an error -/
def hexDecode : Bytes → Option Bytes
  | [] => some []
  | [_] => none
  | h :: l :: rest =>
      match hexVal h, hexVal l, hexDecode rest with
      | some a, some b, some out => some ((16 * a + b) :: out)
      | _, _, _ => none

/-! ## base64 -/

/-- RFC 4648 Table 1 -/
def alphabet : List Nat :=
  [65,66,67,68,69,70,71,72,73,74,75,76,77,78,79,80,81,82,83,84,85,86,87,88,89,90,
   97,98,99,100,101,102,103,104,105,106,107,108,109,110,111,112,113,114,115,116,117,118,119,120,121,122,
   48,49,50,51,52,53,54,55,56,57,43,47]

def sextet (c : Nat) : Option Nat :=
  if alphabet.contains c then some (alphabet.idxOf c) else none

/-- strict decoder: quanta of exactly four characters; only the last one may be
`xx==` (one byte) or `xxx=` (two bytes). Bits that do not fit are dropped. -/
def b64Decode : Bytes → Option Bytes
  | [] => some []
  | c0 :: c1 :: c2 :: c3 :: rest =>
      if rest.isEmpty ∧ c2 = 61 ∧ c3 = 61 then
        match sextet c0, sextet c1 with
        | some v0, some v1 => some [(v0 * 4 + v1 / 16) % 256]
        | _, _ => none
      else if rest.isEmpty ∧ c3 = 61 then
        match sextet c0, sextet c1, sextet c2 with
        | some v0, some v1, some v2 => some [(v0 * 4 + v1 / 16) % 256, (v1 % 16 * 16 + v2 / 4) % 256]
        | _, _, _ => none
      else
        match sextet c0, sextet c1, sextet c2, sextet c3, b64Decode rest with
        | some v0, some v1, some v2, some v3, some out =>
            some ((v0 * 4 + v1 / 16) % 256 :: (v1 % 16 * 16 + v2 / 4) % 256 :: (v2 % 4 * 64 + v3) % 256 :: out)
        | _, _, _, _, _ => none
  | _ => none

/-! ## percent-encoding -/

/-- "ABCDEFGHIJKLMNOPQRSTUVWXYZabcdefghijklmnopqrstuvwxyz0123456789-._~" -/
def unreservedChars : List Nat := alphabet.take 62 ++ [45, 46, 95, 126]

def unreserved (c : Nat) : Bool := unreservedChars.contains c

/-- `pct-encoded = "%" HEXDIG HEXDIG`, upper-case digits (RFC 3986 §2.1) -/
def pct (c : Nat) : Bytes := [37, upperHex.getD (c / 16) 0, upperHex.getD (c % 16) 0]

/-- RFC 3986: every octet outside the unreserved set is percent-encoded.
This is PHP's `rawurlencode`. -/
def pctEncode : Bytes → Bytes
  | [] => []
  | c :: rest => (if unreserved c then [c] else pct c) ++ pctEncode rest

/-- form encoding (PHP `urlencode`): as above but space becomes `+` -/
def formEncode : Bytes → Bytes
  | [] => []
  | c :: rest => (if unreserved c then [c] else if c = 32 then [43] else pct c) ++ formEncode rest

end Spec.Codec
