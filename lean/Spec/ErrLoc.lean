import Model.ErrLoc
/-!
# Spec.ErrLoc — which location an uncaught error reports (C18, error-location clause)

Written independently of `Model.ErrLoc.unwind`: no guard flags, no writers; only the locations.
-/
namespace Spec.ErrLoc
open Model.ErrLoc

/-- what the user relies on: the reported location is the one the error was raised with; an error
raised without one gets the position of the innermost enclosing construct that has one -/
def reported (raised : Option Loc) (enclosing : List (Option Loc)) : Option Loc :=
  (raised :: enclosing).findSome? id

end Spec.ErrLoc
