/-
C20 (i) — what a script relies on: object properties and string-keyed array
entries are an association list in insertion order. Assigning an existing key
keeps its position, assigning a new key appends it at the end, unsetting a key
removes it and keeps the relative order of all the others; enumeration
(`foreach`, `var_dump`, `json_encode`, `serialize`) walks the list front to back.
Written independently of `Model.OMap`.
-/
namespace Spec.OMap

abbrev St (κ ν : Type) := List (κ × ν)

variable {κ ν : Type} [DecidableEq κ]

def keys (s : St κ ν) : List κ := s.map (·.1)

/-- assign: in place when the key is live, at the end otherwise -/
def set (s : St κ ν) (k : κ) (v : ν) : St κ ν :=
  if k ∈ keys s then s.map (fun p => if p.1 = k then (k, v) else p) else s ++ [(k, v)]

/-- unset -/
def delete (s : St κ ν) (k : κ) : St κ ν := s.filter (fun p => p.1 ≠ k)

def get (s : St κ ν) (k : κ) : Option ν := (s.find? (fun p => p.1 = k)).map (·.2)

def getByIndex (s : St κ ν) (i : Int) : Option (κ × ν) := if 0 ≤ i then s[i.toNat]? else none

def len (s : St κ ν) : Nat := s.length

inductive Op (κ ν : Type)
  | set (k : κ) (v : ν)
  | delete (k : κ)

def step (s : St κ ν) : Op κ ν → St κ ν
  | .set k v => set s k v
  | .delete k => delete s k

/-- the enumeration after a history of assignments and unsets -/
def run (ops : List (Op κ ν)) : St κ ν := ops.foldl step []

end Spec.OMap
