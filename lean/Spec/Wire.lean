import Model.Wire
/-!
# Spec.Wire — the protobuf wire format of a field tree (C14, part 2)

The encoding of a field tree as laid down by the protobuf encoding guide:
a message is the concatenation of its fields; a field is a tag (varint of
`number << 3 | wire type`) followed by a varint / 8 little-endian bytes /
length-prefixed payload / the fields of a group closed by an end-group tag with
the same number / 4 little-endian bytes; a packed repeated field is a
length-delimited payload that concatenates the element encodings.

The tree type and the byte-level `append*` primitives are shared with
`Model.Wire` (the tree is what `ParseRawFields` returns; the primitives are the
ones origami's `Protowire::encode*` methods call).
-/
namespace Spec.Wire
open Model.Wire

def encElems (et : Nat) : List Nat → Bytes
  | [] => []
  | v :: vs =>
      (if et = 0 then appendVarint v else if et = 5 then appendFixed32 v else appendFixed64 v)
        ++ encElems et vs

/-- wire type of a leaf -/
def leafWt : Leaf → Nat
  | .varint _ => 0
  | .fixed64 _ => 1
  | .fixed32 _ => 5
  | .bytes _ => 2
  | .packed _ _ => 2

/-- value bytes of a leaf -/
def encVal : Leaf → Bytes
  | .varint v => appendVarint v
  | .fixed64 v => appendFixed64 v
  | .fixed32 v => appendFixed32 v
  | .bytes bs => appendBytes bs
  | .packed et vs => appendBytes (encElems et vs)

/-- the wire encoding of a field list -/
def encode : FT → Bytes
  | .nil => []
  | .leaf num v rest => appendTag num (leafWt v) ++ encVal v ++ encode rest
  | .sub num false kids rest => appendTag num 2 ++ appendBytes (encode kids) ++ encode rest
  | .sub num true kids rest => appendTag num 3 ++ encode kids ++ appendTag num 4 ++ encode rest

/-- nesting depth: number of message/group levels below the top level -/
def nest : FT → Nat
  | .nil => 0
  | .leaf _ _ rest => nest rest
  | .sub _ _ kids rest => Nat.max (1 + nest kids) (nest rest)

def validNum (num : Nat) : Prop := 1 ≤ num ∧ num ≤ 2147483647

def IsBytes (l : Bytes) : Prop := ∀ b ∈ l, b < 256

/-- leaf values are representable and agree with the parse options: a packed leaf
is a field configured as packed with that element type; a bytes leaf is a field
configured neither as packed nor as message -/
def ValidLeaf (o : Opts) (num : Nat) : Leaf → Prop
  | .varint v => v < 2 ^ 64
  | .fixed64 v => v < 2 ^ 64
  | .fixed32 v => v < 2 ^ 32
  | .bytes bs => IsBytes bs ∧ bs.length < 2 ^ 64 ∧ o.packed.contains num = false ∧ o.msg.contains num = false
  | .packed et vs =>
      o.packed.contains num = true ∧ o.elemType.lookup num = some et ∧ (et = 0 ∨ et = 1 ∨ et = 5) ∧
      (∀ v ∈ vs, v < (if et = 5 then 2 ^ 32 else 2 ^ 64)) ∧ (encElems et vs).length < 2 ^ 64

/-- a field tree that the wire format can carry and that is consistent with the
parse options `o` -/
def Valid (o : Opts) : FT → Prop
  | .nil => True
  | .leaf num v rest => validNum num ∧ ValidLeaf o num v ∧ Valid o rest
  | .sub num false kids rest =>
      validNum num ∧ o.packed.contains num = false ∧ o.msg.contains num = true ∧
      (encode kids).length < 2 ^ 64 ∧ Valid o kids ∧ Valid o rest
  | .sub num true kids rest => validNum num ∧ Valid o kids ∧ Valid o rest

/-- the depth budget of the parser as coded: a message nested in depth `d` is parsed
at `d+1` and needs `d+1 < max`; a group met at depth `d` needs `d < max` and its
members are consumed at `d+1` -/
def Fits (max : Nat) : FT → Nat → Prop
  | .nil, _ => True
  | .leaf _ _ rest, d => Fits max rest d
  | .sub _ false kids rest, d => d + 1 < max ∧ Fits max kids (d + 1) ∧ Fits max rest d
  | .sub _ true kids rest, d => d < max ∧ Fits max kids (d + 1) ∧ Fits max rest d

/-! ## the grammar as a relation (any well-formed input, minimal varints or not) -/

/-- `Varint i v bs`: `bs` are the bytes of a varint from its `i`-th byte on and denote `v`:
little-endian base-128 digits, continuation bit on all bytes but the last, at most ten bytes,
a tenth byte is `0` or `1`. -/
inductive Varint : Nat → Nat → Bytes → Prop
  | last {i b : Nat} : b < 128 → i ≤ 9 → (i = 9 → b < 2) → Varint i b [b]
  | more {i b v : Nat} {bs : Bytes} : 128 ≤ b → i < 9 → Varint (i + 1) v bs →
      Varint i (b - 128 + 128 * v) (b :: bs)

/-- a tag: varint of `num << 3 | wt`, field number in `1 .. 2^31-1` -/
def TagRepr (num wt : Nat) (bs : Bytes) : Prop :=
  ∃ x, Varint 0 x bs ∧ x / 8 = num ∧ x % 8 = wt ∧ 1 ≤ num ∧ num ≤ 2147483647

def le32 (b0 b1 b2 b3 : Nat) : Nat := b0 + 256 * b1 + 65536 * b2 + 16777216 * b3
def le64 (b0 b1 b2 b3 b4 b5 b6 b7 : Nat) : Nat :=
  b0 + 256 * b1 + 65536 * b2 + 16777216 * b3 + 4294967296 * b4 + 1099511627776 * b5
    + 281474976710656 * b6 + 72057594037927936 * b7

/-- payload of a packed field with element wire type `et` -/
inductive Elems : Nat → List Nat → Bytes → Prop
  | nil {et : Nat} : (et = 0 ∨ et = 1 ∨ et = 5) → Elems et [] []
  | varint {v : Nat} {vs : List Nat} {pre rest : Bytes} :
      Varint 0 v pre → Elems 0 vs rest → Elems 0 (v :: vs) (pre ++ rest)
  | fixed32 {b0 b1 b2 b3 : Nat} {vs : List Nat} {rest : Bytes} :
      Elems 5 vs rest → Elems 5 (le32 b0 b1 b2 b3 :: vs) (b0 :: b1 :: b2 :: b3 :: rest)
  | fixed64 {b0 b1 b2 b3 b4 b5 b6 b7 : Nat} {vs : List Nat} {rest : Bytes} :
      Elems 1 vs rest →
      Elems 1 (le64 b0 b1 b2 b3 b4 b5 b6 b7 :: vs) (b0 :: b1 :: b2 :: b3 :: b4 :: b5 :: b6 :: b7 :: rest)

mutual
/-- `ValRepr o num v wt bs`: `bs` is the value part of a field `num` with wire type `wt`
whose parsed value under options `o` is `v` -/
inductive ValRepr (o : Opts) : Nat → V → Nat → Bytes → Prop
  | varint {num v : Nat} {bs : Bytes} : Varint 0 v bs → ValRepr o num (.leaf (.varint v)) 0 bs
  | fixed64 {num b0 b1 b2 b3 b4 b5 b6 b7 : Nat} :
      ValRepr o num (.leaf (.fixed64 (le64 b0 b1 b2 b3 b4 b5 b6 b7))) 1 [b0, b1, b2, b3, b4, b5, b6, b7]
  | fixed32 {num b0 b1 b2 b3 : Nat} :
      ValRepr o num (.leaf (.fixed32 (le32 b0 b1 b2 b3))) 5 [b0, b1, b2, b3]
  | bytes {num : Nat} {lb payload : Bytes} : Varint 0 payload.length lb →
      o.packed.contains num = false → o.msg.contains num = false →
      ValRepr o num (.leaf (.bytes payload)) 2 (lb ++ payload)
  | packed {num et : Nat} {vs : List Nat} {lb pb : Bytes} : Varint 0 pb.length lb →
      o.packed.contains num = true → o.elemType.lookup num = some et → Elems et vs pb →
      ValRepr o num (.leaf (.packed et vs)) 2 (lb ++ pb)
  | msg {num : Nat} {kids : FT} {lb kb : Bytes} : Varint 0 kb.length lb →
      o.packed.contains num = false → o.msg.contains num = true → Encodes o kids kb →
      ValRepr o num (.sub false kids) 2 (lb ++ kb)
  | group {num : Nat} {kids : FT} {kb eb : Bytes} : Encodes o kids kb → TagRepr num 4 eb →
      ValRepr o num (.sub true kids) 3 (kb ++ eb)
/-- `Encodes o t bs`: the byte string `bs` is, from its first to its last byte, a sequence of
well-formed fields, and `t` is what they say under the options `o` -/
inductive Encodes (o : Opts) : FT → Bytes → Prop
  | nil : Encodes o .nil []
  | cons {num wt : Nat} {v : V} {rest : FT} {tb vb rb : Bytes} :
      TagRepr num wt tb → ValRepr o num v wt vb → Encodes o rest rb →
      Encodes o (FT.cons num v rest) (tb ++ vb ++ rb)
end

end Spec.Wire
