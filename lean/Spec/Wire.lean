import Model.Wire
/-!
# Spec.Wire — the protobuf wire format of a field tree (C14, part 2)

The encoding of a field tree as laid down by the protobuf encoding guide:
a message is the concatenation of its fields; a field is a tag (varint of
`number << 3 | wire type`) followed by a varint / 8 little-endian bytes /
length-prefixed payload / the fields of a group closed by an end-group tag with
the same number / 4 little-endian bytes; a packed repeated field is a
length-delimited payload that concatenates the element encodings.

The tree type and the byte-level `append*` primitives are shared with
`Model.Wire` (the tree is what `ParseRawFields` returns; the primitives are the
ones origami's `Protowire::encode*` methods call).
-/
namespace Spec.Wire
open Model.Wire

def encElems (et : Nat) : List Nat → Bytes
  | [] => []
  | v :: vs =>
      (if et = 0 then appendVarint v else if et = 5 then appendFixed32 v else appendFixed64 v)
        ++ encElems et vs

/-- wire type of a leaf -/
def leafWt : Leaf → Nat
  | .varint _ => 0
  | .fixed64 _ => 1
  | .fixed32 _ => 5
  | .bytes _ => 2
  | .packed _ _ => 2

/-- value bytes of a leaf -/
def encVal : Leaf → Bytes
  | .varint v => appendVarint v
  | .fixed64 v => appendFixed64 v
  | .fixed32 v => appendFixed32 v
  | .bytes bs => appendBytes bs
  | .packed et vs => appendBytes (encElems et vs)

/-- the wire encoding of a field list -/
def encode : FT → Bytes
  | .nil => []
  | .leaf num v rest => appendTag num (leafWt v) ++ encVal v ++ encode rest
  | .sub num false kids rest => appendTag num 2 ++ appendBytes (encode kids) ++ encode rest
  | .sub num true kids rest => appendTag num 3 ++ encode kids ++ appendTag num 4 ++ encode rest

/-- nesting depth: number of message/group levels below the top level -/
def nest : FT → Nat
  | .nil => 0
  | .leaf _ _ rest => nest rest
  | .sub _ _ kids rest => Nat.max (1 + nest kids) (nest rest)

def validNum (num : Nat) : Prop := 1 ≤ num ∧ num ≤ 2147483647

def IsBytes (l : Bytes) : Prop := ∀ b ∈ l, b < 256

/-- leaf values are representable and agree with the parse options: a packed leaf
is a field configured as packed with that element type; a bytes leaf is a field
configured neither as packed nor as message -/
def ValidLeaf (o : Opts) (num : Nat) : Leaf → Prop
  | .varint v => v < 2 ^ 64
  | .fixed64 v => v < 2 ^ 64
  | .fixed32 v => v < 2 ^ 32
  | .bytes bs => IsBytes bs ∧ bs.length < 2 ^ 64 ∧ o.packed.contains num = false ∧ o.msg.contains num = false
  | .packed et vs =>
      o.packed.contains num = true ∧ o.elemType.lookup num = some et ∧ (et = 0 ∨ et = 1 ∨ et = 5) ∧
      (∀ v ∈ vs, v < (if et = 5 then 2 ^ 32 else 2 ^ 64)) ∧ (encElems et vs).length < 2 ^ 64

/-- a field tree that the wire format can carry and that is consistent with the
parse options `o` -/
def Valid (o : Opts) : FT → Prop
  | .nil => True
  | .leaf num v rest => validNum num ∧ ValidLeaf o num v ∧ Valid o rest
  | .sub num false kids rest =>
      validNum num ∧ o.packed.contains num = false ∧ o.msg.contains num = true ∧
      (encode kids).length < 2 ^ 64 ∧ Valid o kids ∧ Valid o rest
  | .sub num true kids rest => validNum num ∧ Valid o kids ∧ Valid o rest

/-- the depth budget of the parser as coded: a message nested in depth `d` is parsed
at `d+1` and needs `d+1 < max`; a group met at depth `d` needs `d < max` and its
members are consumed at `d+1` -/
def Fits (max : Nat) : FT → Nat → Prop
  | .nil, _ => True
  | .leaf _ _ rest, d => Fits max rest d
  | .sub _ false kids rest, d => d + 1 < max ∧ Fits max kids (d + 1) ∧ Fits max rest d
  | .sub _ true kids rest, d => d < max ∧ Fits max kids (d + 1) ∧ Fits max rest d

end Spec.Wire
