/-
C13 — commit-once reference for a stack of layers over one response.

Every layer is a handler: when it returns with a status chosen and nothing committed, that status is
committed (the client must not lose it) — exactly as `Spec.Resp.run` says for a single handler. So the
reference reads the events in execution order and treats the RETURN of a layer, while a status is pending
and nothing is committed yet, as the terminal call `writeHeader(pending)`; everything else is the
single-handler reference. Which layers actually commit on return is NOT an input: the reference says what
the client is owed.
-/
import Spec.Resp
import Model.RespLayer
namespace Spec.RespLayer
open Model.Resp (Op)
open Model.RespLayer (Ev Layer events)
open Spec.Resp (statusOf committing)

/-- `pend`: last status chosen so far (while nothing is committed); `done`: the head went out. -/
def lower (pend : Option Nat) (done : Bool) : List Ev → List Op
  | [] => []
  | .op o :: r =>
      o :: lower (if done then pend else (match statusOf o with | some c => some c | none => pend))
        (done || committing o) r
  | .ret _ :: r =>
      if done then lower pend done r else
      match pend with
      | some c => Op.writeHeader c :: lower pend true r
      | none => lower pend done r

/-- the operation sequence a layered run amounts to -/
def flat (ls : List Layer) : List Op := lower none false (events ls)

/-- what the client is owed, on a recorder (`e = false`) or over a connection (`e = true`). -/
def runOn (e : Bool) (ls : List Layer) : Model.Resp.Client := Spec.Resp.runOn e (flat ls)

end Spec.RespLayer
