import Model.Ops
/-!
# Spec.Ops — documented results of the scalar operators (C03)

What `docs/operators.md` says, completed with the PHP-8 conventions the property names where the
document is silent: 64-bit wrap-around integers, `/` always float, `%` and `/` by zero raise a
catchable error, numbers compare numerically (an int/float pair as floats), strings compare
bytewise (`按字典序`), `+` and `.` concatenate strings, `===` compares kind and value,
`<=>` is −1/0/1 according to `<` and `>`, `&&`/`||`/`!`/`(bool)` use one notion of truthiness.

`eval` is partial: `none` = outside the documented domain (mixed string/number operands or bool /
null in arithmetic, arrays and objects, mixed int/float `%`, …). On such operands only the coherence
laws, the no-crash clause and the **result kind** the language fixes whatever the operands are
(`fixedKind`: `.` a string, comparisons / logical operators a bool, `<=>` an int, `/` a float, bit
operations and shifts an int) are claimed. `.` is documented on all scalar pairs (`render`).

Comparison of operands of different kinds follows the PHP-8 table (the rule `data.LooseCompare`
documents since `fix: … one loose comparison`), stated here the way the PHP manual does — *convert
the pair, then compare like with like* (`conv`): `null` or `bool` against anything → both as booleans
(`null` against a string → `""` against it); a number against a numeric string → two numbers, against
any other string → two strings. Arrays / objects against numbers or strings stay undocumented.

Written independently of the per-operator type switches of `Model.Ops`; only the datatypes
(`Val`, `Prim`, `Outcome`, operator names) and the bytewise order `strLt` are shared.
-/
namespace Spec.Ops
open Model.Ops (Val Prim Outcome ErrKind BinOp UnOp Str Res strLt decimal Kind)

section
variable {F : Type} (P : Prim F)

/-- the one notion of "true": non-zero number, non-empty string, `true`, non-empty array, any object -/
def truthy : Val F → Bool
  | .int i => i != 0#64
  | .float f => !P.eq f P.zero
  | .bool b => b
  | .str s => !s.isEmpty
  | .null => false
  | .arr n => decide (0 < n)
  | .obj _ => true
  | .cls _ => true

/-- two's complement wrap-around of a mathematical integer -/
def wrap (z : Int) : BitVec 64 := BitVec.ofInt 64 z

/-- a number as a float -/
def toF : Val F → Option F
  | .int i => some (P.ofInt i)
  | .float f => some f
  | _ => none

def bothInt : Val F → Val F → Option (BitVec 64 × BitVec 64)
  | .int x, .int y => some (x, y)
  | _, _ => none

/-- `+ - *`: exact on integers modulo 2^64, floating point as soon as one operand is a float -/
def arith (zop : Int → Int → Int) (fop : F → F → F) (a b : Val F) : Option (Res F) :=
  match bothInt a b with
  | some (x, y) => some (.val (.int (wrap (zop x.toInt y.toInt))))
  | none =>
    match toF P a, toF P b with
    | some x, some y => some (.val (.float (fop x y)))
    | _, _ => none

/-- `/`: always a float; a zero divisor is a catchable error -/
def quo (a b : Val F) : Option (Res F) :=
  match toF P a, toF P b with
  | some x, some y => some (if P.eq y P.zero then .err .divZero else .val (.float (P.div x y)))
  | _, _ => none

/-- `%`: integer remainder with the sign of the dividend; float operands are truncated first
(result stays a float); a zero divisor (after truncation) is a catchable error.
Documented for same-kind pairs. -/
def rem (a b : Val F) : Option (Res F) :=
  match a, b with
  | .int x, .int y =>
      some (if y.toInt = 0 then .err .divZero else .val (.int (wrap (x.toInt.tmod y.toInt))))
  | .float x, .float y =>
      some (if (P.toInt y).toInt = 0 then .err .divZero
            else .val (.float (P.ofInt (wrap ((P.toInt x).toInt.tmod (P.toInt y).toInt)))))
  | _, _ => none

/-- `**`: an integer when both operands are integers and the power is an integer in range, else a float -/
def pow (a b : Val F) : Option (Res F) :=
  match toF P a, toF P b with
  | some x, some y =>
      let r := P.pow x y
      match bothInt a b with
      | some _ =>
          some (if P.eq r (P.trunc r) && P.lt r P.maxIntF && P.le P.minIntF r
                then .val (.int (P.toInt r)) else .val (.float r))
      | none => some (.val (.float r))
  | _, _ => none

def bitop (f : BitVec 64 → BitVec 64 → BitVec 64) (a b : Val F) : Option (Res F) :=
  match bothInt a b with
  | some (x, y) => some (.val (.int (f x y)))
  | none => none

/-- `<<`: multiply by 2^n modulo 2^64; `>>`: floor-divide by 2^n (a count of 64 or more therefore
gives 0, resp. 0 / −1 by sign); a negative count is a catchable error -/
def shift (left : Bool) (a b : Val F) : Option (Res F) :=
  match bothInt a b with
  | some (x, n) =>
      some (if n.toInt < 0 then .err .negShift
            else if 64 ≤ n.toInt then
              (if left then .val (.int (wrap 0)) else .val (.int (wrap (if x.toInt < 0 then -1 else 0))))
            else if left then .val (.int (wrap (x.toInt * 2 ^ n.toInt.toNat)))
            else .val (.int (wrap (x.toInt / 2 ^ n.toInt.toNat))))
  | none => none

/-- ordering of two values of the same kind (or an int/float pair): (a < b, a ≤ b); false < true -/
def baseOrder (a b : Val F) : Option (Bool × Bool) :=
  match a, b with
  | .int x, .int y => some (decide (x.toInt < y.toInt), decide (x.toInt ≤ y.toInt))
  | .str x, .str y => some (strLt x y, !strLt y x)
  | .bool x, .bool y => some (!x && y, !x || y)
  | .null, .null => some (false, true)
  | _, _ =>
    match toF P a, toF P b with
    | some x, some y => some (P.lt x y, P.le x y)
    | _, _ => none

/-- equality of two values of the same kind (or an int/float pair) -/
def baseEq (a b : Val F) : Option Bool :=
  match a, b with
  | .int x, .int y => some (x == y)
  | .str x, .str y => some (x == y)
  | .bool x, .bool y => some (x == y)
  | .null, .null => some true
  | _, _ =>
    match toF P a, toF P b with
    | some x, some y => some (P.eq x y)
    | _, _ => none

def isNullOrBool : Val F → Bool
  | .null => true | .bool _ => true | _ => false

def isIntVal : Val F → Bool
  | .int _ => true | _ => false

/-- a numeric string as a number: an integer when it is written as one and is compared with an
integer, otherwise a float; `none` = not numeric -/
def strNumber (withInt : Bool) (s : Str) : Option (Val F) :=
  match (if withInt then P.atoi s else none) with
  | some i => some (.int i)
  | none => (P.parse s).map Val.float

/-- a number written as a string -/
def numString : Val F → Option Str
  | .int i => some (decimal i)
  | .float f => some (P.fmtG f)
  | _ => none

/-- number `n` against string `s`: (n, number of s) or (string of n, s) -/
def convNumStr (n : Val F) (s : Str) : Option (Val F × Val F) :=
  match strNumber P (isIntVal n) s with
  | some v => some (n, v)
  | none => (numString P n).map (fun t => (.str t, .str s))

/-- the conversion of an operand pair before a loose comparison (PHP-8 table) -/
def conv (a b : Val F) : Option (Val F × Val F) :=
  match a, b with
  | .null, .str s => some (.str [], .str s)
  | .str s, .null => some (.str s, .str [])
  | .int _, .str s => convNumStr P a s
  | .float _, .str s => convNumStr P a s
  | .str s, .int _ => (convNumStr P b s).map (fun p => (p.2, p.1))
  | .str s, .float _ => (convNumStr P b s).map (fun p => (p.2, p.1))
  | _, _ =>
    if isNullOrBool a || isNullOrBool b then some (.bool (truthy P a), .bool (truthy P b))
    else some (a, b)

/-- ordering of two values: (a < b, a ≤ b) -/
def order (a b : Val F) : Option (Bool × Bool) :=
  match conv P a b with
  | some (x, y) => baseOrder P x y
  | none => none

/-- loose equality -/
def looseEq (a b : Val F) : Option Bool :=
  match conv P a b with
  | some (x, y) => baseEq P x y
  | none => none

def isScalar : Val F → Bool
  | .arr _ => false | .obj _ => false | .cls _ => false | _ => true

/-- `===` on scalars: same kind and same value -/
def strictEq (a b : Val F) : Option Bool :=
  match a, b with
  | .int x, .int y => some (x == y)
  | .float x, .float y => some (P.eq x y)
  | .str x, .str y => some (x == y)
  | .bool x, .bool y => some (x == y)
  | .null, .null => some true
  | _, _ => if isScalar a && isScalar b then some false else none

def bothStr : Val F → Val F → Option (Str × Str)
  | .str x, .str y => some (x, y)
  | _, _ => none

def mkBool (b : Bool) : Res F := .val (.bool b)

/-- the string form `.` gives a scalar operand (`docs/data-types.md`: `(string) 42` is `"42"`,
`(string) true` is `"1"`, `(string) null` is `""`; PHP: `false` is `""`; a float is written the way the
language prints it, `P.fmtG`); arrays / objects undocumented -/
def render : Val F → Option Str
  | .str s => some s
  | .int i => some (decimal i)
  | .float f => some (P.fmtG f)
  | .bool b => some (if b then [49] else [])
  | .null => some []
  | _ => none

def spaceship (a b : Val F) : Option (Res F) :=
  match order P a b, order P b a with
  | some (lt, _), some (gt, _) =>
      some (.val (.int (if lt then wrap (-1) else if gt then wrap 1 else wrap 0)))
  | _, _ => none

/-- documented result of a binary operator (operands are distinct objects) -/
def eval (op : BinOp) (a b : Val F) : Option (Res F) :=
  match op with
  | .add =>
      match bothStr a b with
      | some (x, y) => some (.val (.str (x ++ y)))
      | none => arith P (· + ·) P.add a b
  | .sub => arith P (· - ·) P.sub a b
  | .mul => arith P (· * ·) P.mul a b
  | .quo => quo P a b
  | .rem => rem P a b
  | .pow => pow P a b
  | .band => bitop (· &&& ·) a b
  | .bor => bitop (· ||| ·) a b
  | .bxor => bitop (· ^^^ ·) a b
  | .shl => shift true a b
  | .shr => shift false a b
  | .eq => (looseEq P a b).map mkBool
  | .ne => (looseEq P a b).map (fun e => mkBool (!e))
  | .seq => (strictEq P a b).map mkBool
  | .sne => (strictEq P a b).map (fun e => mkBool (!e))
  | .lt => (order P a b).map (fun o => mkBool o.1)
  | .le => (order P a b).map (fun o => mkBool o.2)
  | .gt => (order P b a).map (fun o => mkBool o.1)
  | .ge => (order P b a).map (fun o => mkBool o.2)
  | .cmp => spaceship P a b
  | .land => some (mkBool (truthy P a && truthy P b))
  | .lor => some (mkBool (truthy P a || truthy P b))
  | .dot =>
      match render P a, render P b with
      | some x, some y => some (.val (.str (x ++ y)))
      | _, _ => none

/-- documented result of a unary operator / cast -/
def evalUn (op : UnOp) (a : Val F) : Option (Res F) :=
  match op, a with
  | .neg, .int x => some (.val (.int (wrap (-x.toInt))))
  | .neg, .float f => some (.val (.float (P.neg f)))
  | .bnot, .int x => some (.val (.int (~~~x)))
  | .not, v => some (mkBool (!truthy P v))
  | .castb, v => some (mkBool (truthy P v))
  | .casti, .int x => some (.val (.int x))
  | .casti, .float f => some (.val (.int (P.toInt f)))
  | .casti, .bool b => some (.val (.int (if b then 1#64 else 0#64)))
  | .casti, .null => some (.val (.int 0#64))
  | .castf, .int x => some (.val (.float (P.ofInt x)))
  | .castf, .float f => some (.val (.float f))
  | .castf, .bool b => some (.val (.float (if b then P.one else P.zero)))
  | .castf, .null => some (.val (.float P.zero))
  | .castf, .str s =>
      match P.parse s with
      | some f => some (.val (.float f))
      | none => none
  | _, _ => none

end

/-! ## result kinds the language fixes whatever the operands are -/

/-- `.` always yields a string; comparison, identity and logical operators a bool; `<=>` an int; `/` a
float; bit operations and shifts an int. `none`: the kind depends on the operands (`+ - * ** %`). -/
def fixedKind : BinOp → Option Kind
  | .dot => some .str
  | .eq | .ne | .seq | .sne | .lt | .le | .gt | .ge | .land | .lor => some .bool
  | .cmp => some .int
  | .quo => some .float
  | .band | .bor | .bxor | .shl | .shr => some .int
  | .add | .sub | .mul | .pow | .rem => none

def fixedKindUn : UnOp → Option Kind
  | .not | .castb => some .bool
  | .casti | .bnot => some .int
  | .castf => some .float
  | .neg => none

/-- operators defined on **every** operand pair (never an error): `.`, the comparison / identity
operators, `<=>`, `&&`, `||` -/
def alwaysValue : BinOp → Bool
  | .dot | .eq | .ne | .seq | .sne | .lt | .le | .gt | .ge | .cmp | .land | .lor => true
  | _ => false

def alwaysValueUn : UnOp → Bool
  | .not | .castb => true
  | _ => false

/-- `- * ** %` and unary `-` yield a number (int or float) whenever they yield a value -/
def numericResult : BinOp → Bool
  | .sub | .mul | .pow | .rem => true
  | _ => false

def isNumberKind : Kind → Bool
  | .int | .float => true
  | _ => false

end Spec.Ops
