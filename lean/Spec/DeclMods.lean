import Model.DeclMods
/-
C07 — what the keywords in front of a member declaration MEAN, stated on the list of keywords alone
(no stages, no cursor, no branches):

* the member has the visibility that is written, wherever among the other keywords it stands;
* if no visibility keyword is written it has the parser's default (`public` for class members; "not a
  property at all" for a constructor parameter);
* it is static / readonly / final / abstract iff that keyword is written.

PHP refuses a declaration with two visibility keywords ("Multiple access type modifiers are not allowed");
`VisOnce` is that condition (the same keyword twice is harmless and allowed here).
-/
namespace Spec.DeclMods
open Model.Access (Mod)
open Model.DeclMods (Kw Flag Mods)

/-- at most one visibility is written -/
def VisOnce (kws : List Kw) : Prop := ∀ v w, Kw.vis v ∈ kws → Kw.vis w ∈ kws → v = w

/-- `m` is what a member written `kws …` must carry when the variables start as `dflt` -/
structure Resolved (dflt : Mods) (kws : List Kw) (m : Mods) : Prop where
  /-- an explicit visibility wins wherever it stands -/
  explicit : ∀ v, Kw.vis v ∈ kws → VisOnce kws → m.vis = some v
  /-- the default applies only when no visibility keyword occurs -/
  default : (∀ v, Kw.vis v ∉ kws) → m.vis = dflt.vis
  /-- a flag is set iff its keyword occurs (or it was set before) -/
  flags : ∀ f, m.flag f = (dflt.flag f || decide (Kw.flag f ∈ kws))

end Spec.DeclMods
