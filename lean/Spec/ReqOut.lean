import Model.ReqOut
/-!
# Spec.ReqOut — the output of a request is what its own code wrote, in order (C11, round 8)
-/
namespace Spec.ReqOut
open Model.ReqOut

/-- what request `r` itself wrote in the trace -/
def echoes (r : Nat) : List Ev → List Nat
  | [] => []
  | .start _ :: t => echoes r t
  | .echo q v :: t => if q = r then v :: echoes r t else echoes r t
  | .stop _ :: t => echoes r t

/-- the events of `r` alone (the solo run) -/
def own (r : Nat) : List Ev → List Ev
  | [] => []
  | .start q :: t => if q = r then .start q :: own r t else own r t
  | .echo q v :: t => if q = r then .echo q v :: own r t else own r t
  | .stop q :: t => if q = r then .stop q :: own r t else own r t

end Spec.ReqOut
