import Model.ReqSite
/-!
# Spec.ReqSite — what a handler author relies on for values made per request (C11)

A closure a request made runs with the environment of *that* request (its `$this`, its
captured variables), however many other requests evaluate the same closure literal meanwhile.
No other request, schedule or shared storage exists in this definition.
-/
namespace Spec.ReqSite
open Model.ReqSite

def go (d : Val) : List Step → List Nat → List Obs → List Obs → List Obs
  | [], _, _, body => body
  | .mk _ slot :: rest, made, pend, body => go d rest (slot :: made) pend body
  | .call slot :: rest, made, pend, body => go d rest made (pend ++ [if slot ∈ made then some d else none]) body
  | .gate :: rest, made, pend, body => go d rest made pend body
  | .write :: rest, made, _pend, body => go d rest made [] (body ++ _pend)

/-- the response the request alone determines: every call of a closure it made observes its own datum -/
def respond (d : Val) (prog : List Step) : List Obs := go d prog [] [] []

end Spec.ReqSite
