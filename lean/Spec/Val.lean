/-
C06 — `Spec.Val`: arrays are values.

Every name (`$x`, `$o->p`) denotes an immutable tree.  A statement that writes through
a place rebuilds the tree of *that* name along the path and nothing else; there are no
identities, no cells, no array objects, hence nothing two names could share.  The only
sharing is the one a script asks for: `$x = &$y` makes two names one variable
(`names`), and objects are handles into `objs` (`clone` copies the property list).

What one store / unset / method does to the entries of *one* array (key lookup,
sparse integer keys, renumbering on `unset`) is taken over from the implementation
unchanged — it is not what C06 is about; C06 is about *which names see it*.

(Only the vocabulary — `Key`, `IKey`, `Scalar`, `Model.Heap.Keys.find*`, `Place`, `RV`, `Lit`,
`Meth`, `Op` — is shared with the model.)
-/
import Model.Heap
namespace Spec.Val
open Model.Heap (Key IKey Scalar Place RV Lit Meth Op np)

/-- a PHP value: a scalar or an ordered list of (key, value) entries -/
inductive Tree
  | sc (s : Scalar)
  | arr (kids : List (Key × Tree))
deriving Repr, Inhabited

abbrev Entry := Key × Tree

def tkeys (l : List Entry) : List Key := l.map (·.1)

/-! ### one array -/

/-- overwrite the value of entry `j`, keeping its key -/
def setVal (l : List Entry) (j : Nat) (t : Tree) : List Entry :=
  match l[j]? with
  | some (k, _) => l.set j (k, t)
  | none => l

/-- `a[k] = t` / `a[] = t` on the entries of one array -/
def store (l : List Entry) (k : Option IKey) (t : Tree) : List Entry :=
  match k with
  | none => l ++ [(.pos, t)]
  | some (.int i) =>
    (match Model.Heap.Keys.findInt i (tkeys l) with
     | some j => setVal l j t
     | none =>
       if i = l.length then l ++ [(.pos, t)]
       else if l.length < i then l ++ [(.int i, t)]
       else l.set i (.pos, t))
  | some (.str s) =>
    (match Model.Heap.Keys.findKey (.str s) (tkeys l) with
     | some j => setVal l j t
     | none => l ++ [(.str s, t)])

/-- positional entries get their position as explicit key -/
def normFrom (j : Nat) : List Entry → List Entry
  | [] => []
  | (k, t) :: r => (if k = .pos then (.int j, t) else (k, t)) :: normFrom (j + 1) r

def unsetK (l : List Entry) (k : IKey) : List Entry :=
  match k with
  | .int i =>
    let l1 := normFrom 0 l
    (match Model.Heap.Keys.findKey (.int i) (tkeys l1) with
     | some j => l1.eraseIdx j
     | none => l1)
  | .str s =>
    (match Model.Heap.Keys.findKey (.str s) (tkeys l) with
     | some j => l.eraseIdx j
     | none => l)

def Tree.rank : Tree → Int
  | .sc (.int n) => n
  | _ => 0

def insEntry (x : Entry) : List Entry → List Entry
  | [] => [x]
  | y :: ys => if x.2.rank < y.2.rank then x :: y :: ys else y :: insEntry x ys

def sortEntries (l : List Entry) : List Entry := l.foldl (fun acc x => insEntry x acc) []

def applyMeth (l : List Entry) : Meth → List Entry
  | .push n => l ++ [(.pos, .sc (.int n))]
  | .pop => l.dropLast
  | .shift => l.tail
  | .unshift n => (.pos, .sc (.int n)) :: l
  | .sort => sortEntries l

/-! ### state: what every name denotes -/

structure St where
  /-- variable → the variable it is (itself, or the one it was bound to by `&`) -/
  names : List Nat
  vars : List Tree
  /-- property values of each object -/
  objs : List (List Tree)
deriving Repr

def St.varVal? (s : St) (x : Nat) : Option Tree :=
  match s.names[x]? with
  | some c => s.vars[c]?
  | none => none

def St.varObj? (s : St) (x : Nat) : Option Nat :=
  match s.varVal? x with
  | some (.sc (.inst h)) => some h
  | _ => none

def St.propVal? (s : St) (h p : Nat) : Option Tree :=
  match s.objs[h]? with
  | some ps => ps[p]?
  | none => none

def St.setVar (s : St) (x : Nat) (t : Tree) : St :=
  match s.names[x]? with
  | some c => { s with vars := s.vars.set c t }
  | none => s

def St.setProp (s : St) (h p : Nat) (t : Tree) : St :=
  match s.objs[h]? with
  | some ps => { s with objs := s.objs.set h (ps.set p t) }
  | none => s

/-- the value of a place -/
def read (s : St) : Place → Option Tree
  | .var x => s.varVal? x
  | .prop x p =>
    match s.varObj? x with
    | some h => s.propVal? h p
    | none => none
  | .idx b k =>
    match read s b with
    | some (.arr kids) =>
      (match Model.Heap.Keys.find k (tkeys kids) with
       | some j => (kids[j]?).map (·.2)
       | none => some (.sc .null))
    | _ => none

/-- the tree with the sub-tree under key `k` replaced by `f` of it. A missing key is
created when `create` is set (a store: PHP creates the intermediate arrays of
`$a[k][…] = v`); `unset` and the in-place methods do not create anything. -/
def Tree.modifyAt (create : Bool) (k : IKey) (f : Tree → Option Tree) : Tree → Option Tree
  | .arr kids =>
    (match Model.Heap.Keys.find k (tkeys kids) with
     | some j =>
       (match kids[j]? with
        | some (kk, c) => (f c).map (fun c' => .arr (kids.set j (kk, c')))
        | none => none)
     | none => if create then (f (.arr [])).map (fun c' => .arr (store kids (some k) c')) else none)
  | .sc _ => none

/-- rebuild the tree of the name at the root of `b` so that the value at `b` becomes
`f` of it; every other name keeps its tree -/
def modify (s : St) (create : Bool) : Place → (Tree → Option Tree) → Option St
  | .var x, f =>
    match s.varVal? x with
    | some t => (f t).map (s.setVar x)
    | none => none
  | .prop x p, f =>
    match s.varObj? x with
    | some h =>
      (match s.propVal? h p with
       | some t => (f t).map (s.setProp h p)
       | none => none)
    | none => none
  | .idx b k, f => modify s create b (Tree.modifyAt create k f)

/-- apply `g` to the entries of the array at `b` -/
def onArray (s : St) (create : Bool) (b : Place) (g : List Entry → List Entry) : Option St :=
  modify s create b (fun t => match t with | .arr l => some (.arr (g l)) | .sc _ => none)

mutual
def litTree (s : St) : Lit → Option Tree
  | .int n => some (.sc (.int n))
  | .null => some (.sc .null)
  | .str cs => some (.sc (.str cs))
  | .rd p => read s p
  | .arr items => (treeL s items).map .arr
def treeL (s : St) : List (Key × Lit) → Option (List Entry)
  | [] => some []
  | (k, l) :: r =>
    match litTree s l, treeL s r with
    | some t, some rest => some ((k, t) :: rest)
    | _, _ => none
end

def evalRV (s : St) : RV → Option Tree
  | .int n => some (.sc (.int n))
  | .null => some (.sc .null)
  | .lit l => litTree s l
  | .rd p => read s p
  | .call p => read s p      -- a call that returns what a place holds yields that value
  | .str cs => some (.sc (.str cs))
  | .upd p u =>              -- `place op= c`: the new scalar computed from the one the place holds
    match read s p with
    | some (.sc sv) => (u.apply sv).map .sc
    | _ => none

def stepOpt (s : St) : Op → Option St
  | .setVar x r => (evalRV s r).map (s.setVar x)
  | .setProp x p r =>
    match evalRV s r, s.varObj? x with
    | some t, some h =>
      (match s.propVal? h p with
       | some _ => some (s.setProp h p t)
       | none => none)
    | _, _ => none
  | .setIdx b k r =>
    match evalRV s r with
    | some t => onArray s true b (fun l => store l k t)
    | none => none
  | .unset b k => onArray s false b (fun l => unsetK l k)
  | .meth b m => onArray s false b (fun l => applyMeth l m)
  | .new x =>
    some { (s.setVar x (.sc (.inst s.objs.length))) with objs := s.objs ++ [List.replicate np (.sc .null)] }
  | .clone x y =>
    match s.varObj? y with
    | some h =>
      (match s.objs[h]? with
       | some ps => some ({ s with objs := s.objs ++ [ps] }.setVar x (.sc (.inst s.objs.length)))
       | none => none)
    | none => none
  | .ref x y =>
    match s.names[y]? with
    | some c => if x < s.names.length then some { s with names := s.names.set x c } else none
    | none => none

def step (s : St) (op : Op) : St := (stepOpt s op).getD s

def init (nv : Nat) : St :=
  { names := List.range nv, vars := List.replicate nv (.sc .null), objs := [] }

def run (nv : Nat) (ops : List Op) : St := ops.foldl step (init nv)

/-! ### what a heap state denotes: forget every identity -/

mutual
def eraseVal : Model.Heap.Val → Tree
  | .sc s => .sc s
  | .arr _ kids => .arr (eraseL kids)
def eraseL : List Model.Heap.Slot → List Entry
  | [] => []
  | (_, k, v) :: r => (k, eraseVal v) :: eraseL r
end

/-- the value of every name in a heap state -/
def abs (s : Model.Heap.St) : St :=
  { names := s.names, vars := s.vcells.map eraseVal, objs := s.objs.map (·.map eraseVal) }

end Spec.Val
