import Model.Gen
/-!
# Spec.Gen — what a user of a generic class relies on

An object made by `new C<A₁,…,Aₙ>()` accepts into a member declared with the
k-th type parameter exactly the values of type `Aₖ`; members with a concrete
type accept exactly that type; untyped / undeclared members accept anything.
Nothing else enters: the answer is a function of *how this object was created*
(`Creation`) and of the class text — not of any other object, not of what
happened before or after.

(Only the vocabulary — `Ty`, `Val`, `Ty.accepts`, `Class`, `Op`, `Out` — is
shared with the model.)
-/
namespace Spec.Gen
open Model.Gen (Ty Val PTy Class Op Out)

/-- How an object came to be: its class and the type arguments written at the
`new` (`none`: raw `new C()` without arguments). -/
structure Creation where
  cls : Nat
  args : Option (List Ty)
  deriving DecidableEq, Repr

/-- The type argument that belongs to type parameter `name`: the argument at
the position of `name` in the parameter list. -/
def argOf (params : List Nat) (args : List Ty) (name : Nat) : Option Ty :=
  if name ∈ params then args[params.idxOf name]? else none

/-- Does the object created as `r` accept value `v` in member `p`? -/
def accepts (decls : List Class) (r : Creation) (p : Nat) (v : Val) : Bool :=
  match decls[r.cls]? with
  | none => true
  | some c =>
    match c.props[p]? with
    | none => true                       -- undeclared: dynamic property
    | some .untyped => true
    | some (.conc t) => t.accepts v
    | some (.generic name) =>
      match r.args with
      | none => true                     -- raw object: nothing to enforce
      | some args =>
        match argOf c.params args name with
        | none => true
        | some t => t.accepts v

/-- Does the object created as `r` accept value `v` for a method parameter declared with type
parameter `name`?  As for a member, except that `null` is always let through. -/
def takes (decls : List Class) (r : Creation) (name : Nat) (v : Val) : Bool :=
  match decls[r.cls]? with
  | none => true
  | some c =>
    v == .null ||
      match r.args with
      | none => true
      | some args =>
        match argOf c.params args name with
        | none => true
        | some t => t.accepts v

/-- Is `new C<args>` well-formed: the class exists and every parameter gets an argument? -/
def arityOk (decls : List Class) (c : Nat) (args : List Ty) : Bool :=
  match decls[c]? with
  | none => false
  | some cl => cl.params.length ≤ args.length

/-- The object an operation creates, if any. Depends on the operation alone. -/
def creates (decls : List Class) : Op → Option Creation
  | .inst c args => if arityOk decls c args then some ⟨c, some args⟩ else none
  | .instRaw c => if (decls[c]?).isSome then some ⟨c, none⟩ else none
  | .instCtor c args p v =>
    if arityOk decls c args && accepts decls ⟨c, some args⟩ p v then some ⟨c, some args⟩ else none
  | .write .. => none
  | .read .. => none
  | .call .. => none
  -- through which AST node a `new` is executed, and how often that node ran before, is immaterial
  | .instAt _ c args => if arityOk decls c args then some ⟨c, some args⟩ else none
  | .instRawAt _ c => if (decls[c]?).isSome then some ⟨c, none⟩ else none
  | .instCtorAt _ c args p v =>
    if arityOk decls c args && accepts decls ⟨c, some args⟩ p v then some ⟨c, some args⟩ else none

/-- The objects of a history, in creation order (index = the `i` of `write i …`). -/
def created (decls : List Class) (h : List Op) : List Creation :=
  h.filterMap (creates decls)

/-- Outcome of a typed write on the `i`-th object. -/
def writeOut (decls : List Class) (objs : List Creation) (i p : Nat) (v : Val) : Out :=
  match objs[i]? with
  | none => .noInst
  | some r => if accepts decls r p v then .accepted else .rejected

/-- Outcome of one operation given the objects created so far. -/
def outOf (decls : List Class) (objs : List Creation) : Op → Out
  | .inst c args =>
    match decls[c]? with
    | none => .noClass
    | some cl => if cl.params.length ≤ args.length then .created objs.length else .crash
  | .instRaw c =>
    match decls[c]? with
    | none => .noClass
    | some _ => .created objs.length
  | .instCtor c args p v =>
    match decls[c]? with
    | none => .noClass
    | some cl =>
      if cl.params.length ≤ args.length then
        if accepts decls ⟨c, some args⟩ p v then .created objs.length else .rejected
      else .crash
  | .write i p v => writeOut decls objs i p v
  | .read i _ => if i < objs.length then .readOk else .noInst
  | .call i name v =>
    match objs[i]? with
    | none => .noInst
    | some r =>
      match decls[r.cls]? with
      | none => .noClass
      | some c =>
        if name ∈ c.params then (if takes decls r name v then .accepted else .rejected) else .noMember
  | .instAt _ c args =>
    match decls[c]? with
    | none => .noClass
    | some cl => if cl.params.length ≤ args.length then .created objs.length else .crash
  | .instRawAt _ c =>
    match decls[c]? with
    | none => .noClass
    | some _ => .created objs.length
  | .instCtorAt _ c args p v =>
    match decls[c]? with
    | none => .noClass
    | some cl =>
      if cl.params.length ≤ args.length then
        if accepts decls ⟨c, some args⟩ p v then .created objs.length else .rejected
      else .crash

def runFrom (decls : List Class) (objs : List Creation) : List Op → List Out
  | [] => []
  | o :: os =>
    outOf decls objs o ::
      runFrom decls (match creates decls o with | some r => objs ++ [r] | none => objs) os

def run (decls : List Class) (h : List Op) : List Out := runFrom decls [] h

end Spec.Gen
