import Model.Ser
/-!
# Spec.Ser — what a PHP value *is*, whatever Go type carries it (C14)

origami has two carriers for a PHP array (`data.ArrayValue`: slots, some of them named;
`data.ObjectValue`: ordered string keys). A script sees neither: it sees an ordered sequence of
(key, value) entries whose keys are integers or strings, a string that is the decimal form of an
integer being that integer (`$a["5"]` and `$a[5]` are the same element). `sem` maps a model value
to that view. "`unserialize` inverts `serialize`" means: the value read back has the same `sem`.

The canonical-integer test is `Model.Ser.intKeyOf` (`data.ParseIntArrayKeyName`), which is PHP's
rule: optional `-`, no leading zero, not `-0`, within 64 bits.
-/
namespace Spec.Ser
open Model.Ser

inductive SKey where
  | int (i : Int)
  | str (s : Bytes)
  deriving DecidableEq

mutual
inductive SV where
  | null
  | bool (b : Bool)
  | int (i : Int)
  | float (r : Bytes)
  | str (s : Bytes)
  | array (entries : SL)
inductive SL where
  | nil
  | cons (k : SKey) (v : SV) (rest : SL)
end

def SL.keys : SL → List SKey
  | .nil => []
  | .cons k _ rest => k :: rest.keys

/-- a string key that is the canonical decimal form of an integer is that integer -/
def keyOf (k : Bytes) : SKey :=
  match intKeyOf k with
  | some n => .int n
  | none => .str k

/-- the key of slot `idx` of an `ArrayValue`: its position when the slot has no name -/
def slotSem (idx : Nat) (k : Bytes) : SKey := if k = [] then .int idx else keyOf k

mutual
def sem : PV → SV
  | .null => .null
  | .bool b => .bool b
  | .int i => .int i
  | .str s => .str s
  | .float r => .float r
  | .arr items => .array (semItems 0 items)
  | .obj props => .array (semProps props)
def semItems : Nat → PL → SL
  | _, .nil => .nil
  | idx, .cons k v rest => .cons (slotSem idx k) (sem v) (semItems (idx + 1) rest)
def semProps : PL → SL
  | .nil => .nil
  | .cons k v rest => .cons (keyOf k) (sem v) (semProps rest)
end

mutual
/-- no array has two entries with the same key (what a PHP array is) -/
def Distinct : PV → Prop
  | .null => True
  | .bool _ => True
  | .int _ => True
  | .str _ => True
  | .float _ => True
  | .arr items => (semItems 0 items).keys.Nodup ∧ DistinctL items
  | .obj props => (semProps props).keys.Nodup ∧ DistinctL props
def DistinctL : PL → Prop
  | .nil => True
  | .cons _ v rest => Distinct v ∧ DistinctL rest
end

end Spec.Ser
