import Model.Chan
/-!
# Spec.Chan — what a script relies on when it uses `Channel` (C09)

Stated over what can be *observed*: the per-thread histories (operation, result), the global
order of receive events, and what is still buffered. Only the value types of `Model.Chan` are
used here, none of its transition functions.
-/
namespace Spec.Chan
open Model.Chan (Msg Op Res)

structure Obs where
  hist     : Nat → List (Op × Res)   -- completed operations of every thread, in program order
  order    : List (Nat × Msg)        -- (receiver, message) in the order the receives happened
  buffered : List Msg                -- accepted by the channel, not yet received

/-- payloads of the sends that reported success -/
def sentOK (h : List (Op × Res)) : List Nat :=
  h.filterMap fun | (.send v, .ok true) => some v | _ => none

/-- messages returned by receives -/
def received (h : List (Op × Res)) : List Msg :=
  h.filterMap fun | (_, .got m) => some m | _ => none

/-- payloads delivered from sender `t`, in global receive order -/
def delivered (o : Obs) (t : Nat) : List Nat :=
  ((o.order.map (·.2)).filter (fun m => m.tid == t)).map (·.val)

/-- nothing is received that was not sent successfully by the thread it is attributed to -/
def NoInvention (o : Obs) : Prop :=
  ∀ r m, m ∈ received (o.hist r) → m.val ∈ sentOK (o.hist m.tid)

/-- no message is received twice (nor received and still buffered) -/
def AtMostOnce (o : Obs) : Prop := (o.order.map (·.2) ++ o.buffered).Nodup

/-- what has been delivered from a sender is a prefix of what it sent successfully, in its order -/
def PerSenderFifo (o : Obs) : Prop := ∀ t, delivered o t <+: sentOK (o.hist t)

/-- each single receiver sees the values of one sender in the order they were sent -/
def ReceiverSeesSenderOrder (o : Obs) : Prop :=
  ∀ r t, (((received (o.hist r)).filter (fun m => m.tid == t)).map (·.val)).Sublist (sentOK (o.hist t))

/-- once the buffer is drained, exactly the successfully sent values have been delivered -/
def ExactlyOnceWhenDrained (o : Obs) : Prop :=
  o.buffered = [] → ∀ t, delivered o t = sentOK (o.hist t)

/-- a successful send is never lost: its value is delivered or still buffered -/
def NothingLost (o : Obs) : Prop :=
  ∀ t, delivered o t ++ ((o.buffered.filter (fun m => m.tid == t)).map (·.val)) = sentOK (o.hist t)

/-- the global order is consistent with what each receiver saw -/
def OrderConsistent (o : Obs) : Prop :=
  ∀ r, received (o.hist r) = (o.order.filter (fun p => p.1 == r)).map (·.2)

end Spec.Chan
