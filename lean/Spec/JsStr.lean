/-
C15 — what docs/strings.md promises for the string methods, read with
`String.prototype.*` where the document is silent.

The document never says in which unit a string is measured; every example is
ASCII.  The property statement reads the methods "Node.js style", where
`"héllo wörld".length` is 11: positions and lengths count **characters**
(UTF-16 code units in JavaScript, which for text inside the Basic Multilingual
Plane are the code points modelled here).

Deviations from JavaScript the document itself states and the spec follows:
`replace(search, replace)` replaces **every** occurrence (its example turns
"Hello World" into "Hell0 W0rld"); `split()` without separator splits at
white space.  Text primitives (`Model.Text`) are shared with the model: they
are the common reading of the Go and the JavaScript library documentation.
-/
import Model.Text
namespace Spec.JsStr
open Model.Text

def length (s : List Char) : Int := s.length

/-- position of the first occurrence, −1 if none -/
def indexOf (s pat : List Char) : Int :=
  match indexFrom pat s 0 with
  | some i => i
  | none => -1

/-- String.prototype.substring: clamp both ends into `0..len`, swap if needed -/
def substring (s : List Char) (start : Int) (stop : Option Int) : List Char :=
  let len := s.length
  let a := min start.toNat len
  let b := match stop with
    | none => len
    | some e => min e.toNat len
  (s.take (max a b)).drop (min a b)

def replace (s search repl : List Char) : List Char := replaceAll s search repl

def split (s : List Char) (sep : Option (List Char)) : List (List Char) :=
  match sep with
  | none => fields s
  | some p => Model.Text.split s p

def trim (s : List Char) : List Char := trimSpace s
def toUpperCase (s : List Char) : List Char := upper s
def toLowerCase (s : List Char) : List Char := lower s
def startsWith (s pat : List Char) : Bool := pat.isPrefixOf s
def endsWith (s pat : List Char) : Bool := pat.isSuffixOf s

end Spec.JsStr
