/-
C15 — what docs/strings.md promises for the string methods, read with
`String.prototype.*` where the document is silent.

The document never says in which unit a string is measured; every example is
ASCII.  The property statement reads the methods "Node.js style", where
`"héllo wörld".length` is 11: positions and lengths count **characters**
(UTF-16 code units in JavaScript, which for text inside the Basic Multilingual
Plane are the code points modelled here).

Deviations from JavaScript the document itself states and the spec follows:
`replace(search, replace)` replaces **every** occurrence (its example turns
"Hello World" into "Hell0 W0rld"); `split()` without separator splits at
white space.  `replace` and `split` are written here on their own, by
occurrence positions, the way ECMA-262 phrases them; prefix / suffix tests,
white-space trimming, `fields`, ASCII case mapping and the search `indexFrom`
are the list-library readings shared with `Model.Text`.
-/
import Model.Text
namespace Spec.JsStr
open Model.Text

def length (s : List Char) : Int := s.length

/-- position of the first occurrence, −1 if none -/
def indexOf (s pat : List Char) : Int :=
  match indexFrom pat s 0 with
  | some i => i
  | none => -1

/-- String.prototype.substring: clamp both ends into `0..len`, swap if needed -/
def substring (s : List Char) (start : Int) (stop : Option Int) : List Char :=
  let len := s.length
  let a := min start.toNat len
  let b := match stop with
    | none => len
    | some e => min e.toNat len
  (s.take (max a b)).drop (min a b)

/-- replace every occurrence of a non-empty `old`: scan left to right; where an
occurrence starts, emit the replacement and continue behind it (`fuel` ≥ length) -/
def replaceScan (old new : List Char) : Nat → List Char → List Char
  | 0, _ => []
  | _ + 1, [] => []
  | f + 1, c :: t =>
    if old.isPrefixOf (c :: t) then new ++ replaceScan old new f ((c :: t).drop old.length)
    else c :: replaceScan old new f t

/-- every occurrence replaced; the empty search text occurs before every
character and at the end ("abc" → "-a-b-c-") -/
def replace (s search repl : List Char) : List Char :=
  if search.isEmpty then repl ++ s.flatMap (fun c => c :: repl) else replaceScan search repl s.length s

/-- the pieces of `l` between consecutive occurrences of a non-empty `sep`:
up to the first occurrence, then the pieces of what follows it -/
def pieces (sep : List Char) : Nat → List Char → List (List Char)
  | 0, l => [l]
  | f + 1, l =>
    match indexFrom sep l 0 with
    | none => [l]
    | some i => l.take i :: pieces sep f (l.drop (i + sep.length))

def split (s : List Char) (sep : Option (List Char)) : List (List Char) :=
  match sep with
  | none => fields s
  | some p => if p.isEmpty then s.map (fun c => [c]) else pieces p s.length s

def trim (s : List Char) : List Char := trimSpace s
def toUpperCase (s : List Char) : List Char := upper s
def toLowerCase (s : List Char) : List Char := lower s
def startsWith (s pat : List Char) : Bool := pat.isPrefixOf s
def endsWith (s pat : List Char) : Bool := pat.isSuffixOf s

end Spec.JsStr
