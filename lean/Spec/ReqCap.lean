/-!
# Spec.ReqCap — what the user relies on for a by-value captured value

The closure's variable is the request's own: it starts as the content the script gave the value at
boot, with a fresh foreach cursor, and changes only through the request's own steps.  No other
request, no schedule, no shared value in this definition.
-/
namespace Spec.ReqCap

inductive Op | set (i : Nat) | push | rewind | next | readAll | gate | write
  deriving DecidableEq, Repr

/-- run the program over a private (content, cursor); returns the observations -/
def go (d : Nat) : List Op → List Nat → Nat → List Nat → List Nat
  | [], _, _, obs => obs
  | .write :: _, _, _, obs => obs
  | .set i :: rest, items, cur, obs => go d rest (items.set i d) cur obs
  | .push :: rest, items, cur, obs => go d rest (items ++ [d]) cur obs
  | .rewind :: rest, items, _, obs => go d rest items 0 obs
  | .next :: rest, items, cur, obs => go d rest items (cur + 1) (obs ++ (items[cur]?).toList)
  | .readAll :: rest, items, cur, obs => go d rest items cur (obs ++ items)
  | .gate :: rest, items, cur, obs => go d rest items cur obs

def respond (boot : List Nat) (d : Nat) (prog : List Op) : List Nat := go d prog boot 0 []

end Spec.ReqCap
