import Model.Req
/-!
# Spec.Req — what a handler author relies on (C11)

A response is a function of *its own request*: the handler's steps are interpreted
against the request's own data only.  There are no other requests, no schedule and
no shared storage in this definition: each superglobal is simply "the array of this
request", built the first time it is used after the handler's reset and then kept
(with the handler's own writes) until the next reset.
-/
namespace Spec.Req
open Model.Req

/-- the request's own superglobal arrays, by kind (`none` = not built yet) -/
structure Own where
  arr     : Kind → Option Content := fun _ => none
  parsed  : Bool := false
  locals  : List (Nat × Obs) := []
  last    : Obs := none
  pending : List Obs := []
  body    : List Obs := []

def source (env : Content) (d : ReqData) (parsed : Bool) : Kind → Content
  | .get => d.query
  | .post => if parsed then d.form else []
  | .cookie => d.cookies
  | .server => d.server
  | .files => d.files
  | .env => env
  | _ => []

def setArr (o : Own) (k : Kind) (v : Content) : Own :=
  { o with arr := fun k' => if k' = k then some v else o.arr k' }

/-- build (if needed) and return the array of a basic kind -/
def arrayOf (env : Content) (d : ReqData) (o : Own) (k : Kind) : Own × Content :=
  match o.arr k with
  | some v => (o, v)
  | none => let v := source env d o.parsed k; (setArr o k v, v)

/-- `$_REQUEST` = `$_GET` then `$_POST` then `$_COOKIE`, later sources overriding values -/
def requestOf (env : Content) (d : ReqData) (o : Own) : Own × Content :=
  match o.arr .request with
  | some v => (o, v)
  | none =>
    let (o1, g) := arrayOf env d o .get
    let (o2, p) := arrayOf env d o1 .post
    let (o3, c) := arrayOf env d o2 .cookie
    let v := Content.merge (Content.merge (Content.merge [] g) p) c
    (setArr o3 .request v, v)

def superglobal (env : Content) (d : ReqData) (o : Own) (k : Kind) : Own × Content :=
  if k = .request then requestOf env d o else arrayOf env d o k

def see (o : Own) (v : Obs) : Own := { o with last := v, pending := o.pending ++ [v] }

def exec (env : Content) (d : ReqData) (o : Own) : Step → Own
  | .reset => { o with arr := fun _ => none }
  | .parseForm => { o with parsed := true }
  | .readSG k key => let (o', a) := superglobal env d o k; see o' (a.get key)
  | .writeSG k key v => let (o', a) := superglobal env d o k; setArr o' k (a.set key v)
  | .readReq a key => see o (readAcc d o.parsed a key)
  | .writeLocal slot (.const v) => { o with locals := (slot, some v) :: o.locals }
  | .writeLocal slot .last => { o with locals := (slot, o.last) :: o.locals }
  | .readLocal slot => see o ((o.locals.lookup slot).getD none)
  | .gate => o
  | .write => { o with body := o.body ++ o.pending, pending := [] }

/-- the response the request alone determines -/
def respond (env : Content) (d : ReqData) (prog : List Step) : List Obs :=
  (prog.foldl (exec env d) {}).body

end Spec.Req
