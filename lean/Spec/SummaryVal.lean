import Model.Summary
/-
C06 — reference semantics for the programs of `Model.Summary`: arrays are immutable values
(lists of scalars / lists of scalars), a copy is the same value, a write changes the one
variable it names. No identities, no flags.
-/
namespace Spec.SummaryVal
open Model.Summary

inductive SElem where
  | sc (n : Nat)
  | arr (c : List Nat)
deriving DecidableEq, Repr

abbrev SVal := List SElem

def ofLit : LitE → SElem
  | .sc n => .sc n
  | .arr c => .arr c

def putAt (l : SVal) (k : Nat) (e : SElem) : SVal :=
  if k < l.length then l.set k e else l ++ [e]

def pokeAt (v : SVal) (k j n : Nat) : SVal :=
  match v[k]? with
  | some (.arr c) => v.set k (.arr (c.set j n))
  | _ => v

def step (s : List SVal) : Op → List SVal
  | .lit x es => s.set x (es.map ofLit)
  | .copy x y =>
    match s[x]? with
    | none => s
    | some v => s.set y v
  | .put _ x k v =>
    match s[x]? with
    | none => s
    | some a => s.set x (putAt a k (ofLit v))
  | .del x k =>
    match s[x]? with
    | none => s
    | some a => s.set x (a.eraseIdx k)
  | .wr x k j n =>
    match s[x]? with
    | none => s
    | some a => s.set x (pokeAt a k j n)

def run (nv : Nat) (p : List Op) : List SVal := p.foldl step (List.replicate nv [])

/-- forget identities and flags -/
def absE : Elem → SElem
  | .sc n => .sc n
  | .inner _ c => .arr c

def absA (a : Arr) : SVal := a.elems.map absE

def abs (s : State) : List SVal := s.vars.map absA

end Spec.SummaryVal
