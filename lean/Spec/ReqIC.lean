import Model.ReqIC
/-!
# Spec.ReqIC — what a handler author relies on for method calls on the request's own objects (C11)

`$req->m(…)` / `$res->m(…)` act on the request that executes the call — however often the call
site is executed, whoever else executes it meanwhile.  No other request, schedule, class identity or
node memory exists in this definition.
-/
namespace Spec.ReqIC
open Model.ReqIC

def go (d : Val) : List Step → List Obs → List Obs → List Obs
  | [], _, body => body
  | .call _ :: rest, pend, body => go d rest (pend ++ [some d]) body
  | .gate :: rest, pend, body => go d rest pend body
  | .write :: rest, pend, body => go d rest [] (body ++ pend)

/-- the response the request alone determines: every call observes the request's own datum -/
def respond (d : Val) (prog : List Step) : List Obs := go d prog [] []

end Spec.ReqIC
