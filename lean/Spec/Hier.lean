/-
C08 — what a user relies on, stated on the declared hierarchy only (no queues, no fuel, no visited sets):

* `IsA G c t`     — `t` is the class of the object, one of its ancestors, or an interface reachable through
                    implements / interface-extends edges (reflexive-transitive closure, as an inductive Prop);
* `MostDerived`   — the nearest class at or above `c` that declares `m`;
* `LikeSpec`      — the object provides, itself or by inheritance, every method the target declares, with the
                    same number of parameters;
* `Acyclic`, `WF` — no class is its own strict ancestor, no interface its own strict parent; every name that is
                    referred to is declared (origami's parser refuses a class whose parent is not yet declared).
-/
import Model.Hier
namespace Spec.Hier
open Model.Hier (Name Meth Cls Ifc Graph getClass getIface findM Kind throwableName exceptionName errorName)

/-- interface `i` is `k` or extends it, directly or indirectly -/
inductive IReach (G : Graph) : Name → Name → Prop
  | refl (i : Name) : IReach G i i
  | step {i j k : Name} {d : Ifc} : getIface G i = some d → j ∈ d.ext → IReach G j k → IReach G i k

/-- an object of class `c` is a `t` -/
inductive IsA (G : Graph) : Cls → Name → Prop
  | self (c : Cls) : IsA G c c.name
  | impl {c : Cls} {i t : Name} : i ∈ c.impl → IReach G i t → IsA G c t
  | ext {c d : Cls} {p t : Name} : c.ext = some p → getClass G p = some d → IsA G d t → IsA G c t

/-- `AncVia G c via a`: `a` is `c` or an ancestor of `c`; `via` lists the classes passed on the way, `c` first,
`a` excluded -/
inductive AncVia (G : Graph) : Cls → List Cls → Cls → Prop
  | self (c : Cls) : AncVia G c [] c
  | up {c d a : Cls} {p : Name} {via : List Cls} :
      c.ext = some p → getClass G p = some d → AncVia G d via a → AncVia G c (c :: via) a

/-- `d` is the nearest class at or above `c` for which `decl d = some r` -/
def MostDerived {α : Type} (G : Graph) (decl : Cls → Option α) (c d : Cls) (r : α) : Prop :=
  ∃ via, AncVia G c via d ∧ decl d = some r ∧ ∀ e ∈ via, decl e = none

def declInst (m : Name) (c : Cls) : Option Meth := findM c.meths m
def declStat (m : Name) (c : Cls) : Option Meth := findM c.smeths m
/-- a method of either kind; within one class an instance method shadows a static one of the same name -/
def declAny (m : Name) (c : Cls) : Option (Bool × Meth) :=
  match findM c.meths m with
  | some x => some (false, x)
  | none => (findM c.smeths m).map (fun x => (true, x))

/-- no class at or above `c` declares anything for `decl` -/
def NoneDeclares {α : Type} (G : Graph) (decl : Cls → Option α) (c : Cls) : Prop :=
  ∀ via d, AncVia G c via d → decl d = none

/-- the object provides every method of `targets` (own or inherited, most-derived definition) with the same
number of parameters -/
def LikeSpec (G : Graph) (c : Cls) (targets : List Meth) : Prop :=
  ∀ tm ∈ targets, ∃ d x, MostDerived G (declInst tm.name) c d x ∧ x.arity = tm.arity

/-! ### acyclicity and well-formedness -/

/-- transitive closure of a successor function -/
inductive TC (succ : Name → List Name) : Name → Name → Prop
  | one {a b : Name} : b ∈ succ a → TC succ a b
  | more {a b c : Name} : b ∈ succ a → TC succ b c → TC succ a c

def NoCycle (succ : Name → List Name) : Prop := ∀ a, ¬ TC succ a a

/-- the parent of a declared class -/
def csucc (G : Graph) (n : Name) : List Name :=
  match getClass G n with
  | some c => c.ext.toList
  | none => []

/-- the parents of a declared interface -/
def isucc (G : Graph) (n : Name) : List Name :=
  match getIface G n with
  | some d => d.ext
  | none => []

def Acyclic (G : Graph) : Prop := NoCycle (csucc G) ∧ NoCycle (isucc G)

/-- every parent class, implemented interface and parent interface that is named is declared -/
def WF (G : Graph) : Prop :=
  (∀ c ∈ G.classes, (∀ p, c.ext = some p → (getClass G p).isSome) ∧ (∀ i ∈ c.impl, (getIface G i).isSome)) ∧
  (∀ d ∈ G.ifaces, ∀ j ∈ d.ext, (getIface G j).isSome)

/-- `c` is the class registered under its name -/
def Declared (G : Graph) (c : Cls) : Prop := getClass G c.name = some c

/-- the `Throwable` fallback of `catchTypeMatches` is harmless when `Exception` and `Error` objects are
`Throwable` (std declares `Exception implements Throwable`; there is no `Error` class) -/
def ThrowableOK (G : Graph) (c : Cls) : Prop :=
  (IsA G c exceptionName → IsA G c throwableName) ∧ (IsA G c errorName → IsA G c throwableName)

/-- what each of the four implementations needs beyond acyclicity -/
def KindOK (G : Graph) (c : Cls) : Kind → Prop
  | .op => WF G ∧ Declared G c
  | .param => True
  | .this => True
  | .thrown => ThrowableOK G c

end Spec.Hier
