import Model.MwTopo
/-!
C13 — what a script relies on when it builds a tree of server objects: every server object has
its OWN list of middlewares; `group()` starts the new object with the parent's list as it is at
that moment; `middleware()` adds to the list of the object it is called on and to no other; a
route is wrapped with the list of its object at the moment it is registered. No arrays, no
capacities.
-/
namespace Spec.MwTopo
open Model.Mw (Entry)
open Model.MwTopo (Op)

structure St where
  objs : Nat → List Entry
  n : Nat
  routes : List (List Entry)

def init : St := { objs := fun _ => [], n := 1, routes := [] }

def step (st : St) : Op → St
  | .mw o e => if o < st.n then { st with objs := fun i => if i = o then st.objs o ++ [e] else st.objs i } else st
  | .group p => if p < st.n then { st with objs := fun i => if i = st.n then st.objs p else st.objs i, n := st.n + 1 } else st
  | .route o => if o < st.n then { st with routes := st.routes ++ [st.objs o] } else st

def run (ops : List Op) : St := ops.foldl step init

/-- documented order: ascending priority, ties in registration order, each wrapping all later ones -/
def traces (ops : List Op) : List Model.Mw.Handler :=
  (run ops).routes.map (fun l => Model.Mw.chain [.final] (Model.Mw.sortStable l))

end Spec.MwTopo
