import Model.TypedNil
/-!
# Spec.TypedNil — what the user relies on: an operand the parser accepted can be evaluated

Independent of how sub-parsers report "nothing found": whatever a producer hands to the guard,
if the guard accepts it, using it does not dereference nil; and "nothing found" is rejected.
-/
namespace Spec.TypedNil
open Model.TypedNil

/-- a producer (its conversion to the guarded interface value) is guarded soundly -/
def GuardSound (conv : Found → Iface) : Prop :=
  ∀ r w, required (conv r) false = .accept w → w.use ≠ .nilDeref

/-- a missing operand is reported as missing -/
def GuardComplete (conv : Found → Iface) : Prop :=
  required (conv none) false = .missing

end Spec.TypedNil
