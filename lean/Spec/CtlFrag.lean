import Spec.Ctl
/-!
# Spec.CtlFrag — the programs on which the pinned interpreter is shown to follow `Spec.Ctl`

`inFragment p` is the conjunction of three syntactic conditions; each of them excludes one
thing the interpreter is known to do differently (see `Proofs.Properties.C02`):

* **single level**: every `break` / `continue` has level 1 (`break 2` is parsed but every loop
  consumes any Break; `continue 2` is parsed as `continue; 2;`);
* **explicit return**: every function body ends in a `return` statement (a body that runs off
  its end yields the value of its last statement instead of null);
* **arity**: a call of a declared function passes at least the parameters without default and
  at most as many arguments as there are parameters (missing ones are silently null, surplus
  ones are not evaluated);

and one well-formedness condition every PHP-like language imposes at compile time: the
parameter names of a function are pairwise distinct.
-/
namespace Spec.Ctl

def Args.length : Args → Nat
  | .nil => 0
  | .cons _ rest => rest.length + 1

def arityOk (funs : List FunDecl) (g : FName) (n : Nat) : Bool :=
  match lookupFun funs g with
  | some d => decide (required d.params ≤ n) && decide (n ≤ d.params.length)
  | none => true

mutual
def goodE (funs : List FunDecl) : Expr → Bool
  | .lit _ => true
  | .var _ => true
  | .bin _ a b => goodE funs a && goodE funs b
  | .not a => goodE funs a
  | .and a b => goodE funs a && goodE funs b
  | .or a b => goodE funs a && goodE funs b
  | .assign _ e => goodE funs e
  | .inc _ _ => true
  | .call g args => arityOk funs g args.length && goodArgs funs args
  | .matchE s arms d => goodE funs s && (goodArms funs arms && goodE funs d)
def goodArgs (funs : List FunDecl) : Args → Bool
  | .nil => true
  | .cons e rest => goodE funs e && goodArgs funs rest
def goodArms (funs : List FunDecl) : Arms → Bool
  | .nil => true
  | .cons c r rest => goodE funs c && (goodE funs r && goodArms funs rest)
end

mutual
def goodS (funs : List FunDecl) : Stmt → Bool
  | .echo es => goodArgs funs es
  | .expr e => goodE funs e
  | .ite c t elifs els => goodE funs c && (goodB funs t && (goodElifs funs elifs && goodB funs els))
  | .while_ c b => goodE funs c && goodB funs b
  | .doWhile b c => goodB funs b && goodE funs c
  | .for_ inits cond incs b =>
    goodArgs funs inits && (goodE funs cond && (goodArgs funs incs && goodB funs b))
  | .foreach e _ _ b => goodE funs e && goodB funs b
  | .switch e cases dflt => goodE funs e && (goodCases funs cases && goodB funs dflt)
  | .brk n => n == 1
  | .cont n => n == 1
  | .ret none => true
  | .ret (some e) => goodE funs e
def goodB (funs : List FunDecl) : Block → Bool
  | .nil => true
  | .cons s rest => goodS funs s && goodB funs rest
def goodElifs (funs : List FunDecl) : ElseIfs → Bool
  | .nil => true
  | .cons c b rest => goodE funs c && (goodB funs b && goodElifs funs rest)
def goodCases (funs : List FunDecl) : Cases → Bool
  | .nil => true
  | .cons l b rest => goodE funs l && (goodB funs b && goodCases funs rest)
end

/-- the last statement of the block is a `return` -/
def endsRet : Block → Bool
  | .nil => false
  | .cons (.ret _) .nil => true
  | .cons _ rest => endsRet rest

def goodFun (funs : List FunDecl) (d : FunDecl) : Bool :=
  goodB funs d.body && (endsRet d.body && decide (d.params.map (·.name)).Nodup)

def inFragment (p : Prog) : Bool := p.funs.all (goodFun p.funs) && goodB p.funs p.main

/-! `closedS k st`: with `k` breakable constructs (loops, switches) around `st`, every `break n` /
`continue n` in `st` names an existing one: 1 ≤ n ≤ (its nesting depth inside `st`) + `k`. -/
mutual
def closedS : Nat → Stmt → Bool
  | _, .echo _ => true
  | _, .expr _ => true
  | k, .ite _ t elifs els => closedB k t && (closedElifs k elifs && closedB k els)
  | k, .while_ _ b => closedB (k+1) b
  | k, .doWhile b _ => closedB (k+1) b
  | k, .for_ _ _ _ b => closedB (k+1) b
  | k, .foreach _ _ _ b => closedB (k+1) b
  | k, .switch _ cases dflt => closedCases (k+1) cases && closedB (k+1) dflt
  | k, .brk n => decide (1 ≤ n) && decide (n ≤ k)
  | k, .cont n => decide (1 ≤ n) && decide (n ≤ k)
  | _, .ret _ => true
def closedB : Nat → Block → Bool
  | _, .nil => true
  | k, .cons s rest => closedS k s && closedB k rest
def closedElifs : Nat → ElseIfs → Bool
  | _, .nil => true
  | k, .cons _ b rest => closedB k b && closedElifs k rest
def closedCases : Nat → Cases → Bool
  | _, .nil => true
  | k, .cons _ b rest => closedB k b && closedCases k rest
end

/-- an outcome that leaves at most `k` constructs -/
def OutLe (k : Nat) : Out → Prop
  | .brk m => 1 ≤ m ∧ m ≤ k
  | .cont m => 1 ≤ m ∧ m ≤ k
  | _ => True


end Spec.Ctl
