/-
C06 — `Spec.RefVal`: arrays are values, and a reference to an element is another name for it.

Every variable holds an immutable list of integers; `$x = $y` hands `$x` the value, a store
rebuilds the list of the written variable and nothing else.  A reference variable `r` bound to
`$x[i]` (by `$r = &$x[i]` or as a by-reference parameter — the spec does not care which) is
simply an alias for the location `(x, i)`: a write through it is the store `$x[i] = v`.  There
are no cells, no marks, nothing an earlier statement could leave behind on an array.

This is the meaning of programs in which no array is copied or reassigned while a reference
into an array is live (`Model.RefSlot.disc`); for programs that copy an array with a live
reference in it PHP itself shares the element, which the property allows ("unless a reference
was taken explicitly") and this spec does not describe.

(Only the vocabulary `Op`, `Kind` is shared with the model.)
-/
import Model.RefSlot
namespace Spec.RefVal
open Model.RefSlot (Op Kind)

structure St where
  arrs : List (List Int)
  bnd : List (Option (Nat × Nat))   -- reference variable ↦ the location it names
deriving Repr, DecidableEq

def store (s : St) (x i : Nat) (v : Int) : Option St :=
  match s.arrs[x]? with
  | none => none
  | some a => if i < a.length then some { s with arrs := s.arrs.set x (a.set i v) } else none

def stepOpt (s : St) : Op → Option St
  | .lit x vs => if x < s.arrs.length then some { s with arrs := s.arrs.set x vs } else none
  | .copy x y =>
    if x < s.arrs.length then
      match s.arrs[y]? with
      | some a => some { s with arrs := s.arrs.set x a }
      | none => none
    else none
  | .store x i v => store s x i v
  | .bind _ r x i =>
    if r < s.bnd.length then
      match s.arrs[x]? with
      | none => none
      | some a => if i < a.length then some { s with bnd := s.bnd.set r (some (x, i)) } else none
    else none
  | .wr r v =>
    match s.bnd[r]? with
    | some (some (x, i)) => store s x i v
    | some none => some s
    | none => none
  | .release r => if r < s.bnd.length then some { s with bnd := s.bnd.set r none } else none

def step (s : St) (op : Op) : St := (stepOpt s op).getD s

def init (nv nr : Nat) : St := ⟨List.replicate nv [], List.replicate nr none⟩

def run (nv nr : Nat) (ops : List Op) : St := ops.foldl step (init nv nr)

end Spec.RefVal
