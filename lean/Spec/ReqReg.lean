import Model.ReqReg
/-!
# Spec.ReqReg — what a handler author relies on for per-request state (C11)

What a request attached (the server's `onFormat` envelope, `$r->attribute(k, v)`) is what it finds
when it looks it up, until it detaches it itself.  The request has a private store; no other
request, key, schedule or shared registry exists in this definition.
-/
namespace Spec.ReqReg
open Model.ReqReg (Step Reg Val Obs)

/-- the request's own store: registry ↦ value -/
abbrev Store := List (Reg × Val)

def find : Store → Reg → Option Val
  | [], _ => none
  | (g', x) :: rest, g => if g' = g then some x else find rest g

def drop : Store → Reg → Store
  | [], _ => []
  | (g', x) :: rest, g => if g' = g then drop rest g else (g', x) :: drop rest g

def go : List Step → Store → List Obs → List Obs → List Obs × Store
  | [], st, _, body => (body, st)
  | .attach g x :: rest, st, pend, body => go rest ((g, x) :: drop st g) pend body
  | .attachNew g x :: rest, st, pend, body =>
    match find st g with
    | some _ => go rest st pend body
    | none => go rest ((g, x) :: drop st g) pend body
  | .lookup g :: rest, st, pend, body => go rest st (pend ++ [find st g]) body
  | .detach g :: rest, st, pend, body => go rest (drop st g) pend body
  | .gate :: rest, st, pend, body => go rest st pend body
  | .write :: rest, st, pend, body => go rest st [] (body ++ pend)

/-- the response the request alone determines: every lookup returns what the request itself
attached last and has not detached since -/
def respond (prog : List Step) : List Obs := (go prog [] [] []).1

/-- what the request leaves attached when it ends (`[]`: it cleaned up after itself) -/
def leaves (prog : List Step) : Store := (go prog [] [] []).2

end Spec.ReqReg
