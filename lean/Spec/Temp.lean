/-
C12 — what a user of request-scoped VMs relies on, stated on *resolve tables* only
(what `GetClass/GetInterface/GetFunc` of each VM answer), without any reference to
how the VMs store definitions.

* `Isolated i before after` — an operation invoked on TempVM `i` changed nobody
  else's table: the base and every other TempVM resolve exactly what they resolved.
* `BaseVisible t` — everything the base resolves is resolvable through every TempVM.
* set-based bookkeeping: `offered d v ops` is the set of (kind, name) pairs that the
  history `ops` *offered through* VM `v` (the stub handed to `AddX`, the declarations
  of a file loaded / parsed / included / autoloaded through `v`, of a string handed to
  `eval()` by a script running on `v`, a function statement executed by such a script;
  a discard forgets what was
  offered through that TempVM). `Bounded` says a table resolves nothing that was not
  offered through its own VM or through the base — "no foreign definitions".

Only the vocabulary (`VMId`, `Kind`, `Name`, `Src`, `Disk`, `Op`) is shared with the model.
-/
import Model.Temp
namespace Spec.Temp
open Model.Temp (VMId Kind Name Src Disk Op Decl)

/-- what one VM resolves: kind → name → which definition answers -/
abbrev Table := Kind → Name → Option Src

/-- the tables of all VMs -/
abbrev Tables := VMId → Table

/-- nobody but TempVM `i` sees a difference -/
def Isolated (i : Nat) (before after : Tables) : Prop :=
  ∀ v, v ≠ .temp i → after v = before v

/-- everything the base resolves is resolvable through every TempVM -/
def BaseVisible (t : Tables) : Prop :=
  ∀ i k n, (t .base k n).isSome → (t (.temp i) k n).isSome

/-! ### set-based bookkeeping -/

def declsOf (d : Disk) (f : Nat) : List (Kind × Name) :=
  match d.content f with
  | some ds => ds.map (fun dc => (dc.kind, dc.name))
  | none => []

/-- what an autoload of `n` can define: the declarations of its class-path file, or — when
the class path has none — of the files the autoload callbacks include for `n` -/
def autoOffers (d : Disk) (n : Name) : List (Kind × Name) :=
  match d.find n with
  | some f => declsOf d f
  | none => d.cbs.flatMap (fun a => match a n with | some f => declsOf d f | none => [])

/-- the definitions an operation can make -/
def offers (d : Disk) : Op → List (Kind × Name)
  | .add _ k n _ => [(k, n)]
  | .loadAndRun _ f | .parseFile _ f => declsOf d f
  | .getOrLoadClass _ n | .getOrLoadInterface _ n | .loadPkg _ n => autoOffers d n
  | .discard _ => []
  | .evalCode _ u _ => declsOf d u
  | .incl _ f _ => declsOf d f
  | .runFn _ n _ => [(.fn, n)]
  | .useClass _ n _ => autoOffers d n
  | .autoReg _ _ | .define _ _ | .alias _ _ _ | .inert _ => []

/-- one step of the bookkeeping for VM `v` -/
def offeredStep (d : Disk) (v : VMId) (acc : List (Kind × Name)) (op : Op) : List (Kind × Name) :=
  match op with
  | .discard i => if v = .temp i then [] else acc
  | _ => if op.via = v then offers d op ++ acc else acc

/-- what the history offered through `v` (TempVMs: since their last discard) -/
def offered (d : Disk) (v : VMId) (ops : List Op) : List (Kind × Name) :=
  ops.foldl (offeredStep d v) []

/-- `(k, n)` is covered by a set of offers: exactly, or — classes through the base
only — by a name that differs in letter case (`findClassCaseInsensitive`). -/
def Covers (fold : Name → Name) (s : List (Kind × Name)) (k : Kind) (n : Name) : Prop :=
  ∃ n', (k, n') ∈ s ∧ (n' = n ∨ (k = .cls ∧ fold n' = fold n))

/-- no foreign definitions -/
def Bounded (d : Disk) (ops : List Op) (t : Tables) : Prop :=
  (∀ k n, (t .base k n).isSome → Covers d.fold (offered d .base ops) k n) ∧
  (∀ i k n, (t (.temp i) k n).isSome →
      Covers d.fold (offered d .base ops) k n ∨ (k, n) ∈ offered d (.temp i) ops)

end Spec.Temp
