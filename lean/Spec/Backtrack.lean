import Model.Backtrack
/-!
# Spec.Backtrack — what the user relies on: parse work is a modest function of the input length

Written independently of how the parser is organised: over all sources (bracket trees), the number of
cursor advances is bounded by a constant times the square of the number of tokens.
-/
namespace Spec.Backtrack
open Model.Backtrack

/-- parse work is bounded by a modest (quadratic) function of the number of tokens -/
def ModestWork (pol : Nat → Policy) : Prop :=
  ∃ c, ∀ t : Tree, work pol t ≤ c * (t.size * t.size)

end Spec.Backtrack
