/-!
# Spec.Ctl — reference semantics of the control-flow core

The language: ints, bools, strings (and lists of ints as `foreach` subjects);
assignment (compound assignment is the parser-level sugar `$x op= e ≡ $x = $x op e`,
`node/binary.go`), increment and decrement, short-circuit `&&`/`||`, `match`; `if/elseif/else`,
`while`, `do-while`, `for`, `foreach`, `switch` with fall-through, `break n`,
`continue n`; user functions with default parameters, recursion, static locals
and `return`.

The semantics is big-step and fuel-indexed (every recursive descent consumes one
unit of fuel, `timeout` when it runs out; `Proofs.Lemmas.CtlMono` shows that more
fuel never changes an answer).  Statements yield a *structured outcome*

    normal | brk n | cont n | ret v            (or the run ends in `err`)

and every loop and every `switch` consumes exactly one level of `brk`/`cont`
(`break 1`/`continue 1` end/restart the innermost one, PHP semantics: inside a
`switch`, `continue` behaves as `break`).  A call binds its parameters in a fresh
environment; only the static locals of the callee (one cell per function and
name, shared by all activations — reference semantics) and the output survive it.

The scalar layer (`binop`, `truthy`, `toStr`, `incVal`, `looseEq`, `strictEq`) is
the subject of C03, not of C02: it is shared with `Model.Ctl`, the theorems never
look inside it, and the correspondence run only feeds it well-typed operands.
-/
namespace Spec.Ctl

abbrev Var := Nat
abbrev FName := Nat

inductive Val where
  | int (i : Int)
  | bool (b : Bool)
  | str (s : String)
  | null
  | list (l : List Int)
  deriving DecidableEq, Repr, Inhabited

inductive BinOp where
  | add | sub | mul | lt | le | gt | ge | eq | ne | concat
  deriving DecidableEq, Repr

/-! ## scalar layer (shared with the model; C03's subject) -/

/-- Go `int` arithmetic wraps at 64 bits. -/
def wrap64 (x : Int) : Int :=
  (x + 9223372036854775808) % 18446744073709551616 - 9223372036854775808

def Val.toStr : Val → String
  | .int i => toString i
  | .bool true => "true"
  | .bool false => "false"
  | .str s => s
  | .null => ""
  | .list _ => "Array"

def Val.truthy : Val → Bool
  | .int i => i != 0
  | .bool b => b
  | .str s => s != ""
  | .null => false
  | .list l => !l.isEmpty

def binop : BinOp → Val → Val → Option Val
  | .add, .int a, .int b => some (.int (wrap64 (a + b)))
  | .sub, .int a, .int b => some (.int (wrap64 (a - b)))
  | .mul, .int a, .int b => some (.int (wrap64 (a * b)))
  | .lt, .int a, .int b => some (.bool (a < b))
  | .le, .int a, .int b => some (.bool (a ≤ b))
  | .gt, .int a, .int b => some (.bool (a > b))
  | .ge, .int a, .int b => some (.bool (a ≥ b))
  | .eq, .int a, .int b => some (.bool (a == b))
  | .ne, .int a, .int b => some (.bool (a != b))
  | .eq, .str a, .str b => some (.bool (a == b))
  | .ne, .str a, .str b => some (.bool (a != b))
  | .eq, .bool a, .bool b => some (.bool (a == b))
  | .ne, .bool a, .bool b => some (.bool (a != b))
  | .concat, .int a, .int b => some (.str (toString a ++ toString b))
  | .concat, .int a, .str b => some (.str (toString a ++ b))
  | .concat, .str a, .int b => some (.str (a ++ toString b))
  | .concat, .str a, .str b => some (.str (a ++ b))
  | _, _, _ => none

inductive IncKind where
  | preInc | preDec | postInc | postDec
  deriving DecidableEq, Repr

/-- `++$x`, `--$x`, `$x++`, `$x--` on the current value of `$x`: (value of the expression,
new value of `$x`); `none` = not supported for this kind of value. -/
def incVal : IncKind → Val → Option (Val × Val)
  | .preInc, .int i => some (.int (wrap64 (i + 1)), .int (wrap64 (i + 1)))
  | .preDec, .int i => some (.int (wrap64 (i - 1)), .int (wrap64 (i - 1)))
  | .postInc, .int i => some (.int i, .int (wrap64 (i + 1)))
  | .postDec, .int i => some (.int i, .int (wrap64 (i - 1)))
  | .preInc, .null => some (.int 1, .int 1)
  | .postInc, .null => some (.int 0, .int 1)
  | .postDec, .null => some (.int 0, .int (-1))
  | _, _ => none

/-- `switch` label comparison = the language's `==` (`data.LooseCompare a b == 0`, the one rule all
comparison operators share; `SwitchStatement.isMatch` since fix C02-switch-loose-compare):
equal kinds by value; `null` against a string as `""`; `null` or a bool on either side: both sides
as booleans (`switch (true) { case 1: }` matches); an int against a string by the int's text (exact
unless the string is a non-canonical numeric string such as `'01'` or `'1.0'`, which Go parses and
compares by value — floats and numeric parsing are outside this value layer, the harness's pairs
stream covers them); lists are unordered against ints, strings and each other = no match. -/
def looseEq : Val → Val → Bool
  | .int a, .int b => a == b
  | .str a, .str b => a == b
  | .null, .null => true
  | .null, .str s => s == ""
  | .str s, .null => s == ""
  | .bool a, v => a == v.truthy
  | v, .bool b => v.truthy == b
  | .null, v => !v.truthy
  | v, .null => !v.truthy
  | .int a, .str s => toString a == s
  | .str s, .int b => s == toString b
  | _, _ => false

/-- `match` arm comparison (`===`). -/
def strictEq (a b : Val) : Bool := a == b

/-! ## syntax -/

mutual
inductive Expr where
  | lit (v : Val)
  | var (x : Var)
  | bin (op : BinOp) (a b : Expr)
  | not (a : Expr)
  | and (a b : Expr)
  | or (a b : Expr)
  | assign (x : Var) (e : Expr)
  | inc (k : IncKind) (x : Var)
  | call (f : FName) (args : Args)
  /-- `match (subj) { c₁ => r₁, …, default => d }` (an arm `c, c' => r` is sent as two arms) -/
  | matchE (subj : Expr) (arms : Arms) (dflt : Expr)
inductive Args where
  | nil
  | cons (e : Expr) (rest : Args)
inductive Arms where
  | nil
  | cons (c r : Expr) (rest : Arms)
end

mutual
inductive Stmt where
  | echo (es : Args)
  | expr (e : Expr)
  | ite (c : Expr) (t : Block) (elifs : ElseIfs) (els : Block)
  | while_ (c : Expr) (b : Block)
  | doWhile (b : Block) (c : Expr)
  | for_ (inits : Args) (cond : Expr) (incs : Args) (b : Block)
  | foreach (e : Expr) (k : Option Var) (v : Var) (b : Block)
  /-- `default` is written last -/
  | switch (e : Expr) (cases : Cases) (dflt : Block)
  | brk (n : Nat)
  | cont (n : Nat)
  | ret (e : Option Expr)
inductive Block where
  | nil
  | cons (s : Stmt) (rest : Block)
inductive ElseIfs where
  | nil
  | cons (c : Expr) (b : Block) (rest : ElseIfs)
inductive Cases where
  | nil
  | cons (label : Expr) (b : Block) (rest : Cases)
end

structure Param where
  name : Var
  dflt : Option Val

/-- `function f<name>(params) { static s₁ = v₁; …; body }` — static declarations come first,
their initialisers are constants. -/
structure FunDecl where
  name : FName
  params : List Param
  statics : List (Var × Val)
  body : Block

structure Prog where
  funs : List FunDecl
  main : Block

def lookupFun (funs : List FunDecl) (g : FName) : Option FunDecl :=
  funs.find? (fun d => d.name == g)

def FunDecl.svars (d : FunDecl) : List Var := d.statics.map (·.1)

/-- number of leading parameters without a default -/
def required : List Param → Nat
  | [] => 0
  | p :: ps => if p.dflt.isNone then 1 + required ps else 0

/-! ## state -/

/-- finite maps as association lists (one entry per key) -/
def aget {κ α : Type} [DecidableEq κ] : List (κ × α) → κ → Option α
  | [], _ => none
  | (k', a) :: rest, k => if k = k' then some a else aget rest k

def aset {κ α : Type} [DecidableEq κ] : List (κ × α) → κ → α → List (κ × α)
  | [], k, a => [(k, a)]
  | (k', a') :: rest, k, a => if k = k' then (k, a) :: rest else (k', a') :: aset rest k a

abbrev Env := List (Var × Val)
abbrev Statics := List ((FName × Var) × Val)

structure St where
  /-- locals of the running activation (unset = null) -/
  env : Env
  /-- static locals: one cell per (function, name), absent until first initialised -/
  statics : Statics
  /-- echoed strings, newest first -/
  out : List String

/-- what the running code belongs to: `none` = main program, `some (f, statics of f)` -/
abbrev Cur := Option (FName × List Var)

def St.rd (cur : Cur) (s : St) (x : Var) : Val :=
  match cur with
  | some (f, sv) => if x ∈ sv then (aget s.statics (f, x)).getD .null else (aget s.env x).getD .null
  | none => (aget s.env x).getD .null

def St.wr (cur : Cur) (s : St) (x : Var) (v : Val) : St :=
  match cur with
  | some (f, sv) =>
    if x ∈ sv then { s with statics := aset s.statics (f, x) v }
    else { s with env := aset s.env x v }
  | none => { s with env := aset s.env x v }

def St.echo (s : St) (v : Val) : St := { s with out := v.toStr :: s.out }

inductive Res (α : Type) where
  | ok (a : α) (s : St)
  | err (s : St)
  | timeout

def Res.bind {α β : Type} (r : Res α) (k : α → St → Res β) : Res β :=
  match r with
  | .ok a s => k a s
  | .err s => .err s
  | .timeout => .timeout

/-- structured outcome of a statement -/
inductive Out where
  | normal
  | brk (n : Nat)
  | cont (n : Nat)
  | ret (v : Val)
  deriving DecidableEq, Repr

/-- What a loop (or `switch`) does with the outcome of its body. -/
inductive Step where
  /-- go on with the next iteration (for a `switch`: fall into the next case) -/
  | next
  /-- the construct is finished with this outcome -/
  | exit (o : Out)
  /-- not a legal outcome (`break 0`) -/
  | bad

/-- A loop consumes one level: `break 1` ends it, `continue 1` starts the next
iteration, higher levels lose one and go outwards, `return` goes outwards. -/
def loopStep : Out → Step
  | .normal => .next
  | .cont 1 => .next
  | .brk 1 => .exit .normal
  | .brk (n+2) => .exit (.brk (n+1))
  | .cont (n+2) => .exit (.cont (n+1))
  | .ret v => .exit (.ret v)
  | .brk 0 => .bad
  | .cont 0 => .bad

/-- A `switch` consumes one level too; for it `continue 1` is `break 1`. -/
def switchStep : Out → Step
  | .normal => .next
  | .cont 1 => .exit .normal
  | .brk 1 => .exit .normal
  | .brk (n+2) => .exit (.brk (n+1))
  | .cont (n+2) => .exit (.cont (n+1))
  | .ret v => .exit (.ret v)
  | .brk 0 => .bad
  | .cont 0 => .bad

/-- bind the parameters: argument if given, else the default, else null -/
def bindParams : List Param → List Val → Env → Env
  | [], _, env => env
  | p :: ps, [], env => bindParams ps [] (aset env p.name (p.dflt.getD .null))
  | p :: ps, v :: vs, env => bindParams ps vs (aset env p.name v)

/-- first activation initialises the static cells -/
def initStatics (f : FName) : List (Var × Val) → Statics → Statics
  | [], st => st
  | (x, v) :: rest, st =>
    initStatics f rest (if (aget st (f, x)).isNone then aset st (f, x) v else st)

/-- What a call makes of the outcome of the body. -/
def callResult (callerEnv : Env) : Res Out → Res Val
  | .ok .normal s => .ok .null { s with env := callerEnv }
  | .ok (.ret v) s => .ok v { s with env := callerEnv }
  | .ok (.brk _) s => .err { s with env := callerEnv }   -- `break` outside a loop
  | .ok (.cont _) s => .err { s with env := callerEnv }
  | .err s => .err { s with env := callerEnv }
  | .timeout => .timeout

mutual
def evalE (funs : List FunDecl) : Nat → Cur → Expr → St → Res Val
  | 0, _, _, _ => .timeout
  | _+1, _, .lit v, s => .ok v s
  | _+1, cur, .var x, s => .ok (s.rd cur x) s
  | f+1, cur, .bin op a b, s =>
    (evalE funs f cur a s).bind fun va s1 =>
    (evalE funs f cur b s1).bind fun vb s2 =>
    match binop op va vb with
    | some v => .ok v s2
    | none => .err s2
  | f+1, cur, .not a, s =>
    (evalE funs f cur a s).bind fun va s1 => .ok (.bool (!va.truthy)) s1
  | f+1, cur, .and a b, s =>
    (evalE funs f cur a s).bind fun va s1 =>
    if va.truthy then
      (evalE funs f cur b s1).bind fun vb s2 => .ok (.bool vb.truthy) s2
    else .ok (.bool false) s1
  | f+1, cur, .or a b, s =>
    (evalE funs f cur a s).bind fun va s1 =>
    if va.truthy then .ok (.bool true) s1
    else (evalE funs f cur b s1).bind fun vb s2 => .ok (.bool vb.truthy) s2
  | f+1, cur, .assign x e, s =>
    (evalE funs f cur e s).bind fun v s1 => .ok v (s1.wr cur x v)
  | _+1, cur, .inc k x, s =>
    match incVal k (s.rd cur x) with
    | none => .err s
    | some (v, new) => .ok v (s.wr cur x new)
  | f+1, cur, .call g args, s =>
    match lookupFun funs g with
    | none => .err s
    | some d =>
      (evalArgs funs f cur args s).bind fun vs s1 =>
      if vs.length < required d.params then .err s1
      else
        callResult s1.env
          (execB funs f (some (g, d.svars)) d.body
            { env := bindParams d.params vs [],
              statics := initStatics g d.statics s1.statics,
              out := s1.out })
  | f+1, cur, .matchE subj arms dflt, s =>
    (evalE funs f cur subj s).bind fun v s1 => evalArms funs f cur v arms dflt s1

def evalArgs (funs : List FunDecl) : Nat → Cur → Args → St → Res (List Val)
  | 0, _, _, _ => .timeout
  | _+1, _, .nil, s => .ok [] s
  | f+1, cur, .cons e rest, s =>
    (evalE funs f cur e s).bind fun v s1 =>
    (evalArgs funs f cur rest s1).bind fun vs s2 => .ok (v :: vs) s2

def evalArms (funs : List FunDecl) : Nat → Cur → Val → Arms → Expr → St → Res Val
  | 0, _, _, _, _, _ => .timeout
  | f+1, cur, _, .nil, dflt, s => evalE funs f cur dflt s
  | f+1, cur, v, .cons c r rest, dflt, s =>
    (evalE funs f cur c s).bind fun vc s1 =>
    if strictEq v vc then evalE funs f cur r s1 else evalArms funs f cur v rest dflt s1

/-- `echo e₁, e₂, …` evaluates and prints one operand after the other -/
def echoArgs (funs : List FunDecl) : Nat → Cur → Args → St → Res Out
  | 0, _, _, _ => .timeout
  | _+1, _, .nil, s => .ok .normal s
  | f+1, cur, .cons e rest, s =>
    (evalE funs f cur e s).bind fun v s1 => echoArgs funs f cur rest (s1.echo v)

/-- evaluate for effect only (`for` initialisers and increments) -/
def evalDiscard (funs : List FunDecl) : Nat → Cur → Args → St → Res Unit
  | 0, _, _, _ => .timeout
  | _+1, _, .nil, s => .ok () s
  | f+1, cur, .cons e rest, s =>
    (evalE funs f cur e s).bind fun _ s1 => evalDiscard funs f cur rest s1

def execS (funs : List FunDecl) : Nat → Cur → Stmt → St → Res Out
  | 0, _, _, _ => .timeout
  | f+1, cur, .echo es, s => echoArgs funs f cur es s
  | f+1, cur, .expr e, s => (evalE funs f cur e s).bind fun _ s1 => .ok .normal s1
  | f+1, cur, .ite c t elifs els, s =>
    (evalE funs f cur c s).bind fun vc s1 =>
    if vc.truthy then execB funs f cur t s1 else execElifs funs f cur elifs els s1
  | f+1, cur, .while_ c b, s => execWhile funs f cur c b s
  | f+1, cur, .doWhile b c, s => execDo funs f cur b c s
  | f+1, cur, .for_ inits cond incs b, s =>
    (evalDiscard funs f cur inits s).bind fun _ s1 => execFor funs f cur cond incs b s1
  | f+1, cur, .foreach e k v b, s =>
    (evalE funs f cur e s).bind fun ve s1 =>
    match ve with
    | .list l => execForeach funs f cur k v b l 0 s1
    | .null => .ok .normal s1
    | _ => .err s1
  | f+1, cur, .switch e cases dflt, s =>
    (evalE funs f cur e s).bind fun v s1 => execSwitch funs f cur v cases dflt s1
  | _+1, _, .brk n, s => if n = 0 then .err s else .ok (.brk n) s
  | _+1, _, .cont n, s => if n = 0 then .err s else .ok (.cont n) s
  | _+1, _, .ret none, s => .ok (.ret .null) s
  | f+1, cur, .ret (some e), s => (evalE funs f cur e s).bind fun v s1 => .ok (.ret v) s1

def execB (funs : List FunDecl) : Nat → Cur → Block → St → Res Out
  | 0, _, _, _ => .timeout
  | _+1, _, .nil, s => .ok .normal s
  | f+1, cur, .cons st rest, s =>
    (execS funs f cur st s).bind fun o s1 =>
    match o with
    | .normal => execB funs f cur rest s1
    | o => .ok o s1

def execElifs (funs : List FunDecl) : Nat → Cur → ElseIfs → Block → St → Res Out
  | 0, _, _, _, _ => .timeout
  | f+1, cur, .nil, els, s => execB funs f cur els s
  | f+1, cur, .cons c b rest, els, s =>
    (evalE funs f cur c s).bind fun vc s1 =>
    if vc.truthy then execB funs f cur b s1 else execElifs funs f cur rest els s1

def execWhile (funs : List FunDecl) : Nat → Cur → Expr → Block → St → Res Out
  | 0, _, _, _, _ => .timeout
  | f+1, cur, c, b, s =>
    (evalE funs f cur c s).bind fun vc s1 =>
    if vc.truthy then
      (execB funs f cur b s1).bind fun o s2 =>
      match loopStep o with
      | .next => execWhile funs f cur c b s2
      | .exit o' => .ok o' s2
      | .bad => .err s2
    else .ok .normal s1

def execDo (funs : List FunDecl) : Nat → Cur → Block → Expr → St → Res Out
  | 0, _, _, _, _ => .timeout
  | f+1, cur, b, c, s =>
    (execB funs f cur b s).bind fun o s1 =>
    match loopStep o with
    | .next =>
      (evalE funs f cur c s1).bind fun vc s2 =>
      if vc.truthy then execDo funs f cur b c s2 else .ok .normal s2
    | .exit o' => .ok o' s1
    | .bad => .err s1

def execFor (funs : List FunDecl) : Nat → Cur → Expr → Args → Block → St → Res Out
  | 0, _, _, _, _, _ => .timeout
  | f+1, cur, cond, incs, b, s =>
    (evalE funs f cur cond s).bind fun vc s1 =>
    if vc.truthy then
      (execB funs f cur b s1).bind fun o s2 =>
      match loopStep o with
      | .next => (evalDiscard funs f cur incs s2).bind fun _ s3 => execFor funs f cur cond incs b s3
      | .exit o' => .ok o' s2
      | .bad => .err s2
    else .ok .normal s1

/-- iterate over a snapshot of the list; key = position -/
def execForeach (funs : List FunDecl) : Nat → Cur → Option Var → Var → Block → List Int → Nat → St → Res Out
  | 0, _, _, _, _, _, _, _ => .timeout
  | _+1, _, _, _, _, [], _, s => .ok .normal s
  | f+1, cur, k, v, b, x :: xs, i, s =>
    let s1 := s.wr cur v (.int x)
    let s2 := match k with | some kv => s1.wr cur kv (.int i) | none => s1
    (execB funs f cur b s2).bind fun o s3 =>
    match loopStep o with
    | .next => execForeach funs f cur k v b xs (i+1) s3
    | .exit o' => .ok o' s3
    | .bad => .err s3

/-- find the first case whose label equals the subject, then run from there -/
def execSwitch (funs : List FunDecl) : Nat → Cur → Val → Cases → Block → St → Res Out
  | 0, _, _, _, _, _ => .timeout
  | f+1, cur, _, .nil, dflt, s => runBodies funs f cur .nil dflt s
  | f+1, cur, v, .cons lbl b rest, dflt, s =>
    (evalE funs f cur lbl s).bind fun vl s1 =>
    if looseEq v vl then runBodies funs f cur (.cons lbl b rest) dflt s1
    else execSwitch funs f cur v rest dflt s1

/-- fall through the bodies of the remaining cases, then the default body -/
def runBodies (funs : List FunDecl) : Nat → Cur → Cases → Block → St → Res Out
  | 0, _, _, _, _ => .timeout
  | f+1, cur, .nil, dflt, s =>
    (execB funs f cur dflt s).bind fun o s1 =>
    match switchStep o with
    | .next => .ok .normal s1
    | .exit o' => .ok o' s1
    | .bad => .err s1
  | f+1, cur, .cons _ b rest, dflt, s =>
    (execB funs f cur b s).bind fun o s1 =>
    match switchStep o with
    | .next => runBodies funs f cur rest dflt s1
    | .exit o' => .ok o' s1
    | .bad => .err s1
end

def St.init : St := { env := [], statics := [], out := [] }

/-- how a run ended -/
inductive Status where
  | done
  | error
  deriving DecidableEq, Repr

/-- Run a program: `none` = out of fuel, otherwise the output and whether it ended in an error
(a `break`/`continue` that reaches the top level is one). -/
def run (p : Prog) (fuel : Nat) : Option (List String × Status) :=
  match execB p.funs fuel none p.main St.init with
  | .ok .normal s => some (s.out.reverse, .done)
  | .ok (.ret _) s => some (s.out.reverse, .done)
  | .ok (.brk _) s => some (s.out.reverse, .error)
  | .ok (.cont _) s => some (s.out.reverse, .error)
  | .err s => some (s.out.reverse, .error)
  | .timeout => none

end Spec.Ctl
