import Model.Access
import Model.Types
/-
C07 — what a user relies on, stated on the declared hierarchy only (no fuel, no contexts, no access paths):

* `Sub H a b`      — class `a` is `b` or a descendant of `b` (reflexive-transitive closure of `extends`);
* `allowed`        — PHP's visibility rule in terms of the class whose **source text** contains the access
                     (`caller`) and the class that **declares** the member:
                     public: always; private: `caller` is the declaring class;
                     protected: `caller` is the declaring class, a descendant or an ancestor of it;
* `IsA`, `denote`  — the set of value kinds a declared type stands for;
* `Requires`/`Provides`/`Complete`, `Instantiable` — the abstract-class rules.
-/
namespace Spec.Access
open Model.Access (Name Cls Hier getClass extOf Mod)

/-- `a` is `b` or inherits from it -/
inductive Sub (H : Hier) : Name → Name → Prop
  | refl (a : Name) : Sub H a a
  | step {a p b : Name} : extOf H a = some p → Sub H p b → Sub H a b

/-- same class, descendant or ancestor -/
def Related (H : Hier) (a b : Name) : Prop := Sub H a b ∨ Sub H b a

/-- may code of class `caller` (`none`: code outside every class) use a member with modifier `m` declared
by class `decl`? -/
def allowed (H : Hier) (m : Mod) (caller : Option Name) (decl : Name) : Prop :=
  match m with
  | .pub => True
  | .priv => caller = some decl
  | .prot => ∃ c, caller = some c ∧ Related H c decl

/-! A decision procedure for `allowed` (proved correct in `Proofs/Lemmas/Access.lean: allowedB_spec`); the
driver answers `spec` requests with it so that the harness can hold its own Go oracle against this file. -/

def subB (H : Hier) (a b : Name) : Option Bool :=
  if a = b then some true
  else
    match Model.Access.chainHas H b (Model.Access.fuel H) (extOf H a) with
    | .yes => some true
    | .fuel => none
    | .no => some false
    | .missing => some false

def relatedB (H : Hier) (a b : Name) : Option Bool :=
  match subB H a b with
  | none => none
  | some true => some true
  | some false => subB H b a

def allowedB (H : Hier) (m : Mod) (caller : Option Name) (decl : Name) : Option Bool :=
  match m with
  | .pub => some true
  | .priv => some (caller == some decl)
  | .prot =>
    match caller with
    | none => some false
    | some c => relatedB H c decl

end Spec.Access

namespace Spec.Types
open Model.Access (Name Hier getClass)
open Model.Types (Ty ValKind)

/-- an object of class `c` is a `t`: `t` is `c`, a class `c` inherits from, or an interface one of them
lists in `implements` -/
inductive IsA (H : Hier) : Name → Name → Prop
  | self {c : Name} {d : Model.Access.Cls} : getClass H c = some d → IsA H c c
  | impl {c t : Name} {d : Model.Access.Cls} : getClass H c = some d → t ∈ d.impl → IsA H c t
  | ext {c p t : Name} {d : Model.Access.Cls} : getClass H c = some d → d.ext = some p → IsA H p t → IsA H c t

/-- the value kinds a declared type stands for -/
inductive Denotes (H : Hier) : Ty → ValKind → Prop
  | int : Denotes H .int .int
  | str : Denotes H .str .str
  | arr : Denotes H .arr .arr
  | assoc : Denotes H .arr .assoc
  | cls {n c : Name} : IsA H c n → Denotes H (.cls n) (.obj c)
  | null {t : Ty} : Denotes H (.nullable t) .null
  | some {t : Ty} {v : ValKind} : Denotes H t v → Denotes H (.nullable t) v
  | union {ts : List Ty} {t : Ty} {v : ValKind} : t ∈ ts → Denotes H t v → Denotes H (.union ts) v

/-- `v ∈ denote H t` -/
def denote (H : Hier) (t : Ty) : ValKind → Prop := Denotes H t

end Spec.Types
