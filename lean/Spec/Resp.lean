/-
C13 — the commit-once reference semantics of a response, written without any
buffered-writer state: split the operation list at the first committing
operation; status and headers are decided by the prefix up to and including
it, the body by all operations.
-/
import Model.Resp
namespace Spec.Resp
open Model.Resp (Op Hdr Client concat)

/-- does the operation put the response head on the wire? -/
def committing : Op → Bool
  | .write _ | .json _ | .html _ _ | .redirect _ _ | .noContent _ | .writeHeader _ => true
  | .status _ | .header _ _ | .cookie _ => false

/-- status an operation asks for -/
def statusOf : Op → Option Nat
  | .status c | .html _ (some c) | .redirect _ c | .noContent c | .writeHeader c => some c
  | _ => none

/-- effect of an operation on the header map -/
def hdrEffect (h : Hdr) : Op → Hdr
  | .header k v => h.set k v
  | .cookie v => h.add "Set-Cookie" v
  | .json _ => h.set "Content-Type" "application/json; charset=utf-8"
  | .html _ _ => h.set "Content-Type" "text/html; charset=utf-8"
  | .redirect u _ => h.set "Location" u
  | _ => h

/-- body bytes an operation contributes -/
def bodyOf : Op → String
  | .write b | .json b | .html b _ => b
  | _ => ""

def lastStatus (ops : List Op) : Option Nat := (ops.filterMap statusOf).getLast?

def run (ops : List Op) : Client :=
  let pre := ops.takeWhile (fun o => !committing o)
  match ops.dropWhile (fun o => !committing o) with
  | [] =>
      -- no body byte, no terminal call: a set status is committed when the
      -- handler returns; otherwise the server sends 200 with the final headers
      { status := (lastStatus pre).getD 200, hdr := pre.foldl hdrEffect [],
        body := "", commits := if (lastStatus pre).isSome then 1 else 0 }
  | c :: _ =>
      { status := (lastStatus (pre ++ [c])).getD 200, hdr := (pre ++ [c]).foldl hdrEffect [],
        body := concat (ops.map bodyOf), commits := 1 }

/-- RFC 9110 §6.4.1 / §15: a 1xx, 204 or 304 response has no content. Written independently of
    `Model.Resp.bodyAllowed`. -/
def noContentStatus (c : Nat) : Bool := (100 ≤ c && c < 200) || c == 204 || c == 304

/-- what an HTTP client receives over a connection: the commit-once reference, with the body
    present exactly when the COMMITTED status can carry one — statuses chosen and replaced before
    the commit play no role. -/
def runConn (ops : List Op) : Client :=
  let c := run ops
  if noContentStatus c.status then { c with body := "" } else c

/-- the view of a recorder (`e = false`) or of a connection (`e = true`). -/
def runOn (e : Bool) (ops : List Op) : Client := if e then runConn ops else run ops

end Spec.Resp
