import Model.Emit
import Generated.C16CompileNodes
import Drivers.Common
/-! `vm_c16`: line protocol over `Model.Emit`, instantiated with the regenerated tables
(`Generated.C16CompileNodes`).

  path <type>
    → special <fn> reads=<a,b> inner=<Emb:a|b;…> · scalar <fn> reads=<…> · reflective node=<0|1> fields=<a,b>
      · unexported <field> · unknown
  emit <type> <hasNode 0|1> <name:k,name:k,…>      k: s scalar · n nil · p pointer to a non-node · b blob (func, …) · o object (a nested `node.Probe`)
    → struct <type> node=<0|1> fields=<a,b> · ctor <type> <fn> fields=<a,b> · error <…> · crash
  facts
    → nodeNeedsTag=<b> ptrAssertUnchecked=<b> structs=<n> special=<n> scalars=<n> aux=<n>
-/
open Model.Emit

namespace C16Drv

def tables : Tables := Generated.C16CompileNodes.tables

def join (sep : String) (xs : List String) : String := sep.intercalate xs

def b01 (b : Bool) : String := if b then "1" else "0"

def innerStr (inner : List (String × List String)) : String :=
  join ";" (inner.map fun e => e.1 ++ ":" ++ join "|" e.2)

def pathStr (ty : String) : String :=
  match path tables ty with
  | .special h => "special " ++ h.fn ++ " reads=" ++ join "," h.reads ++ " inner=" ++ innerStr h.inner
  | .scalar h => "scalar " ++ h.fn ++ " reads=" ++ join "," h.reads
  | .reflective d =>
      "reflective node=" ++ b01 (needsNode tables d) ++ " fields=" ++
        join "," ((d.fields.filter fun f => !f.embeddedNode && !f.ppSkip).map (·.name))
  | .unexported _ f => "unexported " ++ f.name
  | .unknown => "unknown"

def valOf (k : String) : Val :=
  if k == "n" then .nil
  else if k == "p" then .plainPtr
  else if k == "b" then .blob
  else if k == "o" then .obj "node.Probe" true .fnil
  else .scalar "x"

def chainOf : List String → Val
  | [] => .fnil
  | f :: rest =>
    match f.splitOn ":" with
    | [name, k] => .fcons name (valOf k) (chainOf rest)
    | _ => .fcons f (.scalar "x") (chainOf rest)

def litNames : Lit → List String
  | .fcons name _ rest => name :: litNames rest
  | _ => []

def errStr : Err → String
  | .unexported ty f => "unexported " ++ ty ++ " " ++ f
  | .unsupported w => "unsupported " ++ w
  | .unknownType ty => "unknown-type " ++ ty
  | .shape => "shape"

def emitStr (ty : String) (hn : Bool) (fields : List String) : String :=
  match emitTop tables (.obj ty hn (chainOf fields)) with
  | .ok (.structLit t wn fs) => "struct " ++ t ++ " node=" ++ b01 wn ++ " fields=" ++ join "," (litNames fs)
  | .ok (.ctor t fn args) => "ctor " ++ t ++ " " ++ fn ++ " fields=" ++ join "," (litNames args)
  | .ok _ => "other"
  | .error e => "error " ++ errStr e
  | .crash => "crash"

def handle (line : String) : String :=
  match line.splitOn " " with
  | ["path", ty] => pathStr ty
  | ["emit", ty, hn] => emitStr ty (hn == "1") []
  | ["emit", ty, hn, fs] => emitStr ty (hn == "1") (if fs == "" then [] else fs.splitOn ",")
  | ["facts"] =>
      "nodeNeedsTag=" ++ b01 tables.nodeNeedsTag ++ " ptrAssertUnchecked=" ++ b01 tables.ptrAssertUnchecked ++
      " structs=" ++ toString tables.structs.length ++ " special=" ++ toString tables.special.length ++
      " scalars=" ++ toString tables.scalars.length ++ " aux=" ++ toString tables.aux.length
  | _ => "bad-request"

end C16Drv

def main : IO Unit := Drivers.runDriver C16Drv.handle
