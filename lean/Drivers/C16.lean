import Model.Emit
import Model.EmitQuote
import Model.EmitFuse
import Model.EmitCtx
import Model.EmitType
import Generated.C16CompileNodes
import Drivers.Common
/-! `vm_c16`: line protocol over `Model.Emit`, instantiated with the regenerated tables
(`Generated.C16CompileNodes`).

  path <type>
    → special <fn> reads=<a,b> inner=<Emb:a|b;…> · scalar <fn> reads=<…> · reflective node=<0|1> fields=<a,b>
      · unexported <field> · unknown
  emit <type> <hasNode 0|1> <name:k,name:k,…>      k: s scalar · n nil · p pointer to a non-node · b blob (func, …) · u slice/map with unnamed element type · o object (a nested `node.Probe`)
    → struct <type> node=<0|1> fields=<a,b> · ctor <type> <fn> fields=<a,b> · error <…> · crash
  kinds
    → the names of the described node structs that are `data.GetValue` (the node kinds an AST can hold)
  facts
    → nodeNeedsTag=<b> ptrAssertUnchecked=<b> structs=<n> special=<n> scalars=<n> aux=<n>

scalar cases (`Model.EmitQuote`; byte strings and texts in hex):
  quote <hex>        → ok <hex of the text %q prints>      (every rune ≥ 0x80 taken as printable)
  quotenp <hex>      → ok <hex>                             (no rune ≥ 0x80 taken as printable)
  unquote <hex>      → ok <hex of the value of the Go string literal> · none
  printed <k> <hex>  → ok <hex> · none   value of the literal after Generator.printf at indentation k
  int <decimal>      → ok <hex of the text %d prints> <what Go reads back>
  float <negzero|zero|posinf|neginf|nan> → ok <hex of the text goFloatLiteral writes>

fused comparison (`Model.EmitFuse`; operand kinds int <i> · half <twice> · true 0 · false 0 · null 0 · noorder 0):
  cmp <kind> <arg> <n>  → lt · eq · gt · un         `data.LooseCompare(v, IntValue n)`
  fuse <kind> <arg> <n> → lt=<0|1> le=<0|1> fused=<0|1> rewritten=<0|1>
                          `$v < n`, `$v <= n`, VarIntLe{Lit: n}, and `$v < n` emitted as `$v <= n-1`

per-file state (`Model.EmitCtx`; names with `\\` between the segments, `-` = empty):
  ctx <type>                      → the per-file generator fields the handler of <type> prints (comma separated) · -
  resolve <defined,…> <ns> <name> → some <full name> · none      `CallLater.GetValue` over the function table <defined,…>
-/
open Model.Emit

namespace C16Drv

def tables : Tables := Generated.C16CompileNodes.tables

def join (sep : String) (xs : List String) : String := sep.intercalate xs

def b01 (b : Bool) : String := if b then "1" else "0"

def innerStr (inner : List (String × List String)) : String :=
  join ";" (inner.map fun e => e.1 ++ ":" ++ join "|" e.2)

def pathStr (ty : String) : String :=
  match path tables ty with
  | .special h => "special " ++ h.fn ++ " reads=" ++ join "," h.reads ++ " inner=" ++ innerStr h.inner
  | .scalar h => "scalar " ++ h.fn ++ " reads=" ++ join "," h.reads
  | .reflective d =>
      "reflective node=" ++ b01 (needsNode tables d) ++ " fields=" ++
        join "," ((d.fields.filter fun f => !f.embeddedNode && !f.ppSkip).map (·.name))
  | .unexported _ f => "unexported " ++ f.name
  | .unknown => "unknown"

def valOf (k : String) : Val :=
  if k == "n" then .nil
  else if k == "p" then .plainPtr
  else if k == "b" then .blob
  else if k == "u" then .unnamed
  else if k == "o" then .obj "node.Probe" true .fnil
  else .scalar "x"

def chainOf : List String → Val
  | [] => .fnil
  | f :: rest =>
    match f.splitOn ":" with
    | [name, k] => .fcons name (valOf k) (chainOf rest)
    | _ => .fcons f (.scalar "x") (chainOf rest)

def litNames : Lit → List String
  | .fcons name _ rest => name :: litNames rest
  | _ => []

def errStr : Err → String
  | .unexported ty f => "unexported " ++ ty ++ " " ++ f
  | .unsupported w => "unsupported " ++ w
  | .unknownType ty => "unknown-type " ++ ty
  | .malformed => "malformed"
  | .shape => "shape"

def emitStr (ty : String) (hn : Bool) (fields : List String) : String :=
  match emitTop tables (.obj ty hn (chainOf fields)) with
  | .ok (.structLit t wn fs) => "struct " ++ t ++ " node=" ++ b01 wn ++ " fields=" ++ join "," (litNames fs)
  | .ok (.ctor t fn args) => "ctor " ++ t ++ " " ++ fn ++ " fields=" ++ join "," (litNames args)
  | .ok _ => "other"
  | .error e => "error " ++ errStr e
  | .crash => "crash"

/-! scalar cases -/
open Model.EmitQuote in
def hexNib (c : Char) : Option Nat := hexVal c.toNat

def hexToBytes : List Char → Option (List Nat)
  | [] => some []
  | [_] => none
  | a :: b :: r =>
    match hexNib a, hexNib b, hexToBytes r with
    | some x, some y, some rest => some ((x * 16 + y) :: rest)
    | _, _, _ => none

def nibChar (n : Nat) : Char := Char.ofNat (Model.EmitQuote.hexDigit n)

def bytesToHex (bs : List Nat) : String :=
  String.ofList (bs.flatMap fun b => [nibChar (b / 16 % 16), nibChar (b % 16)])

def okHex (o : Option (List Nat)) : String :=
  match o with
  | some v => "ok " ++ bytesToHex v
  | none => "none"

def withHex (h : String) (f : List Nat → String) : String :=
  match hexToBytes h.toList with
  | some bs => f bs
  | none => "bad-hex"

def floatCase (c : String) : String :=
  let v : Option Model.EmitQuote.FloatV :=
    if c == "negzero" then some (.zero true) else if c == "zero" then some (.zero false)
    else if c == "posinf" then some (.inf false) else if c == "neginf" then some (.inf true)
    else if c == "nan" then some .nan else none
  match v with
  | some v => "ok " ++ bytesToHex (Model.EmitQuote.showFloat true v)
  | none => "bad-request"

open Model.EmitFuse in
def operandOf (kind arg : String) : Option V :=
  match kind, arg.toInt? with
  | "int", some i => some (.int i)
  | "half", some t => some (.half t)
  | "true", _ => some (.bool true)
  | "false", _ => some (.bool false)
  | "null", _ => some .null
  | "noorder", _ => some .noOrder
  | _, _ => none

open Model.EmitFuse in
def cmpStr : Cmp → String
  | .lt => "lt" | .eq => "eq" | .gt => "gt" | .unordered => "un"

open Model.EmitFuse in
def fuseCase (what kind arg n : String) : String :=
  match operandOf kind arg, n.toInt? with
  | some v, some n =>
    if what == "cmp" then cmpStr (looseCmp looseReal v n)
    else "lt=" ++ b01 (evalLt looseReal v n) ++ " le=" ++ b01 (evalLe looseReal v n) ++
      " fused=" ++ b01 (evalVarIntLe looseReal v n) ++ " rewritten=" ++ b01 (evalLtRewritten looseReal v n)
  | _, _ => "bad-request"

def nameOf (s : String) : Model.EmitCtx.Name :=
  if s == "-" || s == "" then [] else s.splitOn "\\"

def nameStr (n : Model.EmitCtx.Name) : String := join "\\" n

def resolveCase (defs ns q : String) : String :=
  let table : List Model.EmitCtx.Name := if defs == "-" then [] else (defs.splitOn ",").map nameOf
  match Model.EmitCtx.resolve (fun n => table.contains n) (nameOf ns) (nameOf q) with
  | some n => "some " ++ nameStr n
  | none => "none"

def ctxStr (ty : String) : String :=
  match Model.EmitCtx.emittedCtx Generated.C16CompileNodes.ctxReads ty with
  | [] => "-"
  | fs => join "," fs

def handle (line : String) : String :=
  match line.splitOn " " with
  | ["cmp", k, a, n] => fuseCase "cmp" k a n
  | ["fuse", k, a, n] => fuseCase "fuse" k a n
  | ["quote", h] => withHex h fun bs => okHex (some (Model.EmitQuote.quote (fun _ => true) bs))
  | ["quote"] => okHex (some (Model.EmitQuote.quote (fun _ => true) []))
  | ["quotenp", h] => withHex h fun bs => okHex (some (Model.EmitQuote.quote (fun _ => false) bs))
  | ["quotenp"] => okHex (some (Model.EmitQuote.quote (fun _ => false) []))
  | ["unquote", h] => withHex h fun bs => okHex (Model.EmitQuote.unquote bs)
  | ["printed", k, h] => withHex h fun bs => okHex (Model.EmitQuote.printedValue k.toNat! bs)
  | ["int", d] =>
      match d.toInt? with
      | some i =>
        let t := Model.EmitQuote.showInt i
        "ok " ++ bytesToHex t ++ " " ++ (match Model.EmitQuote.readInt t with | some j => toString j | none => "none")
      | none => "bad-request"
  | ["float", c] => floatCase c
  | ["split", h] => withHex h fun bs => b01 (Model.EmitType.splits (bs.map fun b => Char.ofNat b))
  | ["ctx", ty] => ctxStr ty
  | ["resolve", defs, ns, q] => resolveCase defs ns q
  | ["path", ty] => pathStr ty
  | ["emit", ty, hn] => emitStr ty (hn == "1") []
  | ["emit", ty, hn, fs] => emitStr ty (hn == "1") (if fs == "" then [] else fs.splitOn ",")
  | ["kinds"] => join " " ((tables.structs.filter fun d => d.isGetValue && d.name.startsWith "node.").map (·.name))
  | ["facts"] =>
      "nodeNeedsTag=" ++ b01 tables.nodeNeedsTag ++ " ptrAssertUnchecked=" ++ b01 tables.ptrAssertUnchecked ++
      " structs=" ++ toString tables.structs.length ++ " special=" ++ toString tables.special.length ++
      " scalars=" ++ toString tables.scalars.length ++ " aux=" ++ toString tables.aux.length
  | _ => "bad-request"

end C16Drv

def main : IO Unit := Drivers.runDriver C16Drv.handle
