import Model.Req
import Model.ReqFacts
import Model.ReqSite
import Model.ReqLimit
import Model.ReqReg
import Model.ReqCap
import Spec.Req
import Generated.C11Superglobals
import Drivers.Common
/-! `vm_c11`: line protocol over `Model.Req` / `Spec.Req`.

  sched <TAB> <scope> <TAB> <req>;<req>;… <TAB> <turn>,<turn>,…
     scope  = `gen`                      scope table and reset placement of the regenerated facts
            | <9×P|R>:<h>:<o>            explicit: per kind (get post cookie server request files session env globals),
                                         h = closure handler resets first, o = reset before the middlewares
     req    = <data>#<mw-pre>#<handler>#<mw-post>
     data   = query|form|cookies|server|headers|files|info     each  k:v,k:v
     steps  = space separated:  reset · parse · r.<kind>.<key> · w.<kind>.<key>.<val> · q.<acc>.<key>
              · wl.<slot>.<val|last> · rl.<slot> · gate · write
     turn   = request index: run that request up to and including its next gate (or to its end)
    → per request  b=<v>,<v>…/t=<v>,<v>…/left=<n>   joined by `;`   (`~` = null)
  spec <TAB> <scope> <TAB> <req>;…       → per request the body `Spec.Req.respond` prescribes
  site <TAB> <gen|node|eval> <TAB> <d>,<d>,… <TAB> <turn>,…
     `Model.ReqSite`: every request runs  mk·gate·call·gate·call·write  through ONE closure literal with its
     own datum d; scope `gen` = from the regenerated node-write facts, `node` / `eval` explicit
    → per request the data its two calls observed  <v>,<v>  joined by `;`   (`~` = not reached / null)
  limit <TAB> gen <TAB> <callee>,<callee>,… <TAB> <req>;<req>;… <TAB> <turn>,<turn>,…
     `Model.ReqLimit` with the guards of the regenerated facts (`guardsOf facts`): callee = the Go function
     executing a kind of frame ("node.ClassMethod.Call"); req = the frames the request descends through,
     outermost first, as indices into the callee list, space separated; its program is
     enter… gate leave… write; turn as above
    → per request  ok | fail:<reported depth> | running   joined by `;`
  reg <TAB> <gen|id|shared> <TAB> <req>;<req>;… <TAB> <turn>,<turn>,…
     `Model.ReqReg`: key function `gen` = from the regenerated registry facts (`keyOf facts`), `id` = the request's
     identity, `shared` = one key for everybody; req = space separated steps  a.<reg>.<val> (Store) · n.<reg>.<val>
     (LoadOrStore) · l.<reg> (Load, observed) · d.<reg> (Delete) · gate · write; turn as above
    → per request everything it observed, in order  <v>,<v>,…  joined by `;`   (`~` = no entry)
  cap <TAB> <gen|copy|alias> <TAB> <scalar|arr|obj> <TAB> <v>,<v>,… <TAB> <req>;<req>;… <TAB> <turn>,<turn>,…
     `Model.ReqCap`: every request runs the ONE closure that captured by value a value of that kind with the given
     boot content; binding `gen` = from the regenerated capture facts (`copiedOf facts`), `copy` / `alias` explicit;
     req = <datum>#<steps>, steps space separated:  s.<i> (set) · p (push) · rw (rewind) · n (next) · ra (readAll) ·
     gate · write; the first turn of a request also enters the closure (the binding)
    → per request everything it observed, in order  <v>,<v>,…  joined by `;`
  facts                                   → summary of the regenerated facts
-/
open Model.Req

def parseContent (s : String) : Option Content :=
  if s.isEmpty then some [] else
    (s.splitOn ",").mapM fun kv =>
      match kv.splitOn ":" with
      | [k, v] => do some ((← k.toNat?), (← v.toNat?))
      | _ => none

def parseKind : String → Option Kind
  | "get" => some .get | "post" => some .post | "cookie" => some .cookie | "server" => some .server
  | "request" => some .request | "files" => some .files | "session" => some .session | "env" => some .env
  | "globals" => some .globals | _ => none

def parseAcc : String → Option Accessor
  | "input" => some .input | "query" => some .query | "header" => some .header | "info" => some .info
  | _ => none

def parseStep (s : String) : Option Step :=
  match s.splitOn "." with
  | ["reset"] => some .reset
  | ["parse"] => some .parseForm
  | ["gate"] => some .gate
  | ["write"] => some .write
  | ["r", k, key] => do some (.readSG (← parseKind k) (← key.toNat?))
  | ["w", k, key, v] => do some (.writeSG (← parseKind k) (← key.toNat?) (← v.toNat?))
  | ["q", a, key] => do some (.readReq (← parseAcc a) (← key.toNat?))
  | ["wl", slot, "last"] => do some (.writeLocal (← slot.toNat?) .last)
  | ["wl", slot, v] => do some (.writeLocal (← slot.toNat?) (.const (← v.toNat?)))
  | ["rl", slot] => do some (.readLocal (← slot.toNat?))
  | _ => none

def parseSteps (s : String) : Option (List Step) :=
  if s.isEmpty then some [] else (s.splitOn " ").mapM parseStep

def parseData (s : String) : Option ReqData :=
  match s.splitOn "|" with
  | [q, f, c, sv, h, fl, i] => do
      some { query := ← parseContent q, form := ← parseContent f, cookies := ← parseContent c,
             server := ← parseContent sv, headers := ← parseContent h, files := ← parseContent fl,
             info := ← parseContent i }
  | _ => none

structure Cfg where
  scope : Kind → Scope
  handlerResets : Bool
  outer : Bool

def parseCfg (s : String) : Option Cfg :=
  if s == "gen" then
    let f := Generated.C11Superglobals.facts
    some { scope := f.scope, handlerResets := f.handlerResets, outer := f.outer }
  else match s.splitOn ":" with
    | [sc, h, o] =>
      let cs := sc.toList
      if cs.length ≠ 9 then none else
      let idx : Kind → Nat
        | .get => 0 | .post => 1 | .cookie => 2 | .server => 3 | .request => 4 | .files => 5
        | .session => 6 | .env => 7 | .globals => 8
      some { scope := fun k => if cs.getD (idx k) 'P' == 'R' then .perRequest else .packageLevel,
             handlerResets := h == "1", outer := o == "1" }
    | _ => none

/-- program of one request: [reset] mw-pre [reset] handler mw-post -/
def parseReq (cfg : Cfg) (s : String) : Option (ReqData × List Step) :=
  match s.splitOn "#" with
  | [d, pre, h, post] => do
      let d ← parseData d
      let pre ← parseSteps pre
      let h ← parseSteps h
      let post ← parseSteps post
      some (d, (if cfg.outer then [Step.reset] else []) ++ pre ++ (if cfg.handlerResets then [Step.reset] else []) ++ h ++ post)
  | _ => none

def mkWorld (cfg : Cfg) (reqs : List (ReqData × List Step)) : World :=
  { scope := cfg.scope
    prog := fun r => (reqs[r]?.map (·.2)).getD []
    data := fun r => (reqs[r]?.map (·.1)).getD {} }

/-- segments of a program: each ends with its gate (the last one with the program) -/
def segments : List Step → List Nat → Nat → List Nat
  | [], acc, cur => (if cur = 0 then acc else cur :: acc).reverse
  | .gate :: rest, acc, cur => segments rest ((cur + 1) :: acc) 0
  | _ :: rest, acc, cur => segments rest acc (cur + 1)

/-- expand gate-level turns into the step-level schedule -/
def expand (segs : List (List Nat)) : List Nat → List Rid
  | [] => []
  | r :: turns =>
    match segs[r]? with
    | some (n :: more) => List.replicate n r ++ expand (segs.set r more) turns
    | _ => expand segs turns

def showObs (l : List Obs) : String :=
  ",".intercalate (l.map fun o => match o with | some v => toString v | none => "~")

def showReq (q : ReqSt) : String :=
  s!"b={showObs q.body}/t={showObs q.trace}/left={q.pc.length}"

def siteProg : List Model.ReqSite.Step := [.mk 0 0, .gate, .call 0, .gate, .call 0, .write]

def siteSegments : List Model.ReqSite.Step → List Nat → Nat → List Nat
  | [], acc, cur => (if cur = 0 then acc else cur :: acc).reverse
  | .gate :: rest, acc, cur => siteSegments rest ((cur + 1) :: acc) 0
  | _ :: rest, acc, cur => siteSegments rest acc (cur + 1)

def handleSite (scope : String) (ds : String) (turns : String) : String :=
  let sc : Option (Model.ReqSite.Site → Model.ReqSite.SiteScope) :=
    if scope == "gen" then some (Model.ReqSite.scopeOf Generated.C11Superglobals.facts)
    else if scope == "node" then some (fun _ => .inNode)
    else if scope == "eval" then some (fun _ => .perEvaluation) else none
  match sc, (ds.splitOn ",").mapM String.toNat?, (if turns.isEmpty then some [] else (turns.splitOn ",").mapM String.toNat?) with
  | some sc, some ds, some turns =>
    let w : Model.ReqSite.World := { scope := sc, prog := fun r => if r < ds.length then siteProg else [], env := fun r => ds.getD r 0 }
    let sched := expand (ds.map fun _ => siteSegments siteProg [] 0) turns
    let s := Model.ReqSite.run w (Model.ReqSite.init w) sched
    ";".intercalate ((List.range ds.length).map fun r =>
      let q := s.req r
      let obs := q.body ++ q.pending
      showObs [obs.getD 0 none, obs.getD 1 none])
  | _, _, _ => "bad-site"

/-- one gate-level turn of `Model.ReqLimit`: request `r` runs up to and including its next gate, or to its end -/
def limitTurn (w : Model.ReqLimit.World) (r : Nat) : Nat → Model.ReqLimit.State → Model.ReqLimit.State
  | 0, s => s
  | fuel + 1, s =>
    match (s.req r).pc with
    | [] => s
    | .gate :: _ => Model.ReqLimit.stepReq w s r
    | _ => limitTurn w r fuel (Model.ReqLimit.stepReq w s r)

def handleLimit (cfg : String) (callees : String) (reqs : String) (turns : String) : String :=
  if cfg != "gen" then "bad-cfg" else
  let names := callees.splitOn ","
  let frames : Option (List (List Nat)) := (reqs.splitOn ";").mapM fun r =>
    if r.isEmpty then some [] else (r.splitOn " ").mapM String.toNat?
  match frames, (if turns.isEmpty then some [] else (turns.splitOn ",").mapM String.toNat?) with
  | some frames, some turns =>
    let progs : List (List Model.ReqLimit.Step) := frames.map fun fs =>
      fs.map (fun i => Model.ReqLimit.Step.enter (names.getD i "?")) ++ [.gate] ++ fs.map (fun _ => .leave) ++ [.write]
    let w : Model.ReqLimit.World :=
      { n := progs.length, guards := Model.ReqLimit.guardsOf Generated.C11Superglobals.facts,
        prog := fun r => progs.getD r [] }
    let s := turns.foldl (fun s r => limitTurn w r ((progs.getD r []).length + 1) s) (Model.ReqLimit.init w)
    ";".intercalate ((List.range progs.length).map fun r =>
      match (s.req r).out with
      | .ok => "ok"
      | .refused n => s!"fail:{n}"
      | .running => "running")
  | _, _ => "bad-req"

def parseRegStep (s : String) : Option Model.ReqReg.Step :=
  match s.splitOn "." with
  | ["a", g, v] => do some (.attach (← g.toNat?) (← v.toNat?))
  | ["n", g, v] => do some (.attachNew (← g.toNat?) (← v.toNat?))
  | ["l", g] => do some (.lookup (← g.toNat?))
  | ["d", g] => do some (.detach (← g.toNat?))
  | ["gate"] => some .gate
  | ["write"] => some .write
  | _ => none

def regSegments : List Model.ReqReg.Step → List Nat → Nat → List Nat
  | [], acc, cur => (if cur = 0 then acc else cur :: acc).reverse
  | .gate :: rest, acc, cur => regSegments rest ((cur + 1) :: acc) 0
  | _ :: rest, acc, cur => regSegments rest acc (cur + 1)

def handleReg (cfg : String) (reqs : String) (turns : String) : String :=
  let key : Option (Nat → Model.ReqReg.Key) :=
    if cfg == "gen" then some (Model.ReqReg.keyOf Generated.C11Superglobals.facts)
    else if cfg == "id" then some id
    else if cfg == "shared" then some (fun _ => 0) else none
  let progs : Option (List (List Model.ReqReg.Step)) := (reqs.splitOn ";").mapM fun r =>
    if r.isEmpty then some [] else (r.splitOn " ").mapM parseRegStep
  match key, progs, (if turns.isEmpty then some [] else (turns.splitOn ",").mapM String.toNat?) with
  | some key, some progs, some turns =>
    let w : Model.ReqReg.World := { key := key, prog := fun r => progs.getD r [] }
    let sched := expand (progs.map fun p => regSegments p [] 0) turns
    let s := Model.ReqReg.run w (Model.ReqReg.init w) sched
    ";".intercalate ((List.range progs.length).map fun r => showObs ((s.req r).body ++ (s.req r).pending))
  | _, _, _ => "bad-reg"

def parseCapStep (s : String) : Option Model.ReqCap.Step :=
  match s.splitOn "." with
  | ["s", i] => i.toNat?.map Model.ReqCap.Step.set
  | ["p"] => some .push
  | ["rw"] => some .rewind
  | ["n"] => some .next
  | ["ra"] => some .readAll
  | ["gate"] => some .gate
  | ["write"] => some .write
  | _ => none

def parseCapReq (s : String) : Option (Nat × List Model.ReqCap.Step) :=
  match s.splitOn "#" with
  | [d, st] => do
      let d ← d.toNat?
      let st ← ((st.splitOn " ").filter (· ≠ "")).mapM parseCapStep
      some (d, st)
  | _ => none

def capSegments : List Model.ReqCap.Step → List Nat → Nat → List Nat
  | [], acc, cur => (if cur = 0 then acc else cur :: acc).reverse
  | .gate :: rest, acc, cur => capSegments rest ((cur + 1) :: acc) 0
  | _ :: rest, acc, cur => capSegments rest acc (cur + 1)

def handleCap (bind kind boot reqs turns : String) : String :=
  let k : Option Model.ReqCap.Kind :=
    match kind with | "scalar" => some .scalar | "arr" => some .arr | "obj" => some .obj | _ => none
  let nats (s : String) : Option (List Nat) := if s.isEmpty then some [] else (s.splitOn ",").mapM String.toNat?
  match k, nats boot, (reqs.splitOn ";").mapM parseCapReq, nats turns with
  | some k, some boot, some reqs, some turns =>
    let copied : Option Bool :=
      if bind == "gen" then some (Model.ReqCap.copiedOf Generated.C11Superglobals.facts k)
      else if bind == "copy" then some true else if bind == "alias" then some false else none
    match copied with
    | none => "bad-cap"
    | some copied =>
      let w : Model.ReqCap.World :=
        { kind := k, copied := copied, boot := boot,
          prog := fun r => (reqs[r]?.map (·.2)).getD [], datum := fun r => (reqs[r]?.map (·.1)).getD 0 }
      -- the first segment of a request is one turn longer: entering the closure
      let segs := reqs.map fun q => match capSegments q.2 [] 0 with | [] => [1] | n :: more => (n + 1) :: more
      let s := Model.ReqCap.run w (Model.ReqCap.init w) (expand segs turns)
      ";".intercalate ((List.range reqs.length).map fun r =>
        ",".intercalate ((((s.reqs r).body).getD (s.reqs r).obs).map toString))
  | _, _, _, _ => "bad-cap"

def handle (line : String) : String :=
  match line.splitOn "\t" with
  | ["cap", bind, kind, boot, reqs, turns] => handleCap bind kind boot reqs turns
  | ["limit", cfg, callees, reqs, turns] => handleLimit cfg callees reqs turns
  | ["reg", cfg, reqs, turns] => handleReg cfg reqs turns
  | ["site", scope, ds, turns] => handleSite scope ds turns
  | ["sched", cfg, reqs, turns] =>
    match parseCfg cfg with
    | none => "bad-cfg"
    | some cfg =>
      match (reqs.splitOn ";").mapM (parseReq cfg), (if turns.isEmpty then some [] else (turns.splitOn ",").mapM String.toNat?) with
      | some reqs, some turns =>
        let w := mkWorld cfg reqs
        let sched := expand (reqs.map fun r => segments r.2 [] 0) turns
        let s := run w (init w) sched
        ";".intercalate ((List.range reqs.length).map fun r => showReq (s.req r))
      | _, _ => "bad-req"
  | ["spec", cfg, reqs] =>
    match parseCfg cfg with
    | none => "bad-cfg"
    | some cfg =>
      match (reqs.splitOn ";").mapM (parseReq cfg) with
      | some reqs => ";".intercalate (reqs.map fun r => showObs (Spec.Req.respond [] r.1 r.2))
      | none => "bad-req"
  | ["facts"] =>
    let f := Generated.C11Superglobals.facts
    let sc := String.ofList (Kind.all.map fun k => if f.scope k = .perRequest then 'R' else 'P')
    s!"scope={sc} handlerResets={f.handlerResets} outer={f.outer} violations={f.violations.length} entryViolations={f.entryViolations.length} nodeWrites={f.nodeWrites.length} nodeWriteViolations={f.nodeWriteViolations} depthGuards={f.depthGuards.map (fun d => s!"{d.fn}:{d.counter}:{d.limit}:{d.decidesOn}:{d.ownLimit}")} guardViolations={f.guardViolations} registrySites={f.registries.length} registryViolations={f.registryViolations} limits={",".intercalate (f.limits.map toString)} captureBinds={f.captureBinds.length} captureViolations={f.captureViolations}"
  | _ => "bad-op"

def main : IO Unit := Drivers.runDriver handle
