import Model.Ctl
import Spec.Ctl
import Spec.CtlFrag
import Drivers.Common
/-! `vm_c02`: line protocol over `Model.Ctl` / `Spec.Ctl`.

  model<TAB>fuel<TAB>prog   → `Model.Ctl.run`   : done|error|timeout <TAB> escaped output
  spec<TAB>fuel<TAB>prog    → `Spec.Ctl.run`    : same shape
  frag<TAB>prog             → `Spec.Ctl.inFragment` : yes|no
  nodes<TAB>prog            → the node tree `Model.Ctl.compile` builds (compared with the parser's)

  prog  : (prog FUN* BLK)
  FUN   : (fun NAME (params (p X) | (p X LIT) …) (statics (st X LIT) …) BLK)
  BLK   : (blk STMT*)
  STMT  : (echo E*) (expr E) (if E BLK (elif E BLK)* BLK) (while E BLK) (do BLK E)
          (for (args E*) E (args E*) BLK) (foreach E K X BLK)   K = - | X
          (switch E (case E BLK)* BLK) (break N) (continue N) (ret) (ret E)
  E     : LIT (v X) (bin OP E E) (not E) (and E E) (or E E) (set X E) (inc KIND X)
          (call F E*) (match E E (arm E E)*)        -- second E of match = default
  LIT   : (i N) (b 0|1) (s HEX) (n) (l N*)
  OP    : add sub mul lt le gt ge eq ne cat        KIND : preinc predec postinc postdec
-/
open Spec.Ctl

inductive SExp where
  | atom (s : String)
  | list (l : List SExp)
  deriving Inhabited

def tokenize (s : String) : List String :=
  let rec go (cs : List Char) (cur : String) (acc : List String) : List String :=
    match cs with
    | [] => (if cur.isEmpty then acc else cur :: acc).reverse
    | c :: rest =>
      if c == '(' || c == ')' then
        go rest "" (String.singleton c :: (if cur.isEmpty then acc else cur :: acc))
      else if c == ' ' then go rest "" (if cur.isEmpty then acc else cur :: acc)
      else go rest (cur.push c) acc
  go s.toList "" []

/-- parse one S-expression; returns it and the remaining tokens -/
partial def parseSExp : List String → Option (SExp × List String)
  | [] => none
  | "(" :: rest =>
    let rec items (ts : List String) (acc : List SExp) : Option (SExp × List String) :=
      match ts with
      | [] => none
      | ")" :: r => some (.list acc.reverse, r)
      | ts => match parseSExp ts with
        | some (e, r) => items r (e :: acc)
        | none => none
    items rest []
  | ")" :: _ => none
  | a :: rest => some (.atom a, rest)

def hexVal (c : Char) : Option Nat :=
  if '0' ≤ c && c ≤ '9' then some (c.toNat - '0'.toNat)
  else if 'a' ≤ c && c ≤ 'f' then some (c.toNat - 'a'.toNat + 10)
  else none

partial def unhex (cs : List Char) (acc : List Char) : Option String :=
  match cs with
  | [] => some (String.ofList acc.reverse)
  | a :: b :: rest => do
    let x ← hexVal a
    let y ← hexVal b
    unhex rest (Char.ofNat (x * 16 + y) :: acc)
  | _ => none

def atomNat : SExp → Option Nat
  | .atom s => s.toNat?
  | _ => none

def atomInt : SExp → Option Int
  | .atom s => s.toInt?
  | _ => none

def toLit : SExp → Option Val
  | .list [.atom "i", n] => (atomInt n).map Val.int
  | .list [.atom "b", .atom "1"] => some (.bool true)
  | .list [.atom "b", .atom "0"] => some (.bool false)
  | .list [.atom "s", .atom h] => (unhex h.toList []).map Val.str
  | .list [.atom "s"] => some (.str "")
  | .list [.atom "n"] => some .null
  | .list (.atom "l" :: ns) => (ns.mapM atomInt).map Val.list
  | _ => none

def toOp : String → Option BinOp
  | "add" => some .add | "sub" => some .sub | "mul" => some .mul
  | "lt" => some .lt | "le" => some .le | "gt" => some .gt | "ge" => some .ge
  | "eq" => some .eq | "ne" => some .ne | "cat" => some .concat
  | _ => none

def toKind : String → Option IncKind
  | "preinc" => some .preInc | "predec" => some .preDec
  | "postinc" => some .postInc | "postdec" => some .postDec
  | _ => none

mutual
partial def toExpr : SExp → Option Expr
  | .list [.atom "v", x] => (atomNat x).map Expr.var
  | .list [.atom "bin", .atom op, a, b] => do some (.bin (← toOp op) (← toExpr a) (← toExpr b))
  | .list [.atom "not", a] => do some (.not (← toExpr a))
  | .list [.atom "and", a, b] => do some (.and (← toExpr a) (← toExpr b))
  | .list [.atom "or", a, b] => do some (.or (← toExpr a) (← toExpr b))
  | .list [.atom "set", x, e] => do some (.assign (← atomNat x) (← toExpr e))
  | .list [.atom "inc", .atom k, x] => do some (.inc (← toKind k) (← atomNat x))
  | .list (.atom "call" :: g :: args) => do some (.call (← atomNat g) (← toArgs args))
  | .list (.atom "match" :: s :: d :: arms) => do some (.matchE (← toExpr s) (← toArms arms) (← toExpr d))
  | e => (toLit e).map Expr.lit
partial def toArgs : List SExp → Option Args
  | [] => some .nil
  | e :: rest => do some (.cons (← toExpr e) (← toArgs rest))
partial def toArms : List SExp → Option Arms
  | [] => some .nil
  | .list [.atom "arm", c, r] :: rest => do some (.cons (← toExpr c) (← toExpr r) (← toArms rest))
  | _ => none
end

/-- split `(elif …)* BLK` / `(case …)* BLK` : all but the last element, and the last -/
def splitLast : List SExp → Option (List SExp × SExp)
  | [] => none
  | [x] => some ([], x)
  | x :: rest => (splitLast rest).map fun (a, l) => (x :: a, l)

mutual
partial def toStmt : SExp → Option Stmt
  | .list (.atom "echo" :: es) => do some (.echo (← toArgs es))
  | .list [.atom "expr", e] => do some (.expr (← toExpr e))
  | .list (.atom "if" :: c :: t :: rest) => do
    let (elifs, els) ← splitLast rest
    some (.ite (← toExpr c) (← toBlock t) (← toElifs elifs) (← toBlock els))
  | .list [.atom "while", c, b] => do some (.while_ (← toExpr c) (← toBlock b))
  | .list [.atom "do", b, c] => do some (.doWhile (← toBlock b) (← toExpr c))
  | .list [.atom "for", .list (.atom "args" :: is), c, .list (.atom "args" :: ns), b] => do
    some (.for_ (← toArgs is) (← toExpr c) (← toArgs ns) (← toBlock b))
  | .list [.atom "foreach", e, .atom "-", v, b] => do
    some (.foreach (← toExpr e) none (← atomNat v) (← toBlock b))
  | .list [.atom "foreach", e, k, v, b] => do
    some (.foreach (← toExpr e) (some (← atomNat k)) (← atomNat v) (← toBlock b))
  | .list (.atom "switch" :: e :: rest) => do
    let (cases, dflt) ← splitLast rest
    some (.switch (← toExpr e) (← toCases cases) (← toBlock dflt))
  | .list [.atom "break", n] => (atomNat n).map Stmt.brk
  | .list [.atom "continue", n] => (atomNat n).map Stmt.cont
  | .list [.atom "ret"] => some (.ret none)
  | .list [.atom "ret", e] => do some (.ret (some (← toExpr e)))
  | _ => none
partial def toBlock : SExp → Option Block
  | .list (.atom "blk" :: ss) => toStmts ss
  | _ => none
partial def toStmts : List SExp → Option Block
  | [] => some .nil
  | s :: rest => do some (.cons (← toStmt s) (← toStmts rest))
partial def toElifs : List SExp → Option ElseIfs
  | [] => some .nil
  | .list [.atom "elif", c, b] :: rest => do some (.cons (← toExpr c) (← toBlock b) (← toElifs rest))
  | _ => none
partial def toCases : List SExp → Option Cases
  | [] => some .nil
  | .list [.atom "case", l, b] :: rest => do some (.cons (← toExpr l) (← toBlock b) (← toCases rest))
  | _ => none
end

def toParam : SExp → Option Param
  | .list [.atom "p", x] => (atomNat x).map fun x => ⟨x, none⟩
  | .list [.atom "p", x, d] => do some ⟨← atomNat x, some (← toLit d)⟩
  | _ => none

def toStatic : SExp → Option (Var × Val)
  | .list [.atom "st", x, d] => do some (← atomNat x, ← toLit d)
  | _ => none

def toFun : SExp → Option FunDecl
  | .list [.atom "fun", name, .list (.atom "params" :: ps), .list (.atom "statics" :: ss), b] => do
    some { name := ← atomNat name, params := ← ps.mapM toParam, statics := ← ss.mapM toStatic, body := ← toBlock b }
  | _ => none

def toProg : SExp → Option Prog
  | .list (.atom "prog" :: rest) => do
    let (fs, main) ← splitLast rest
    some { funs := ← fs.mapM toFun, main := ← toBlock main }
  | _ => none

def parseProg (s : String) : Option Prog :=
  match parseSExp (tokenize s) with
  | some (e, []) => toProg e
  | _ => none

def escape (s : String) : String :=
  s.foldl (fun acc c =>
    if c == '\\' then acc ++ "\\\\" else if c == '\n' then acc ++ "\\n"
    else if c == '\t' then acc ++ "\\t" else if c == '\r' then acc ++ "\\r" else acc.push c) ""

def showRun : Option (List String × Status) → String
  | none => "timeout\t"
  | some (out, .done) => "done\t" ++ escape (String.join out)
  | some (out, .error) => "error\t" ++ escape (String.join out)

/-! ### node dump (same text as harness/c02/nodes.go prints for the parser's tree) -/
open Model.Ctl

def showVal : Val → String
  | .int i => s!"int:{i}"
  | .bool true => "bool:1"
  | .bool false => "bool:0"
  | .str s => "str:" ++ s
  | .null => "null"
  | .list l => "list:" ++ ",".intercalate (l.map toString)

def showBinOp : BinOp → String
  | .add => "add" | .sub => "sub" | .mul => "mul" | .lt => "lt" | .le => "le" | .gt => "gt"
  | .ge => "ge" | .eq => "eq" | .ne => "ne" | .concat => "cat"

def showOpnd : Opnd → String
  | .slot i => s!"slot:{i}"
  | .lit n => s!"lit:{n}"
  | .complex => "complex"

def showFastOp : FastOp → String
  | .copy => "copy" | .mul => "mul" | .add => "add"

mutual
partial def showE : MExpr → String
  | .lit v => s!"Lit({showVal v})"
  | .var i => s!"Var({i})"
  | .bin op a b => s!"Bin({showBinOp op},{showE a},{showE b})"
  | .varIntLe i n le => s!"VarIntLe({i},{n},{showE le})"
  | .not a => s!"Not({showE a})"
  | .and a b => s!"And({showE a},{showE b})"
  | .or a b => s!"Or({showE a},{showE b})"
  | .assignVar i r => s!"AssignVar({i},{showE r})"
  | .fastAssign op d l r slow =>
    -- the operands of a copy are not part of the Go node's behaviour beyond `l`
    s!"FastAssign({showFastOp op},{d},{showOpnd l},{if op == .copy then "-" else showOpnd r},{showE slow})"
  | .postIncr i => s!"PostIncr({i})"
  | .postDecr i => s!"PostDecr({i})"
  | .stmtIncr i => s!"StmtIncr({i})"
  | .preIncr i => s!"PreIncr({i})"
  | .preDecr i => s!"PreDecr({i})"
  | .call g args => s!"Call({g}{showArgs args})"
  | .matchE s arms d => s!"Match({showE s}{showArms arms};default=>{showE d})"
partial def showArgs : MArgs → String
  | .nil => ""
  | .cons e rest => "," ++ showE e ++ showArgs rest
partial def showArms : MArms → String
  | .nil => ""
  | .cons c r rest => ";" ++ showE c ++ "=>" ++ showE r ++ showArms rest
end

mutual
partial def showS : MStmt → String
  | .echo es => s!"Echo({showArgs es})"
  | .expr e => showE e
  | .ite c t elifs els => s!"If({showE c}{showB t}{showElifs elifs}else{showB els})"
  | .while_ c b => s!"While({showE c}{showB b})"
  | .doWhile b c => s!"Do({showB b}{showE c})"
  | .for_ i c n b => s!"For({showArgs i};{showE c};{showArgs n}{showB b})"
  | .foreach e k v b => s!"Foreach({showE e},{match k with | some k => toString k | none => "-"},{v}{showB b})"
  | .switch e cs d => s!"Switch({showE e}{showCases cs}default{showB d})"
  | .brk n => s!"Break({n})"
  | .cont => "Continue"
  | .ret none => "Return()"
  | .ret (some e) => s!"Return({showE e})"
partial def showB : MBlock → String
  | b => "{" ++ showStmts b ++ "}"
partial def showStmts : MBlock → String
  | .nil => ""
  | .cons s rest => showS s ++ ";" ++ showStmts rest
partial def showElifs : MElseIfs → String
  | .nil => ""
  | .cons c b rest => "elif(" ++ showE c ++ ")" ++ showB b ++ showElifs rest
partial def showCases : MCases → String
  | .nil => ""
  | .cons l b rest => "case(" ++ showE l ++ ")" ++ showB b ++ showCases rest
end

def showParam (p : MParam) : String :=
  match p.dflt with
  | some d => s!"{p.idx}={showVal d}"
  | none => s!"{p.idx}"

def showFun (d : MFun) : String :=
  let ps := ",".intercalate (d.params.map showParam)
  let ss := ",".intercalate (d.statics.map fun (i, v) => s!"{i}={showVal v}")
  s!"Function({d.name};params={ps};nvars={d.nvars};statics={ss};body={showB d.body})"

def showProg (p : MProg) : String :=
  " ".intercalate (p.funs.map showFun) ++ s!" Main(nvars={p.nvars};body={showB p.main})"

def handle (line : String) : String :=
  match line.splitOn "\t" with
  | [cmd, fuel, prog] =>
    match fuel.toNat?, parseProg prog with
    | some f, some p =>
      match cmd with
      | "model" => showRun (Model.Ctl.run p f)
      | "spec" => showRun (Spec.Ctl.run p f)
      | _ => "bad-cmd"
    | _, _ => "bad-prog"
  | ["frag", prog] =>
    match parseProg prog with
    | some p => if inFragment p then "yes" else "no"
    | none => "bad-prog"
  | ["nodes", prog] =>
    match parseProg prog with
    | some p => showProg (compile p)
    | none => "bad-prog"
  | _ => "bad-line"

def main : IO Unit := Drivers.runDriver handle
