/-! Line-protocol plumbing shared by the model drivers (`vm_cXX` executables). -/
namespace Drivers

partial def loop (h : IO.FS.Stream) (out : IO.FS.Stream) (f : String → String) : IO Unit := do
  let line ← h.getLine
  if line.isEmpty then
    out.flush
    return ()
  let l := if line.endsWith "\n" then (line.dropEnd 1).toString else line
  out.putStrLn (f l)
  out.flush
  loop h out f

/-- stateful variant -/
partial def loopS {σ : Type} (h : IO.FS.Stream) (out : IO.FS.Stream) (f : σ → String → σ × String) (s : σ) : IO Unit := do
  let line ← h.getLine
  if line.isEmpty then
    out.flush
    return ()
  let l := if line.endsWith "\n" then (line.dropEnd 1).toString else line
  let (s', r) := f s l
  out.putStrLn r
  out.flush
  loopS h out f s'

def runDriver (f : String → String) : IO Unit := do
  loop (← IO.getStdin) (← IO.getStdout) f

def runDriverS {σ : Type} (f : σ → String → σ × String) (s : σ) : IO Unit := do
  loopS (← IO.getStdin) (← IO.getStdout) f s

def sortStrings (l : List String) : List String :=
  l.mergeSort (fun a b => a < b || a == b)

end Drivers
