import Model.LexCfg
import Drivers.Common
/-! `vm_c01`: line protocol over `Model.Lex` (shared by C01 and C18).

  lex <s|t> <hex bytes>   → `tokens shift=<n> <ty>:<start>:<stop>:<line>:<fnv64 of literal> …` | `html` | `crash <why>`
  raw <s|t> <hex bytes>   → the same for the raw token list (before Process)
-/
open Model.Lex

def hexVal (c : Char) : Option Nat :=
  if '0' ≤ c ∧ c ≤ '9' then some (c.toNat - 48)
  else if 'a' ≤ c ∧ c ≤ 'f' then some (c.toNat - 87)
  else none

def parseHex (s : String) : Option Input :=
  let cs := s.toList
  let rec go (cs : List Char) (acc : Array UInt8) : Option Input :=
    match cs with
    | [] => some acc
    | a :: b :: rest =>
      match hexVal a, hexVal b with
      | some x, some y => go rest (acc.push (UInt8.ofNat (x * 16 + y)))
      | _, _ => none
    | _ => none
  go cs #[]

def fnv (bs : List Nat) : UInt64 :=
  bs.foldl (fun h b => (h ^^^ (UInt64.ofNat b)) * 1099511628211) 14695981039346656037

def showTok (t : Tok) : String := s!"{t.ty}:{t.start}:{t.stop}:{t.line}:{fnv t.lit}"

def showToks (shift : Nat) (ts : List Tok) : String :=
  s!"tokens shift={shift} " ++ " ".intercalate (ts.map showTok)

def run (cmd m hex : String) : String :=
  match parseHex hex, (if m == "s" then some Mode.script else if m == "t" then some Mode.template else none) with
  | some inp, some mode =>
    if cmd == "lex" then
      match tokenize genCfg inp mode with
      | (.tokens ts, shift) => showToks shift ts
      | (.html, _) => "html"
      | (.crash w, _) => "crash " ++ w
    else if cmd == "raw" then
      match tokenizeRaw genCfg inp mode with
      | .ok ts => showToks 0 ts
      | .crash w => "crash " ++ w
    else "bad-op"
  | _, _ => "bad-op"

def handle (line : String) : String :=
  match line.splitOn " " with
  | [cmd, m, hex] => run cmd m hex
  | [cmd, m] => run cmd m ""
  | _ => "bad-op"

def main : IO Unit := Drivers.runDriver handle
