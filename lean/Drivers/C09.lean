import Model.Chan
import Drivers.Common
import Std.Data.HashSet
/-! `vm_c09`: line protocol over `Model.Chan`.

Threads are `0 … n-1`; a program is a string over `s` (send) `r` (receive) `c` (close)
`i` (isClosed); programs are separated by `|`. The k-th operation of thread t sends the
value `100*t + k`.

  enum  <cap> <progs> <max> all|edges|probes
                                        all maximal schedules (DFS); `edges`: stop a path when it
                                        reaches a state seen before (covers every transition once);
                                        `probes`: for every reachable state and every thread that is
                                        blocked there, a path to the state followed by `p<t>=B`
  walk  <cap> <progs> <seed> <n>        n random maximal schedules
  run   <cap> <progs> <acts>            acts `r<t>` `a<t>` `h<t>.<r>` separated by `,`

  → `n=<k> complete=<0|1>` then one `;`-separated schedule per path, steps separated by `,`:
      <act>=<result>/<len><o|x><~?>     result of the operation(s) completed by the step:
         `-` none · `T`/`F` send · `G<tid>.<val>` receive · `N` null · `U` close · `I0`/`I1` isClosed
         · `P` panic · `x` not enabled (run only);  hand: `<send>+<recv>`
      len = buffer length after the step, o|x = closed flag after the step,
      `~` = the step is one of several ready `select` cases (the runtime picks)
    last token `$M` (maximal: nothing enabled) or `$P` (pruned prefix)
-/
open Model.Chan

def parseProg (s : String) : Option (List Op) :=
  (s.toList.zipIdx).mapM fun (c, _) =>
    match c with
    | 's' => some (Op.send 0) | 'r' => some Op.recv | 'c' => some Op.close | 'i' => some Op.isClosed
    | _ => none

/-- number the send payloads: thread t, op index k ↦ 100*t+k -/
def numberProg (t : Nat) (ops : List Op) : List Op :=
  ops.zipIdx.map fun (o, k) => match o with | .send _ => .send (100 * t + k) | o => o

def parseProgs (s : String) : Option (List (List Op)) :=
  ((s.splitOn "|").mapM parseProg).map fun ps => ps.zipIdx.map fun (p, t) => numberProg t p

def progFn (ps : List (List Op)) : Nat → List Op := fun t => ps.getD t []

def showRes : Res → String
  | .ok true => "T" | .ok false => "F" | .got m => s!"G{m.tid}.{m.val}" | .null => "N" | .unit => "U"

def showIs : Op × Res → String
  | (.isClosed, .ok b) => if b then "I1" else "I0"
  | (_, r) => showRes r

def showAct : Act → String
  | .run t => s!"r{t}" | .abort t => s!"a{t}" | .hand t r => s!"h{t}.{r}"

def lastRes (s s' : St) (t : Nat) : String :=
  if (s'.hist t).length > (s.hist t).length then
    match (s'.hist t).getLast? with | some x => showIs x | none => "-"
  else "-"

def actEnabled (s : St) (a : Act) : Bool := (step s a).isSome

def racy (n : Nat) (s : St) : Act → Bool
  | .run t => s.pc t == .sendChecked && s.done
  | .hand t _ => s.done
  | .abort t => actEnabled s (.run t) || (List.range n).any (fun r => actEnabled s (.hand t r))

def showStep (n : Nat) (s s' : St) (a : Act) : String :=
  let res :=
    if s'.panicked then "P" else
    match a with
    | .run t => lastRes s s' t
    | .abort t => lastRes s s' t
    | .hand t r => lastRes s s' t ++ "+" ++ lastRes s s' r
  s!"{showAct a}={res}/{s'.buf.length}{if s'.flag then "x" else "o"}{if racy n s a then "~" else ""}"

def allActs (n : Nat) : List Act :=
  (List.range n).flatMap fun t => [Act.run t, Act.abort t] ++ (List.range n).map (fun r => Act.hand t r)

def enabled (n : Nat) (s : St) : List (Act × St) :=
  (allActs n).filterMap fun a => (step s a).map fun s' => (a, s')

def pcCode : Pc → String
  | .idle => "i" | .sendChecked => "s" | .closeFlagged => "f" | .closeSignalled => "g"

def stateKey (n : Nat) (s : St) : String :=
  let ths := (List.range n).map fun t => pcCode (s.pc t) ++ toString (s.prog t).length
  let b := s.buf.map fun m => s!"{m.tid}.{m.val}"
  s!"{if s.flag then 1 else 0}{if s.done then 1 else 0}{if s.chClosed then 1 else 0}{if s.panicked then 1 else 0}|{",".intercalate ths}|{",".intercalate b}"

structure EAcc where
  out : Array String := #[]
  max : Nat
  over : Bool := false
  seen : Std.HashSet String := {}

def emit (acc : EAcc) (pathRev : List String) (tag : String) : EAcc :=
  if acc.out.size ≥ acc.max then { acc with over := true }
  else { acc with out := acc.out.push (",".intercalate ((tag :: pathRev).reverse)) }

/-- thread `t` has work left and none of its actions (alone or as a rendezvous partner) is enabled -/
def blocked (n : Nat) (s : St) (t : Nat) : Bool :=
  !(s.prog t).isEmpty && !actEnabled s (.run t) && !actEnabled s (.abort t) &&
  (List.range n).all (fun r => !actEnabled s (.hand t r) && !actEnabled s (.hand r t))

def probesAt (n : Nat) (s : St) (pathRev : List String) (acc : EAcc) : EAcc :=
  (List.range n).foldl (fun acc t =>
    if blocked n s t then
      emit acc (s!"p{t}=B/{s.buf.length}{if s.flag then "x" else "o"}" :: pathRev) "$P"
    else acc) acc

/-- mode 0: every maximal schedule; 1: every transition (prune at states seen before);
    2: for every reachable state and every blocked thread, a path to the state followed by a probe of that thread -/
partial def dfs (n : Nat) (mode : Nat) (s : St) (pathRev : List String) (acc : EAcc) : EAcc :=
  if acc.over then acc else
  let acc := if mode == 2 then probesAt n s pathRev acc else acc
  let en := enabled n s
  if en.isEmpty then (if mode == 2 then acc else emit acc pathRev "$M") else
  en.foldl (fun acc (a, s') =>
    if acc.over then acc else
    let p := showStep n s s' a :: pathRev
    if mode != 0 then
      let k := stateKey n s'
      if acc.seen.contains k then (if mode == 2 then acc else emit acc p "$P")
      else dfs n mode s' p { acc with seen := acc.seen.insert k }
    else dfs n mode s' p acc) acc

def lcg (x : Nat) : Nat := (x * 6364136223846793005 + 1442695040888963407) % 18446744073709551616

partial def walk (n : Nat) (s : St) (seed : Nat) (pathRev : List String) : String × Nat :=
  let en := enabled n s
  if en.isEmpty then (",".intercalate (("$M" :: pathRev).reverse), seed) else
  let seed := lcg seed
  match en[(seed / 65536) % en.length]? with
  | some (a, s') => walk n s' seed (showStep n s s' a :: pathRev)
  | none => ("", seed)

def parseAct (s : String) : Option Act :=
  match s.toList with
  | 'r' :: rest => (String.ofList rest).toNat?.map Act.run
  | 'a' :: rest => (String.ofList rest).toNat?.map Act.abort
  | 'h' :: rest =>
    match (String.ofList rest).splitOn "." with
    | [t, r] => do some (Act.hand (← t.toNat?) (← r.toNat?))
    | _ => none
  | _ => none

/-- `p<t>` in a `run` request: probe of thread t (must be blocked) -/
def parseProbe (s : String) : Option Nat :=
  match s.toList with
  | 'p' :: rest => (String.ofList rest).toNat?
  | _ => none

def runActs (n : Nat) (s : St) : List String → List String → Option (List String)
  | [], acc => some (((if (enabled n s).isEmpty then "$M" else "$P") :: acc)).reverse
  | a :: as, acc =>
    let tail := s!"/{s.buf.length}{if s.flag then "x" else "o"}"
    match parseProbe a with
    | some t => runActs n s as (s!"p{t}={if blocked n s t then "B" else "x"}{tail}" :: acc)
    | none =>
      match parseAct a with
      | none => none
      | some a =>
        match step s a with
        | some s' => runActs n s' as (showStep n s s' a :: acc)
        | none => runActs n s as (s!"{showAct a}=x{tail}" :: acc)

def handle (line : String) : String :=
  match line.splitOn "\t" with
  | ["enum", cap, progs, max, mode] =>
    match cap.toNat?, parseProgs progs, max.toNat? with
    | some cap, some ps, some max =>
      let n := ps.length
      let s0 := init cap (progFn ps)
      let acc := dfs n (if mode == "edges" then 1 else if mode == "probes" then 2 else 0) s0 [] { max := max, seen := ({} : Std.HashSet String).insert (stateKey n s0) }
      s!"n={acc.out.size} complete={if acc.over then 0 else 1};" ++ ";".intercalate acc.out.toList
    | _, _, _ => "bad-request"
  | ["walk", cap, progs, seed, cnt] =>
    match cap.toNat?, parseProgs progs, seed.toNat?, cnt.toNat? with
    | some cap, some ps, some seed, some cnt =>
      let n := ps.length
      let s0 := init cap (progFn ps)
      let (outs, _) := (List.range cnt).foldl (fun (acc : List String × Nat) _ =>
        let (p, sd) := walk n s0 acc.2 []
        (p :: acc.1, sd)) ([], seed)
      s!"n={outs.length} complete=0;" ++ ";".intercalate outs.reverse
    | _, _, _, _ => "bad-request"
  | ["run", cap, progs, acts] =>
    match cap.toNat?, parseProgs progs with
    | some cap, some ps =>
      let n := ps.length
      match runActs n (init cap (progFn ps)) (if acts.isEmpty then [] else acts.splitOn ",") [] with
      | some out => "n=1 complete=1;" ++ ",".intercalate out
      | none => "bad-request"
    | _, _ => "bad-request"
  | _ => "bad-request"

def main : IO Unit := Drivers.runDriver handle
