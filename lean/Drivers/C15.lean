import Model.Meth
import Model.MethStr
import Model.MethStore
import Drivers.Common
/-! `vm_c15`: line protocol over `Model.Meth` / `Model.MethStr`.

Values are written as space separated tokens:
  `n` null · `T` / `F` · `i<int>` · `s<hex of the UTF-8 bytes>` · `[` … `]`

  arr <TAB> method <TAB> receiver elements <TAB> arguments <TAB> callback id | - [<TAB> chained in-place method]
      → `ok <ret> | <receiver afterwards>`  (forEach: `… | <calls>` appended)  or `crash`
      (with a chained method: <ret> is what that method returns on the first call's result)
  fx <TAB> method <TAB> receiver <TAB> arguments after the callback <TAB> decision <TAB> trace mode n|a|r
     <TAB> receiver effects `at:op:j,…` | - <TAB> chained method | -
      → `ok <ret> | <receiver afterwards> | <invocations>`  — `Model.MethStore.run .fresh` with an effectful callback
  str <TAB> method <TAB> hex of the receiver <TAB> arguments
      → `int n` · `bool T|F` · `bytes <hex>` · `texts <hex>,<hex>…` · `crash` · `unsupported`
-/
open Model.Meth

namespace C15Driver

def hexDigit (c : Char) : Option Nat :=
  if '0' ≤ c ∧ c ≤ '9' then some (c.toNat - '0'.toNat)
  else if 'a' ≤ c ∧ c ≤ 'f' then some (c.toNat - 'a'.toNat + 10)
  else none

def unhexL : List Char → Option (List UInt8)
  | [] => some []
  | a :: b :: r => do
      let x ← hexDigit a
      let y ← hexDigit b
      let t ← unhexL r
      some (UInt8.ofNat (x * 16 + y) :: t)
  | _ => none

def unhex (s : String) : Option String := do
  let bs ← unhexL s.toList
  String.fromUTF8? (ByteArray.mk bs.toArray)

def hexNib (n : Nat) : Char := if n < 10 then Char.ofNat (48 + n) else Char.ofNat (87 + n)

def hexBytes (bs : List Nat) : String :=
  String.ofList (bs.flatMap (fun b => [hexNib (b / 16), hexNib (b % 16)]))

def hexText (s : List Char) : String := hexBytes (Model.Text.utf8 s)

/-- token list → values; `stack` holds the enclosing (reversed) lists -/
def parseToks : List String → List (List Val) → Option (List Val)
  | [], [top] => some top.reverse
  | [], _ => none
  | t :: ts, stack =>
    let push (v : Val) : Option (List Val) :=
      match stack with
      | top :: more => parseToks ts ((v :: top) :: more)
      | [] => none
    if t == "[" then parseToks ts ([] :: stack)
    else if t == "]" then
      match stack with
      | top :: nxt :: more => parseToks ts ((Val.list top.reverse :: nxt) :: more)
      | _ => none
    else if t == "n" then push .null
    else if t == "T" then push (.bool true)
    else if t == "F" then push (.bool false)
    else if t.startsWith "i" then
      match (t.drop 1).toInt? with
      | some i => push (.int i)
      | none => none
    else if t.startsWith "s" then
      match unhex (t.drop 1).toString with
      | some s => push (.str s)
      | none => none
    else none

def parseVals (s : String) : Option (List Val) :=
  parseToks ((s.splitOn " ").filter (· ≠ "")) [[]]

mutual
def showVal : Val → String
  | .null => "n"
  | .bool b => if b then "T" else "F"
  | .int i => "i" ++ toString i
  | .str s => "s" ++ hexText s.toList
  | .list l => "[" ++ showVals l ++ " ]"
def showVals : List Val → String
  | [] => ""
  | v :: r => " " ++ showVal v ++ showVals r
end

def showRes : Res → String
  | .crash => "crash"
  | .ok o => "ok " ++ showVal o.ret ++ " |" ++ showVals o.recv

/-- callbacks the harness can name; each has the same meaning in the script
text the harness generates. -/
def predOf (id : String) : Option Pred :=
  match id.splitOn ":" with
  | ["p_true"] => some (fun _ _ _ => true)
  | ["p_false"] => some (fun _ _ _ => false)
  | ["p_idx_lt", k] => k.toInt?.map (fun k => fun _ i _ => i < k)
  | ["p_idx_ge", k] => k.toInt?.map (fun k => fun _ i _ => i ≥ k)
  | ["p_idx_even"] => some (fun _ i _ => i % 2 == 0)
  | ["p_is_int"] => some (fun e _ _ => match e with | .int _ => true | _ => false)
  | ["p_is_array"] => some (fun e _ _ => match e with | .list _ => true | _ => false)
  | ["p_is_string"] => some (fun e _ _ => match e with | .str _ => true | _ => false)
  | ["p_eq_int", k] => k.toInt?.map (fun k => fun e _ _ => match e with | .int n => n == k | _ => false)
  | ["p_len_gt_idx_plus", k] => k.toInt?.map (fun k => fun _ i a => (a.length : Int) > i + k)
  | _ => none

def cbOf (id : String) : Option Cb :=
  match id.splitOn ":" with
  | ["c_e"] => some (fun e _ _ => e)
  | ["c_i"] => some (fun _ i _ => .int i)
  | ["c_pair"] => some (fun e i _ => .list [e, .int i])
  | ["c_triple"] => some (fun e i a => .list [e, .int i, .list a])
  | ["c_len"] => some (fun _ _ a => .int a.length)
  | ["c_wrap2"] => some (fun e _ _ => .list [.list [e]])
  | ["c_arr"] => some (fun _ _ a => .list a)
  | ["c_null"] => some (fun _ _ _ => .null)
  | ["c_empty"] => some (fun _ _ _ => .list [])
  | ["c_const", k] => k.toInt?.map (fun k => fun _ _ _ => .int k)
  | _ => none

def cb4Of (id : String) : Option Cb4 :=
  match id.splitOn ":" with
  | ["r_nest"] => some (fun acc cur i _ => .list [acc, cur, .int i])
  | ["r_cur"] => some (fun _ cur _ _ => cur)
  | ["r_acc"] => some (fun acc _ _ _ => acc)
  | ["r_idx"] => some (fun _ _ i _ => .int i)
  | ["r_len"] => some (fun acc _ _ a => .list [acc, .int a.length])
  | _ => none

def showCalls (cs : List CallEv) : String :=
  showVals (cs.map (fun c => Val.list [c.el, .int c.idx, .list c.arr]))

def arrRes (m : String) (xs args : List Val) (cb : String) : Except String (Res × Option (List CallEv)) :=
  let withPred (k : List Val → Pred → Res) : Except String (Res × Option (List CallEv)) :=
    match predOf cb with
    | some p => .ok (k xs p, none)
    | none => .error "bad-callback"
  let withCb (k : List Val → Cb → Res) : Except String (Res × Option (List CallEv)) :=
    match cbOf cb with
    | some f => .ok (k xs f, none)
    | none => .error "bad-callback"
  match m with
  | "push" => .ok (push xs args, none)
  | "pop" => .ok (pop xs, none)
  | "shift" => .ok (shift xs, none)
  | "unshift" => .ok (unshift xs args, none)
  | "slice" => .ok (slice xs args, none)
  | "splice" => .ok (splice xs args, none)
  | "concat" => .ok (concat xs args, none)
  | "join" => .ok (join xs args, none)
  | "reverse" => .ok (reverse xs, none)
  | "sort" => .ok (sort xs, none)
  | "indexOf" => .ok (indexOf xs args, none)
  | "includes" => .ok (includes xs args, none)
  | "flat" => .ok (flat xs args, none)
  | "length" => .ok (length xs, none)
  | "forEach" => let (r, cs) := forEach xs; .ok (r, some cs)
  | "map" => withCb map
  | "flatMap" => withCb flatMap
  | "filter" => withPred filter
  | "find" => withPred find
  | "findIndex" => withPred findIndex
  | "every" => withPred every
  | "some" => withPred someP
  | "reduce" =>
    match cb4Of cb with
    | some f => .ok (reduce xs f args, none)
    | none => .error "bad-callback"
  | _ => .error "bad-method"

/-- arguments the harness writes for a chained in-place method -/
def chainArgs (op : String) : List Val :=
  match op with
  | "push" => [.int 9]
  | "unshift" => [.int 9]
  | "splice" => [.int 0, .int 1]
  | _ => []

/-- `$x->m(…)->op(…)`: `op` works on the value the first call returned; the receiver is what the first call left -/
def chained (r : Res) (op : String) : Except String Res :=
  if op == "-" || op == "" then .ok r else
  match r with
  | .crash => .ok .crash
  | .ok ⟨.list l, recv⟩ =>
    match arrRes op l (chainArgs op) "-" with
    | .ok (.ok o, _) => .ok (.ok ⟨o.ret, recv⟩)
    | .ok (.crash, _) => .ok .crash
    | .error e => .error e
  | .ok _ => .error "unsupported"

def arrCall (m : String) (xs args : List Val) (cb chain : String) : String :=
  match arrRes m xs args cb with
  | .error e => e
  | .ok (r, cs) =>
    match chained r chain with
    | .error e => e
    | .ok r' =>
      match cs with
      | some cs => showRes r' ++ " |" ++ showCalls cs
      | none => showRes r'

/-! ### traced callbacks with effects (`Model.MethStore`) -/
section Fx
open Model.MethStore

def kindOf (m : String) : Option Kind :=
  match m with
  | "forEach" => some .forEach | "map" => some .map | "filter" => some .filter | "find" => some .find
  | "findIndex" => some .findIndex | "every" => some .every | "some" => some .someP
  | "flatMap" => some .flatMap | "reduce" => some .reduce
  | _ => none

def sameVal (a b : Val) : Bool := showVal a == showVal b

def atOr (a : List Val) (k : Int) : Val :=
  if k < 0 then .null else match a[k.toNat]? with | some v => v | none => .null

/-- what the harness' traced callback returns (same ids as `decPHP` / `decGo` in harness/c15/alias.go) -/
def decOf (dec : String) : Option (Inv → Val) :=
  match dec.splitOn ":" with
  | ["mask", bits] => some (fun inv => .bool (bits.toList[inv.idx]? == some '1'))
  | ["first"] => some (fun inv =>
      match scanFrom (asString inv.el) 0 inv.arr with
      | some k => .bool (k == inv.idx)
      | none => .bool false)
  | ["unseen"] => some (fun inv => .bool (scanFrom (asString inv.el) 0 (inv.arr.take inv.idx)).isNone)
  | ["gt0"] => some (fun inv =>
      match inv.el, inv.arr.head? with
      | .int x, some (.int y) => .bool (decide (x > y))
      | _, _ => .bool false)
  | ["ne2"] => some (fun inv => .bool (inv.idx < 2 || !sameVal (atOr inv.arr (inv.idx - 2)) inv.el))
  | ["eqnext"] => some (fun inv => .bool (inv.idx + 1 < inv.arr.length && sameVal (atOr inv.arr (inv.idx + 1)) inv.el))
  | ["self"] => some (fun inv => .bool (sameVal (atOr inv.arr inv.idx) inv.el))
  | ["islast"] => some (fun inv => .bool (inv.idx + 1 == inv.arr.length))
  | ["e"] => some (fun inv => inv.el)
  | ["cur"] => some (fun inv => inv.el)
  | ["arr"] => some (fun inv => .list inv.arr)
  | ["triple"] => some (fun inv => .list [inv.el, .int inv.idx, .list inv.arr])
  | ["prev"] => some (fun inv => if inv.idx ≥ 1 then atOr inv.arr (inv.idx - 1) else .null)
  | ["next"] => some (fun inv => atOr inv.arr (inv.idx + 1))
  | ["ends"] => some (fun inv => .list [atOr inv.arr 0, atOr inv.arr (inv.arr.length - 1), .int inv.arr.length])
  | ["len"] => some (fun inv => .int inv.arr.length)
  | ["rev"] => some (fun inv => .list inv.arr.reverse)
  | ["nest"] => some (fun inv => .list [inv.acc, inv.el, .int inv.idx, .list inv.arr])
  | ["acc"] => some (fun inv => inv.acc)
  | ["prevcur"] => some (fun inv => .list [if inv.idx ≥ 1 then atOr inv.arr (inv.idx - 1) else .null, inv.el, .int inv.arr.length])
  | ["local"] => some (fun _ => .bool true)
  | ["local1"] => some (fun _ => .bool true)
  | ["void"] => some (fun _ => .null)
  | ["none"] => some (fun _ => .null)
  | ["-"] => some (fun _ => .null)
  | _ => none

def recvOf (r : Res) (dflt : List Val) : List Val :=
  match r with
  | .ok o => o.recv
  | .crash => dflt

/-- one effect of the callback on the receiver it reaches through the reference -/
def applyOp (op : String) (j : Nat) (xs : List Val) : List Val :=
  match op with
  | "set" => if j < xs.length then xs.set j (.int 99) else xs
  | "push" => recvOf (push xs [.int 98]) xs
  | "pop" => recvOf (pop xs) xs
  | "shift" => recvOf (shift xs) xs
  | "unshift" => recvOf (unshift xs [.int 97]) xs
  | "reverse" => recvOf (reverse xs) xs
  | "sort" => recvOf (sort xs) xs
  | "splice" => recvOf (splice xs [.int 0, .int 1]) xs
  | "assign" => [.int 7]
  | _ => xs

def parseFx (s : String) : Option (List (Nat × String × Nat)) :=
  if s == "-" then some [] else
  (s.splitOn ",").mapM (fun t =>
    match t.splitOn ":" with
    | [a, op, j] => do
        let a ← a.toNat?
        let j ← j.toNat?
        some (a, op, j)
    | _ => none)

def fxCallback (d : Inv → Val) (fx : List (Nat × String × Nat)) : ECb := fun inv recv =>
  (d inv, fx.foldl (fun r f => if f.1 == inv.idx then applyOp f.2.1 f.2.2 r else r) recv)

def showEv (red : Bool) (mode : String) (ev : Ev) : Val :=
  .list ((if red then [ev.inv.acc] else []) ++ [ev.inv.el, .int ev.inv.idx, .list ev.inv.arr]
    ++ (if mode == "r" then [.list ev.recv] else []))

def fxCall (m : String) (xs args : List Val) (dec mode fxs chain : String) : String :=
  match kindOf m, decOf dec, parseFx fxs with
  | some kind, some d, some fx =>
    match run .fresh kind (fxCallback d fx) xs args with
    | none => "crash"
    | some (v, st, t) =>
      match chained (.ok ⟨v, st.recv⟩) chain with
      | .error e => e
      | .ok r =>
        showRes r ++ " |" ++ (if mode == "n" then "" else showVals (t.map (showEv (m == "reduce") mode)))
  | _, _, _ => "bad-fx"

end Fx

open Model.MethStr in
def showSRes : SRes → String
  | .int i => "int " ++ toString i
  | .bool b => "bool " ++ (if b then "T" else "F")
  | .bytes b => "bytes " ++ hexBytes b
  | .text s => "bytes " ++ hexText s
  | .texts l => "texts " ++ ",".intercalate (l.map hexText)
  | .crash => "crash"
  | .unsupported => "unsupported"

open Model.MethStr in
def strCall (m : String) (s : List Char) (args : List Val) : String :=
  match m with
  | "length" => showSRes (length s)
  | "indexOf" => showSRes (indexOf s args)
  | "substring" => showSRes (substring s args)
  | "replace" => showSRes (replace s args)
  | "split" => showSRes (split s args)
  | "trim" => showSRes (trim s)
  | "toUpperCase" => showSRes (toUpperCase s)
  | "toLowerCase" => showSRes (toLowerCase s)
  | "startsWith" => showSRes (startsWith s args)
  | "endsWith" => showSRes (endsWith s args)
  | _ => "bad-method"

def handle (line : String) : String :=
  match line.splitOn "\t" with
  | ["arr", m, recv, args, cb] =>
    match parseVals recv, parseVals args with
    | some xs, some as => arrCall m xs as cb "-"
    | _, _ => "bad-value"
  | ["arr", m, recv, args, cb, chain] =>
    match parseVals recv, parseVals args with
    | some xs, some as => arrCall m xs as cb chain
    | _, _ => "bad-value"
  | ["fx", m, recv, args, dec, mode, fx, chain] =>
    match parseVals recv, parseVals args with
    | some xs, some as => fxCall m xs as dec mode fx chain
    | _, _ => "bad-value"
  | ["str", m, recv, args] =>
    match unhex recv, parseVals args with
    | some s, some as => strCall m s.toList as
    | _, _ => "bad-value"
  | _ => "bad-op"

end C15Driver

def main : IO Unit := Drivers.runDriver C15Driver.handle
