import Model.Meth
import Model.MethStr
import Drivers.Common
/-! `vm_c15`: line protocol over `Model.Meth` / `Model.MethStr`.

Values are written as space separated tokens:
  `n` null · `T` / `F` · `i<int>` · `s<hex of the UTF-8 bytes>` · `[` … `]`

  arr <TAB> method <TAB> receiver elements <TAB> arguments <TAB> callback id | -
      → `ok <ret> | <receiver afterwards>`  (forEach: `… | <calls>` appended)  or `crash`
  str <TAB> method <TAB> hex of the receiver <TAB> arguments
      → `int n` · `bool T|F` · `bytes <hex>` · `texts <hex>,<hex>…` · `crash` · `unsupported`
-/
open Model.Meth

namespace C15Driver

def hexDigit (c : Char) : Option Nat :=
  if '0' ≤ c ∧ c ≤ '9' then some (c.toNat - '0'.toNat)
  else if 'a' ≤ c ∧ c ≤ 'f' then some (c.toNat - 'a'.toNat + 10)
  else none

def unhexL : List Char → Option (List UInt8)
  | [] => some []
  | a :: b :: r => do
      let x ← hexDigit a
      let y ← hexDigit b
      let t ← unhexL r
      some (UInt8.ofNat (x * 16 + y) :: t)
  | _ => none

def unhex (s : String) : Option String := do
  let bs ← unhexL s.toList
  String.fromUTF8? (ByteArray.mk bs.toArray)

def hexNib (n : Nat) : Char := if n < 10 then Char.ofNat (48 + n) else Char.ofNat (87 + n)

def hexBytes (bs : List Nat) : String :=
  String.ofList (bs.flatMap (fun b => [hexNib (b / 16), hexNib (b % 16)]))

def hexText (s : List Char) : String := hexBytes (Model.Text.utf8 s)

/-- token list → values; `stack` holds the enclosing (reversed) lists -/
def parseToks : List String → List (List Val) → Option (List Val)
  | [], [top] => some top.reverse
  | [], _ => none
  | t :: ts, stack =>
    let push (v : Val) : Option (List Val) :=
      match stack with
      | top :: more => parseToks ts ((v :: top) :: more)
      | [] => none
    if t == "[" then parseToks ts ([] :: stack)
    else if t == "]" then
      match stack with
      | top :: nxt :: more => parseToks ts ((Val.list top.reverse :: nxt) :: more)
      | _ => none
    else if t == "n" then push .null
    else if t == "T" then push (.bool true)
    else if t == "F" then push (.bool false)
    else if t.startsWith "i" then
      match (t.drop 1).toInt? with
      | some i => push (.int i)
      | none => none
    else if t.startsWith "s" then
      match unhex (t.drop 1).toString with
      | some s => push (.str s)
      | none => none
    else none

def parseVals (s : String) : Option (List Val) :=
  parseToks ((s.splitOn " ").filter (· ≠ "")) [[]]

mutual
def showVal : Val → String
  | .null => "n"
  | .bool b => if b then "T" else "F"
  | .int i => "i" ++ toString i
  | .str s => "s" ++ hexText s.toList
  | .list l => "[" ++ showVals l ++ " ]"
def showVals : List Val → String
  | [] => ""
  | v :: r => " " ++ showVal v ++ showVals r
end

def showRes : Res → String
  | .crash => "crash"
  | .ok o => "ok " ++ showVal o.ret ++ " |" ++ showVals o.recv

/-- callbacks the harness can name; each has the same meaning in the script
text the harness generates. -/
def predOf (id : String) : Option Pred :=
  match id.splitOn ":" with
  | ["p_true"] => some (fun _ _ _ => true)
  | ["p_false"] => some (fun _ _ _ => false)
  | ["p_idx_lt", k] => k.toInt?.map (fun k => fun _ i _ => i < k)
  | ["p_idx_ge", k] => k.toInt?.map (fun k => fun _ i _ => i ≥ k)
  | ["p_idx_even"] => some (fun _ i _ => i % 2 == 0)
  | ["p_is_int"] => some (fun e _ _ => match e with | .int _ => true | _ => false)
  | ["p_is_array"] => some (fun e _ _ => match e with | .list _ => true | _ => false)
  | ["p_is_string"] => some (fun e _ _ => match e with | .str _ => true | _ => false)
  | ["p_eq_int", k] => k.toInt?.map (fun k => fun e _ _ => match e with | .int n => n == k | _ => false)
  | ["p_len_gt_idx_plus", k] => k.toInt?.map (fun k => fun _ i a => (a.length : Int) > i + k)
  | _ => none

def cbOf (id : String) : Option Cb :=
  match id.splitOn ":" with
  | ["c_e"] => some (fun e _ _ => e)
  | ["c_i"] => some (fun _ i _ => .int i)
  | ["c_pair"] => some (fun e i _ => .list [e, .int i])
  | ["c_triple"] => some (fun e i a => .list [e, .int i, .list a])
  | ["c_len"] => some (fun _ _ a => .int a.length)
  | ["c_wrap2"] => some (fun e _ _ => .list [.list [e]])
  | ["c_arr"] => some (fun _ _ a => .list a)
  | ["c_null"] => some (fun _ _ _ => .null)
  | ["c_empty"] => some (fun _ _ _ => .list [])
  | ["c_const", k] => k.toInt?.map (fun k => fun _ _ _ => .int k)
  | _ => none

def cb4Of (id : String) : Option Cb4 :=
  match id.splitOn ":" with
  | ["r_nest"] => some (fun acc cur i _ => .list [acc, cur, .int i])
  | ["r_cur"] => some (fun _ cur _ _ => cur)
  | ["r_acc"] => some (fun acc _ _ _ => acc)
  | ["r_idx"] => some (fun _ _ i _ => .int i)
  | ["r_len"] => some (fun acc _ _ a => .list [acc, .int a.length])
  | _ => none

def showCalls (cs : List CallEv) : String :=
  showVals (cs.map (fun c => Val.list [c.el, .int c.idx, .list c.arr]))

def arrCall (m : String) (xs args : List Val) (cb : String) : String :=
  let withPred (k : List Val → Pred → Res) : String :=
    match predOf cb with
    | some p => showRes (k xs p)
    | none => "bad-callback"
  let withCb (k : List Val → Cb → Res) : String :=
    match cbOf cb with
    | some f => showRes (k xs f)
    | none => "bad-callback"
  match m with
  | "push" => showRes (push xs args)
  | "pop" => showRes (pop xs)
  | "shift" => showRes (shift xs)
  | "unshift" => showRes (unshift xs args)
  | "slice" => showRes (slice xs args)
  | "splice" => showRes (splice xs args)
  | "concat" => showRes (concat xs args)
  | "join" => showRes (join xs args)
  | "reverse" => showRes (reverse xs)
  | "sort" => showRes (sort xs)
  | "indexOf" => showRes (indexOf xs args)
  | "includes" => showRes (includes xs args)
  | "flat" => showRes (flat xs args)
  | "length" => showRes (length xs)
  | "forEach" => let (r, cs) := forEach xs; showRes r ++ " |" ++ showCalls cs
  | "map" => withCb map
  | "flatMap" => withCb flatMap
  | "filter" => withPred filter
  | "find" => withPred find
  | "findIndex" => withPred findIndex
  | "every" => withPred every
  | "some" => withPred someP
  | "reduce" =>
    match cb4Of cb with
    | some f => showRes (reduce xs f args)
    | none => "bad-callback"
  | _ => "bad-method"

open Model.MethStr in
def showSRes : SRes → String
  | .int i => "int " ++ toString i
  | .bool b => "bool " ++ (if b then "T" else "F")
  | .bytes b => "bytes " ++ hexBytes b
  | .text s => "bytes " ++ hexText s
  | .texts l => "texts " ++ ",".intercalate (l.map hexText)
  | .crash => "crash"
  | .unsupported => "unsupported"

open Model.MethStr in
def strCall (m : String) (s : List Char) (args : List Val) : String :=
  match m with
  | "length" => showSRes (length s)
  | "indexOf" => showSRes (indexOf s args)
  | "substring" => showSRes (substring s args)
  | "replace" => showSRes (replace s args)
  | "split" => showSRes (split s args)
  | "trim" => showSRes (trim s)
  | "toUpperCase" => showSRes (toUpperCase s)
  | "toLowerCase" => showSRes (toLowerCase s)
  | "startsWith" => showSRes (startsWith s args)
  | "endsWith" => showSRes (endsWith s args)
  | _ => "bad-method"

def handle (line : String) : String :=
  match line.splitOn "\t" with
  | ["arr", m, recv, args, cb] =>
    match parseVals recv, parseVals args with
    | some xs, some as => arrCall m xs as cb
    | _, _ => "bad-value"
  | ["str", m, recv, args] =>
    match unhex recv, parseVals args with
    | some s, some as => strCall m s.toList as
    | _, _ => "bad-value"
  | _ => "bad-op"

end C15Driver

def main : IO Unit := Drivers.runDriver C15Driver.handle
