import Model.Exc
import Model.Cli
import Spec.Exc
import Spec.Cli
import Model.ExcShape
import Drivers.Common
/-! `vm_c05`: line protocol over `Model.Exc` / `Spec.Exc` / `Model.Cli` / `Spec.Cli`.

  run <TAB> fixed|pinned|g<0|1>r<0|1> <TAB> <graph> <TAB> <prog>     → <final>|<trace>
  iter <TAB> <cfg> <TAB> <graph> <TAB> <prog>                         → <final>|<trace>   (prog's top level must be ONE loop `l<k>{ … }`:
                                                                         `Model.Exc.runLoop`, the body run once and repeated — equal to
                                                                         `run` by C05_long_run, linear instead of quadratic in k)
  spec <TAB> <graph> <TAB> <prog>                                     → <final>|<trace>   (Spec.Exc with the closure subtype test)
  runq <TAB> <cfg> <TAB> <graph> <TAB> <prog> <TAB> <quiet>           → <final>|<trace>   (`Model.Exc.observe`: the run as a script prints it that
                                                                         was rendered without the markers listed in quiet = `T<i>,F<i>,C<i>.<k>,…`)
  specq <TAB> <graph> <TAB> <prog> <TAB> <quiet>                      → <final>|<trace>   (the same for Spec.Exc)
  cli <TAB> fixed|pinned <TAB> <input>                                → code=<n> diag=<0|1> out=<m,m,…>
  clispec <TAB> <input>                                               → fail=<0|1> diag=<0|1> out=<m,m,…>

  graph  : classes `name:ext|-:impl,impl;…` `|` interfaces `name:ext,ext;…`
  prog   : [n<depth>] <block> [ || <block of g0> [ || <block of g1> … ]]
  block  : space separated tokens  e<m>  t<cls>.<site>  rt  gp  r<v>  b  c  l<k>{ … }  f{ … }  g<k>
           y<i>{ … } [k<ty>,<ty>{ … }]* [F{ … }] ;
  input  : missing | parse | s:<e<m>|ob|oc , …>:<normal|uncaught|exit<n>|late|panic>
  trace  : T<i>; F<i>; C<i>.<k>:<class>:<site>; C<i>.<k>:internal; m<n>; R<v>; R-;
           (try ids and markers printed as <level of the activation> * 1000 + <number>, the way the scripts print them)
-/
open Model.Exc Model.Hier

def nat? (s : String) : Option Nat := if s.isEmpty then none else s.toNat?

def natList (s : String) : Option (List Nat) :=
  if s.isEmpty then some [] else (s.splitOn ",").mapM nat?

def parseCls (s : String) : Option Cls :=
  match s.splitOn ":" with
  | [n, e, im] => do
    let n ← nat? n
    let e ← (if e == "-" then some none else (nat? e).map some)
    let im ← natList im
    some { name := n, ext := e, impl := im, meths := [], smeths := [] }
  | _ => none

def parseIfc (s : String) : Option Ifc :=
  match s.splitOn ":" with
  | [n, e] => do
    let n ← nat? n
    let e ← natList e
    some { name := n, ext := e, meths := [] }
  | _ => none

def parseGraph (s : String) : Option Graph :=
  match s.splitOn "|" with
  | [cs, is] => do
    let cs ← (if cs.isEmpty then some [] else (cs.splitOn ";").mapM parseCls)
    let is ← (if is.isEmpty then some [] else (is.splitOn ";").mapM parseIfc)
    some { classes := cs, ifaces := is }
  | _ => none

/-- strip a one-character prefix and an optional `{` suffix -/
def inner (t : String) (pre : Nat) (brace : Bool) : String :=
  let t := (t.drop pre).toString
  if brace then (t.dropEnd 1).toString else t

mutual
/-- statements up to the closing `}` (consumed) or the end of input -/
partial def parseBlock : List String → Option (Block × List String)
  | [] => some (.nil, [])
  | "}" :: rest => some (.nil, rest)
  | toks => do
    let (s, rest) ← parseStmt toks
    let (b, rest) ← parseBlock rest
    some (.cons s b, rest)
partial def parseStmt : List String → Option (Stmt × List String)
  | [] => none
  | t :: rest =>
    if t == "rt" then some (.rethrow, rest)
    else if t == "gp" then some (.gopanic, rest)
    else if t == "b" then some (.brk, rest)
    else if t == "c" then some (.cont, rest)
    else if t == "f{" then do
      let (b, rest) ← parseBlock rest
      some (.call b, rest)
    else if t.startsWith "g" then (nat? (inner t 1 false)).map (fun k => (.callf k, rest))
    else if t.startsWith "e" then (nat? (inner t 1 false)).map (fun m => (.echo m, rest))
    else if t.startsWith "r" then (nat? (inner t 1 false)).map (fun v => (.ret v, rest))
    else if t.startsWith "t" then
      match (inner t 1 false).splitOn "." with
      | [c, s] => do
        let c ← nat? c
        let s ← nat? s
        some (.throw c s, rest)
      | _ => none
    else if t.startsWith "l" && t.endsWith "{" then do
      let k ← nat? (inner t 1 true)
      let (b, rest) ← parseBlock rest
      some (.loop k b, rest)
    else if t.startsWith "y" && t.endsWith "{" then do
      let i ← nat? (inner t 1 true)
      let (b, rest) ← parseBlock rest
      let (cs, rest) ← parseCatches rest
      match rest with
      | "F{" :: rest => do
        let (f, rest) ← parseBlock rest
        match rest with
        | ";" :: rest => some (.try_ i b cs true f, rest)
        | _ => none
      | ";" :: rest => some (.try_ i b cs false .nil, rest)
      | _ => none
    else none
partial def parseCatches : List String → Option (Catches × List String)
  | t :: rest =>
    if t.startsWith "k" && t.endsWith "{" then do
      let tys ← natList (inner t 1 true)
      let (b, rest) ← parseBlock rest
      let (cs, rest) ← parseCatches rest
      some (.cons tys b cs, rest)
    else some (.nil, t :: rest)
  | [] => some (.nil, [])
end

def parseWhole (toks : List String) : Option Block :=
  match parseBlock toks with
  | some (b, []) => some b
  | _ => none

/-- split the token list at the `||` separators -/
def splitFns (toks : List String) : List (List String) :=
  toks.foldr (fun t acc =>
    match acc with
    | cur :: rest => if t == "||" then [] :: cur :: rest else (t :: cur) :: rest
    | [] => [[t]]) [[]]

def parseProg (s : String) : Option Prog :=
  let toks := (s.splitOn " ").filter (fun t => !t.isEmpty)
  let (depth, toks) :=
    match toks with
    | t :: rest => if t.startsWith "n" then ((nat? (inner t 1 false)), rest) else (some 0, toks)
    | [] => (some 0, [])
  match depth, splitFns toks with
  | some d, main :: fns => do
    let m ← parseWhole main
    let fs ← fns.mapM parseWhole
    some ⟨fs, m, d⟩
  | _, _ => none

def showThrown : Thrown → String
  | .obj n s => s!"{n}:{s}"
  | .internal => "internal"

def showEv : Ev → String
  | .enterTry a i => s!"T{tag a i};"
  | .enterFinally a i => s!"F{tag a i};"
  | .caught a i k t => s!"C{tag a i}.{k}:{showThrown t};"
  | .echo a m => s!"m{tag a m};"
  | .result (some v) => s!"R{v};"
  | .result none => "R-;"

def showFinal : Final → String
  | .ok => "ok"
  | .returned v => s!"ret{v}"
  | .uncaught t => s!"uncaught:{showThrown t}"
  | .stray => "stray"
  | .goPanic => "gopanic"

def showRun (r : Final × List Ev) : String :=
  showFinal r.1 ++ "|" ++ String.join (r.2.map showEv)

def parseCfg (s : String) : Option Cfg :=
  if s == "fixed" then some Cfg.fixed
  else if s == "pinned" then some Cfg.pinned
  else if s == "g1r0" then some ⟨true, false⟩
  else if s == "g0r1" then some ⟨false, true⟩
  else if s == "g1r1" then some Cfg.fixed
  else if s == "g0r0" then some Cfg.pinned
  else none

open Model.Cli in
def parseStep (s : String) : Option Step :=
  if s == "ob" then some .obStart
  else if s == "oc" then some .obGetClean
  else if s.startsWith "e" then (nat? (s.drop 1).toString).map Step.echo
  else none

open Model.Cli in
def parseEnd (s : String) : Option End :=
  if s == "normal" then some .normal
  else if s == "uncaught" then some .uncaught
  else if s == "late" then some .lateControl
  else if s == "panic" then some .goPanic
  else if s.startsWith "exit" then (nat? (s.drop 4).toString).map End.exit
  else none

open Model.Cli in
def parseInput (s : String) : Option Input :=
  if s == "missing" then some .missing
  else if s == "parse" then some .parseError
  else
    match s.splitOn ":" with
    | ["s", steps, e] => do
      let steps ← (if steps.isEmpty then some [] else (steps.splitOn ",").mapM parseStep)
      let e ← parseEnd e
      some (.script steps e)
    | _ => none

/-- `T<i>,F<i>,C<i>.<k>,…` -/
def parseQuiet (s : String) : Option Quiet :=
  if s.isEmpty then some ⟨[], [], []⟩ else
    (s.splitOn ",").foldlM (fun (q : Quiet) t =>
      if t.startsWith "T" then (nat? (inner t 1 false)).map (fun i => { q with tries := i :: q.tries })
      else if t.startsWith "F" then (nat? (inner t 1 false)).map (fun i => { q with fins := i :: q.fins })
      else if t.startsWith "C" then
        match (inner t 1 false).splitOn "." with
        | [i, k] => do
          let i ← nat? i
          let k ← nat? k
          some { q with clauses := (i, k) :: q.clauses }
        | _ => none
      else none) ⟨[], [], []⟩

def showNats (l : List Nat) : String := ",".intercalate (l.map toString)
def bit (b : Bool) : String := if b then "1" else "0"

def handle (line : String) : String :=
  match line.splitOn "\t" with
  | ["run", cfg, g, p] =>
    match parseCfg cfg, parseGraph g, parseProg p with
    | some cfg, some g, some p => showRun (Model.Exc.run g cfg p)
    | _, _, _ => "bad-op"
  | ["iter", cfg, g, p] =>
    match parseCfg cfg, parseGraph g, parseProg p with
    | some cfg, some g, some ⟨fns, .cons (.loop k body) .nil, d⟩ => showRun (Model.Exc.runLoop g cfg fns body k d)
    | _, _, _ => "bad-op"
  | ["runq", cfg, g, p, q] =>
    match parseCfg cfg, parseGraph g, parseProg p, parseQuiet q with
    | some cfg, some g, some p, some q => showRun (observe q (Model.Exc.run g cfg p))
    | _, _, _, _ => "bad-op"
  | ["specq", g, p, q] =>
    match parseGraph g, parseProg p, parseQuiet q with
    | some g, some p, some q => showRun (observe q (Spec.Exc.run (Spec.Exc.rulesOf g) p))
    | _, _, _ => "bad-op"
  | ["spec", g, p] =>
    match parseGraph g, parseProg p with
    | some g, some p => showRun (Spec.Exc.run (Spec.Exc.rulesOf g) p)
    | _, _ => "bad-op"
  | ["cli", cfg, inp] =>
    match (if cfg == "fixed" then some Model.Cli.Cfg.fixed else if cfg == "pinned" then some Model.Cli.Cfg.pinned else if cfg == "noflush" then some ⟨true, false⟩ else none),
          parseInput inp with
    | some cfg, some inp =>
      let p := Model.Cli.exitOf cfg inp
      s!"code={p.code} diag={bit p.diag} out={showNats p.fd1}"
    | _, _ => "bad-op"
  | ["clispec", inp] =>
    match parseInput inp with
    | some inp => s!"fail={bit (Spec.Cli.mustFail inp)} diag={bit (Spec.Cli.wantsDiag inp)} out={showNats (Spec.Cli.stdout inp)}"
    | none => "bad-op"
  | _ => "bad-op"

def main : IO Unit := Drivers.runDriver handle
