import Model.Access
import Model.Types
import Model.Inst
import Model.ArgNames
import Spec.Access
import Generated.C07Access
import Model.DeclMods
import Model.AccessDecl
import Model.ScopeEntry
import Generated.C07Decl
import Drivers.Common
/-! `vm_c07`: line protocol over `Model.Access` / `Model.Types` / `Model.Inst` with the regenerated tables.

  acc  <H> <path> <recv> <mod> <ctx> <lex> <obj> <decl>     → allowed | denied | stuck
  exec <H> <site…> <read|write1|write0|call|unset>          → <ok|denied|stuck> cell=<n> calls=<n>
                                                               (start: cell 1, calls 0; a write stores 2, unset 0)
  spec <H> <mod> <lex> <decl>                               → 1 | 0 | stuck          (Spec.Access.allowedB)
  isa  <H> <c> <t>                                           → 1 | 0 | stuck
  ty   <H> <val> <ty tokens…>                                → 1 | 0 | stuck          (Types.Is)
  bd   <H> <boundary> <val> <ty tokens…>                     → 1 | 0 | stuck          (admitted at the boundary)
  inst <W> <class>                                           → ok | abstract | noclass | selfabstract | missing | stuck
  tbl                                                        → the regenerated table, one token per arm
  seq  <H> <item;item;…>                                     → one token per item (Model.Access.run on one store)
         item `a,<path>,<recv>,<mod>,<ctx>,<lex>,<obj>,<decl>,<op>,<key>,<val>` → ok | denied | stuck
         item `o,<cell keys .>,<call keys .>`                → `v.v.v|n.n`  (start: every cell 1, every counter 0)
  bseq <H> <boundary> <val.val.…> <ty tokens…>               → `1.0.…|<slot>`   (Model.Types.storeRun, slot `-` = never stored)
  iseq <W> <class.class.…>                                   → `ok.missing.…|<live objects>`  (Model.Inst.newRun)
  bind <H> <il|ef> <loop> <slot;slot;…>                      → `ok ran=1` | `rej:<label> ran=0` | `thr:<label> ran=0`
         slot `<label>,<boundary>,<val|!|?>,<ty tokens separated by blanks>` in parameter order; `!` the argument
         throws, `?` it is missing; loop = fn | ctor | method | funcValue (Generated.C07Access.bindLoops);
         il: each argument is evaluated when it is bound, ef: all arguments are evaluated first (Model.Types.bindArgs)
  nbind <H> <il|ef> <loop> <param;param;…> <arg;arg;…|->     → as `bind` (labels = parameter indices) | `unresolved:unknown|duplicate`
         param `<name>,<boundary>,<default val|->,<ty tokens>`; arg in the order WRITTEN at the call: `p,<val|!>` positional,
         `n<name>,<val|!>` named (Model.ArgNames.callNamed: resolveNamedArguments, then the binding loop)
  sseq <H> <slot;slot;…>                                     → `ok|rej:<i> <slot>.<slot>…`  (Model.Types.storeSeq; slot `-` = not written)
         slot `<boundary>,<val>,<ty tokens separated by blanks>`
  eargs <H> <item;item;…>                                    → `ok|den:<i> n=<k>`  (Model.Access.evalArgs; items as for `seq`,
         k = how many operands had an effect: calls that ran + cells that changed)

  decl <parser> <kw kw …|->                                  → `refused` | `vis=<pub|prot|priv|none> static=<0|1> readonly=<0|1> final=<0|1> abstract=<0|1>`
         parser = param | class | anon | trait | enum | interface (Generated.C07Decl.parsers; `shapeChanged` if the translator
         did not read it completely); kw = public protected private static readonly final abstract var (Model.DeclMods.parse)

  shadow <H> <name:mod,name:mod,…|-> <scope|-> <recv>       → 1 | 0 | stuck | nomember   (Model.AccessDecl.access with the
         regenerated fallback relation Generated.C07Access.fallbackRel: which classes declare the one member looked
         at and with which modifier, the class whose code runs, the class of the receiver object)

  shadow <H> <decls> <scope|-> <recv> <entry> <runtime|->   → the same for code entered through the named entry path
         (Generated.C07Access.entryPaths; Model.ScopeEntry.scopeOf: the lexical class when the path records it, else the
         runtime class of `$this`)

  H  = `name,ext|-,impl.impl|-;…`     fields of a request are separated by tabs
  W  = `c:name,ext|-,impl|-,abstract 0|1,concrete.m|-,abstr.m|-;…/i:name,ext.ext|-,meths|-;…`
  ty = prefix notation: I S A  C<n>  N <ty>  U<k> <ty>×k
-/
open Model.Access Model.Types

def optName (s : String) : Option (Option Name) :=
  if s == "-" then some none else s.toNat?.map some

def nameList (s : String) : Option (List Name) :=
  if s == "-" || s.isEmpty then some [] else (s.splitOn ".").mapM String.toNat?

def parseCls (s : String) : Option Cls :=
  match s.splitOn "," with
  | [n, e, i] => do
    let n ← n.toNat?
    let e ← optName e
    let i ← nameList i
    some { name := n, ext := e, impl := i }
  | _ => none

def parseHier (s : String) : Option Hier :=
  if s.isEmpty || s == "-" then some [] else (s.splitOn ";").mapM parseCls

def parsePath : String → Option Path
  | "propRead" => some .propRead | "propWrite" => some .propWrite | "methCall" => some .methCall
  | "dynPropRead" => some .dynPropRead | "dynPropWrite" => some .dynPropWrite | "dynMeth" => some .dynMeth
  | "idxRead" => some .idxRead | "idxWrite" => some .idxWrite
  | "staticPropRead" => some .staticPropRead | "staticPropWrite" => some .staticPropWrite
  | "staticMeth" => some .staticMeth
  | "selfProp" => some .selfProp | "selfMeth" => some .selfMeth
  | "staticKwProp" => some .staticKwProp | "staticKwMeth" => some .staticKwMeth
  | "parentMeth" => some .parentMeth
  | "unsetProp" => some .unsetProp | "unsetIdx" => some .unsetIdx | "iterate" => some .iterate
  | _ => none

def showPath : Path → String
  | .propRead => "propRead" | .propWrite => "propWrite" | .methCall => "methCall"
  | .dynPropRead => "dynPropRead" | .dynPropWrite => "dynPropWrite" | .dynMeth => "dynMeth"
  | .idxRead => "idxRead" | .idxWrite => "idxWrite"
  | .staticPropRead => "staticPropRead" | .staticPropWrite => "staticPropWrite" | .staticMeth => "staticMeth"
  | .selfProp => "selfProp" | .selfMeth => "selfMeth" | .staticKwProp => "staticKwProp"
  | .staticKwMeth => "staticKwMeth" | .parentMeth => "parentMeth"
  | .unsetProp => "unsetProp" | .unsetIdx => "unsetIdx" | .iterate => "iterate"

def parseRecv : String → Option Recv
  | "this" => some .this | "other" => some .other | _ => none

def parseMod : String → Option Mod
  | "pub" => some .pub | "prot" => some .prot | "priv" => some .priv | _ => none

def parseSite (l : List String) : Option Site :=
  match l with
  | [p, r, m, c, x, o, d] => do
    let p ← parsePath p
    let r ← parseRecv r
    let m ← parseMod m
    let c ← optName c
    let x ← optName x
    let o ← o.toNat?
    let d ← d.toNat?
    some { path := p, recv := r, m := m, ctx := c, lex := x, obj := o, decl := d }
  | _ => none

def showOut : Out → String
  | .allowed => "allowed" | .denied => "denied" | .stuck => "stuck"

def showCheck : Check → String
  | .unchecked => "unchecked"
  | .lexical a b c => s!"lexical:{if a then 1 else 0}{if b then 1 else 0}{if c then 1 else 0}"
  | .hier a b c => s!"hier:{if a then 1 else 0}{if b then 1 else 0}{if c then 1 else 0}"
  | .pubOnly => "pubOnly"
  | .pubOnlyOwn e => s!"pubOnlyOwn:{if e then 1 else 0}"
  | .classCtxOnly => "classCtxOnly"
  | .privDenied => "privDenied"
  | .shapeChanged => "shapeChanged"

def showBKind : BKind → String
  | .exact => "exact" | .nullAlso => "nullAlso" | .unchecked => "unchecked" | .shapeChanged => "shapeChanged"

def parseVal (s : String) : Option ValKind :=
  match s with
  | "int" => some .int | "str" => some .str | "arr" => some .arr | "assoc" => some .assoc
  | "null" => some .null | "float" => some .float | "bool" => some .bool
  | _ => if s.startsWith "o" then (s.drop 1).toString.toNat?.map ValKind.obj else none

/-- prefix-notation type parser; fuel = number of tokens -/
def parseTy : Nat → List String → Option (Ty × List String)
  | 0, _ => none
  | _, [] => none
  | f+1, tok :: rest =>
    if tok == "I" then some (.int, rest)
    else if tok == "S" then some (.str, rest)
    else if tok == "A" then some (.arr, rest)
    else if tok == "N" then (parseTy f rest).map (fun (t, r) => (.nullable t, r))
    else if tok.startsWith "C" then (tok.drop 1).toString.toNat?.map (fun n => (.cls n, rest))
    else if tok.startsWith "U" then
      match (tok.drop 1).toString.toNat? with
      | none => none
      | some k =>
        let rec go (k : Nat) (acc : List Ty) (r : List String) : Option (List Ty × List String) :=
          match k with
          | 0 => some (acc.reverse, r)
          | k+1 =>
            match parseTy f r with
            | none => none
            | some (t, r') => go k (t :: acc) r'
        (go k [] rest).map (fun (ts, r) => (.union ts, r))
    else none

mutual
def tyClasses : Ty → List Name
  | .cls n => [n]
  | .nullable t => tyClasses t
  | .union ts => tysClasses ts
  | _ => []
def tysClasses : List Ty → List Name
  | [] => []
  | t :: r => tyClasses t ++ tysClasses r
end

def isATotal (H : Hier) (c t : Name) : Bool := (isA H c t).getD false

def stuckOn (H : Hier) (t : Ty) (v : ValKind) : Bool :=
  match v with
  | .obj c => (tyClasses t).any (fun n => (isA H c n).isNone)
  | _ => false

def parseBoundary : String → Option Boundary
  | "propStore" => some .propStore | "dynPropStore" => some .dynPropStore | "idxStore" => some .idxStore
  | "staticStore" => some .staticStore | "fnParam" => some .fnParam | "methParam" => some .methParam
  | "staticParam" => some .staticParam | "ctorParam" => some .ctorParam | "fnReturn" => some .fnReturn
  | "methReturn" => some .methReturn | "closureParam" => some .closureParam
  | "closureReturn" => some .closureReturn | "promotedParam" => some .promotedParam
  | "variadicParam" => some .variadicParam | _ => none

def showBoundary : Boundary → String
  | .propStore => "propStore" | .dynPropStore => "dynPropStore" | .idxStore => "idxStore"
  | .staticStore => "staticStore" | .fnParam => "fnParam" | .methParam => "methParam"
  | .staticParam => "staticParam" | .ctorParam => "ctorParam" | .fnReturn => "fnReturn"
  | .methReturn => "methReturn" | .closureParam => "closureParam" | .closureReturn => "closureReturn"
  | .promotedParam => "promotedParam" | .variadicParam => "variadicParam"

def bit (b : Bool) : String := if b then "1" else "0"

open Model.Inst in
def parseACls (s : String) : Option ACls :=
  match s.splitOn "," with
  | [n, e, i, a, c, b] => do
    let n ← n.toNat?
    let e ← optName e
    let i ← nameList i
    let c ← nameList c
    let b ← nameList b
    some { name := n, ext := e, impl := i, isAbstract := a == "1", concrete := c, abstr := b }
  | _ => none

open Model.Inst in
def parseAIfc (s : String) : Option AIfc :=
  match s.splitOn "," with
  | [n, e, m] => do
    let n ← n.toNat?
    let e ← nameList e
    let m ← nameList m
    some { name := n, ext := e, meths := m }
  | _ => none

open Model.Inst in
def parseWorld (s : String) : Option World :=
  match s.splitOn "/" with
  | [cs, is] => do
    let cs ← if cs.isEmpty then some [] else (cs.splitOn ";").mapM parseACls
    let is ← if is.isEmpty then some [] else (is.splitOn ";").mapM parseAIfc
    some { classes := cs, ifaces := is }
  | _ => none

open Model.Inst in
def showInst : InstOut → String
  | .ok => "ok" | .abstr => "abstract" | .noClass => "noclass" | .selfAbstract => "selfabstract"
  | .missing => "missing" | .stuck => "stuck"

/-! sequences (the history stream of the harness) -/

inductive SeqItem where
  | att (st : Step)
  | obs (cells calls : List Name)

def parseSeqItem (s : String) : Option SeqItem :=
  match s.splitOn "," with
  | ["o", cs, ks] => do
    let cs ← nameList cs
    let ks ← nameList ks
    some (.obs cs ks)
  | "a" :: f =>
    match parseSite (f.take 7), f.drop 7 with
    | some site, [op, k, v] => do
      let k ← k.toNat?
      let v ← v.toNat?
      let o ← (match op with
        | "read" => some (Op.read k) | "write1" => some (Op.write k v true) | "write0" => some (Op.write k v false)
        | "call" => some (Op.call k) | "unset" => some (Op.write k 0 true) | _ => none)
      some (.att ⟨site, o⟩)
    | _, _ => none
  | _ => none

def showRes : Res → String
  | .ok _ => "ok" | .denied => "denied" | .stuck => "stuck"

def dots (l : List Nat) : String := ".".intercalate (l.map toString)

/-- the attempts between two observations are handed to `Model.Access.run` as one sequence -/
def seqEval (H : Hier) : Store → List Step → List SeqItem → List String → List String
  | σ, pend, [], acc => acc.reverse ++ (run Generated.C07Access.table H σ pend.reverse).1.map showRes
  | σ, pend, .att st :: rest, acc => seqEval H σ (st :: pend) rest acc
  | σ, pend, .obs cs ks :: rest, acc =>
    let r := run Generated.C07Access.table H σ pend.reverse
    let snap := dots (cs.map r.2.cell) ++ "|" ++ dots (ks.map r.2.calls)
    seqEval H r.2 [] rest (snap :: ((r.1.map showRes).reverse ++ acc))

def showVal : ValKind → String
  | .int => "int" | .str => "str" | .arr => "arr" | .assoc => "assoc" | .null => "null" | .float => "float"
  | .bool => "bool" | .obj c => s!"o{c}"

/-! several items in one construct (the position stream of the harness) -/

def parseSlot (H : Hier) (s : String) : Option (Nat × Slot × Bool) :=
  match s.splitOn "," with
  | [lab, b, v, ty] => do
    let lab ← lab.toNat?
    let b ← parseBoundary b
    let toks := (ty.splitOn " ").filter (fun x => !x.isEmpty)
    let (t, rest) ← parseTy (toks.length + 1) toks
    if !rest.isEmpty then none
    let a ← (if v == "!" then some Arg.throws else if v == "?" then some Arg.missing else (parseVal v).map Arg.val)
    let stuck := match a with | .val x => stuckOn H t x | _ => false
    some (lab, { k := Generated.C07Access.boundary b, t := t, a := a }, stuck)
  | _ => none

def loopShapeOf (name : String) : LoopShape :=
  match Generated.C07Access.bindLoops.find? (fun p => p.1 == name) with
  | some p => p.2
  | none => .shapeChanged

def showCall (labels : List Nat) (o : CallOut) : String :=
  let lab (i : Nat) : String := match labels[i]? with | some l => toString l | none => "?"
  match o with
  | .ran => "ok ran=1"
  | .rejected i => s!"rej:{lab i} ran=0"
  | .raised i => s!"thr:{lab i} ran=0"
  | .shapeChanged => "shapeChanged"

def parseStoreSlot (H : Hier) (s : String) : Option ((BKind × Ty × ValKind) × Bool) :=
  match s.splitOn "," with
  | [b, v, ty] => do
    let b ← parseBoundary b
    let v ← parseVal v
    let toks := (ty.splitOn " ").filter (fun x => !x.isEmpty)
    let (t, rest) ← parseTy (toks.length + 1) toks
    if !rest.isEmpty then none
    some ((Generated.C07Access.boundary b, t, v), stuckOn H t v)
  | _ => none

/-! a call as written: positional and named arguments (Model.ArgNames) -/

def parseParam (s : String) : Option Model.ArgNames.Param :=
  match s.splitOn "," with
  | [nm, b, d, ty] => do
    let nm ← nm.toNat?
    let b ← parseBoundary b
    let toks := (ty.splitOn " ").filter (fun x => !x.isEmpty)
    let (t, rest) ← parseTy (toks.length + 1) toks
    if !rest.isEmpty then none
    let d ← (if d == "-" then some none else (parseVal d).map some)
    some { name := nm, k := Generated.C07Access.boundary b, t := t, dflt := d }
  | _ => none

def parseArgV (v : String) : Option Model.ArgNames.ArgV :=
  if v == "!" then some .throws else (parseVal v).map .val

def parseCallArg (s : String) : Option Model.ArgNames.CallArg :=
  match s.splitOn "," with
  | [w, v] => do
    let a ← parseArgV v
    if w == "p" then some (.pos a)
    else if w.startsWith "n" then (w.drop 1).toNat?.map (fun n => .named n a)
    else none
  | _ => none

def argVal : Model.ArgNames.CallArg → Option ValKind
  | .pos (.val v) => some v
  | .named _ (.val v) => some v
  | _ => none

def showNamedOut (n : Nat) : Model.ArgNames.Outcome → String
  | .unresolved (.unknown _) => "unresolved:unknown"
  | .unresolved (.duplicate _) => "unresolved:duplicate"
  | .unresolved .crash => "unresolved:crash"
  | .call o => showCall (List.range n) o

/-- how many of the listed cells changed and how many of the listed counters moved -/
def touched (σ₀ σ : Store) (keys : List Name) : Nat :=
  (keys.filter (fun k => σ.cell k != σ₀.cell k)).length + (keys.map (fun k => σ.calls k - σ₀.calls k)).foldl (· + ·) 0

def parseKw : String → Option Model.DeclMods.Kw
  | "public" => some (.vis .pub) | "protected" => some (.vis .prot) | "private" => some (.vis .priv)
  | "static" => some (.flag .static) | "readonly" => some (.flag .readonly) | "final" => some (.flag .final)
  | "abstract" => some (.flag .abstract) | "var" => some .var | _ => none

def showMods (m : Model.DeclMods.Mods) : String :=
  let b := fun (x : Bool) => if x then "1" else "0"
  let v := match m.vis with | none => "none" | some .pub => "pub" | some .prot => "prot" | some .priv => "priv"
  s!"vis={v} static={b m.static} readonly={b m.readonly} final={b m.final} abstract={b m.abstract}"

def declAnswer (pname kws : String) : String :=
  match Generated.C07Decl.parsers.find? (fun p => p.name == pname) with
  | none => "noparser"
  | some p =>
    if !(Generated.C07Decl.recognised.any (fun r => r.1 == pname && r.2)) then "shapeChanged"
    else
      match ((kws.splitOn " ").filter (fun x => !x.isEmpty && x != "-")).mapM parseKw with
      | none => "bad-op"
      | some ks =>
        match Model.DeclMods.parse p ks with
        | none => "refused"
        | some m => showMods m

def parseDeclList (s : String) : Option (List (Name × Mod)) :=
  if s == "-" || s.isEmpty then some [] else
    (s.splitOn ",").mapM fun it =>
      match it.splitOn ":" with
      | [n, m] => do
        let n ← n.toNat?
        let m ← parseMod m
        some (n, m)
      | _ => none

def declsOf (l : List (Name × Mod)) : Model.AccessDecl.Decls := fun n => (l.find? (fun p => p.1 == n)).map (·.2)

def handle (line : String) : String :=
  match line.splitOn "\t" with
  | ["shadow", h, ds, sc, r] =>
    match parseHier h, parseDeclList ds, optName sc, r.toNat? with
    | some H, some dl, some scope, some r =>
      (match Model.AccessDecl.accessJ H Generated.C07Access.fallbackRel Generated.C07Access.judgeRel (declsOf dl) scope r with
       | .allowed => "1" | .denied => "0" | .stuck => "stuck" | .nomember => "nomember")
    | _, _, _, _ => "bad-op"
  | ["shadow", h, ds, sc, r, en, rt] =>
    match parseHier h, parseDeclList ds, optName sc, r.toNat?, optName rt with
    | some H, some dl, some scope, some r, some rt =>
      let sc' : Option Name := match scope, rt with
        | some lex, some run => some (Model.ScopeEntry.scopeOf (Model.ScopeEntry.find Generated.C07Access.entryPaths en) lex run)
        | s, _ => s
      (match Model.AccessDecl.accessJ H Generated.C07Access.fallbackRel Generated.C07Access.judgeRel (declsOf dl) sc' r with
       | .allowed => "1" | .denied => "0" | .stuck => "stuck" | .nomember => "nomember")
    | _, _, _, _, _ => "bad-op"
  | "acc" :: h :: rest =>
    match parseHier h, parseSite rest with
    | some H, some s => showOut (decide Generated.C07Access.table H s)
    | _, _ => "bad-op"
  | "exec" :: h :: rest =>
    match parseHier h, parseSite (rest.take 7), rest.drop 7 with
    | some H, some s, [op] =>
      let σ : Store := { cell := fun _ => 1, calls := fun _ => 0 }
      let o : Option Op :=
        match op with
        | "read" => some (.read 0) | "write1" => some (.write 0 2 true) | "write0" => some (.write 0 2 false)
        | "call" => some (.call 0) | "unset" => some (.write 0 0 true) | _ => none
      match o with
      | none => "bad-op"
      | some o =>
        let (r, σ') := exec Generated.C07Access.table H s σ o
        let rs := match r with | .ok _ => "ok" | .denied => "denied" | .stuck => "stuck"
        s!"{rs} cell={σ'.cell 0} calls={σ'.calls 0}"
    | _, _, _ => "bad-op"
  | ["spec", h, m, x, d] =>
    match parseHier h, parseMod m, optName x, d.toNat? with
    | some H, some m, some x, some d =>
      (match Spec.Access.allowedB H m x d with | none => "stuck" | some b => bit b)
    | _, _, _, _ => "bad-op"
  | ["isa", h, c, t] =>
    match parseHier h, c.toNat?, t.toNat? with
    | some H, some c, some t =>
      (match isA H c t with | none => "stuck" | some b => bit b)
    | _, _, _ => "bad-op"
  | "ty" :: h :: v :: toks =>
    match parseHier h, parseVal v, parseTy (toks.length + 1) toks with
    | some H, some v, some (t, []) =>
      if stuckOn H t v then "stuck" else bit (accepts (isATotal H) t v)
    | _, _, _ => "bad-op"
  | "bd" :: h :: b :: v :: toks =>
    match parseHier h, parseBoundary b, parseVal v, parseTy (toks.length + 1) toks with
    | some H, some b, some v, some (t, []) =>
      if stuckOn H t v then "stuck" else bit (admits (isATotal H) (Generated.C07Access.boundary b) t v)
    | _, _, _, _ => "bad-op"
  | ["inst", w, c] =>
    match parseWorld w, c.toNat? with
    | some W, some c => showInst (Model.Inst.instantiate W c)
    | _, _ => "bad-op"
  | ["seq", h, items] =>
    match parseHier h, (items.splitOn ";").mapM parseSeqItem with
    | some H, some its => " ".intercalate (seqEval H { cell := fun _ => 1, calls := fun _ => 0 } [] its [])
    | _, _ => "bad-op"
  | "bseq" :: h :: b :: vs :: toks =>
    match parseHier h, parseBoundary b, (vs.splitOn ".").mapM parseVal, parseTy (toks.length + 1) toks with
    | some H, some b, some vs, some (t, []) =>
      if vs.any (stuckOn H t) then "stuck"
      else
        let r := storeRun (isATotal H) (Generated.C07Access.boundary b) t none vs
        ".".intercalate (r.1.map bit) ++ "|" ++ (match r.2 with | none => "-" | some v => showVal v)
    | _, _, _, _ => "bad-op"
  | ["iseq", w, ns] =>
    match parseWorld w, nameList ns with
    | some W, some ns =>
      let r := Model.Inst.newRun W [] ns
      ".".intercalate (r.1.map showInst) ++ "|" ++ dots r.2
    | _, _ => "bad-op"
  | ["bind", h, mode, loop, slots] =>
    match parseHier h with
    | none => "bad-op"
    | some H =>
      match ((slots.splitOn ";").filter (fun x => !x.isEmpty)).mapM (parseSlot H) with
      | none => "bad-op"
      | some l =>
        if l.any (fun x => x.2.2) then "stuck"
        else
          let labels := l.map (fun x => x.1)
          let sl := l.map (fun x => x.2.1)
          let sh := loopShapeOf loop
          let o := if mode == "ef" then bindEvalFirst sh (isATotal H) sl else bindArgs sh (isATotal H) sl
          showCall labels o
  | ["nbind", h, mode, loop, ps, as] =>
    match parseHier h with
    | none => "bad-op"
    | some H =>
      match ((ps.splitOn ";").filter (fun x => !x.isEmpty)).mapM parseParam,
            ((as.splitOn ";").filter (fun x => !x.isEmpty && x != "-")).mapM parseCallArg with
      | some params, some args =>
        let vals := args.filterMap argVal ++ params.filterMap (·.dflt) ++ [ValKind.null]
        if params.any (fun p => vals.any (fun v => stuckOn H p.t v)) then "stuck"
        else if !(Generated.C07Access.namedFirst.any (fun p => p.1 == loop && p.2)) then "shapeChanged"
        else showNamedOut params.length
          (Model.ArgNames.callNamed (loopShapeOf loop) (mode == "ef") (isATotal H) params args)
      | _, _ => "bad-op"
  | ["sseq", h, slots] =>
    match parseHier h with
    | none => "bad-op"
    | some H =>
      match ((slots.splitOn ";").filter (fun x => !x.isEmpty)).mapM (parseStoreSlot H) with
      | none => "bad-op"
      | some l =>
        if l.any (fun x => x.2) then "stuck"
        else
          let r := storeSeq (isATotal H) 0 (l.map (fun x => x.1))
          (match r.1 with | none => "ok" | some i => s!"rej:{i}") ++ " " ++
            ".".intercalate (r.2.map (fun o => match o with | none => "-" | some v => showVal v))
  | ["eargs", h, items] =>
    match parseHier h, (items.splitOn ";").mapM parseSeqItem with
    | some H, some its =>
      let steps := its.filterMap (fun it => match it with | .att st => some st | _ => none)
      let σ₀ : Store := { cell := fun _ => 1, calls := fun _ => 0 }
      let r := evalArgs Generated.C07Access.table H 0 σ₀ steps
      let keys := (steps.map (fun st => match st.op with | .read k => k | .write k _ _ => k | .call k => k)).eraseDups
      (match r.1 with | none => "ok" | some i => s!"den:{i}") ++ s!" n={touched σ₀ r.2 keys}"
    | _, _ => "bad-op"
  | ["decl", pname, kws] => declAnswer pname kws
  | ["decl", pname] => declAnswer pname ""
  | ["tbl"] =>
    let arms := Path.all.flatMap (fun p => [Recv.this, Recv.other].map (fun r =>
      s!"{showPath p}/{match r with | .this => "this" | .other => "other"}={showCheck (Generated.C07Access.table p r)}"))
    let bds := Boundary.all.map (fun b => s!"{showBoundary b}={showBKind (Generated.C07Access.boundary b)}")
    " ".intercalate (arms ++ bds ++ Generated.C07Access.shapeNotes.map (fun s => "note=" ++ s))
  | _ => "bad-op"

def main : IO Unit := Drivers.runDriver handle
