import Model.Codec
import Spec.Codec
import Model.Wire
import Spec.Wire
import Model.Ser
import Drivers.Common
/-! `vm_c14`: line protocol over `Model.Codec` / `Spec.Codec` / `Model.Wire` / `Spec.Wire`.
Byte strings travel hex-encoded. Fields of a request are separated by TAB.

  hex|b64e|urle|rawe|urld|rawd  <hex>      → <hex>
  b64d|sb64d|shexd              <hex>      → some:<hex> | none
  pcte|forme                    <hex>      → <hex>            (Spec encoders)
  cv|ctag|cf32|cf64|cbytes      <hex>      → primitive result | none
  av <v> · atag <num> <wt> · af32 <v> · af64 <v> · abytes <hex>  → <hex>
  parse <opts> <hex>                       → ok:<tree> | err:<kind>
  enc <tree>                               → <hex> | bad-tree
  ser <val>                                → some:<hex> | none
      val: N T F I<int> S<hex> D<hex of the float text> A[v,…] K[<hex slot name>:v,…] O{<hex key>:v,…}
  unser <hex>   (input already TrimSpace'd) → value:<val> | false | legacy
  val: N T F I<int> S<hex> D A[<val>,…] O{<hexkey>:<val>,…}
  opts: msg=1,2;packed=3;et=3:0,4:5;max=64
  tree: fields joined by ';' — V<n>:<v> Q<n>:<v> D<n>:<v> B<n>:<hex> P<n>:<et>:<v>,<v> M<n>{…} G<n>{…}
-/
open Model.Codec

def hexVal? (c : Char) : Option Nat :=
  if '0' ≤ c ∧ c ≤ '9' then some (c.toNat - 48)
  else if 'a' ≤ c ∧ c ≤ 'f' then some (c.toNat - 87)
  else none

def unhexL : List Char → Option (List Nat)
  | [] => some []
  | [_] => none
  | h :: l :: rest => do
      let a ← hexVal? h
      let b ← hexVal? l
      let out ← unhexL rest
      some ((16 * a + b) :: out)

def unhexS (s : String) : Option (List Nat) := unhexL s.toList

def hexS (l : List Nat) : String :=
  let dig (d : Nat) : Char := Char.ofNat (if d < 10 then 48 + d else 87 + d)
  String.ofList (l.flatMap (fun b => [dig (b / 16 % 16), dig (b % 16)]))

def optS : Option (List Nat) → String
  | some l => "some:" ++ hexS l
  | none => "none"

open Model.Wire in
def leafS (num : Nat) : Leaf → String
  | .varint v => s!"V{num}:{v}"
  | .fixed64 v => s!"Q{num}:{v}"
  | .fixed32 v => s!"D{num}:{v}"
  | .bytes bs => s!"B{num}:{hexS bs}"
  | .packed et vs => s!"P{num}:{et}:{",".intercalate (vs.map toString)}"

open Model.Wire in
def treeL : FT → List String
  | .nil => []
  | .leaf num v rest => leafS num v :: treeL rest
  | .sub num g kids rest =>
      ((if g then "G" else "M") ++ toString num ++ "{" ++ ";".intercalate (treeL kids) ++ "}") :: treeL rest

open Model.Wire in
def treeS (t : FT) : String := ";".intercalate (treeL t)

open Model.Wire in
def errS : Err → String
  | .maxDepth => "maxDepth" | .tag => "tag" | .varint => "varint" | .fixed64 => "fixed64"
  | .fixed32 => "fixed32" | .length => "length" | .unexpectedEnd => "unexpectedEnd"
  | .endGroup => "endGroup" | .mismatch => "mismatch" | .wireType => "wireType"
  | .packedCfg => "packedCfg" | .packedType => "packedType" | .fuel => "fuel"

def natList (s : String) : Option (List Nat) :=
  if s.isEmpty then some [] else (s.splitOn ",").mapM (·.toNat?)

def pairOf (p : String) : Option (Nat × Nat) :=
  match p.splitOn ":" with
  | [a, b] => do some ((← a.toNat?), (← b.toNat?))
  | _ => none

open Model.Wire in
def parseOpt1 (o : Opts) (kv : String) : Option Opts :=
  match kv.splitOn "=" with
  | ["msg", v] => (natList v).map (fun l => { o with msg := l })
  | ["packed", v] => (natList v).map (fun l => { o with packed := l })
  | ["et", v] =>
      if v.isEmpty then some o
      else ((v.splitOn ",").mapM pairOf).map (fun l => { o with elemType := l })
  | ["max", v] => v.toInt?.map (fun m => { o with maxDepth := m })
  | _ => none

open Model.Wire in
def parseOpts (s : String) : Option Opts :=
  (s.splitOn ";").foldlM parseOpt1 {}

/-! tree reader (recursive descent over characters) -/
def takeNat (cs : List Char) : Option (Nat × List Char) :=
  let ds := cs.takeWhile Char.isDigit
  if ds.isEmpty then none else (String.ofList ds).toNat?.map (fun n => (n, cs.drop ds.length))

open Model.Wire in
partial def readFields (cs : List Char) : Option (FT × List Char) :=
  match cs with
  | [] => some (.nil, [])
  | '}' :: _ => some (.nil, cs)
  | ';' :: rest => readFields rest
  | k :: rest => do
      let (num, r1) ← takeNat rest
      match k with
      | 'M' | 'G' =>
          match r1 with
          | '{' :: r2 => do
              let (kids, r3) ← readFields r2
              match r3 with
              | '}' :: r4 => do
                  let (more, r5) ← readFields r4
                  some (.sub num (k == 'G') kids more, r5)
              | _ => none
          | _ => none
      | _ =>
          match r1 with
          | ':' :: r2 =>
              let body := r2.takeWhile (fun c => c != ';' && c != '}')
              let r3 := r2.drop body.length
              let bs := String.ofList body
              let leaf? : Option Leaf :=
                match k with
                | 'V' => bs.toNat?.map Leaf.varint
                | 'Q' => bs.toNat?.map Leaf.fixed64
                | 'D' => bs.toNat?.map Leaf.fixed32
                | 'B' => (unhexS bs).map Leaf.bytes
                | 'P' => match bs.splitOn ":" with
                    | [et, vs] => do some (Leaf.packed (← et.toNat?) (← natList vs))
                    | _ => none
                | _ => none
              do
                let leaf ← leaf?
                let (more, r5) ← readFields r3
                some (.leaf num leaf more, r5)
          | _ => none

open Model.Wire in
def readTree (s : String) : Option FT :=
  match readFields s.toList with
  | some (t, []) => some t
  | _ => none

/-! PHP values -/
open Model.Ser in
def plNamed : PL → Bool
  | .nil => false
  | .cons k _ rest => k != [] || plNamed rest

open Model.Ser in
mutual
partial def pvS : PV → String
  | .null => "N"
  | .bool true => "T"
  | .bool false => "F"
  | .int i => "I" ++ toString i
  | .str s => "S" ++ hexS s
  | .float r => "D" ++ hexS r
  | .arr items =>
      if plNamed items then "K[" ++ ",".intercalate (plS true items) ++ "]"
      else "A[" ++ ",".intercalate (plS false items) ++ "]"
  | .obj props => "O{" ++ ",".intercalate (plS true props) ++ "}"
partial def plS (keyed : Bool) : PL → List String
  | .nil => []
  | .cons k v rest => ((if keyed then hexS k ++ ":" else "") ++ pvS v) :: plS keyed rest
end

open Model.Ser in
mutual
partial def readPV (cs : List Char) : Option (PV × List Char) :=
  match cs with
  | 'N' :: r => some (.null, r)
  | 'T' :: r => some (.bool true, r)
  | 'F' :: r => some (.bool false, r)
  | 'D' :: r =>
      let body := r.takeWhile (fun c => (hexVal? c).isSome)
      (unhexL body).map (fun b => (.float b, r.drop body.length))
  | 'I' :: r =>
      let body := r.takeWhile (fun c => c.isDigit || c == '-')
      (String.ofList body).toInt?.map (fun i => (.int i, r.drop body.length))
  | 'S' :: r =>
      let body := r.takeWhile (fun c => (hexVal? c).isSome)
      (unhexL body).map (fun b => (.str b, r.drop body.length))
  | 'A' :: '[' :: r => (readPL false r ']').map (fun (l, r') => (.arr l, r'))
  | 'K' :: '[' :: r => (readPL true r ']').map (fun (l, r') => (.arr l, r'))
  | 'O' :: '{' :: r => (readPL true r '}').map (fun (l, r') => (.obj l, r'))
  | _ => none
partial def readPL (keyed : Bool) (cs : List Char) (close : Char) : Option (PL × List Char) :=
  match cs with
  | c :: r =>
      if c == close then some (.nil, r)
      else if c == ',' then readPL keyed r close
      else do
        let (k, r1) ←
          if keyed then
            let body := cs.takeWhile (fun c => (hexVal? c).isSome)
            match cs.drop body.length with
            | ':' :: r1 => (unhexL body).map (fun b => (b, r1))
            | _ => none
          else some ([], cs)
        let (v, r2) ← readPV r1
        let (rest, r3) ← readPL keyed r2 close
        some (.cons k v rest, r3)
  | [] => none
end

def onHex (s : String) (f : List Nat → String) : String :=
  match unhexS s with
  | some l => f l
  | none => "bad-hex"

open Model.Wire in
def handle (line : String) : String :=
  match line.splitOn "\t" with
  | ["hex", h] => onHex h (fun l => hexS (bin2hex l))
  | ["b64e", h] => onHex h (fun l => hexS (base64Encode l))
  | ["b64d", h] => onHex h (fun l => optS (base64Decode l))
  | ["sb64d", h] => onHex h (fun l => optS (Spec.Codec.b64Decode l))
  | ["shexd", h] => onHex h (fun l => optS (Spec.Codec.hexDecode l))
  | ["urle", h] => onHex h (fun l => hexS (urlencode l))
  | ["rawe", h] => onHex h (fun l => hexS (rawurlencode l))
  | ["urld", h] => onHex h (fun l => hexS (urldecode l))
  | ["rawd", h] => onHex h (fun l => hexS (rawurldecode l))
  | ["pcte", h] => onHex h (fun l => hexS (Spec.Codec.pctEncode l))
  | ["forme", h] => onHex h (fun l => hexS (Spec.Codec.formEncode l))
  | ["cv", h] => onHex h (fun l => match consumeVarint l with
      | some (v, r) => s!"{v}:{l.length - r.length}" | none => "none")
  | ["ctag", h] => onHex h (fun l => match consumeTag l with
      | some (n, w, r) => s!"{n}:{w}:{l.length - r.length}" | none => "none")
  | ["cf32", h] => onHex h (fun l => match consumeFixed32 l with
      | some (v, r) => s!"{v}:{l.length - r.length}" | none => "none")
  | ["cf64", h] => onHex h (fun l => match consumeFixed64 l with
      | some (v, r) => s!"{v}:{l.length - r.length}" | none => "none")
  | ["cbytes", h] => onHex h (fun l => match consumeBytes l with
      | some (v, r) => s!"{hexS v}:{l.length - r.length}" | none => "none")
  | ["av", v] => (v.toNat?.map (fun v => hexS (appendVarint v))).getD "bad"
  | ["atag", n, w] => (do some (hexS (appendTag (← n.toNat?) (← w.toNat?)))).getD "bad"
  | ["af32", v] => (v.toNat?.map (fun v => hexS (appendFixed32 v))).getD "bad"
  | ["af64", v] => (v.toNat?.map (fun v => hexS (appendFixed64 v))).getD "bad"
  | ["abytes", h] => onHex h (fun l => hexS (appendBytes l))
  | ["parse", o, h] =>
      match parseOpts o with
      | none => "bad-opts"
      | some o => onHex h (fun l => match parse o l with
          | .ok t => "ok:" ++ treeS t
          | .error e => "err:" ++ errS e)
  | ["enc", t] =>
      match readTree t with
      | some t => hexS (Spec.Wire.encode t)
      | none => "bad-tree"
  | ["ser", v] =>
      match readPV v.toList with
      | some (pv, []) => optS (Model.Ser.ser pv)
      | _ => "bad-val"
  | ["unser", h] => onHex h (fun l => match Model.Ser.unserializeT l with
      | .value (.bool false) => "false"   -- `b:0;` and failure are the same script-level result
      | .value v => "value:" ++ pvS v
      | .false => "false"
      | .legacy => "legacy")
  | _ => "bad-op"

def main : IO Unit := Drivers.runDriver handle
