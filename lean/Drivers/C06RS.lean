import Model.RefSlot
import Spec.RefVal
/-! `vm_c06`, second protocol: `Model.RefSlot` / `Spec.RefVal` (references to array slots).

  rs\t<cfg>\t<nv>\t<nr>\t<tokens>      cfg: counted | tree | sticky | spec | disc
    stmt := lit x cnt n… | copy x y | store x i n | bind var|param r x i | wr r n | release r
  → per statement the arrays of all variables (`[0=>v,1=>w,]`, joined by a space), statements joined by `|`;
    a statement outside the fragment is rendered with a leading `!`; `disc` answers yes / no.
-/
namespace RS
open Model.RefSlot

abbrev P (α : Type) := List String → Option (α × List String)

def pNat : P Nat
  | t :: r => t.toNat?.map (·, r)
  | [] => none

def pInt : P Int
  | t :: r => t.toInt?.map (·, r)
  | [] => none

def pInts : Nat → P (List Int)
  | 0, r => some ([], r)
  | n + 1, r => do
    let (v, r) ← pInt r
    let (vs, r) ← pInts n r
    some (v :: vs, r)

def pKind : P Kind
  | "var" :: r => some (.var, r)
  | "param" :: r => some (.param, r)
  | _ => none

def pOp : P Op
  | "lit" :: r => do
    let (x, r) ← pNat r
    let (n, r) ← pNat r
    let (vs, r) ← pInts n r
    some (.lit x vs, r)
  | "copy" :: r => do
    let (x, r) ← pNat r
    let (y, r) ← pNat r
    some (.copy x y, r)
  | "store" :: r => do
    let (x, r) ← pNat r
    let (i, r) ← pNat r
    let (v, r) ← pInt r
    some (.store x i v, r)
  | "bind" :: r => do
    let (k, r) ← pKind r
    let (b, r) ← pNat r
    let (x, r) ← pNat r
    let (i, r) ← pNat r
    some (.bind k b x i, r)
  | "wr" :: r => do
    let (b, r) ← pNat r
    let (v, r) ← pInt r
    some (.wr b v, r)
  | "release" :: r => (pNat r).map (fun (b, r) => (.release b, r))
  | _ => none

partial def pOps (ts : List String) : Option (List Op) :=
  match ts with
  | [] => some []
  | _ =>
    match pOp ts with
    | some (o, []) => some [o]
    | some (o, ";" :: r) => (pOps r).map (o :: ·)
    | _ => none

def showArr (a : List Int) : String :=
  "[" ++ String.join ((List.range a.length).zip a |>.map (fun (i, v) => s!"{i}=>{v},")) ++ "]"

def showVals (vs : List (List Int)) : String := " ".intercalate (vs.map showArr)

def runModel (cfg : Cfg) (nv nr : Nat) (ops : List Op) : String :=
  let (_, out) := ops.foldl (fun (acc : St × List String) op =>
    let (s, out) := acc
    match stepOpt cfg s op with
    | some s' => (s', showVals (vals s') :: out)
    | none => (s, ("!" ++ showVals (vals s)) :: out)) (init nv nr, [])
  "|".intercalate out.reverse

def runSpec (nv nr : Nat) (ops : List Op) : String :=
  let (_, out) := ops.foldl (fun (acc : Spec.RefVal.St × List String) op =>
    let (s, out) := acc
    match Spec.RefVal.stepOpt s op with
    | some s' => (s', showVals s'.arrs :: out)
    | none => (s, ("!" ++ showVals s.arrs) :: out)) (Spec.RefVal.init nv nr, [])
  "|".intercalate out.reverse

def handle (cfg nv nr toks : String) : String :=
  match nv.toNat?, nr.toNat?, pOps ((toks.splitOn " ").filter (· ≠ "")) with
  | some nv, some nr, some ops =>
    match cfg with
    | "counted" => runModel .counted nv nr ops
    | "tree" => runModel .tree nv nr ops
    | "sticky" => runModel .sticky nv nr ops
    | "spec" => runSpec nv nr ops
    | "disc" => if disc [] ops then "yes" else "no"
    | _ => "bad-mode"
  | _, _, _ => "bad-op"
end RS
