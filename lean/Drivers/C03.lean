import Model.Ops
import Spec.Ops
import Generated.C03Truthiness
import Drivers.Common
/-! `vm_c03`: line protocol over `Model.Ops` / `Spec.Ops` (tab separated).

  bin   <op> <same 0|1> <A> <B> <pow>   → v <val> | err:<kind> | crash
  un    <op> <A>                        → same
  truth <ctx> <A>                       → t | f | none
  spec  <op> <A> <B> <pow>              → documented result, or `undoc`
  specun <op> <A>                       → same
  kind  <op>                            → <fixed result kind|-> <always a value 0|1> <number 0|1>   (Spec.Ops.fixedKind …)
  kindun <op>                           → same for a unary operator / cast

Operands: `i:<dec>` · `f:<bits16>:<hex of AsString>` · `s:<hex>:<ParseFloat bits|->:<Atoi|->` ·
`b:0|1` · `n` · `a:<len>:<hex of AsString>` · `o:<props>:<hex>` · `c:<props>:<hex>`.  `<pow>` = `-` or `<xbits>,<ybits>,<rbits>`
(Go's math.Pow on the converted operands).  Floats are Lean `Float` (IEEE doubles); the strconv
results and math.Pow come with the request (Go's own answers), `int(f)` is the amd64 conversion.
The truthiness table is the regenerated `Generated.C03Truthiness.table`. -/
open Model.Ops

def hexVal (c : Char) : Option Nat :=
  if '0' ≤ c ∧ c ≤ '9' then some (c.toNat - 48)
  else if 'a' ≤ c ∧ c ≤ 'f' then some (c.toNat - 87)
  else if 'A' ≤ c ∧ c ≤ 'F' then some (c.toNat - 55) else none

def parseHexBytes (s : String) : Option Str :=
  let rec go : List Char → Option Str
    | [] => some []
    | a :: b :: rest => do
        let x ← hexVal a
        let y ← hexVal b
        let tl ← go rest
        pure ((x * 16 + y).toUInt8 :: tl)
    | _ => none
  go s.toList

def parseHexU64 (s : String) : Option UInt64 :=
  s.toList.foldlM (fun acc c => do let d ← hexVal c; pure (acc * 16 + d.toUInt64)) (0 : UInt64)

def hexDigit (n : Nat) : Char := if n < 10 then Char.ofNat (48 + n) else Char.ofNat (87 + n)

def hexOfBytes (b : Str) : String :=
  String.ofList (b.foldr (fun x acc => hexDigit (x.toNat / 16) :: hexDigit (x.toNat % 16) :: acc) [])

def hex16 (u : UInt64) : String :=
  String.ofList ((List.range 16).map (fun i => hexDigit ((u.toNat >>> ((15 - i) * 4)) % 16)))

/-- operand with the Go-side annotations -/
structure Operand where
  v : Val Float
  pf : Option Float := none          -- ParseFloat of a string operand
  ai : Option (BitVec 64) := none    -- Atoi of a string operand
  fmt : Str := []                    -- AsString of a float / array / object / instance operand

def parseOperand (s : String) : Option Operand :=
  match s.splitOn ":" with
  | ["i", d] => d.toInt?.map (fun i => { v := .int (BitVec.ofInt 64 i) })
  | ["f", b, h] => do
      let u ← parseHexU64 b
      let t ← parseHexBytes h
      pure { v := .float (Float.ofBits u), fmt := t }
  | ["s", h, pf, ai] => do
      let b ← parseHexBytes h
      let pf' ← (if pf == "-" then some none else (parseHexU64 pf).map (fun u => some (Float.ofBits u)))
      let ai' ← (if ai == "-" then some none else ai.toInt?.map (fun i => some (BitVec.ofInt 64 i)))
      pure { v := .str b, pf := pf', ai := ai' }
  | ["b", "0"] => some { v := .bool false }
  | ["b", "1"] => some { v := .bool true }
  | ["n"] => some { v := .null }
  | ["a", n, h] => do
      let n ← n.toNat?
      let t ← parseHexBytes h
      pure { v := .arr n, fmt := t }
  | ["o", k, h] => do
      let k ← k.toNat?
      let t ← parseHexBytes h
      pure { v := .obj k, fmt := t }
  | ["c", k, h] => do
      let k ← k.toNat?
      let t ← parseHexBytes h
      pure { v := .cls k, fmt := t }
  | _ => none

def minIntBV : BitVec 64 := BitVec.ofInt 64 (-9223372036854775808)

/-- `int(f)` as the amd64 backend computes it (CVTTSD2SQ: NaN / out of range → 0x8000…0) -/
def goToInt (f : Float) : BitVec 64 :=
  if f.isNaN || f ≥ 9223372036854775808.0 || f < -9223372036854775808.0 then minIntBV
  else BitVec.ofInt 64 f.toInt64.toInt

def goTrunc (f : Float) : Float := if f < 0 then f.ceil else f.floor

def strKey (v : Val Float) : Option Str := match v with | .str s => some s | _ => none
def floatKey (v : Val Float) : Option UInt64 := match v with | .float f => some f.toBits | _ => none
def dispKey (v : Val Float) : Option (Kind × Nat) :=
  match v with
  | .arr n => some (.arr, n) | .obj k => some (.obj, k) | .cls k => some (.cls, k) | _ => none

def mkPrim (ops : List Operand) (pw : Option (UInt64 × UInt64 × UInt64)) : Prim Float := {
  add := (· + ·), sub := (· - ·), mul := (· * ·), div := (· / ·),
  pow := fun x y =>
    match pw with
    | some (xb, yb, rb) => if x.toBits == xb && y.toBits == yb then Float.ofBits rb else Float.pow x y
    | none => Float.pow x y,
  neg := fun x => -x,
  trunc := goTrunc,
  ofInt := fun i => Int64.toFloat (Int64.ofInt i.toInt),
  toInt := goToInt,
  lt := fun a b => decide (a < b),
  le := fun a b => decide (a ≤ b),
  eq := fun a b => a == b,
  zero := 0.0, one := 1.0,
  maxIntF := 9223372036854775808.0,
  minIntF := -9223372036854775808.0,
  parse := fun s => match ops.find? (fun o => strKey o.v == some s) with
    | some o => o.pf
    | none => none,
  atoi := fun s => match ops.find? (fun o => strKey o.v == some s) with
    | some o => o.ai
    | none => none,
  fmtG := fun f => match ops.find? (fun o => floatKey o.v == some f.toBits) with
    | some o => o.fmt
    | none => [63],
  display := fun k n => match ops.find? (fun o => dispKey o.v == some (k, n)) with
    | some o => o.fmt
    | none => [63] }

def showVal : Val Float → String
  | .int i => s!"i:{i.toInt}"
  | .float f => if f.isNaN then "f:nan" else "f:" ++ hex16 f.toBits
  | .bool b => if b then "b:1" else "b:0"
  | .str s => "s:" ++ hexOfBytes s
  | .null => "n"
  | .arr n => s!"a:{n}"
  | .obj _ => "o"
  | .cls _ => "c"

def showErr : ErrKind → String
  | .divZero => "divzero" | .parse => "parse" | .unsupported => "unsupported" | .negShift => "negshift"

def showRes : Res Float → String
  | .val v => "v " ++ showVal v
  | .err e => "err:" ++ showErr e
  | .crash => "crash"

def parseBin (s : String) : Option BinOp :=
  match s with
  | "add" => some .add | "sub" => some .sub | "mul" => some .mul | "quo" => some .quo
  | "rem" => some .rem | "pow" => some .pow | "band" => some .band | "bor" => some .bor
  | "bxor" => some .bxor | "shl" => some .shl | "shr" => some .shr | "eq" => some .eq
  | "ne" => some .ne | "seq" => some .seq | "sne" => some .sne | "lt" => some .lt
  | "le" => some .le | "gt" => some .gt | "ge" => some .ge | "cmp" => some .cmp
  | "land" => some .land | "lor" => some .lor | "dot" => some .dot
  | _ => none

def parseUn (s : String) : Option UnOp :=
  match s with
  | "neg" => some .neg | "bnot" => some .bnot | "not" => some .not
  | "castb" => some .castb | "casti" => some .casti | "castf" => some .castf
  | _ => none

def parsePow (s : String) : Option (Option (UInt64 × UInt64 × UInt64)) :=
  if s == "-" then some none else
  match s.splitOn "," with
  | [x, y, r] => do
      let x ← parseHexU64 x
      let y ← parseHexU64 y
      let r ← parseHexU64 r
      pure (some (x, y, r))
  | _ => none

def T := Generated.C03Truthiness.table

def showKind : Option Kind → String
  | some .str => "s" | some .bool => "b" | some .int => "i" | some .float => "f"
  | some .null => "n" | some .arr => "a" | some .obj => "o" | some .cls => "c" | none => "-"

def flag (b : Bool) : String := if b then "1" else "0"

def handle (line : String) : String :=
  match line.splitOn "\t" with
  | ["bin", op, same, a, b, pw] =>
      match parseBin op, parseOperand a, parseOperand b, parsePow pw with
      | some op, some a, some b, some pw =>
          showRes (eval (mkPrim [a, b] pw) T op (same == "1") a.v b.v)
      | _, _, _, _ => "bad-request"
  | ["un", op, a] =>
      match parseUn op, parseOperand a with
      | some op, some a => showRes (evalUn (mkPrim [a] none) T op a.v)
      | _, _ => "bad-request"
  | ["truth", ctx, a] =>
      match parseOperand a with
      | some a =>
          match truthyAt (mkPrim [a] none) T ctx a.v with
          | some true => "t"
          | some false => "f"
          | none => "none"
      | none => "bad-request"
  | ["spec", op, a, b, pw] =>
      match parseBin op, parseOperand a, parseOperand b, parsePow pw with
      | some op, some a, some b, some pw =>
          match Spec.Ops.eval (mkPrim [a, b] pw) op a.v b.v with
          | some r => showRes r
          | none => "undoc"
      | _, _, _, _ => "bad-request"
  | ["kind", op] =>
      match parseBin op with
      | some op => showKind (Spec.Ops.fixedKind op) ++ " " ++ flag (Spec.Ops.alwaysValue op) ++ " " ++ flag (Spec.Ops.numericResult op)
      | none => "bad-request"
  | ["kindun", op] =>
      match parseUn op with
      | some op => showKind (Spec.Ops.fixedKindUn op) ++ " " ++ flag (Spec.Ops.alwaysValueUn op) ++ " " ++ flag (op == .neg)
      | none => "bad-request"
  | ["specun", op, a] =>
      match parseUn op, parseOperand a with
      | some op, some a =>
          match Spec.Ops.evalUn (mkPrim [a] none) op a.v with
          | some r => showRes r
          | none => "undoc"
      | _, _ => "bad-request"
  | _ => "bad-request"

def main : IO Unit := Drivers.runDriver handle
