import Model.Temp
import Drivers.Common
/-! `vm_c12`: line protocol over `Model.Temp`.

  run \t <files> \t <find> \t <fold> \t <pool> \t <ntemps> \t <ops> [\t <cbs> \t <cpool>]
    files : f=d,d,…;f=…        d = c<name> | i<name> | n<name>   (class / interface / function)
    find  : name>file,…         class-path lookup (absent = not found)
    fold  : name>rep,…          case-fold representative (absent = itself)
    pool  : name,name,…         names looked up in the resolve tables
    ops   : op|op|…             add v k n id · lar v f · pf v f · golc v n · goli v n · pkg v n · dis i
                                ev v u id · inc v f r · rfn v n id · areg v cb · use v n p · def v c · als v a b · nop v
                                v = b | t<i> ;  k = c | i | n ;  r, p = 0 | 1
    cbs   : name>file,…;…       the autoload callbacks (callback k = k-th group; may be empty)
    cpool : c,c,…               constants looked up
  → one record per op, joined by `|`:  <res>;<thrown>;<tables>;<consts>;<leaky>
      res = ok:- | ok:s<k> | ok:f<k> | err | crash
      tables = base/t0/…  each: cells for (class,interface,function) × pool, `,`-separated
-/
open Model.Temp

def parseKind : String → Option Kind
  | "c" => some .cls | "i" => some .ifc | "n" => some .fn | _ => none

def parseVM (s : String) : Option VMId :=
  if s == "b" then some .base
  else if s.startsWith "t" then (s.drop 1).toNat?.map VMId.temp
  else none

def parseDecl (s : String) : Option Decl := do
  let k ← parseKind (s.take 1).toString
  let n ← (s.drop 1).toNat?
  some { kind := k, name := n }

def parsePairs (s : String) (sep : String) : Option (List (Nat × String)) :=
  if s.isEmpty then some [] else
  (s.splitOn ",").mapM (fun e =>
    match e.splitOn sep with
    | [a, b] => a.toNat?.map (fun a => (a, b))
    | _ => none)

def parseFiles (s : String) : Option (List (Nat × List Decl)) :=
  if s.isEmpty then some [] else
  (s.splitOn ";").mapM (fun e =>
    match e.splitOn "=" with
    | [f, ds] => do
        let f ← f.toNat?
        let ds ← if ds.isEmpty then some [] else (ds.splitOn ",").mapM parseDecl
        some (f, ds)
    | _ => none)

def parseNatPairs (s : String) : Option (List (Nat × Nat)) := do
  let ps ← parsePairs s ">"
  ps.mapM (fun (a, b) => b.toNat?.map (fun b => (a, b)))

def mkDisk (files : List (Nat × List Decl)) (find fold : List (Nat × Nat)) (cbs : List (List (Nat × Nat))) : Disk :=
  { content := fun f => files.lookup f
    find := fun n => find.lookup n
    fold := fun n => (fold.lookup n).getD n
    cbs := cbs.map (fun t => fun n => t.lookup n) }

def parseCbs (s : String) : Option (List (List (Nat × Nat))) :=
  if s.isEmpty then some [] else (s.splitOn ";").mapM parseNatPairs

def parseBool : String → Option Bool
  | "0" => some false | "1" => some true | _ => none

def parseOp (s : String) : Option Op :=
  match s.splitOn " " with
  | ["add", v, k, n, id] => do some (.add (← parseVM v) (← parseKind k) (← n.toNat?) (← id.toNat?))
  | ["lar", v, f] => do some (.loadAndRun (← parseVM v) (← f.toNat?))
  | ["pf", v, f] => do some (.parseFile (← parseVM v) (← f.toNat?))
  | ["golc", v, n] => do some (.getOrLoadClass (← parseVM v) (← n.toNat?))
  | ["goli", v, n] => do some (.getOrLoadInterface (← parseVM v) (← n.toNat?))
  | ["pkg", v, n] => do some (.loadPkg (← parseVM v) (← n.toNat?))
  | ["dis", i] => i.toNat?.map Op.discard
  | ["ev", v, u, id] => do some (.evalCode (← parseVM v) (← u.toNat?) (← id.toNat?))
  | ["inc", v, f, r] => do some (.incl (← parseVM v) (← f.toNat?) (← parseBool r))
  | ["rfn", v, n, id] => do some (.runFn (← parseVM v) (← n.toNat?) (← id.toNat?))
  | ["areg", v, cb] => do some (.autoReg (← parseVM v) (← cb.toNat?))
  | ["use", v, n, p] => do some (.useClass (← parseVM v) (← n.toNat?) (← parseBool p))
  | ["def", v, c] => do some (.define (← parseVM v) (← c.toNat?))
  | ["als", v, a, b] => do some (.alias (← parseVM v) (← a.toNat?) (← b.toNat?))
  | ["nop", v] => do some (.inert (← parseVM v))
  | _ => none

def showSrc : Option Src → String
  | none => "-"
  | some (.stub k) => s!"s{k}"
  | some (.file f) => s!"f{f}"

def showRes : Res → String
  | .ok s => "ok:" ++ showSrc s
  | .err => "err"
  | .crash => "crash"

def showTable (d : Disk) (w : World) (pool : List Nat) (v : VMId) : String :=
  ",".intercalate ([Kind.cls, Kind.ifc, Kind.fn].flatMap (fun k => pool.map (fun n => showSrc (resolve d w v k n))))

def showTables (d : Disk) (w : World) (pool : List Nat) (nt : Nat) : String :=
  "/".intercalate ((VMId.base :: (List.range nt).map VMId.temp).map (showTable d w pool))

def showConsts (w : World) (cpool : List Nat) : String :=
  String.join (cpool.map (fun c => if w.base.consts.contains c then "1" else "0"))

def runOps (d : Disk) (pool cpool : List Nat) (nt : Nat) : World → List Op → List String → List String
  | _, [], acc => acc.reverse
  | w, op :: ops, acc =>
    let lk := leaky d w op
    let r := step d w op
    let rec_ := s!"{showRes r.2};{r.1.base.thrown};{showTables d r.1 pool nt};{showConsts r.1 cpool};{if lk then 1 else 0}"
    runOps d pool cpool nt r.1 ops (rec_ :: acc)

def parseNats (s : String) : Option (List Nat) :=
  if s.isEmpty then some [] else (s.splitOn ",").mapM (·.toNat?)

def handleRun (files find fold pool nt ops cbs cpool : String) : String :=
  let r : Option String := do
    let files ← parseFiles files
    let find ← parseNatPairs find
    let fold ← parseNatPairs fold
    let pool ← parseNats pool
    let nt ← nt.toNat?
    let ops ← if ops.isEmpty then some [] else (ops.splitOn "|").mapM parseOp
    let cbs ← parseCbs cbs
    let cpool ← parseNats cpool
    some ("|".intercalate (runOps (mkDisk files find fold cbs) pool cpool nt {} ops []))
  r.getD "bad-request"

def handle (line : String) : String :=
  match line.splitOn "\t" with
  | ["run", files, find, fold, pool, nt, ops] => handleRun files find fold pool nt ops "" ""
  | ["run", files, find, fold, pool, nt, ops, cbs, cpool] => handleRun files find fold pool nt ops cbs cpool
  | _ => "bad-request"

def main : IO Unit := Drivers.runDriver handle
