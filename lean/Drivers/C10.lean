import Model.Reg
import Drivers.Common
/-! `vm_c10`: line protocol over `Model.Reg` (the sequential registry of `runtime.VM`).

  seq <op>|<op>|…        → <res>|<res>|…     (results of the history run from the empty registry)
    ops:  ac <name> <id> <src>   AddClass       (src: `n` = GetFrom()==nil, 0 = source "", k = file k)
          ai <name> <id> <src>   AddInterface
          af <name> <id>         AddFunc
          gc|glc|gi|gli|lp|lk|gfn|gk|eg <name>   GetClass · GetOrLoadClass · GetInterface ·
                                 GetOrLoadInterface · LoadPkg · GetFunc · GetConstant · EnsureGlobalZVal
          sc <name> <v>          SetConstant
          sf|gfile <k>           SetPhpFileCache · GetPhpFileCache
    name `~` = the empty string
    res:  ok nil miss hit:<id> hitI:<id> any:<id>,<id>… errClass errIface errBoth errFunc errConst errLoad
-/
open Model.Reg

def parseName (s : String) : Name := if s == "~" then [] else s.toList

def parseSrc (s : String) : Option (Option Nat) :=
  if s == "n" then some none else s.toNat?.map some

def parseOp (s : String) : Option Op :=
  match s.splitOn " " with
  | ["ac", n, i, f] => do
      let i ← i.toNat?
      let f ← parseSrc f
      some (.addClass ⟨parseName n, i, f⟩)
  | ["ai", n, i, f] => do
      let i ← i.toNat?
      let f ← parseSrc f
      some (.addIface ⟨parseName n, i, f⟩)
  | ["af", n, i] => i.toNat?.map (Op.addFunc (parseName n))
  | ["gc", n] => some (.getClass (parseName n))
  | ["glc", n] => some (.getOrLoadClass (parseName n))
  | ["gi", n] => some (.getIface (parseName n))
  | ["gli", n] => some (.getOrLoadIface (parseName n))
  | ["lp", n] => some (.loadPkg (parseName n))
  | ["lk", n] => some (.lookPkg (parseName n))
  | ["gfn", n] => some (.getFunc (parseName n))
  | ["sc", n, v] => v.toNat?.map (Op.setConst (parseName n))
  | ["gk", n] => some (.getConst (parseName n))
  | ["eg", n] => some (.ensureGlobal (parseName n))
  | ["sf", f] => f.toNat?.map Op.setFile
  | ["gfile", f] => f.toNat?.map Op.getFile
  | _ => none

def showRes : Res → String
  | .ok => "ok" | .nil => "nil" | .miss => "miss"
  | .hit i => s!"hit:{i}" | .hitI i => s!"hitI:{i}"
  | .hitAny ids => "any:" ++ ",".intercalate (ids.map toString)
  | .errClass => "errClass" | .errIface => "errIface" | .errBoth => "errBoth"
  | .errFunc => "errFunc" | .errConst => "errConst" | .errLoad => "errLoad"

def handle (line : String) : String :=
  match line.splitOn "\t" with
  | ["seq", ops] =>
      match (if ops.isEmpty then some [] else (ops.splitOn "|").mapM parseOp) with
      | some ops => "|".intercalate ((trace init ops).map showRes)
      | none => "bad-op"
  | _ => "bad-op"

def main : IO Unit := Drivers.runDriver handle
