import Model.Reg
import Model.Cpm
import Drivers.Common
/-! `vm_c10`: line protocol over `Model.Reg` (the sequential registry of `runtime.VM`).

  seq <op>|<op>|…        → <res>|<res>|…     (results of the history run from the empty registry)
    ops:  ac <name> <id> <src>   AddClass       (src: `n` = GetFrom()==nil, 0 = source "", k = file k)
          ai <name> <id> <src>   AddInterface
          af <name> <id>         AddFunc
          gc|glc|gi|gli|lp|lk|gfn|gk|eg <name>   GetClass · GetOrLoadClass · GetInterface ·
                                 GetOrLoadInterface · LoadPkg · GetFunc · GetConstant · EnsureGlobalZVal
          sc <name> <v>          SetConstant
          sf|gfile <k>           SetPhpFileCache · GetPhpFileCache
    name `~` = the empty string
    res:  ok nil miss hit:<id> hitI:<id> any:<id>,<id>… errClass errIface errBoth errFunc errConst errLoad

  cpm <dirs> <files> <op>|<op>|…   → <res>|…   (`Model.Cpm`, the class-path manager, from the empty manager)
    dirs / files: `|`-separated absolute paths that exist (sorted, so that the entries of one
                  directory appear in the order `os.ReadDir` lists them)
    ops:  an <namespace> <path>    AddNamespace          res: ok
          fc <class name>          FindClassFile         res: miss | hit:<file>
-/
open Model.Reg

def parseName (s : String) : Name := if s == "~" then [] else s.toList

def parseSrc (s : String) : Option (Option Nat) :=
  if s == "n" then some none else s.toNat?.map some

def parseOp (s : String) : Option Op :=
  match s.splitOn " " with
  | ["ac", n, i, f] => do
      let i ← i.toNat?
      let f ← parseSrc f
      some (.addClass ⟨parseName n, i, f⟩)
  | ["ai", n, i, f] => do
      let i ← i.toNat?
      let f ← parseSrc f
      some (.addIface ⟨parseName n, i, f⟩)
  | ["af", n, i] => i.toNat?.map (Op.addFunc (parseName n))
  | ["gc", n] => some (.getClass (parseName n))
  | ["glc", n] => some (.getOrLoadClass (parseName n))
  | ["gi", n] => some (.getIface (parseName n))
  | ["gli", n] => some (.getOrLoadIface (parseName n))
  | ["lp", n] => some (.loadPkg (parseName n))
  | ["lk", n] => some (.lookPkg (parseName n))
  | ["gfn", n] => some (.getFunc (parseName n))
  | ["sc", n, v] => v.toNat?.map (Op.setConst (parseName n))
  | ["gk", n] => some (.getConst (parseName n))
  | ["eg", n] => some (.ensureGlobal (parseName n))
  | ["sf", f] => f.toNat?.map Op.setFile
  | ["gfile", f] => f.toNat?.map Op.getFile
  | _ => none

def showRes : Res → String
  | .ok => "ok" | .nil => "nil" | .miss => "miss"
  | .hit i => s!"hit:{i}" | .hitI i => s!"hitI:{i}"
  | .hitAny ids => "any:" ++ ",".intercalate (ids.map toString)
  | .errClass => "errClass" | .errIface => "errIface" | .errBoth => "errBoth"
  | .errFunc => "errFunc" | .errConst => "errConst" | .errLoad => "errLoad"

/-! ### `Model.Cpm` over a listed file system -/

def parentOf (p : String) : String :=
  match (p.splitOn "/").reverse with
  | _ :: rest => "/".intercalate rest.reverse
  | [] => ""

def baseOf (p : String) : String := (p.splitOn "/").getLastD ""

/-- first entry of `dir` in `listing` whose name equals `name` case-insensitively -/
def findFold (listing : List String) (dir name : String) : Option String :=
  listing.find? (fun p => parentOf p == dir && (baseOf p).toLower == name.toLower)

def diskOf (dirs files : List String) : Model.Cpm.Disk where
  exist p := dirs.contains p || files.contains p
  sub p part :=
    let q := p ++ "/" ++ part
    if dirs.contains q then some q else findFold dirs p part
  file p cls :=
    let cands := [cls ++ ".zy", cls ++ ".php"]
    match cands.find? (fun fn => files.contains (p ++ "/" ++ fn)) with
    | some fn => some (p ++ "/" ++ fn)
    | none => cands.findSome? (fun fn => findFold files p fn)

/-- `splitClassName` + `splitNamespace`: namespace parts (empty parts dropped), simple name,
and the whole name when it contains a backslash -/
def splitClass (name : String) : List String × String × Option String :=
  let raw := name.splitOn "\\"
  (raw.dropLast.filter (· != ""), raw.getLastD "", if raw.length > 1 then some name else none)

def parseCpmOp (s : String) : Option Model.Cpm.Op :=
  match s.splitOn " " with
  | ["an", n, p] => some (.add ((n.splitOn "\\").filter (· != "")) p)
  | ["fc", n] => let (parts, cls, full) := splitClass n; some (.find parts cls full)
  | _ => none

def showCpmRes : Model.Cpm.Res → String
  | .ok => "ok" | .miss => "miss" | .hit f => "hit:" ++ f

def handle (line : String) : String :=
  match line.splitOn "\t" with
  | ["seq", ops] =>
      match (if ops.isEmpty then some [] else (ops.splitOn "|").mapM parseOp) with
      | some ops => "|".intercalate ((trace init ops).map showRes)
      | none => "bad-op"
  | ["cpm", dirs, files, ops] =>
      let d := diskOf (dirs.splitOn "|") (files.splitOn "|")
      match (if ops.isEmpty then some [] else (ops.splitOn "|").mapM parseCpmOp) with
      | some ops => "|".intercalate ((Model.Cpm.trace d Model.Cpm.init ops).map showCpmRes)
      | none => "bad-op"
  | _ => "bad-op"

def main : IO Unit := Drivers.runDriver handle
