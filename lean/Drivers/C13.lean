import Model.Resp
import Model.Mw
import Model.MwTopo
import Spec.Resp
import Spec.RespLayer
import Drivers.Common
/-! `vm_c13`: line protocol over `Model.Resp` / `Spec.Resp` / `Model.Mw`.

  resp <op>|<op>|…      ops: status c · header k v · cookie kv · write b · json b ·
                             html b c|- · redirect u c · nocontent c · writeheader c
    → status=<n> commits=<n> hdr=<k>:<v>,<v>;… body=<b>      (recorder: every write kept)
  conn <ops>            same, over a real connection (body only if the committed status allows one)
  spec <ops>            same, evaluated by the reference spec
  mw <prio>:<id>:<calls>,…    → space separated trace
  layers <L>^<L>^…      layered request, outermost layer first; L = <commits 0|1>~<calls 0|1>~<ops before $next>~<ops after>
  lconn <L>^…           same, over a real connection
  lspec <L>^… / lspecconn <L>^…   the layered reference (Spec.RespLayer)
  topo <step>,<step>,…  tree of server objects; step = m:<obj>:<prio>:<id> · g:<parent> · r:<obj>
    → the trace of every route in registration order, `|` between routes (derived objects copy)
-/
open Model.Resp

def parseOp (s : String) : Option Op :=
  match s.splitOn " " with
  | ["status", c] => c.toNat?.map Op.status
  | ["header", k, v] => some (.header k v)
  | ["cookie", v] => some (.cookie v)
  | ["write", b] => some (.write b)
  | ["write"] => some (.write "")
  | ["json", b] => some (.json b)
  | ["html", b, "-"] => some (.html b none)
  | ["html", b, c] => c.toNat?.map (fun c => Op.html b (some c))
  | ["redirect", u, c] => c.toNat?.map (Op.redirect u)
  | ["nocontent", c] => c.toNat?.map Op.noContent
  | ["writeheader", c] => c.toNat?.map Op.writeHeader
  | _ => none

def parseOps (s : String) : Option (List Op) :=
  if s.isEmpty then some [] else (s.splitOn "|").mapM parseOp

def showClient (c : Client) : String :=
  let hs := c.hdr.map (fun (k, vs) => k ++ ":" ++ ",".intercalate vs)
  s!"status={c.status} commits={c.commits} hdr={";".intercalate (Drivers.sortStrings hs)} body={c.body}"

def parseEntry (s : String) : Option Model.Mw.Entry :=
  match s.splitOn ":" with
  | [p, i, c] => do
      let p ← p.toInt?
      let i ← i.toNat?
      some { prio := p, id := i, calls := c == "1" }
  | _ => none

def showEv : Model.Mw.Ev → String
  | .pre i => s!"pre{i}" | .post i => s!"post{i}" | .final => "final"

def parseLayer (s : String) : Option Model.RespLayer.Layer :=
  match s.splitOn "~" with
  | [cm, cl, pre, post] => do
      let pre ← parseOps pre
      let post ← parseOps post
      some { commits := cm == "1", calls := cl == "1", pre := pre, post := post }
  | _ => none

def parseLayers (s : String) : Option (List Model.RespLayer.Layer) :=
  if s.isEmpty then some [] else (s.splitOn "^").mapM parseLayer

def parseTopoStep (s : String) : Option Model.MwTopo.Op :=
  match s.splitOn ":" with
  | ["m", o, p, i] => do
      let o ← o.toNat?
      let p ← p.toInt?
      let i ← i.toNat?
      some (.mw o { prio := p, id := i })
  | ["g", p] => p.toNat?.map Model.MwTopo.Op.group
  | ["r", o] => o.toNat?.map Model.MwTopo.Op.route
  | _ => none

def handle (line : String) : String :=
  match line.splitOn "\t" with
  | ["resp", ops] =>
      match parseOps ops with
      | some ops => showClient (Model.Resp.run ops).client
      | none => "bad-op"
  | ["conn", ops] =>
      match parseOps ops with
      | some ops => showClient (Model.Resp.runConn ops).client
      | none => "bad-op"
  | ["spec", ops] =>
      match parseOps ops with
      | some ops => showClient (Spec.Resp.run ops)
      | none => "bad-op"
  | ["layers", ls] =>
      match parseLayers ls with
      | some ls => showClient (Model.RespLayer.serveOn false ls).client
      | none => "bad-op"
  | ["lconn", ls] =>
      match parseLayers ls with
      | some ls => showClient (Model.RespLayer.serveOn true ls).client
      | none => "bad-op"
  | ["lspec", ls] =>
      match parseLayers ls with
      | some ls => showClient (Spec.RespLayer.runOn false ls)
      | none => "bad-op"
  | ["lspecconn", ls] =>
      match parseLayers ls with
      | some ls => showClient (Spec.RespLayer.runOn true ls)
      | none => "bad-op"
  | ["topo", ss] =>
      match (if ss.isEmpty then some [] else (ss.splitOn ",").mapM parseTopoStep) with
      | some ops => "|".intercalate ((Model.MwTopo.traces true ops).map (fun t => " ".intercalate (t.map showEv)))
      | none => "bad-op"
  | ["mw", es] =>
      match (if es.isEmpty then some [] else (es.splitOn ",").mapM parseEntry) with
      | some es => " ".intercalate ((Model.Mw.apply [.final] es).map showEv)
      | none => "bad-op"
  | _ => "bad-op"

def main : IO Unit := Drivers.runDriver handle
