import Model.OMap
import Spec.OMap
import Proofs.C20Sites
import Generated.C20MapRanges
import Generated.C20PkgState
import Generated.C20Resets
import Drivers.Common
/-! `vm_c20`: line protocol over `Model.OMap` / `Spec.OMap`.

  omap <TAB> <op> <op> …       ops: s<key>=<int>  (Set)   d<key>  (Delete)     keys: any text without space/=
  spec <TAB> <ops>             same, evaluated by the reference specification
    → range=<k>:<v>,…  len=<n>  get=<k>:<v|->|…  idx=<i>:<k>:<v>|<i>:-|…  stop=<k>:<v>,…
  bad                          → the regenerated sites / cells / resets / observers / entry-path calls that the
                                 hand-written tables do not put in order (what makes the `decide` obligations
                                 fail), `-` if none
  probes                       → the names of the clean channels the probe table relies on
  where get probes the keys a b c d e, idx probes -1 … len+1, and stop is what a `Range`
  callback sees that returns false at the first key `b`.
-/
open Model.OMap

abbrev K := String
abbrev V := Int

def parseOp (s : String) : Option (Op K V) :=
  if s.startsWith "s" then
    match (s.drop 1).toString.splitOn "=" with
    | [k, v] => v.toInt?.map (fun v => Op.set k v)
    | _ => none
  else if s.startsWith "d" then some (Op.delete (s.drop 1).toString)
  else none

def parseOps (s : String) : Option (List (Op K V)) :=
  if s.isEmpty then some [] else (s.splitOn " ").mapM parseOp

def showPairs (l : List (K × V)) : String := ",".intercalate (l.map (fun p => s!"{p.1}:{p.2}"))

def probeKeys : List K := ["a", "b", "c", "d", "e"]

def showObs (rng : List (K × V)) (len : Nat) (get : K → Option V) (idx : Int → Option (K × V))
    (stop : List (K × V)) : String :=
  let gets := probeKeys.map (fun k => match get k with | some v => s!"{k}:{v}" | none => s!"{k}:-")
  let idxs := (List.range (len + 3)).map (fun (n : Nat) =>
    let i : Int := Int.ofNat n - 1
    match idx i with | some (k, v) => s!"{i}:{k}:{v}" | none => s!"{i}:-")
  s!"range={showPairs rng} len={len} get={"|".intercalate gets} idx={"|".intercalate idxs} stop={showPairs stop}"

def toSpecOp : Op K V → Spec.OMap.Op K V
  | .set k v => .set k v
  | .delete k => .delete k

def showBad : String :=
  let bs := (C20Sites.badSites C20Sites.table C20Sites.KnownSites Generated.C20MapRanges.sites).map
    (fun s => s!"site {s.file} {s.fn} range {s.expr} #{s.ord} ({repr s.summary})")
  let bc := (C20Sites.badCells C20Sites.cells C20Sites.KnownCells Generated.C20PkgState.cells).map
    (fun c => s!"cell {c.pkg}.{c.name}")
  let sh := (Generated.C20MapRanges.shape ++ Generated.C20Resets.shape).map (fun s => s!"shape {s}")
  let br := (C20Sites.badResets C20Sites.cells C20Sites.resetSpecs Generated.C20Resets.uses).map (fun s => s!"reset {s}")
  let up := (C20Sites.unprobed C20Sites.cells C20Sites.probes Generated.C20Resets.uses).map
    (fun u => s!"unprobed observer {u.file} {u.fn} of {u.pkg}.{u.name}")
  let en := match C20Sites.entryDiff Generated.C20Resets.entry C20Sites.expectedEntry with
    | some d => [s!"entry path {d}"]
    | none => []
  let all := bs ++ bc ++ sh ++ br ++ up ++ en
  if all.isEmpty then "-" else " ; ".intercalate all

def handle (line : String) : String :=
  match line.splitOn "\t" with
  | ["bad"] => showBad
  | ["probes"] => " ".intercalate (C20Sites.probeChannels C20Sites.probes)
  | ["omap", ops] =>
      match parseOps ops with
      | some ops =>
          let m := run ops
          showObs (range m) (len m) (get m) (getByIndex m) (rangeUntil m (fun p => p.1 == "b"))
      | none => "bad-op"
  | ["spec", ops] =>
      match parseOps ops with
      | some ops =>
          let s := Spec.OMap.run (ops.map toSpecOp)
          showObs s (Spec.OMap.len s) (Spec.OMap.get s) (Spec.OMap.getByIndex s) (visited (fun p => p.1 == "b") s)
      | none => "bad-op"
  | _ => "bad-op"

def main : IO Unit := Drivers.runDriver handle
