import Model.OMap
import Spec.OMap
import Proofs.C20Sites
import Generated.C20MapRanges
import Generated.C20PkgState
import Generated.C20Resets
import Generated.C20Sorts
import Generated.C20Stacks
import Generated.C20Shared
import Model.SortKeys
import Model.Stack
import Drivers.Common
/-! `vm_c20`: line protocol over `Model.OMap` / `Spec.OMap`.

  omap <TAB> <op> <op> …       ops: s<key>=<int>  (Set)   d<key>  (Delete)     keys: any text without space/=
  spec <TAB> <ops>             same, evaluated by the reference specification
    → range=<k>:<v>,…  len=<n>  get=<k>:<v|->|…  idx=<i>:<k>:<v>|<i>:-|…  stop=<k>:<v>,…
  bad                          → the regenerated sites / cells / resets / observers / entry-path calls that the
                                 hand-written tables do not put in order (what makes the `decide` obligations
                                 fail), `-` if none
  probes                       → the names of the clean channels the probe table relies on
  obstack <TAB> <fn> <fn> …    the regenerated effects of the named Go functions on core.outputBufferStack.buffers,
                               applied in order from the floor → ob_get_level() after each, joined by ","
  sorts                        → one entry per regenerated sort over a map-ordered slice:
                                 <file>|<fn>|<whole|argued|known|TYING>|<comparator text>  joined by " ; "
  ksort <TAB> asc|desc <TAB> <hex> <hex> …   keys as hex bytes, in collection order → the keys in the order
                                 `Model.SortKeys.ksort` rebuilds the array in (hex, space separated; `-` if none)
  where get probes the keys a b c d e, idx probes -1 … len+1, and stop is what a `Range`
  callback sees that returns false at the first key `b`.
-/
open Model.OMap

abbrev K := String
abbrev V := Int

def parseOp (s : String) : Option (Op K V) :=
  if s.startsWith "s" then
    match (s.drop 1).toString.splitOn "=" with
    | [k, v] => v.toInt?.map (fun v => Op.set k v)
    | _ => none
  else if s.startsWith "d" then some (Op.delete (s.drop 1).toString)
  else none

def parseOps (s : String) : Option (List (Op K V)) :=
  if s.isEmpty then some [] else (s.splitOn " ").mapM parseOp

def showPairs (l : List (K × V)) : String := ",".intercalate (l.map (fun p => s!"{p.1}:{p.2}"))

def probeKeys : List K := ["a", "b", "c", "d", "e"]

def showObs (rng : List (K × V)) (len : Nat) (get : K → Option V) (idx : Int → Option (K × V))
    (stop : List (K × V)) : String :=
  let gets := probeKeys.map (fun k => match get k with | some v => s!"{k}:{v}" | none => s!"{k}:-")
  let idxs := (List.range (len + 3)).map (fun (n : Nat) =>
    let i : Int := Int.ofNat n - 1
    match idx i with | some (k, v) => s!"{i}:{k}:{v}" | none => s!"{i}:-")
  s!"range={showPairs rng} len={len} get={"|".intercalate gets} idx={"|".intercalate idxs} stop={showPairs stop}"

def toSpecOp : Op K V → Spec.OMap.Op K V
  | .set k v => .set k v
  | .delete k => .delete k


/-! ### keys as byte strings (hex on the wire: keys may contain spaces) -/

def hexVal (c : Char) : Option Nat :=
  if '0' ≤ c ∧ c ≤ '9' then some (c.toNat - '0'.toNat)
  else if 'a' ≤ c ∧ c ≤ 'f' then some (c.toNat - 'a'.toNat + 10)
  else none

def parseHexList : List Char → Option (List Nat)
  | [] => some []
  | [_] => none
  | a :: b :: r => do
    let x ← hexVal a
    let y ← hexVal b
    let t ← parseHexList r
    pure ((x * 16 + y) :: t)

/-- `.` stands for the empty key -/
def parseKey (s : String) : Option (List Nat) := if s == "." then some [] else parseHexList s.toList

def hexDigit (n : Nat) : Char := if n < 10 then Char.ofNat (n + '0'.toNat) else Char.ofNat (n - 10 + 'a'.toNat)

def showKey (k : List Nat) : String :=
  if k.isEmpty then "." else String.ofList (k.flatMap (fun b => [hexDigit (b / 16), hexDigit (b % 16)]))

def sortStatus (s : Model.Sites.SortFact) : String :=
  if s.cmp == .whole then "whole"
  else if C20Sites.sortOK C20Sites.sortArgued [] s then "argued"
  else if C20Sites.sortOK [] C20Sites.KnownSorts s then "known"
  else "TYING"

def showSorts : String :=
  let l := Generated.C20Sorts.sorts.map (fun s => s!"{s.file}|{s.fn}|{sortStatus s}|{s.cmpText}")
  if l.isEmpty then "-" else " ; ".intercalate l

def showBad : String :=
  let bs := (C20Sites.badSites C20Sites.table C20Sites.KnownSites Generated.C20MapRanges.sites).map
    (fun s => s!"site {s.file} {s.fn} range {s.expr} #{s.ord} ({repr s.summary})")
  let bc := (C20Sites.badCells C20Sites.cells C20Sites.KnownCells Generated.C20PkgState.cells).map
    (fun c => s!"cell {c.pkg}.{c.name}")
  let sh := (Generated.C20MapRanges.shape ++ Generated.C20Resets.shape).map (fun s => s!"shape {s}")
  let br := (C20Sites.badResets C20Sites.cells C20Sites.resetSpecs Generated.C20Resets.uses).map (fun s => s!"reset {s}")
  let up := (C20Sites.unprobed C20Sites.cells C20Sites.probes Generated.C20Resets.uses).map
    (fun u => s!"unprobed observer {u.file} {u.fn} of {u.pkg}.{u.name}")
  let en := match C20Sites.entryDiff Generated.C20Resets.entry C20Sites.expectedEntry with
    | some d => [s!"entry path {d}"]
    | none => []
  let ts := (C20Sites.tyingSorts C20Sites.sortArgued C20Sites.KnownSorts Generated.C20Sorts.sorts).map
    (fun s => s!"tying sort {s.file} {s.fn}: {s.sorter} of {s.target} (collected by range {s.expr}) compares '{s.cmpText}'")
  let nf := (C20Sites.sortSitesWithoutFact Generated.C20MapRanges.sites Generated.C20Sorts.sorts).map
    (fun s => s!"sort not found {s.file} {s.fn} range {s.expr}")
  let ss := Generated.C20Sorts.shape.map (fun s => s!"shape {s}")
  let st := (Model.Stack.unsafeEffects Generated.C20Stacks.containers).map
    (fun u => s!"process-wide slice {u.1} can be taken below its floor by {u.2.1} {u.2.2}")
  let sts := Generated.C20Stacks.shape.map (fun s => s!"shape {s}")
  let sr := (C20Sites.badShared C20Sites.cells C20Sites.KnownCells C20Sites.sharedArgued Generated.C20Shared.refs).map
    (fun r => s!"mutable reference handed out of package-level variable {r.pkg}.{r.name} ({r.referent}: {", ".intercalate r.mutableFields} assigned; used as a value at {r.escapes} place(s))")
  let srs := (C20Sites.staleShared C20Sites.sharedArgued Generated.C20Shared.refs).map (fun s => s!"stale shared-reference entry {s}") ++
    Generated.C20Shared.shape.map (fun s => s!"shape {s}")
  let all := bs ++ bc ++ sh ++ br ++ up ++ en ++ ts ++ nf ++ ss ++ st ++ sts ++ sr ++ srs
  if all.isEmpty then "-" else " ; ".intercalate all

def obContainer : Option Model.Stack.Container :=
  Generated.C20Stacks.containers.find? (fun c => c.ty == "outputBufferStack" && c.field == "buffers")

def obLevels (fns : List String) : String :=
  match obContainer with
  | none => "no-container"
  | some c =>
    let step (n : Nat) (fn : String) : Nat := (c.effects.filter (·.fn == fn)).foldl (fun n e => e.op.step n) n
    let r := fns.foldl (fun (acc : Nat × List String) fn =>
      let n' := step acc.1 fn
      (n', acc.2 ++ [toString (Model.Stack.level n')])) (c.floor, [])
    ",".intercalate r.2

def handle (line : String) : String :=
  match line.splitOn "\t" with
  | ["bad"] => showBad
  | ["obstack", fns] => obLevels (fns.splitOn " ")
  | ["probes"] => " ".intercalate (C20Sites.probeChannels C20Sites.probes)
  | ["sorts"] => showSorts
  | ["ksort", dir, keys] =>
      match (if keys.isEmpty then some [] else (keys.splitOn " ").mapM parseKey) with
      | some ks =>
          let r := Model.SortKeys.ksort (dir == "desc") ks
          if r.isEmpty then "-" else " ".intercalate (r.map showKey)
      | none => "bad-op"
  | ["omap", ops] =>
      match parseOps ops with
      | some ops =>
          let m := run ops
          showObs (range m) (len m) (get m) (getByIndex m) (rangeUntil m (fun p => p.1 == "b"))
      | none => "bad-op"
  | ["spec", ops] =>
      match parseOps ops with
      | some ops =>
          let s := Spec.OMap.run (ops.map toSpecOp)
          showObs s (Spec.OMap.len s) (Spec.OMap.get s) (Spec.OMap.getByIndex s) (visited (fun p => p.1 == "b") s)
      | none => "bad-op"
  | _ => "bad-op"

def main : IO Unit := Drivers.runDriver handle
