import Generated.C04Precedence
import Drivers.Common
/-! `vm_c04`: line protocol over `Model.Prec` with the regenerated table.

  table                → reenter=<n|-> cast=<n|-> levels=<shape>:<ops,>/<sep>;… names=<name,>
  min <sexpr>          → tokens (a<n> · o<id> · ( · ))
  full <sexpr>         → tokens
  parse <tokens>       → <sexpr> | fail | oof | bad-op
  sexpr: a<n> | (b <o> L R) | (u <o> E) | (t <q> C T F)
-/
open Model.Prec Generated.C04

def showExpr : Expr → String
  | .atom n => s!"a{n}"
  | .bin o l r => s!"(b {o} {showExpr l} {showExpr r})"
  | .un o e => s!"(u {o} {showExpr e})"
  | .tern q c t f => s!"(t {q} {showExpr c} {showExpr t} {showExpr f})"

def showTok : Tok → String
  | .atom n => s!"a{n}"
  | .op o => s!"o{o}"
  | .lp => "("
  | .rp => ")"

def showToks (ts : List Tok) : String := " ".intercalate (ts.map showTok)

def parseTok (s : String) : Option Tok :=
  if s == "(" then some .lp
  else if s == ")" then some .rp
  else if s.startsWith "a" then (s.drop 1).toNat?.map Tok.atom
  else if s.startsWith "o" then (s.drop 1).toNat?.map Tok.op
  else none

/-- s-expression reader over whitespace-separated words (parentheses are separate words) -/
def readExpr : Nat → List String → Option (Expr × List String)
  | 0, _ => none
  | f+1, ws =>
    match ws with
    | "(" :: "b" :: o :: rest => do
        let o ← o.toNat?
        let (l, r1) ← readExpr f rest
        let (r, r2) ← readExpr f r1
        match r2 with
        | ")" :: r3 => some (.bin o l r, r3)
        | _ => none
    | "(" :: "u" :: o :: rest => do
        let o ← o.toNat?
        let (e, r1) ← readExpr f rest
        match r1 with
        | ")" :: r2 => some (.un o e, r2)
        | _ => none
    | "(" :: "t" :: q :: rest => do
        let q ← q.toNat?
        let (c, r1) ← readExpr f rest
        let (t, r2) ← readExpr f r1
        let (e, r3) ← readExpr f r2
        match r3 with
        | ")" :: r4 => some (.tern q c t e, r4)
        | _ => none
    | w :: rest => if w.startsWith "a" then (w.drop 1).toNat?.map (fun n => (Expr.atom n, rest)) else none
    | [] => none

def words (s : String) : List String := (s.splitOn " ").filter (· ≠ "")

def readE (s : String) : Option Expr :=
  let ws := words ((s.replace "(" " ( ").replace ")" " ) ")
  match readExpr (ws.length + 1) ws with
  | some (e, []) => some e
  | _ => none

def shapeName : Shape → String
  | .binL => "binL" | .binR => "binR" | .prefix => "prefix" | .tern => "tern"

def showTable : String :=
  let lv := table.levels.map (fun L => s!"{shapeName L.shape}:{",".intercalate (L.ops.map toString)}/{L.sep}")
  let re := match table.reenter with | some a => toString a | none => "-"
  let ca := match castLevel with | some a => toString a | none => "-"
  s!"reenter={re} cast={ca} levels={";".intercalate lv} names={",".intercalate opNames}"

def handle (line : String) : String :=
  if line == "table" then showTable
  else if line.startsWith "min " then
    match readE (line.drop 4).toString with
    | some e => showToks (printMin table e)
    | none => "bad-op"
  else if line.startsWith "full " then
    match readE (line.drop 5).toString with
    | some e => showToks (printFull table e)
    | none => "bad-op"
  else if line.startsWith "parse " then
    match (words (line.drop 6).toString).mapM parseTok with
    | some ts =>
      match parse table (40 * ts.length + 64) 0 ts with
      | .ok e [] => showExpr e
      | .ok _ _ => "fail"
      | .fail => "fail"
      | .oof => "oof"
    | none => "bad-op"
  else "bad-op"

def main : IO Unit := Drivers.runDriver handle
