import Model.Hier
import Drivers.Common
/-! `vm_c08`: line protocol over `Model.Hier`.

  <kind>\t<classes>\t<ifaces>
    classes: `;`-separated  `<name>:<ext|->:<impl,impl>:<n/a,n/a instance methods>:<n/a,… static methods>`
    ifaces : `;`-separated  `<name>:<ext,ext>:<n/a,…>`
    class names are 10+index, interface names 100+index, in list order.
  kind `rel`   → `io=…|it=…|pa=…|pt=…|ca=…|dm=…|pp=…|sf=…|st=…|ss=…`
       `like`  → `lk=…`
       `known` → `xf=…|vf=…|zf=…`
       `exc`   → `io=…|pa=…|ca=…`  (graph contains Exception = 1, RuntimeException = 3, Throwable = 0)
  A table is rows joined by `.`, one character per cell: `1`/`0`/`F` (fuel)/`E` (error) for subtype tests,
  the index of the class whose method ran or `-` for calls.

  Probe methods (same numbering in harness/c08): 1000 + kind*100 + classIndex*10 + j, `j` indexing the base
  method names [0, 1, 20, 21].
-/
open Model.Hier

def baseNames : List Name := [0, 1, 20, 21]

def probe (kind k j : Nat) : Name := 1000 + kind * 100 + k * 10 + j

def splitNE (s : String) (sep : String) : List String :=
  if s.isEmpty then [] else s.splitOn sep

def parseMeth (s : String) : Option Meth :=
  match s.splitOn "/" with
  | [n, a] => do some { name := (← n.toNat?), arity := (← a.toNat?) }
  | _ => none

def parseNats (s : String) : Option (List Nat) := (splitNE s ",").mapM (·.toNat?)
def parseMeths (s : String) : Option (List Meth) := (splitNE s ",").mapM parseMeth

def parseCls (s : String) : Option Cls :=
  match s.splitOn ":" with
  | [n, e, i, m, sm] => do
      let n ← n.toNat?
      let e ← (if e == "-" then some none else e.toNat?.map some)
      some { name := n, ext := e, impl := (← parseNats i), meths := (← parseMeths m), smeths := (← parseMeths sm) }
  | _ => none

def parseIfc (s : String) : Option Ifc :=
  match s.splitOn ":" with
  | [n, e, m] => do some { name := (← n.toNat?), ext := (← parseNats e), meths := (← parseMeths m) }
  | _ => none

def parseGraph (cs is : String) : Option Graph := do
  some { classes := (← (splitNE cs ";").mapM parseCls), ifaces := (← (splitNE is ";").mapM parseIfc) }

def showR : R → String
  | .yes => "1" | .no => "0" | .fuel => "F" | .err => "E"

def clsDigit (c : Cls) : String := toString (c.name - 10)

def table (rows : List (List String)) : String := ".".intercalate (rows.map String.join)

def typeNames (G : Graph) : List Name := G.classes.map (·.name) ++ G.ifaces.map (·.name)

def relTable (G : Graph) (k : Kind) : String :=
  table (G.classes.map fun d => (typeNames G).map fun t => showR (isInstanceOf G k d t))

/-- rows only for the user classes (names ≥ 10); the std classes Exception (1), RuntimeException (3) and the
interface Throwable (0) are part of the graph and of the type list -/
def relTableUser (G : Graph) (k : Kind) : String :=
  table ((G.classes.filter (fun d => d.name ≥ 10)).map fun d => (typeNames G).map fun t => showR (isInstanceOf G k d t))

def idxs (G : Graph) : List Nat := List.range G.classes.length

/-- `$o->probe()` must resolve to the probe written in class `k`; then `body` says what the probe does -/
def viaProbe (G : Graph) (d : Cls) (p : Name) (body : Cls → String) : String :=
  match getMethod G d p with
  | .found (_, k, _) => body k
  | _ => "-"

def showFound {α : Type} (w : Walk α) (cls : α → Cls) : String :=
  match w with
  | .found a => clsDigit (cls a)
  | _ => "-"

def jIdx : List Nat := [0, 1, 2, 3]
def jStat : List Nat := [2, 3]

def nameAt (j : Nat) : Name := baseNames.getD j 0

def dmTable (G : Graph) : String :=
  table (G.classes.map fun d => baseNames.map fun m => showFound (getMethod G d m) (fun r => r.2.1))

/-- `$o->p<k>_<j>()`, body `parent::<name j>(1,2)` -/
def ppTable (G : Graph) : String :=
  table (G.classes.map fun d => (idxs G).flatMap fun k => jIdx.map fun j =>
    viaProbe G d (probe 0 k j) fun kc => showFound (parentCall G (Ctx.ofMethod d kc) kc.name (nameAt j)) (fun r => r.1))

/-- `$o->f<k>_<j>()`, body `self::<static j>(1,2)` -/
def sfTable (G : Graph) : String :=
  table (G.classes.map fun d => (idxs G).flatMap fun k => jStat.map fun j =>
    viaProbe G d (probe 1 k j) fun kc => showFound (selfCall G kc.name (nameAt j)) (fun r => r.1))

/-- `$o->t<k>_<j>()`, body `static::<static j>(1,2)` -/
def stTable (G : Graph) : String :=
  table (G.classes.map fun d => (idxs G).flatMap fun k => jStat.map fun j =>
    viaProbe G d (probe 2 k j) fun _ => showFound (staticKwCall G (Ctx.ofObject d) (nameAt j)) (fun r => r.1))

/-- `D::u<k>_<j>()`, static, body `static::<static j>(1,2)` -/
def ssTable (G : Graph) : String :=
  table (G.classes.map fun d => (idxs G).flatMap fun k => jStat.map fun j =>
    match namedStaticCall G d (probe 3 k j) with
    | .found (f, _) => showFound (staticKwCall G (Ctx.afterNamed d f) (nameAt j)) (fun r => r.1)
    | _ => "-")

/-- known stream. `$o->x<k>_<j>()`: `self::y<k>_<j>()`; `y<k>_<j>` static: `static::<static j>(1,2)` -/
def xfTable (G : Graph) : String :=
  table (G.classes.map fun d => (idxs G).flatMap fun k => jStat.map fun j =>
    viaProbe G d (probe 5 k j) fun kc =>
      match selfCall G kc.name (probe 6 k j) with
      | .found (f, _) => showFound (staticKwCall G (Ctx.afterNamed kc f) (nameAt j)) (fun r => r.1)
      | _ => "-")

/-- known stream. `D::v<k>_<j>()` static: `parent::y<parent of k>_<j>()` -/
def vfTable (G : Graph) : String :=
  table (G.classes.map fun d => (idxs G).flatMap fun k => jStat.map fun j =>
    match namedStaticCall G d (probe 8 k j) with
    | .found (f, _) =>
      let ctx1 := Ctx.afterNamed d f
      match f.ext with
      | none => "-"
      | some pn =>
        match parentCall G ctx1 f.name (probe 6 (pn - 10) j) with
        | .found (a, _, _) => showFound (staticKwCall G (ctx1.afterParent a) (nameAt j)) (fun r => r.1)
        | _ => "-"
    | _ => "-")

/-- known stream. `$o->z<k>_<j>()`: `self::<instance j>(1,2)` — `self::` only resolves static methods -/
def zfTable (G : Graph) : String :=
  table (G.classes.map fun d => (idxs G).flatMap fun k => [0, 1].map fun j =>
    viaProbe G d (probe 7 k j) fun kc => showFound (selfCall G kc.name (nameAt j)) (fun r => r.1))

def likeTable (G : Graph) : String :=
  table (G.classes.map fun d => (typeNames G).map fun t =>
    match like G d t with
    | some true => "1" | some false => "0" | none => "F")

def handle (line : String) : String :=
  match line.splitOn "\t" with
  | [kind, cs, is] =>
    match parseGraph cs is with
    | none => "bad-graph"
    | some G =>
      if kind == "rel" then
        s!"io={relTable G .op}|it={relTable G .op}|pa={relTable G .param}|pt={relTable G .this}|ca={relTable G .thrown}|dm={dmTable G}|pp={ppTable G}|sf={sfTable G}|st={stTable G}|ss={ssTable G}"
      else if kind == "like" then s!"lk={likeTable G}"
      else if kind == "exc" then s!"io={relTableUser G .op}|pa={relTableUser G .param}|ca={relTableUser G .thrown}"
      else if kind == "known" then s!"xf={xfTable G}|vf={vfTable G}|zf={zfTable G}"
      else "bad-kind"
  | _ => "bad-op"

def main : IO Unit := Drivers.runDriver handle
