import Model.Heap
import Spec.Val
import Drivers.C06RS
import Drivers.Common
/-! `vm_c06`: line protocol over `Model.Heap` / `Spec.Val`.

  <mode>\t<nv>\t<tokens>     mode: fixed | pinned | elided | shallow | spec | cfg:<r><c><i>[<b>[<d>]] (0/1 flags)
  tokens (space separated, prefix notation, statements separated by `;`):
    stmt  := setVar x RV | setProp x p RV | setIdx PLACE KOPT RV | unset PLACE KEY
           | meth PLACE M | new x | clone x y | ref x y
    PLACE := v x | p x p | i PLACE KEY
    KEY   := ki n | ks n          KOPT := ka | KEY
    RV    := int n | null | lit LIT | rd PLACE | call PLACE | str WORD | upd PLACE UPD
    UPD   := concat WORD | add n | mul n | coalesce n          WORD := [a-z0-9]+ (a string's characters)
    LIT   := li n | ln | ls WORD | lr PLACE | la cnt (LKEY LIT)*        LKEY := kp | ki n | ks n
    M     := push n | pop | shift | unshift n | sort
  → one rendering of all names per statement, joined by `|`; a statement outside the
    modelled fragment is rendered with a leading `!`.
  rendering: variables joined by a space; array `[k=>v,…]` (k = position, n or k<s>);
  object held by a variable `o<h>{p0;p1}`; object inside an array `o<h>`.

  rs\t<cfg>\t<nv>\t<nr>\t<tokens>   `Model.RefSlot` / `Spec.RefVal` (references to array slots);
    cfg: counted | tree | sticky | spec
    stmt := lit x cnt n… | copy x y | store x i n | bind var|param r x i | wr r n | release r
  → per statement the arrays of all variables, joined by a space; `!` as above.
-/
open Model.Heap

abbrev P (α : Type) := List String → Option (α × List String)

def pNat : P Nat
  | t :: r => t.toNat?.map (·, r)
  | [] => none

def pInt : P Int
  | t :: r => t.toInt?.map (·, r)
  | [] => none

def pKey : P IKey
  | "ki" :: r => (pNat r).map (fun (n, r) => (.int n, r))
  | "ks" :: r => (pNat r).map (fun (n, r) => (.str n, r))
  | _ => none

def pKOpt : P (Option IKey)
  | "ka" :: r => some (none, r)
  | ts => (pKey ts).map (fun (k, r) => (some k, r))

partial def pPlace : P Place
  | "v" :: r => (pNat r).map (fun (x, r) => (.var x, r))
  | "p" :: r => do
    let (x, r) ← pNat r
    let (p, r) ← pNat r
    some (.prop x p, r)
  | "i" :: r => do
    let (b, r) ← pPlace r
    let (k, r) ← pKey r
    some (.idx b k, r)
  | _ => none

def pLKey : P Key
  | "kp" :: r => some (.pos, r)
  | "ki" :: r => (pNat r).map (fun (n, r) => (.int n, r))
  | "ks" :: r => (pNat r).map (fun (n, r) => (.str n, r))
  | _ => none

mutual
partial def pLit : P Lit
  | "li" :: r => (pInt r).map (fun (n, r) => (.int n, r))
  | "ln" :: r => some (.null, r)
  | "ls" :: w :: r => some (.str (w.toList.map Char.toNat), r)
  | "lr" :: r => (pPlace r).map (fun (p, r) => (.rd p, r))
  | "la" :: r => do
    let (c, r) ← pNat r
    let (items, r) ← pItems c r
    some (.arr items, r)
  | _ => none
partial def pItems : Nat → P (List (Key × Lit))
  | 0, r => some ([], r)
  | n + 1, r => do
    let (k, r) ← pLKey r
    let (l, r) ← pLit r
    let (rest, r) ← pItems n r
    some ((k, l) :: rest, r)
end

def pWord : P (List Nat)
  | w :: r => some (w.toList.map Char.toNat, r)
  | [] => none

def pUpd : P Upd
  | "concat" :: r => (pWord r).map (fun (w, r) => (.concat w, r))
  | "add" :: r => (pInt r).map (fun (n, r) => (.add n, r))
  | "mul" :: r => (pInt r).map (fun (n, r) => (.mul n, r))
  | "coalesce" :: r => (pInt r).map (fun (n, r) => (.coalesce n, r))
  | _ => none

def pRV : P RV
  | "str" :: w :: r => some (.str (w.toList.map Char.toNat), r)
  | "upd" :: r => do
    let (p, r) ← pPlace r
    let (u, r) ← pUpd r
    some (.upd p u, r)
  | "int" :: r => (pInt r).map (fun (n, r) => (.int n, r))
  | "null" :: r => some (.null, r)
  | "lit" :: r => (pLit r).map (fun (l, r) => (.lit l, r))
  | "rd" :: r => (pPlace r).map (fun (p, r) => (.rd p, r))
  | "call" :: r => (pPlace r).map (fun (p, r) => (.call p, r))
  | _ => none

def pMeth : P Meth
  | "push" :: r => (pInt r).map (fun (n, r) => (.push n, r))
  | "pop" :: r => some (.pop, r)
  | "shift" :: r => some (.shift, r)
  | "unshift" :: r => (pInt r).map (fun (n, r) => (.unshift n, r))
  | "sort" :: r => some (.sort, r)
  | _ => none

def pOp : P Op
  | "setVar" :: r => do
    let (x, r) ← pNat r
    let (v, r) ← pRV r
    some (.setVar x v, r)
  | "setProp" :: r => do
    let (x, r) ← pNat r
    let (p, r) ← pNat r
    let (v, r) ← pRV r
    some (.setProp x p v, r)
  | "setIdx" :: r => do
    let (b, r) ← pPlace r
    let (k, r) ← pKOpt r
    let (v, r) ← pRV r
    some (.setIdx b k v, r)
  | "unset" :: r => do
    let (b, r) ← pPlace r
    let (k, r) ← pKey r
    some (.unset b k, r)
  | "meth" :: r => do
    let (b, r) ← pPlace r
    let (m, r) ← pMeth r
    some (.meth b m, r)
  | "new" :: r => (pNat r).map (fun (x, r) => (.new x, r))
  | "clone" :: r => do
    let (x, r) ← pNat r
    let (y, r) ← pNat r
    some (.clone x y, r)
  | "ref" :: r => do
    let (x, r) ← pNat r
    let (y, r) ← pNat r
    some (.ref x y, r)
  | _ => none

partial def pOps (ts : List String) : Option (List Op) :=
  match ts with
  | [] => some []
  | _ =>
    match pOp ts with
    | some (o, []) => some [o]
    | some (o, ";" :: r) => (pOps r).map (o :: ·)
    | _ => none

/-! rendering -/

def showKey (pos : Nat) : Key → String
  | .pos => toString pos
  | .int n => toString n
  | .str s => s!"k{s}"

def showScalar : Scalar → String
  | .null => "null"
  | .int n => toString n
  | .inst h => s!"o{h}"
  | .str cs => String.ofList (cs.map Char.ofNat)

mutual
partial def showVal : Val → String
  | .sc s => showScalar s
  | .arr _ kids => "[" ++ showSlots 0 kids ++ "]"
partial def showSlots (i : Nat) : List Slot → String
  | [] => ""
  | (_, k, v) :: r => showKey i k ++ "=>" ++ showVal v ++ "," ++ showSlots (i + 1) r
end

def showTop (s : St) (v : Val) : String :=
  match v with
  | .sc (.inst h) =>
    match s.objs[h]? with
    | some ps => s!"o{h}" ++ "{" ++ ";".intercalate (ps.map showVal) ++ "}"
    | none => s!"o{h}"
  | v => showVal v

def showSt (s : St) : String :=
  " ".intercalate ((List.range s.names.length).map (fun x =>
    match s.varVal? x with
    | some v => showTop s v
    | none => "?"))

open Spec.Val in
mutual
partial def showTree : Tree → String
  | .sc s => showScalar s
  | .arr kids => "[" ++ showEntries 0 kids ++ "]"
partial def showEntries (i : Nat) : List Entry → String
  | [] => ""
  | (k, v) :: r => showKey i k ++ "=>" ++ showTree v ++ "," ++ showEntries (i + 1) r
end

def showTopS (s : Spec.Val.St) (v : Spec.Val.Tree) : String :=
  match v with
  | .sc (.inst h) =>
    match s.objs[h]? with
    | some ps => s!"o{h}" ++ "{" ++ ";".intercalate (ps.map showTree) ++ "}"
    | none => s!"o{h}"
  | v => showTree v

def showStS (s : Spec.Val.St) : String :=
  " ".intercalate ((List.range s.names.length).map (fun x =>
    match s.varVal? x with
    | some v => showTopS s v
    | none => "?"))

def runModel (cfg : Cfg) (nv : Nat) (ops : List Op) : String :=
  let (_, out) := ops.foldl (fun (acc : St × List String) op =>
    let (s, out) := acc
    match stepOpt cfg s op with
    | some s' => (s', showSt s' :: out)
    | none => (s, ("!" ++ showSt s) :: out)) (init nv, [])
  "|".intercalate out.reverse

def runSpec (nv : Nat) (ops : List Op) : String :=
  let (_, out) := ops.foldl (fun (acc : Spec.Val.St × List String) op =>
    let (s, out) := acc
    match Spec.Val.stepOpt s op with
    | some s' => (s', showStS s' :: out)
    | none => (s, ("!" ++ showStS s) :: out)) (Spec.Val.init nv, [])
  "|".intercalate out.reverse

def parseCfg (m : String) : Option Cfg :=
  match m with
  | "fixed" => some .fixed
  | "pinned" => some .pinned
  | "elided" => some .elided
  | "shallow" => some .shallow
  | _ =>
    match m.splitOn ":" with
    | ["cfg", fl] =>
      match fl.toList with
      | [a, b, c] => some ⟨a == '1', b == '1', c == '1', true, true⟩
      | [a, b, c, d] => some ⟨a == '1', b == '1', c == '1', d == '1', true⟩
      | [a, b, c, d, e] => some ⟨a == '1', b == '1', c == '1', d == '1', e == '1'⟩
      | _ => none
    | _ => none

def handle (line : String) : String :=
  match line.splitOn "\t" with
  | ["rs", cfg, nv, nr, toks] => RS.handle cfg nv nr toks
  | [mode, nv, toks] =>
    match nv.toNat?, pOps ((toks.splitOn " ").filter (· ≠ "")) with
    | some nv, some ops =>
      if mode == "spec" then runSpec nv ops
      else match parseCfg mode with
        | some cfg => runModel cfg nv ops
        | none => "bad-mode"
    | _, _ => "bad-op"
  | _ => "bad-line"

def main : IO Unit := Drivers.runDriver handle
