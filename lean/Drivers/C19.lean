import Model.Gen
import Spec.Gen
import Drivers.Common
/-! `vm_c19`: line protocol over `Model.Gen` / `Spec.Gen`.

  gen<TAB><classes><TAB><ops>      → outcomes of `Model.Gen.run` (the code as it is now)
  shared<TAB><classes><TAB><ops>   → outcomes of `Model.Gen.runShared` (the code before the fix)
  spec<TAB><classes><TAB><ops>     → outcomes of `Spec.Gen.run`

  classes : `;`-separated, each `<params>/<props>`; params = `,`-list of parameter name ids,
            props = `,`-list of `-` (untyped) | `g<N>` (type parameter N) | <ty>
  ty      : int | string | array | c<N>
  val     : int | string | array | float | bool | null | o<N>
  ops     : `;`-separated: `inst C ty,ty` · `raw C` · `ctor C ty,ty P val` · `write I P val` · `read I P` ·
            `call I N val` (method parameter declared with type parameter N) ·
            `instat S C ty,ty` · `rawat S C` · `ctorat S C ty,ty P val` (the same `new`, executed through AST node S)
  answer  : space separated: new<I> · crash · ok · rej · noinst · noclass · read · nomember
-/
open Model.Gen

def parseTagged (tag : String) (s : String) : Option Nat :=
  if s.startsWith tag then (s.drop tag.length).toNat? else none

def parseTy (s : String) : Option Ty :=
  match s with
  | "int" => some .int
  | "string" => some .string
  | "array" => some .array
  | _ => (parseTagged "c" s).map Ty.cls

def parseVal (s : String) : Option Val :=
  match s with
  | "int" => some .int
  | "string" => some .string
  | "array" => some .array
  | "float" => some .float
  | "bool" => some .bool
  | "null" => some .null
  | _ => (parseTagged "o" s).map Val.obj

def parsePTy (s : String) : Option PTy :=
  match s with
  | "-" => some .untyped
  | _ =>
    match parseTagged "g" s with
    | some n => some (.generic n)
    | none => (parseTy s).map PTy.conc

def parseList {α : Type} (f : String → Option α) (s : String) : Option (List α) :=
  if s.isEmpty then some [] else (s.splitOn ",").mapM f

def parseClass (s : String) : Option Class :=
  match s.splitOn "/" with
  | [ps, pr] => do
      let ps ← parseList (·.toNat?) ps
      let pr ← parseList parsePTy pr
      some ⟨ps, pr⟩
  | _ => none

def parseOp (s : String) : Option Op :=
  match s.splitOn " " with
  | ["inst", c, as] => do some (.inst (← c.toNat?) (← parseList parseTy as))
  | ["inst", c] => do some (.inst (← c.toNat?) [])
  | ["raw", c] => do some (.instRaw (← c.toNat?))
  | ["ctor", c, as, p, v] => do some (.instCtor (← c.toNat?) (← parseList parseTy as) (← p.toNat?) (← parseVal v))
  | ["write", i, p, v] => do some (.write (← i.toNat?) (← p.toNat?) (← parseVal v))
  | ["read", i, p] => do some (.read (← i.toNat?) (← p.toNat?))
  | ["call", i, n, v] => do some (.call (← i.toNat?) (← n.toNat?) (← parseVal v))
  | ["instat", s, c, as] => do some (.instAt (← s.toNat?) (← c.toNat?) (← parseList parseTy as))
  | ["instat", s, c] => do some (.instAt (← s.toNat?) (← c.toNat?) [])
  | ["rawat", s, c] => do some (.instRawAt (← s.toNat?) (← c.toNat?))
  | ["ctorat", s, c, as, p, v] =>
    do some (.instCtorAt (← s.toNat?) (← c.toNat?) (← parseList parseTy as) (← p.toNat?) (← parseVal v))
  | _ => none

def parseSemis {α : Type} (f : String → Option α) (s : String) : Option (List α) :=
  if s.isEmpty then some [] else (s.splitOn ";").mapM f

def showOut : Out → String
  | .created i => s!"new{i}"
  | .crash => "crash"
  | .accepted => "ok"
  | .rejected => "rej"
  | .noInst => "noinst"
  | .noClass => "noclass"
  | .readOk => "read"
  | .noMember => "nomember"

def showOuts (l : List Out) : String := " ".intercalate (l.map showOut)

def handle (line : String) : String :=
  match line.splitOn "\t" with
  | [cmd, cs, ops] =>
    match parseSemis parseClass cs, parseSemis parseOp ops with
    | some cs, some ops =>
      match cmd with
      | "gen" => showOuts (Model.Gen.run cs ops).2
      | "shared" => showOuts (Model.Gen.runShared cs ops).2
      | "spec" => showOuts (Spec.Gen.run cs ops)
      | _ => "bad-cmd"
    | _, _ => "bad-op"
  | _ => "bad-line"

def main : IO Unit := Drivers.runDriver handle
