import Model.Conv
import Model.ConvReg
import Model.ConvBuf
import Generated.C17GoKinds
import Drivers.Common
/-! `vm_c17`: line protocol over `Model.Conv`, instantiated with the regenerated kind tables
(`Generated.C17GoKinds`) and Lean's IEEE doubles for the float primitives.

  call <fn|method> <params> <results> <body> <args> <hints>
      params/results : `kind` or `kind#name`, comma separated (may be empty)
      body           : `none` | `arg <i>` | `const <goval>,…`
      args           : script values, comma separated: n · b0 · b1 · i<dec> · f<hex16> · s<hex>
      hints          : `<hex>=<hex16>|-` comma separated: strconv.ParseFloat results for string arguments
    → recv=<-|goval;…> res=<ok -|ok sval|throw e|panic p>
  gen <convert|index> <type> <sval> <hints>
    → ok goval | throw e | panic p
  hist <entries> <ops> <hints>
      entries : `owner|meth|fn|method|params|results` separated by `;` (the Go side: what each callee is)
      ops     : `R|owner` (a registration) or `C|owner|meth|body|args` (a call) separated by `;`
    → the answers of `Model.Conv.runPlain` to the call operations, in order, separated by ` ## `
      (`unregistered` for a call of a callee whose owner has not been registered)

  goval : `<type>:<payload>`; payload i<dec> · f<hex16> · b0 · b1 · s<strterm> · o
  strterm : L<hex> · G14:<hex16> · G:<hex16> · V32:<hex16> · V64:<hex16> · O
-/
open Model.Conv

namespace C17Drv

def hexDigit (c : Char) : Option Nat :=
  if '0' ≤ c && c ≤ '9' then some (c.toNat - '0'.toNat)
  else if 'a' ≤ c && c ≤ 'f' then some (c.toNat - 'a'.toNat + 10)
  else none

def hexNat (s : String) : Option Nat :=
  s.toList.foldlM (fun acc c => (hexDigit c).map (fun d => acc * 16 + d)) 0

def hexBytesAux : List Char → List UInt8 → Option (List UInt8)
  | [], acc => some acc.reverse
  | a :: b :: rest, acc => do
      let x ← hexDigit a
      let y ← hexDigit b
      hexBytesAux rest (UInt8.ofNat (x * 16 + y) :: acc)
  | _, _ => none

def hexBytes (s : String) : Option Bytes := hexBytesAux s.toList []

def nib (n : Nat) : Char := if n < 10 then Char.ofNat (n + 48) else Char.ofNat (n + 87)

def bytesHex (b : Bytes) : String :=
  String.ofList (b.foldr (fun x acc => nib (x.toNat / 16) :: nib (x.toNat % 16) :: acc) [])

def bitsHex (f : F) : String :=
  String.ofList ((List.range 16).map fun i => nib ((f.toNat >>> (4 * (15 - i))) % 16))

def parseBits (s : String) : Option F := if s.length == 16 then (hexNat s).map UInt64.ofNat else none

def kindOf (s : String) : Option Kind :=
  match s with
  | "bool" => some .bool | "int" => some .int | "int8" => some .int8 | "int16" => some .int16
  | "int32" => some .int32 | "int64" => some .int64 | "uint" => some .uint | "uint8" => some .uint8
  | "uint16" => some .uint16 | "uint32" => some .uint32 | "uint64" => some .uint64
  | "float32" => some .float32 | "float64" => some .float64 | "string" => some .string
  | "other" => some .other | _ => none

def kindStr : Kind → String
  | .bool => "bool" | .int => "int" | .int8 => "int8" | .int16 => "int16" | .int32 => "int32"
  | .int64 => "int64" | .uint => "uint" | .uint8 => "uint8" | .uint16 => "uint16" | .uint32 => "uint32"
  | .uint64 => "uint64" | .float32 => "float32" | .float64 => "float64" | .string => "string" | .other => "other"

def parseType (s : String) : Option GoType :=
  match s.splitOn "#" with
  | [k] => (kindOf k).map fun k => ⟨k, 0⟩
  | [k, n] => do
      let k ← kindOf k
      let n ← n.toNat?
      some ⟨k, n⟩
  | _ => none

def typeStr (t : GoType) : String := if t.name == 0 then kindStr t.kind else s!"{kindStr t.kind}#{t.name}"

def parseList {α : Type} (f : String → Option α) (s : String) : Option (List α) :=
  if s.isEmpty then some [] else (s.splitOn ",").mapM f

def parseSVal (s : String) : Option SVal :=
  if s == "n" then some .null
  else if s == "b0" then some (.bool false)
  else if s == "b1" then some (.bool true)
  else match s.toList with
    | 'i' :: rest => (String.ofList rest).toInt?.map SVal.int
    | 'f' :: rest => (parseBits (String.ofList rest)).map SVal.float
    | 's' :: rest => (hexBytes (String.ofList rest)).map fun b => SVal.str (.lit b)
    | _ => none

def strTerm : Str → String
  | .lit b => "L" ++ bytesHex b
  | .g14 f => "G14:" ++ bitsHex f
  | .fmtG f => "G:" ++ bitsHex f
  | .fmtV f is32 => (if is32 then "V32:" else "V64:") ++ bitsHex f
  | .opaque => "O"

def svalStr : SVal → String
  | .null => "n"
  | .bool b => if b then "b1" else "b0"
  | .int n => s!"i{n}"
  | .float f => "f" ++ bitsHex f
  | .str s => "s" ++ strTerm s

def payloadStr : Payload → String
  | .bool b => if b then "b1" else "b0"
  | .int n => s!"i{n}"
  | .flt f => "f" ++ bitsHex f
  | .str s => "s" ++ strTerm s
  | .opaque => "o"

def parsePayload (s : String) : Option Payload :=
  if s == "o" then some .opaque
  else if s == "b0" then some (.bool false)
  else if s == "b1" then some (.bool true)
  else match s.toList with
    | 'i' :: rest => (String.ofList rest).toInt?.map Payload.int
    | 'f' :: rest => (parseBits (String.ofList rest)).map Payload.flt
    | 's' :: rest => (hexBytes (String.ofList rest)).map fun b => Payload.str (.lit b)
    | _ => none

def parseGoVal (s : String) : Option GoVal :=
  match s.splitOn ":" with
  | [t, p] => do
      let t ← parseType t
      let p ← parsePayload p
      some ⟨t, p⟩
  | _ => none

def goValStr (g : GoVal) : String := typeStr g.ty ++ ":" ++ payloadStr g.val

def errStr : Err → String
  | .unsupportedType => "unsupportedType" | .cannotConvert => "cannotConvert" | .outOfRange => "outOfRange"
  | .missingArgument => "missingArgument"

def panicStr : Panic → String
  | .callArgType => "callArgType" | .convert => "convert" | .accessor => "accessor"
  | .assertion => "assertion" | .illTyped => "illTyped"

def parseHint (s : String) : Option (Bytes × Option F) :=
  match s.splitOn "=" with
  | [h, "-"] => (hexBytes h).map fun b => (b, none)
  | [h, v] => do
      let b ← hexBytes h
      let f ← parseBits v
      some (b, some f)
  | _ => none

/-- the float primitives: Lean's IEEE doubles (same hardware semantics as Go for in-range values);
`strconv.ParseFloat` results are supplied by the harness for the strings of the request -/
def prim (hints : List (Bytes × Option F)) : Prim where
  ofInt n := (Int64.ofInt n).toFloat.toBits
  trunc f := (Float.ofBits f).toInt64.toInt
  gt0 f := Float.ofBits f > 0
  ne0 f := Float.ofBits f != 0
  to32 f := (Float.ofBits f).toFloat32.toFloat.toBits
  parse b := match hints.find? (fun h => h.1 == b) with
    | some (_, r) => r
    | none => none

def parseBody (s : String) : Option (List GoVal → List GoVal) :=
  if s == "none" then some (fun _ => [])
  else match s.splitOn " " with
    | ["arg", i] => i.toNat?.map fun i => fun gs => (gs.drop i).take 1
    | ["const", vs] => (parseList parseGoVal vs).map fun vs => fun _ => vs
    | ["const"] => some (fun _ => [])
    | _ => none

def outcomeStr {α : Type} (f : α → String) : Outcome α → String
  | .ok a => "ok " ++ f a
  | .throw e => "throw " ++ errStr e
  | .panic p => "panic " ++ panicStr p

def traceStr (tr : Trace) : String :=
  let recv := match tr.received with
    | none => "-"
    | some gs => ";".intercalate (gs.map goValStr)
  let res := outcomeStr (fun (o : Option SVal) => match o with | none => "-" | some v => svalStr v) tr.result
  s!"recv={recv} res={res}"

def parseList' {α : Type} (sep : String) (f : String → Option α) (s : String) : Option (List α) :=
  if s.isEmpty then some [] else (s.splitOn sep).mapM f

def parseEntry (s : String) : Option (Callee × Path × Sig) :=
  match s.splitOn "|" with
  | [o, m, p, ps, rs] => do
      let o ← o.toNat?
      let m ← m.toNat?
      let ps ← parseList parseType ps
      let rs ← parseList parseType rs
      some (⟨o, m⟩, (if p == "method" then Path.method else Path.fn), ⟨ps, rs⟩)
  | _ => none

/-- a registration (`inl owner`) or a call (`inr (callee, body, args)`) -/
def parseOp (s : String) : Option (Nat ⊕ (Callee × (List GoVal → List GoVal) × List SVal)) :=
  match s.splitOn "|" with
  | ["R", o] => o.toNat?.map Sum.inl
  | ["C", o, m, body, args] => do
      let o ← o.toNat?
      let m ← m.toNat?
      let b ← parseBody body
      let as ← parseList parseSVal args
      some (.inr (⟨o, m⟩, b, as))
  | _ => none

def handle (line : String) : String :=
  match line.splitOn "\t" with
  | ["call", which, params, results, body, args, hints] =>
    match parseList parseType params, parseList parseType results, parseBody body,
          parseList parseSVal args, parseList parseHint hints with
    | some ps, some rs, some body, some as, some hs =>
      let (tin, tout) := if which == "method"
        then (Generated.C17GoKinds.tableMethod, Generated.C17GoKinds.outTableMethod)
        else (Generated.C17GoKinds.table, Generated.C17GoKinds.outTable)
      let tr := callVia (if which == "method" then .method else .fn) (prim hs) tin tout ⟨ps, rs⟩ body as
      let recv := match tr.received with
        | none => "-"
        | some gs => ";".intercalate (gs.map goValStr)
      let res := outcomeStr (fun (o : Option SVal) => match o with | none => "-" | some v => svalStr v) tr.result
      s!"recv={recv} res={res}"
    | _, _, _, _, _ => "bad-request"
  | ["gen", which, ty, v, hints] =>
    match parseType ty, parseSVal v, parseList parseHint hints with
    | some t, some v, some hs =>
      let r := if which == "index" then convertFromIndex (prim hs) Generated.C17GoKinds.gen t v
               else convertValue (prim hs) Generated.C17GoKinds.gen t v
      outcomeStr goValStr r
    | _, _, _ => "bad-request"
  | ["hist", entries, ops, hints] =>
    match parseList' ";" parseEntry entries, parseList' ";" parseOp ops, parseList parseHint hints with
    | some es, some os, some hs =>
      let bodies : List (List GoVal → List GoVal) := os.map fun o => match o with
        | .inr (_, b, _) => b
        | .inl _ => fun _ => []
      let bodyAt : Nat → List GoVal → List GoVal := fun env => (bodies[env]?).getD (fun _ => [])
      let U : Universe := fun c => match es.find? (fun e => e.1 == c) with
        | some (_, p, sg) => ⟨p, sg, bodyAt⟩
        | none => ⟨.fn, ⟨[], []⟩, fun _ _ => []⟩
      let cfg : Cfg := ⟨prim hs, Generated.C17GoKinds.table, Generated.C17GoKinds.outTable,
                        Generated.C17GoKinds.tableMethod, Generated.C17GoKinds.outTableMethod⟩
      let hist : List Op := (os.zip (List.range os.length)).map fun (o, i) => match o with
        | .inl owner => Op.register owner
        | .inr (c, _, as) => Op.call c i as
      let answers := (runPlain cfg U [] hist).zip os
      " ## ".intercalate (answers.filterMap fun (t, o) => match o with
        | .inl _ => none
        | .inr _ => some (match t with | some tr => traceStr tr | none => "unregistered"))
    | _, _, _ => "bad-request"
  | ["buf", policy, n, sched] =>
    -- several calls of one callee in flight: caller c passes the values (c, 0) … (c, n-1); the answer
    -- lists per caller which (caller, slot) values its Go code received
    match n.toNat?, parseList' "," String.toNat? sched with
    | some n, some sc =>
      let bufOf : Nat → Nat := if policy == "shared" then fun _ => 0
        else Model.ConvBuf.bufPolicy Generated.C17GoKinds.callPathWrites
      let st := Model.ConvBuf.run bufOf (fun c => (List.range n).map (fun i => c * 100 + i)) n sc
      " ".intercalate (sc.eraseDups.map fun c => match st.recv c with
        | none => s!"{c}:-"
        | some r => s!"{c}:" ++ ",".intercalate (r.map fun o => match o with
            | none => "?"
            | some v => s!"{v / 100}.{v % 100}"))
    | _, _ => "bad-request"
  | _ => "bad-request"

end C17Drv

def main : IO Unit := Drivers.runDriver C17Drv.handle
