/-!
# Model.Emit — the dispatch of `Generator.Emit` (cmd/compile) over an abstract node universe

`Generator.Emit` (reflect_emit.go) turns an AST value into Go source text:

1. a *special handler* registered for the value's type (`specialHandlers`), else
2. a *data scalar emitter* (`dataValueEmitters`), else
3. a *reflective struct literal* (`emitStructLiteral`): `&pkg.T{Node: node.NewNode(from), F: …}`
   with one entry per field that is not the embedded `*Node` and not tagged `pp:"-"`;
   an unexported field makes it fail, else
4. `EmitError`.

The model keeps exactly that control structure. What it abstracts:

* values are trees (`Val`): `nil`, printable scalars, structs (`obj`, a type name plus a chain
  of named field values; position info — the embedded `*Node` — is the flag `hasNode`),
  slices/maps (`list`), values no Go literal can express (`blob`: func values, `sync.Map`, …),
  slices/maps whose static element type has no name (`unnamed`: `[]*T`, `[]any` — `emitSlice`
  prints `[]` + package + `elemType.Name()` + `{`, which is `[]{`, not Go; the command's
  `format.Source` refuses the file: an explicit error. Such fields exist only in structs the
  handlers write by hand, obligation `C16_unnamed_elems_by_hand`)
  and non-nil pointers to structs that are not `data.GetValue` (`plainPtr`, for which the unpatched
  `emitReflectValue` panics in an unchecked type assertion);
* the emitted text is a tree too (`Lit`): a struct literal, a constructor call carrying the
  fields a hand-written handler *read* (the idealised handler: what it reads it passes on; whether
  each real handler does so correctly is decided by the differential run, not here), a list;
* `rebuild : Lit → Val` evaluates the emitted literal (fields not written are absent = Go zero
  value).

The struct descriptions, the registries and the read sets are data regenerated from the source
(`Generated.C16CompileNodes`).
-/
namespace Model.Emit

/-- how `emitReflectValue` treats a value of a field's static type -/
inductive FKind where
  | scalar     -- string, ints, bool, floats, []byte
  | node       -- data.GetValue-bearing interface or pointer to a GetValue struct: dynamic dispatch through Emit
  | nodes      -- slice of emittable elements
  | nodeMap    -- map[string] of emittable elements
  | unnamedElems -- slice / map whose element type has no name (`[]*T`, `[][]T`, `[]any`): `emitSlice` prints `[]` + "" + `{`, not Go
  | types      -- data.Types (genTypes)
  | structVal  -- struct by value (emitStructValue)
  | dynamic    -- interface that does not demand GetValue: decided by the dynamic value
  | ptrPlain   -- pointer to something that is not a GetValue struct
  | foreign    -- func, chan, foreign struct (sync.Map), map with non-string key
  deriving DecidableEq, Repr

structure Field where
  name : String
  exported : Bool
  embeddedNode : Bool   -- the anonymous field named Node
  ppSkip : Bool         -- tagged `pp:"-"`
  kind : FKind
  deriving Repr

structure StructDesc where
  name : String         -- "node.BinaryAdd"
  isGetValue : Bool
  fields : List Field
  deriving Repr

/-- a registry entry: type, handler function, fields of the type the handler reads -/
structure Handler where
  ty : String
  fn : String
  reads : List String
  /-- embedded structs the handler takes apart itself (`fs := n.FunctionStatement; fs.Params …`):
  embedded field name, and the fields of the embedded struct read in the handler's closure -/
  inner : List (String × List String) := []
  deriving Repr

structure Tables where
  structs : List StructDesc
  special : List Handler
  scalars : List Handler
  aux : List Handler
  /-- `needsNode` is set only for an embedded `*Node` tagged `pp:"-"` -/
  nodeNeedsTag : Bool
  /-- `emitReflectValue`'s `reflect.Ptr` arm asserts `.(data.GetValue)` unchecked -/
  ptrAssertUnchecked : Bool

/-! ## values and literals -/

/-- AST values. Field chains and element chains are `fcons`/`fnil` inside the same type, so the
emitter is one structurally recursive function. -/
inductive Val where
  | nil
  | scalar (s : String)
  | blob
  | plainPtr
  | unnamed      -- a slice / map whose static element type has no name, met by the reflective walk
  | obj (ty : String) (hasNode : Bool) (fields : Val)
  | list (items : Val)
  | fnil
  | fcons (name : String) (v : Val) (rest : Val)
  deriving DecidableEq, Repr, Inhabited

/-- emitted Go expressions -/
inductive Lit where
  | nil
  | scalar (s : String)
  | structLit (ty : String) (withNode : Bool) (fields : Lit)   -- &pkg.T{Node: node.NewNode(from), …}
  | ctor (ty : String) (fn : String) (args : Lit)              -- a handler's constructor call
  | list (items : Lit)
  | fnil
  | fcons (name : String) (v : Lit) (rest : Lit)
  deriving DecidableEq, Repr, Inhabited

inductive Err where
  | unexported (ty field : String)     -- "unexported field f"
  | unsupported (what : String)        -- unsupported reflect kind / no handler and no literal
  | unknownType (ty : String)
  | malformed                          -- the text printed is not Go (`[]{…}`): `format.Source` refuses the file
  | shape                              -- the value is not a well-formed tree (never for real ASTs)
  deriving DecidableEq, Repr

/-- outcome of `Emit`: text, an explicit compile error, or a Go panic of the compile command -/
inductive Out (α : Type) where
  | ok (a : α)
  | error (e : Err)
  | crash
  deriving DecidableEq, Repr

def Out.bind {α β} (o : Out α) (f : α → Out β) : Out β :=
  match o with
  | .ok a => f a
  | .error e => .error e
  | .crash => .crash

/-! ## table lookups -/

def findStruct (tbl : Tables) (ty : String) : Option StructDesc :=
  tbl.structs.find? (fun d => d.name == ty)

def findHandler (hs : List Handler) (ty : String) : Option Handler :=
  hs.find? (fun h => h.ty == ty)

/-- the first pass of `emitStructLiteral`: is `Node: node.NewNode(from)` written? -/
def needsNode (tbl : Tables) (d : StructDesc) : Bool :=
  d.fields.any (fun f => f.embeddedNode && (f.ppSkip || !tbl.nodeNeedsTag))

/-- the first pass also rejects any unexported field that is not the embedded Node -/
def firstUnexported (d : StructDesc) : Option Field :=
  d.fields.find? (fun f => !f.exported && !f.embeddedNode)

/-- which path `Emit` takes for a type -/
inductive Path where
  | special (h : Handler)
  | scalar (h : Handler)
  | reflective (d : StructDesc)
  | unexported (d : StructDesc) (f : Field)
  | unknown
  deriving Repr

def path (tbl : Tables) (ty : String) : Path :=
  match findHandler tbl.special ty with
  | some h => .special h
  | none =>
    match findHandler tbl.scalars ty with
    | some h => .scalar h
    | none =>
      match findStruct tbl ty with
      | none => .unknown
      | some d =>
        match firstUnexported d with
        | some f => .unexported d f
        | none => .reflective d

/-- what the walk over a field chain does with one field -/
inductive Mode where
  | value                                   -- an expression position
  | elems                                   -- elements of a slice / map: every one is emitted
  | reflFields (d : StructDesc)             -- second pass of emitStructLiteral
  | readFields (reads : List String) (inner : List (String × List String))  -- a handler: the fields it reads
  | inline (outer : String) (reads : List String)  -- an embedded struct the handler of `outer` takes apart itself
  deriving Repr

inductive FieldAct where
  | emit
  | skip
  | failShape
  | failUnexported
  deriving DecidableEq, Repr

def fieldAct (m : Mode) (name : String) : FieldAct :=
  match m with
  | .value => .failShape
  | .inline _ _ => .failShape
  | .elems => .emit
  | .reflFields d =>
    match d.fields.find? (fun f => f.name == name) with
    | none => .failShape
    | some f =>
      if f.embeddedNode then .skip
      else if f.ppSkip then .skip
      else if !f.exported then .failUnexported
      else .emit
  | .readFields reads _ => if reads.contains name then .emit else .skip

/-- the mode in which the value of field `name` of a `ty` is emitted -/
def valueMode (m : Mode) (ty name : String) : Mode :=
  match m with
  | .readFields _ inner =>
    match inner.find? (fun e => e.1 == name) with
    | some e => .inline ty e.2
    | none => .value
  | _ => .value

/-- glue of the recursive calls for one `fcons` (kept outside the recursion) -/
def consOut (act : FieldAct) (ty name : String) (v rest : Out Lit) : Out Lit :=
  match act with
  | .failShape => .error .shape
  | .failUnexported => .error (.unexported ty name)
  | .skip => rest
  | .emit => v.bind fun lv => rest.bind fun lr => .ok (.fcons name lv lr)

/-- wrap the emitted fields of an object according to its path -/
def objOut (tbl : Tables) (ty : String) (p : Path) (fields : Out Lit) : Out Lit :=
  match p with
  | .special h => fields.bind fun l => .ok (.ctor ty h.fn l)
  | .scalar h => fields.bind fun l => .ok (.ctor ty h.fn l)
  | .reflective d => fields.bind fun l => .ok (.structLit ty (needsNode tbl d) l)
  | .unexported _ f => .error (.unexported ty f.name)   -- first pass: fails before anything is walked
  | .unknown => .error (.unknownType ty)

def modeOf (p : Path) : Mode :=
  match p with
  | .special h => .readFields h.reads h.inner
  | .scalar h => .readFields h.reads h.inner
  | .reflective d => .reflFields d
  | .unexported d _ => .reflFields d
  | .unknown => .elems

def Mode.isInline : Mode → Bool
  | .inline _ _ => true
  | _ => false

/-- how the fields of an object met in mode `m` are walked: taken apart inline by the enclosing
handler, or by whatever `Emit` dispatches to for the object's own type -/
def objMode (tbl : Tables) (m : Mode) (ty : String) : Mode :=
  match m with
  | .inline _ reads => .readFields reads []
  | _ => modeOf (path tbl ty)

/-- the name under which the chain of that object is reported -/
def chainTy (m : Mode) (ty : String) : String :=
  match m with
  | .inline outer _ => outer ++ ">" ++ ty
  | _ => ty

def objWrap (tbl : Tables) (m : Mode) (ty : String) (fields : Out Lit) : Out Lit :=
  if m.isInline then fields.bind fun l => .ok (.ctor ty "(inline)" l)
  else objOut tbl ty (path tbl ty) fields

def endOut (m : Mode) : Out Lit :=
  match m with
  | .value => .error .shape
  | .inline _ _ => .error .shape
  | _ => .ok .fnil

/-- `Generator.Emit` / `emitReflectValue`. `ty` names the object whose field chain is being
walked. -/
def emit (tbl : Tables) (m : Mode) (ty : String) : Val → Out Lit
  | .nil => .ok .nil
  | .scalar s => .ok (.scalar s)
  | .blob => .error (.unsupported "reflect kind")
  | .plainPtr => if tbl.ptrAssertUnchecked then .crash else .error (.unsupported "pointer type")
  | .unnamed => .error .malformed
  | .obj oty _ fields => objWrap tbl m oty (emit tbl (objMode tbl m oty) (chainTy m oty) fields)
  | .list items => (emit tbl .elems ty items).bind fun l => .ok (.list l)
  | .fnil => endOut m
  | .fcons name v rest =>
      consOut (fieldAct m name) ty name (emit tbl (valueMode m ty name) ty v) (emit tbl m ty rest)

/-- top level: `g.Emit(v)` -/
def emitTop (tbl : Tables) (v : Val) : Out Lit := emit tbl .value "" v

/-! ## evaluation of the emitted literal -/

def rebuild : Lit → Val
  | .nil => .nil
  | .scalar s => .scalar s
  | .structLit ty withNode fields => .obj ty withNode (rebuild fields)
  | .ctor ty _ args => .obj ty true (rebuild args)     -- every constructor calls NewNode(from)
  | .list items => .list (rebuild items)
  | .fnil => .fnil
  | .fcons name v rest => .fcons name (rebuild v) (rebuild rest)

/-! ## the two runners (runtime/vm.go) as step lists -/

/-- classes of the calls made by `RunCompiledFile` / `LoadAndRun` -/
inductive Step where
  | normalize | cacheGet | cacheSet
  | obtainAst          -- compiled: registry lookup + fn(); interpreted: Clone + ParseFile (+GetVariables)
  | resetOutput        -- data.ResetUserOutput (interpreted only)
  | createContext | registerGlobals | run | flush
  | lock               -- RLock/RUnlock around the registry lookup
  | other (name : String)
  deriving DecidableEq, Repr

def classify (name : String) : Step :=
  if name == "normalizePhpFilePath" then .normalize
  else if name == "GetPhpFileCache" then .cacheGet
  else if name == "SetPhpFileCache" then .cacheSet
  else if name == "ResetUserOutput" then .resetOutput
  else if name == "Clone" || name == "ParseFile" || name == "GetVariables" || name == "fn"
       || name == "index:compiledFiles" || name == "NewThrowf" then .obtainAst
  else if name == "RLock" || name == "RUnlock" then .lock
  else if name == "CreateContext" then .createContext
  else if name == "RegisterGlobalContext" then .registerGlobals
  else if name == "GetValue" then .run
  else if name == "FlushAllBuffersFn" then .flush
  else .other name

/-- the steps that matter for behaviour once the AST is there -/
def essential (s : Step) : Bool :=
  match s with
  | .obtainAst | .resetOutput | .lock => false
  | _ => true

def skeleton (names : List String) : List Step :=
  (names.map classify).filter essential

end Model.Emit
