import Model.Hier
/-!
# C08 — the SHAPE of the hierarchy walks, as data

`Model.Hier` mirrors the walks of origami by hand: `bfs` (queue loop with visited set), `dfs` (recursion without),
`walkUp` (parent-chain loops), `visitIs` (what one class contributes to a subtype test). The correctness argument
RESTS ON a handful of syntactic facts of the Go source: the queue loop re-reads the queue every trip and pushes
*all* parents, an already visited name is skipped (not: the loop is left), a parent-chain loop leaves at the first
hit and advances to the parent of the class it just looked at, every subtype decider tests the name, scans the
whole implements list and goes on to the parent chain. The translator `extract/c08` regenerates those facts
(`lean/Generated/C08Walks.lean`) from `/repo` on every run; this file says what each fact MEANS: an interpreter per
kind of walk, parameterised by the fact record. `Proofs/Lemmas/HierShape*.lean` prove, for EVERY record that passes
the decidable check `….ok`, that the interpreted walk is the model's walk (hence reachability / most-derived);
`Proofs/Properties/C08.lean` discharges `….ok` for the regenerated records by `decide` and shows, for each realistic
mistake, a concrete record and hierarchy on which the guarantee fails.

Four kinds of walk:

* `Worklist` — `data/type_class.go interfaceExtends`: a slice used as a queue;
* `RecWalk`  — `node/class.go checkInterfaceIs`: recursion over the parents of an interface;
* `Chain`    — every `for … { …; x = parent(x) }` loop over the extends chain (`extendISClass`, `ClassValue.GetMethod`,
               `GetPropertyStmt`, `CallParentMethod`, `CallStaticMethod`, `CallStaticKeywordMethod`,
               `findMethodInHierarchy`);
* `Decider`  — what a subtype decider does with ONE class (`isClassValueInstanceOf`, `Class.Is` arm `*ThisValue`,
               the body of `extendISClass`, `checkClassIs`) and where it goes next.
-/
namespace Model.HierShape
open Model.Hier

/-- which of the parents of the interface / class at hand a statement uses -/
inductive Sel where
  | all                      -- `x.GetExtends()...` / `range x.GetExtends()`
  | first                    -- `x.GetExtends()[0]`, `x.GetExtends()[:1]`
  | none                     -- nothing
  | other (src : String)
deriving DecidableEq, Repr

def Sel.of : Sel → List Name → List Name
  | .all, l => l
  | .first, l => l.take 1
  | _, _ => []

/-- how the loop over the queue is driven -/
inductive Loop where
  | live                     -- the condition reads the queue variable every trip (`for len(q) > 0`, `for i := 0; i < len(q); i++`)
  | snapshot                 -- `for _, x := range q`: Go evaluates the range operand ONCE
  | other (src : String)
deriving DecidableEq, Repr

/-- the end of the slice the next element is taken from -/
inductive Take where
  | head                     -- `x := q[0]; q = q[1:]` (or the index of a live index loop)
  | last                     -- `x := q[len(q)-1]; q = q[:len(q)-1]`
  | other (src : String)
deriving DecidableEq, Repr

/-- what happens to a name that was visited before -/
inductive OnSeen where
  | absent                   -- there is no visited test
  | skip                     -- `continue`
  | stop                     -- `return false` / `break`: the walk is over
deriving DecidableEq, Repr

/-- what a miss does to the iteration it happens in -/
inductive Next where
  | next                     -- go on with the next element
  | stop                     -- leave: the answer is `false`
deriving DecidableEq, Repr

/-! ### `Worklist`: `interfaceExtends` -/

structure Worklist where
  fn : String
  startHit : Bool            -- `if start == target { return true }` before anything is looked up
  seed : Sel                 -- what the queue holds before the loop: which parents of the start interface
  loop : Loop
  take : Take
  hitOnTake : Bool           -- `if name == target { return true }` on the name just taken, before it is looked up
  onSeen : OnSeen
  marks : Bool               -- `visited[name] = true` on every trip that gets past the visited test
  onMissing : Next           -- the name is not a registered interface
  hitOnLoad : Bool           -- `if parent.GetName() == target { return true }` on the interface just loaded
  push : Sel                 -- which parents of the loaded interface are appended to the queue
  dry : Bool                 -- the value returned when the loop ends
deriving DecidableEq, Repr

def Worklist.lifo (S : Worklist) : Bool :=
  match S.take with
  | .last => true
  | _ => false

/-- the queue, seen from the end the loop takes from, after the parents `ps` were appended to the slice: a loop that
ranges over a snapshot never sees what is appended -/
def Worklist.pushed (S : Worklist) (q ps : List Name) : List Name :=
  match S.loop with
  | .live => if S.lifo then (S.push.of ps).reverse ++ q else q ++ S.push.of ps
  | _ => q

def Worklist.seedQ (S : Worklist) (ps : List Name) : List Name :=
  if S.lifo then (S.seed.of ps).reverse else S.seed.of ps

/-- the loop; `none` = out of fuel (the Go loop would still be running) -/
def runW (S : Worklist) (G : Graph) (t : Name) : Nat → List Name → List Name → Option Bool
  | _, [], _ => some S.dry
  | 0, _ :: _, _ => none
  | f+1, n :: q, vis =>
    if S.hitOnTake && n == t then some true
    else if S.onSeen != .absent && vis.contains n then
      (match S.onSeen with
       | .stop => some false
       | _ => runW S G t f q vis)
    else
      match getIface G n with
      | none =>
        (match S.onMissing with
         | .stop => some false
         | .next => runW S G t f q (if S.marks then n :: vis else vis))
      | some p =>
        if S.hitOnLoad && p.name == t then some true
        else runW S G t f (S.pushed q p.ext) (if S.marks then n :: vis else vis)

/-- the whole function: start test, lookup of the start interface, loop -/
def runIE (S : Worklist) (G : Graph) (s t : Name) : Option Bool :=
  if S.startHit && s == t then some true
  else
    match getIface G s with
    | none => some false
    | some i => runW S G t (bfsFuel G) (S.seedQ i.ext) []

def Worklist.ok (S : Worklist) : Bool :=
  S.startHit && S.seed == .all && S.loop == .live && (S.take == .head || S.take == .last) && S.hitOnTake &&
  S.onSeen == .skip && S.marks && S.onMissing == .next && S.push == .all && !S.dry

/-! ### `RecWalk`: `checkInterfaceIs` -/

structure RecWalk where
  fn : String
  selfHit : Bool             -- `if source.GetName() == target { return true }` before the loop
  over : Sel                 -- the parents the loop ranges over
  onSeen : OnSeen            -- a parent that is in the seen set (if the walk keeps one; it then marks on entry)
  onMissing : Next           -- a parent that is not a registered interface
  childTrue : Bool           -- `if walk(parent) { return true }`
  childFalse : Next          -- what a parent that does not reach the target does to the loop
  dry : Bool                 -- the value returned after the loop
deriving DecidableEq, Repr

/-- outcome of one trip of a `range` loop -/
inductive Step where
  | hit | next | halt
deriving DecidableEq, Repr

def Next.step : Next → Step
  | .next => .next
  | .stop => .halt

/-- a `range` loop that threads the seen set: `hit` → `true`, `halt` → `false`, dry → `dry` -/
def iter (f : Name → List Name → Option (Step × List Name)) (dry : Bool) :
    List Name → List Name → Option (Bool × List Name)
  | [], seen => some (dry, seen)
  | x :: r, seen =>
    match f x seen with
    | none => none
    | some (.hit, s) => some (true, s)
    | some (.halt, s) => some (false, s)
    | some (.next, s) => iter f dry r s

def RecWalk.keepsSeen (S : RecWalk) : Bool := S.onSeen != .absent

/-- the recursive walk; fuel = recursion depth; the seen set is threaded through (and unused when the walk keeps none) -/
def runR (S : RecWalk) (G : Graph) (t : Name) : Nat → Ifc → List Name → Option (Bool × List Name)
  | 0, _, _ => none
  | f+1, i, seen =>
    if S.selfHit && i.name == t then some (true, seen)
    else
      iter (fun p s =>
        if S.keepsSeen && s.contains p then
          some ((match S.onSeen with
                 | .stop => Step.halt
                 | _ => Step.next), s)
        else
          match getIface G p with
          | none => some (S.onMissing.step, s)
          | some j =>
            match runR S G t f j s with
            | none => none
            | some (true, s') => some (if S.childTrue then Step.hit else Step.next, s')
            | some (false, s') => some (S.childFalse.step, s'))
        S.dry (S.over.of i.ext) (if S.keepsSeen then i.name :: seen else seen)

def RecWalk.okCore (S : RecWalk) : Bool :=
  S.selfHit && S.over == .all && S.onMissing == .next && S.childTrue && S.childFalse == .next && !S.dry

/-- the shape of the pinned code (no seen set: total on acyclic graphs only) or the same with a seen set whose
members are skipped (total on every graph) -/
def RecWalk.ok (S : RecWalk) : Bool := S.okCore && (S.onSeen == .absent || S.onSeen == .skip)

/-! ### `Chain`: loops over the extends chain -/

/-- which classes the loop examines, relative to the class `B` the site resolves the call against (the runtime class
for `$o->m()`, `StaticClass` for `static::`, the named class for `C::m()`, the class `parent::` is resolved against) -/
inductive From where
  | base                     -- `B`, then its ancestors
  | above                    -- the ancestors of `B` only (`parent::`)
  | handed                   -- the loop is handed the parent POINTER by its callers (`extendISClass`)
  | other (src : String)
deriving DecidableEq, Repr

/-- where the cursor goes at the end of a trip -/
inductive Adv where
  | parentOfVisited          -- to the parent of the class examined in this trip
  | other (src : String)
deriving DecidableEq, Repr

inductive OnHit where
  | leave                    -- `return` / `break`
  | goOn                     -- the result is kept and the loop goes on
deriving DecidableEq, Repr

/-- the class reported together with the member that was found -/
inductive Found where
  | current                  -- the class examined in the trip that hit
  | start (src : String)     -- a variable that received the cursor before the loop: the class the walk started from
  | stale (src : String)     -- a variable assigned anywhere else outside the hit branch
  | unrecorded               -- only the member is returned
deriving DecidableEq, Repr

structure Chain where
  fn : String
  role : String              -- which construct the loop serves (see `expectedChains`)
  start : String             -- the expression the walk starts from, as written
  «from» : From
  advance : Adv
  lookups : List String      -- the tables consulted per class, in order (`GetMethod`, `GetStaticMethod`, …)
  extra : List String        -- conditions of the hit test beyond "the table has the name"
  onHit : OnHit
  found : Found
  repair : Bool              -- after the loop the class handed on is re-derived from the found variable and the member:
                             -- `lexicalClassOfMethod(vm, <found>, <member>)` (the class of the chain whose OWN table holds
                             -- this very member) overrides it
  onMissing : String         -- a parent that cannot be loaded: `error` | `notFound` | `stop`
deriving DecidableEq, Repr

def Chain.next (S : Chain) (c : Cls) : Option Name :=
  match S.advance with
  | .parentOfVisited => c.ext
  | .other _ => some c.name

def Chain.filters (S : Chain) : Bool := !S.extra.isEmpty

def finish {α : Type} : Option (Cls × α) → Walk (Cls × α)
  | some r => .found r
  | none => .absent

/-- the class reported with a member found in class `c`: `stale` is what a found-variable assigned outside the hit branch
holds. When that variable holds the class the walk STARTED from and the site re-derives the class from it (`repair`), the
re-derivation — a walk up from the start class to the class whose own table holds the very member found — arrives at `c`,
which is on the chain above the start by construction -/
def Chain.reported (S : Chain) (stale c : Cls) : Cls :=
  match S.found with
  | .stale _ => stale
  | .start _ => if S.repair then c else stale
  | _ => c

/-- the hit test on one class: `decl` is the table lookup, `keep` the value of the extra conditions -/
def examine {α : Type} (S : Chain) (decl : Cls → Option α) (keep : α → Bool) (stale c : Cls) : Option (Cls × α) :=
  match decl c with
  | none => none
  | some x =>
    if S.filters && !keep x then none
    else some (S.reported stale c, x)

/-- the loop, the cursor being the parent pointer `e`; `cand` is the result kept so far (`goOn` loops) -/
def runC {α : Type} (S : Chain) (G : Graph) (decl : Cls → Option α) (keep : α → Bool) (stale : Cls) :
    Nat → Option (Cls × α) → Option Name → Walk (Cls × α)
  | _, cand, none => finish cand
  | 0, _, some _ => .fuel
  | f+1, cand, some e =>
    match getClass G e with
    | none => .missing e
    | some c =>
      match examine S decl keep stale c with
      | some r =>
        (match S.onHit with
         | .leave => .found r
         | .goOn => runC S G decl keep stale f (some r) (S.next c))
      | none => runC S G decl keep stale f cand (S.next c)

/-- the lookup of a site for the class `b` it resolves against -/
def lookupS {α : Type} (S : Chain) (G : Graph) (decl : Cls → Option α) (keep : α → Bool) (stale b : Cls) :
    Walk (Cls × α) :=
  match S.«from» with
  | .base =>
    (match examine S decl keep stale b with
     | some r =>
       (match S.onHit with
        | .leave => .found r
        | .goOn => runC S G decl keep stale (classFuel G) (some r) (S.next b))
     | none => runC S G decl keep stale (classFuel G) none (S.next b))
  | _ => runC S G decl keep stale (classFuel G) none b.ext

/-- own class, then the chain, for an arbitrary table lookup (`Model.Hier.lookupFrom` is the instance
`decl k = findM (pick k) m`) -/
def lookupG {α : Type} (G : Graph) (decl : Cls → Option α) (c : Cls) : Walk (Cls × α) :=
  match decl c with
  | some x => .found (c, x)
  | none => walkUp G (fun d => some ((decl d).map (fun x => (d, x)))) (classFuel G) c.ext

def Chain.foundOK (S : Chain) : Bool :=
  match S.found with
  | .current => true
  | .unrecorded => true
  | .start _ => S.repair
  | .stale _ => false

def Chain.okCore (S : Chain) : Bool :=
  S.advance == .parentOfVisited && S.extra.isEmpty && S.onHit == .leave && S.foundOK

/-- role, classes examined, tables consulted, meaning of a parent that cannot be loaded — what `Model.Hier` mirrors -/
abbrev ChainSig := String × From × List String × String

def Chain.sig (S : Chain) : ChainSig := (S.role, S.«from», S.lookups, S.onMissing)

/-- loops the model has a counterpart for; the other loops over the extends chain in the scanned functions (`unmodelledRoles`:
magic methods, the `self::` fallback outside a class body) only have to be well-shaped -/
def expectedChains : List ChainSig :=
  [ ("extendISClass", .handed, ["decider"], "stop"),
    ("property", .base, ["GetProperty"], "notFound"),
    ("method", .base, ["GetMethod"], "notFound"),
    ("method.static", .base, ["GetStaticMethod"], "notFound"),
    ("parent", .above, ["GetMethod", "GetStaticMethod"], "error"),
    ("named", .base, ["GetStaticMethod"], "error"),
    ("named.dynamic", .base, ["GetStaticMethod"], "error"),
    ("static", .base, ["GetStaticMethod"], "error"),
    ("like", .base, ["GetMethod"], "notFound") ]

def unmodelledRoles : List String := ["-self", "-magic", "-named.magic"]

def Chain.modelled (S : Chain) : Bool := !unmodelledRoles.contains S.role

def chainsOK (tbl : List Chain) : Bool :=
  tbl.all Chain.okCore && (tbl.filter Chain.modelled).map Chain.sig == expectedChains

/-! ### `Decider`: what a subtype test does with one class -/

/-- one `range` over the implements list of the class -/
structure ImplLoop where
  direct : Bool              -- `if target == s { return true }`
  walk : String              -- the interface walk called on `s` (`""`: none)
  argsOK : Bool              -- it is called as walk(s, target), not the other way round
  onMiss : Next              -- an implemented interface that does not reach the target
deriving DecidableEq, Repr

/-- where the test goes when the class itself does not answer -/
inductive Via where
  | call (f : String)        -- `return f(target, class.GetExtend(), …)`: another function walks the chain
  | loop                     -- the decider IS the body of a chain loop
  | recurse                  -- it calls itself on the parent class
  | none                     -- nowhere
  | other (src : String)
deriving DecidableEq, Repr

structure Decider where
  fn : String
  nameTest : Bool            -- `if target == class.GetName() { return true }`
  impls : List ImplLoop
  chain : Via
deriving DecidableEq, Repr

inductive Scan where
  | hit | dry | halt | fuel
deriving DecidableEq, Repr

def scanLoop (L : ImplLoop) (walk : String → Name → Name → Option Bool) (t : Name) : List Name → Scan
  | [] => .dry
  | s :: r =>
    if L.direct && t == s then .hit
    else if L.walk == "" then
      (match L.onMiss with
       | .stop => .halt
       | .next => scanLoop L walk t r)
    else
      match (if L.argsOK then walk L.walk s t else walk L.walk t s) with
      | none => .fuel
      | some true => .hit
      | some false =>
        (match L.onMiss with
         | .stop => .halt
         | .next => scanLoop L walk t r)

def scanAll (walk : String → Name → Name → Option Bool) (t : Name) (impl : List Name) : List ImplLoop → Scan
  | [] => .dry
  | L :: r =>
    match scanLoop L walk t impl with
    | .dry => scanAll walk t impl r
    | s => s

def visitD (D : Decider) (walk : String → Name → Name → Option Bool) (t : Name) (c : Cls) : Scan :=
  if D.nameTest && t == c.name then .hit else scanAll walk t c.impl D.impls

/-- the parent chain, every class examined by the decider `D`; a parent that cannot be loaded answers `miss` -/
def climbD (D : Decider) (walk : String → Name → Name → Option Bool) (G : Graph) (t : Name) (miss : R) :
    Nat → Option Name → R
  | _, none => .no
  | 0, some _ => .fuel
  | f+1, some e =>
    match getClass G e with
    | none => miss
    | some c =>
      match visitD D walk t c with
      | .hit => .yes
      | .halt => .no
      | .fuel => .fuel
      | .dry => climbD D walk G t miss f c.ext

/-- the whole test: the class itself by `D`, its ancestors by `Dc` -/
def decideD (D Dc : Decider) (walk : String → Name → Name → Option Bool) (G : Graph) (t : Name) (miss : R) (c : Cls) : R :=
  match visitD D walk t c with
  | .hit => .yes
  | .halt => .no
  | .fuel => .fuel
  | .dry =>
    match D.chain with
    | .none => .no
    | .other _ => .no
    | _ => climbD Dc walk G t miss (classFuel G) c.ext

def ImplLoop.walks (L : ImplLoop) : Bool := L.walk != "" && L.argsOK

def Decider.ok (D : Decider) : Bool :=
  D.nameTest && D.impls.any (·.direct) && D.impls.any ImplLoop.walks &&
  D.impls.all (fun L => L.onMiss == .next && (L.walk == "" || L.argsOK)) &&
  (match D.chain with
   | .none => false
   | .other _ => false
   | _ => true)

/-- the decider another one hands the parent chain to -/
def chainOf (tbl : List Decider) (D : Decider) : Option Decider :=
  match D.chain with
  | .call f => tbl.find? (fun X => X.fn == f && X.chain == .loop)
  | .recurse => some D
  | .loop => some D
  | _ => none

/-- every decider is well-shaped and hands the chain to a decider of the table -/
def decidersOK (tbl : List Decider) : Bool :=
  tbl.all (fun D => D.ok && (chainOf tbl D).isSome)

/-! ### which decider each construct reaches, what `parent::` / `static::` start from, state kept on AST nodes -/

/-- `site` calls the functions `calls` (of the deciders / walks in the tables above) -/
structure Route where
  site : String
  calls : List String
deriving DecidableEq, Repr

def expectedRoutes : List Route :=
  [ ⟨"data/type_class.go:Class.Is#ClassValue", ["isClassValueInstanceOf"]⟩,
    ⟨"data/type_class.go:Class.Is#ThisValue", ["extendISClass", "interfaceExtends"]⟩,
    ⟨"data/type_class.go:Class.Is#ThrowValue", ["isClassValueInstanceOf"]⟩,
    ⟨"data/type_class.go:extendISClass", ["interfaceExtends"]⟩,
    ⟨"data/type_class.go:isClassValueInstanceOf", ["extendISClass", "interfaceExtends"]⟩,
    ⟨"node/class.go:checkClassIs", ["checkClassIs", "checkInterfaceIs"]⟩,
    ⟨"node/instanceof.go:instanceof", ["checkClassIs"]⟩,
    ⟨"node/try.go:catchTypeMatches", ["Is"]⟩ ]

/-- the order in which a site picks the class it resolves `parent::` / `static::` against: the first field of the
method context that is set -/
structure Base where
  fn : String
  order : List String
deriving DecidableEq, Repr

/-- the fields of `data.ClassMethodContext` a base can come from, plus the class name the parser recorded -/
inductive Src where
  | selfClass | staticClass | currentClass | cls
deriving DecidableEq, Repr

def Src.ofString : String → Option Src
  | "SelfClass" => some .selfClass
  | "StaticClass" => some .staticClass
  | "CurrentClass" => some .currentClass
  | "Class" => some .cls
  | _ => none

/-- `CurrentClass` is used only if it is registered and has a parent (`CallParentMethod.GetValue`) -/
def Src.get (G : Graph) (ctx : Ctx) (cur : Name) : Src → Option Cls
  | .selfClass => ctx.selfC
  | .staticClass => ctx.staticC
  | .currentClass =>
    match getClass G cur with
    | some c => if c.ext.isSome then some c else none
    | none => none
  | .cls => some ctx.cls

def baseOf (G : Graph) (ctx : Ctx) (cur : Name) : List String → Option Cls
  | [] => none
  | s :: r =>
    match Src.ofString s with
    | none => none
    | some src =>
      match src.get G ctx cur with
      | some c => some c
      | none => baseOf G ctx cur r

def expectedBases : List Base :=
  [ ⟨"node/call_parent_method.go:CallParentMethod.GetValue", ["SelfClass", "CurrentClass", "Class"]⟩,
    ⟨"node/call_static_keyword_method.go:CallStaticKeywordMethod.GetValue", ["StaticClass", "Class"]⟩ ]

/-- an assignment to a field of an AST node made while the program runs -/
structure NodeWrite where
  fn : String
  field : String
deriving DecidableEq, Repr

/-- `CallStaticMethodLater.call` caches the resolution of the class NAME written in the source: a function of the
node's own constants, the same for every runtime class that reaches the site -/
def allowedNodeWrites : List NodeWrite :=
  [ ⟨"node/call_static_method.go:CallStaticMethodLater.resolveCall", "call"⟩ ]

def nodeWritesOK (ws : List NodeWrite) : Bool := ws.all (fun w => allowedNodeWrites.contains w)

/-- a call site that runs for the runtime classes `cs` in turn; with `memo` the first answer found by walking is kept on
the node and given to every later class that does not declare the member itself -/
def siteRun {α : Type} (memo : Bool) (own : Cls → Option α) (look : Cls → Option α) : Option α → List Cls → List (Option α)
  | _, [] => []
  | m, c :: r =>
    match own c with
    | some x => some x :: siteRun memo own look m r
    | none =>
      match (if memo then m else none) with
      | some x => some x :: siteRun memo own look m r
      | none => look c :: siteRun memo own look (if memo then look c else none) r

end Model.HierShape
