/-
C15 — built-in array methods as coded in `data/value_array*.go`, including the
argument binding of `node/call_object_method.go callMethodParams`.

How a call `$xs->m(a₀, a₁, …)` reaches a method object (read from the code):

* `ArrayValue.GetMethod` builds a fresh method object holding the receiver's
  slot list — by pointer (`&a.List`) for push/pop/shift/unshift/splice/sort,
  by value (`a.List`, a slice header sharing the backing array) for the rest.
  Only a by-pointer method can change the receiver's length; `reverse` swaps
  in place through the shared backing array, so it changes the receiver too.
* `callMethodParams` creates a context with one variable per declared
  parameter, every variable initialised to `null`; argument `i` is stored in
  variable `i`; a declared parameter with no argument keeps `null`
  (`data.ParameterTODO` has no default and is none of the node parameter
  types, so no "missing argument" error is raised).  The variadic parameter of
  push/unshift/concat/splice (`data.ParametersTODO`) receives the array of all
  remaining arguments (fix C15-variadic-items; on the pinned tree it received
  the first one only).
* inside a method `ctx.GetIndexValue(i)` succeeds iff `i <` number of declared
  parameters; an optional parameter is "given" iff its slot is not `null`
  (fix C15-optional-null, helper `optionalArgGiven`; the pinned tree converted
  the `null` with `AsInt` = 0 / `AsString` = "").
* integer arguments are read through the `AsInt` interface, which `IntValue`
  and `NullValue` (→ 0) implement and `StringValue`/`BoolValue`/`ArrayValue`
  do not (the default stays).  Floats are outside this model.

Every method returns `Res`: the returned value and the receiver's element list
after the call, or `crash` where Go would panic on an index / slice bound /
negative `make` length — so that "never panics" is part of the refinement
theorems and not an artefact of a total accessor.

Callbacks are Lean functions `(element, index, array) → value`; the `array`
argument is the snapshot `NewArrayValue(sourceValues)` taken when the method
starts.  The truth value of a predicate callback's result (`AsBool`) belongs
to C03 and is abstracted: predicates return `Bool`.
-/
namespace Model.Meth

/-- script values that occur in the modelled calls -/
inductive Val where
  | null
  | bool (b : Bool)
  | int (i : Int)
  | str (s : String)
  | list (l : List Val)
  deriving Repr, Inhabited

mutual
/-- `Value.AsString()` : `IntValue` `%d`, `StringValue` itself, `NullValue` "",
`BoolValue` "true"/"false", `ArrayValue` "[" + elements joined by ", " + "]". -/
def asString : Val → String
  | .null => ""
  | .bool b => if b then "true" else "false"
  | .int i => toString i
  | .str s => s
  | .list l => "[" ++ asStringL l ++ "]"
def asStringL : List Val → String
  | [] => ""
  | [x] => asString x
  | x :: y :: r => asString x ++ ", " ++ asStringL (y :: r)
end

structure Out where
  ret : Val
  recv : List Val
  deriving Repr

inductive Res where
  | ok (o : Out)
  | crash
  deriving Repr

/-! ## argument binding -/

/-- variable `i` of the method's context after `callMethodParams`:
the `i`-th argument if one was written, else the initial `null`. -/
def slot (args : List Val) (i : Nat) : Val :=
  match args[i]? with
  | some v => v
  | none => .null

/-- the variadic parameter declared at index `k`: all remaining arguments -/
def rest (args : List Val) (k : Nat) : List Val := args.drop k

/-- `v.(AsInt)` then `AsInt()` -/
def asInt? : Val → Option Int
  | .int i => some i
  | .null => some 0
  | _ => none

/-- `optionalArgGiven` -/
def given : Val → Bool
  | .null => false
  | _ => true

/-- `x := dflt; if arg, ok := GetIndexValue(i); ok { if n, ok := arg.(AsInt) … x = n }` -/
def intArg (args : List Val) (i : Nat) (dflt : Int) : Int :=
  match asInt? (slot args i) with
  | some n => n
  | none => dflt

/-- the same with the `&& optionalArgGiven(arg)` guard -/
def optIntArg (args : List Val) (i : Nat) (dflt : Int) : Int :=
  if given (slot args i) then intArg args i dflt else dflt

/-! ## helpers that can panic in Go -/

/-- `for i := start; i < start+n; i++ { … src[i] … }` -/
def copyRange (xs : List Val) (start : Int) : Nat → Option (List Val)
  | 0 => some []
  | n + 1 =>
    if start < 0 then none
    else match xs[start.toNat]? with
      | none => none
      | some v => (copyRange xs (start + 1) n).map (v :: ·)

/-- `src[lo:hi]` (panics unless `0 ≤ lo ≤ hi ≤ len`) -/
def sliceExpr (xs : List Val) (lo hi : Int) : Option (List Val) :=
  if 0 ≤ lo ∧ lo ≤ hi ∧ hi ≤ xs.length then some ((xs.drop lo.toNat).take (hi - lo).toNat) else none

/-! ## methods without callbacks -/

/-- push(...items): `*a.source = append(*a.source, items...)`, returns the new length -/
def push (xs args : List Val) : Res :=
  let r := xs ++ rest args 0
  .ok ⟨.int r.length, r⟩

/-- unshift(...items): `append(items, *a.source...)` -/
def unshift (xs args : List Val) : Res :=
  let r := rest args 0 ++ xs
  .ok ⟨.int r.length, r⟩

/-- pop(): `null` on empty, else `src[len-1]` and `src[:len-1]` -/
def pop (xs : List Val) : Res :=
  if xs.length = 0 then .ok ⟨.null, xs⟩
  else match xs[xs.length - 1]? with
    | none => .crash
    | some v => .ok ⟨v, xs.take (xs.length - 1)⟩

/-- shift(): `null` on empty, else `src[0]` and `src[1:]` -/
def shift (xs : List Val) : Res :=
  match xs with
  | [] => .ok ⟨.null, []⟩
  | x :: r => .ok ⟨x, r⟩

/-- the index arithmetic of `ArrayValueSlice.Call`, in the order of its tests:
negative → relative to the end; `start < 0 → 0`; `end > len → len`; `start > end → start = end` -/
def sliceBounds (len start stop : Int) : Int × Int :=
  let start := if start < 0 then len + start else start
  let stop := if stop < 0 then len + stop else stop
  let start := if start < 0 then 0 else start
  let stop := if stop > len then len else stop
  let start := if start > stop then stop else start
  (start, stop)

/-- slice(start?, end?) -/
def slice (xs args : List Val) : Res :=
  let len : Int := xs.length
  let p := sliceBounds len (intArg args 0 0) (optIntArg args 1 len)
  if p.2 - p.1 < 0 then .crash               -- make([]Value, end-start)
  else match copyRange xs p.1 (p.2 - p.1).toNat with
    | none => .crash
    | some r => .ok ⟨.list r, xs⟩

/-- the index arithmetic of `ArrayValueSplice.Call`: (start, deleteCount) -/
def spliceBounds (len start dc : Int) : Int × Int :=
  let start := if start < 0 then len + start else start
  let start := if start < 0 then 0 else start
  let start := if start > len then len else start
  let dc := if dc < 0 then 0 else dc
  let dc := if start + dc > len then len - start else dc
  (start, dc)

/-- splice(start, deleteCount?, ...items) -/
def splice (xs args : List Val) : Res :=
  let len : Int := xs.length
  let p := spliceBounds len (intArg args 0 0) (optIntArg args 1 len)
  if p.2 < 0 then .crash                     -- make([]*ZVal, deleteCount)
  else match sliceExpr xs p.1 (p.1 + p.2), sliceExpr xs 0 p.1, sliceExpr xs (p.1 + p.2) len with
    | some deleted, some before, some after =>
        .ok ⟨.list deleted, before ++ rest args 2 ++ after⟩
    | _, _, _ => .crash

/-- one `concat` item: an array contributes its elements, anything else itself -/
def spread : Val → List Val
  | .list l => l
  | v => [v]

/-- concat(...items): copy of the receiver, then every item appended in order -/
def concat (xs args : List Val) : Res :=
  .ok ⟨.list ((rest args 0).foldl (fun acc it => acc ++ spread it) xs), xs⟩

/-- the `for i, zval := range a.source { if i > 0 { result += sep }; result += AsString }` loop -/
def joinLoop (sep : String) : Nat → String → List Val → String
  | _, acc, [] => acc
  | i, acc, v :: r => joinLoop sep (i + 1) ((if i > 0 then acc ++ sep else acc) ++ asString v) r

/-- join(separator?) -/
def join (xs args : List Val) : Res :=
  let sep := if given (slot args 0) then asString (slot args 0) else ","
  .ok ⟨.str (joinLoop sep 0 "" xs), xs⟩

/-- reverse(): in-place swap through the shared backing array; returns a copy
of the reversed elements.  (Modelled by its effect on the element sequence.) -/
def reverse (xs : List Val) : Res :=
  let r := xs.foldl (fun acc x => x :: acc) []
  .ok ⟨.list r, r⟩

/-- inner loop of Go's insertion sort on the reversed sorted prefix:
`for j := i; j > a && less(data[j], data[j-1]); j-- { swap }` -/
def insRev (x : Val) : List Val → List Val
  | [] => [x]
  | y :: r => if asString x < asString y then y :: insRev x r else x :: y :: r

/-- sort(): `sort.SliceStable` by `AsString() <` (fix C15-sort-stable), modelled
as the stable insertion sort; receiver replaced by the sorted list, copy returned. -/
def sort (xs : List Val) : Res :=
  let r := (xs.foldl (fun rp x => insRev x rp) []).reverse
  .ok ⟨.list r, r⟩

/-- `for i := from; i < len; i++ { if src[i].AsString() == search.AsString() { return i } }` -/
def scanFrom (key : String) : Nat → List Val → Option Nat
  | _, [] => none
  | i, v :: r => if asString v == key then some i else scanFrom key (i + 1) r

/-- start index of indexOf / includes; `none` = the early `return -1 / false` -/
def fromIndex (xs args : List Val) : Option Nat :=
  let len : Int := xs.length
  let f := intArg args 1 0
  let f := if f < 0 then len + f else f
  let f := if f < 0 then 0 else f
  if f ≥ len then none else some f.toNat

def indexOf (xs args : List Val) : Res :=
  match fromIndex xs args with
  | none => .ok ⟨.int (-1), xs⟩
  | some f =>
    match scanFrom (asString (slot args 0)) f (xs.drop f) with
    | some i => .ok ⟨.int i, xs⟩
    | none => .ok ⟨.int (-1), xs⟩

def includes (xs args : List Val) : Res :=
  match fromIndex xs args with
  | none => .ok ⟨.bool false, xs⟩
  | some f =>
    match scanFrom (asString (slot args 0)) f (xs.drop f) with
    | some _ => .ok ⟨.bool true, xs⟩
    | none => .ok ⟨.bool false, xs⟩

/-- `flattenArray(arr, depth)` -/
def flatten : Nat → List Val → List Val
  | 0, arr => arr
  | d + 1, arr =>
    arr.foldl (fun result el =>
      match el with
      | .list l => result ++ flatten d l
      | v => result ++ [v]) []

/-- flat(depth?) -/
def flat (xs args : List Val) : Res :=
  let depth := optIntArg args 0 1
  .ok ⟨.list (if depth ≤ 0 then xs else flatten depth.toNat xs), xs⟩

/-- the `length` property -/
def length (xs : List Val) : Res := .ok ⟨.int xs.length, xs⟩

/-! ## methods with callbacks -/

abbrev Cb := Val → Int → List Val → Val
abbrev Pred := Val → Int → List Val → Bool
/-- reduce callback: (accumulator, element, index, array) -/
abbrev Cb4 := Val → Val → Int → List Val → Val

/-- one observed callback invocation -/
structure CallEv where
  el : Val
  idx : Int
  arr : List Val
  deriving Repr

def forEachLoop (arr : List Val) : Nat → List Val → List CallEv
  | _, [] => []
  | i, v :: r => ⟨v, i, arr⟩ :: forEachLoop arr (i + 1) r

/-- forEach(cb): returns null; what is observable is the sequence of invocations -/
def forEach (xs : List Val) : Res × List CallEv :=
  (.ok ⟨.null, xs⟩, forEachLoop xs 0 xs)

def mapLoop (f : Cb) (arr : List Val) : Nat → List Val → List Val
  | _, [] => []
  | i, v :: r => f v i arr :: mapLoop f arr (i + 1) r

def map (xs : List Val) (f : Cb) : Res := .ok ⟨.list (mapLoop f xs 0 xs), xs⟩

def filterLoop (p : Pred) (arr : List Val) : Nat → List Val → List Val → List Val
  | _, acc, [] => acc
  | i, acc, v :: r => filterLoop p arr (i + 1) (if p v i arr then acc ++ [v] else acc) r

def filter (xs : List Val) (p : Pred) : Res := .ok ⟨.list (filterLoop p xs 0 [] xs), xs⟩

def findLoop (p : Pred) (arr : List Val) : Nat → List Val → Option (Nat × Val)
  | _, [] => none
  | i, v :: r => if p v i arr then some (i, v) else findLoop p arr (i + 1) r

def find (xs : List Val) (p : Pred) : Res :=
  match findLoop p xs 0 xs with
  | some (_, v) => .ok ⟨v, xs⟩
  | none => .ok ⟨.null, xs⟩

def findIndex (xs : List Val) (p : Pred) : Res :=
  match findLoop p xs 0 xs with
  | some (i, _) => .ok ⟨.int i, xs⟩
  | none => .ok ⟨.int (-1), xs⟩

def everyLoop (p : Pred) (arr : List Val) : Nat → List Val → Bool
  | _, [] => true
  | i, v :: r => if p v i arr then everyLoop p arr (i + 1) r else false

def every (xs : List Val) (p : Pred) : Res := .ok ⟨.bool (everyLoop p xs 0 xs), xs⟩

def someLoop (p : Pred) (arr : List Val) : Nat → List Val → Bool
  | _, [] => false
  | i, v :: r => if p v i arr then true else someLoop p arr (i + 1) r

/-- some(cb) (named `someP`: `some` is `Option.some`) -/
def someP (xs : List Val) (p : Pred) : Res := .ok ⟨.bool (someLoop p xs 0 xs), xs⟩

def flatMapLoop (f : Cb) (arr : List Val) : Nat → List Val → List Val → List Val
  | _, acc, [] => acc
  | i, acc, v :: r => flatMapLoop f arr (i + 1) (acc ++ spread (f v i arr)) r

def flatMap (xs : List Val) (f : Cb) : Res := .ok ⟨.list (flatMapLoop f xs 0 [] xs), xs⟩

def reduceLoop (f : Cb4) (arr : List Val) : Nat → Val → List Val → Val
  | _, acc, [] => acc
  | i, acc, v :: r => reduceLoop f arr (i + 1) (f acc v i arr) r

/-- reduce(cb, initialValue?): with an initial value fold from index 0; without
one the first element is the accumulator and the fold starts at index 1; empty
receiver without initial value → null.  `args` are the arguments after the callback. -/
def reduce (xs : List Val) (f : Cb4) (args : List Val) : Res :=
  if given (slot args 0) then .ok ⟨reduceLoop f xs 0 (slot args 0) xs, xs⟩
  else if xs.length = 0 then .ok ⟨.null, xs⟩
  else match xs[0]? with
    | none => .crash
    | some a => .ok ⟨reduceLoop f xs 1 a (xs.drop 1), xs⟩

/-! ## dispatch -/

/-- one method call as `ArrayValue.GetMethod` / `GetProperty` dispatches it -/
inductive Call where
  | push (args : List Val) | pop | shift | unshift (args : List Val)
  | slice (args : List Val) | splice (args : List Val) | concat (args : List Val) | join (args : List Val)
  | reverse | sort | indexOf (args : List Val) | includes (args : List Val)
  | find (p : Pred) | findIndex (p : Pred) | forEach | map (f : Cb) | filter (p : Pred)
  | reduce (f : Cb4) (args : List Val) | every (p : Pred) | someP (p : Pred)
  | flat (args : List Val) | flatMap (f : Cb) | length

def run (xs : List Val) : Call → Res
  | .push a => push xs a | .pop => pop xs | .shift => shift xs | .unshift a => unshift xs a
  | .slice a => slice xs a | .splice a => splice xs a | .concat a => concat xs a | .join a => join xs a
  | .reverse => reverse xs | .sort => sort xs | .indexOf a => indexOf xs a | .includes a => includes xs a
  | .find p => find xs p | .findIndex p => findIndex xs p | .forEach => (forEach xs).1 | .map f => map xs f
  | .filter p => filter xs p | .reduce f a => reduce xs f a | .every p => every xs p | .someP p => someP xs p
  | .flat a => flat xs a | .flatMap f => flatMap xs f | .length => length xs

end Model.Meth
