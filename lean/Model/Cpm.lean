import Model.RW
/-
C10 — the class-path manager (`parser/class_path_manager.go`,
`DefaultClassPathManager`): the registry every class / interface lookup that
misses the VM's maps goes through, shared by all parser clones, VMs and TempVMs
of the process and guarded by its own `sync.RWMutex`.

State = the tree of `NamespaceNode`s below `m.root`, kept flat: a node is its
namespace path (`["App", "M03"]`), the node's `paths` slice is the value; the
`children` map of a node is "which keys extend it by one part".  The root `[]`
is a node with no paths (`AddNamespace("", p)` adds nothing).

Modelled as coded, including
* `findNamespaceNode` MEMOISES: a part that is not a child yet is looked for as a
  sub-directory of each of the node's paths and, when found, inserted into
  `children` — `FindClassFile` is a writer;
* the inner loop over `current.paths` keeps running after a hit with `current`
  already moved to the new child (`continue` continues the inner loop; the slice
  expression was evaluated once): with two roots that both contain the
  sub-directory, the second hit is stored as a child *of the first hit* and the
  walk continues from it;
* nodes discovered before a later part fails stay memoised.

The file system is a parameter (`Disk`): existence of a path, the sub-directory a
part resolves to (exact name first, otherwise the first case-insensitive match
of the directory listing), the class file a class name resolves to in a
directory (`<cls>.zy`, `<cls>.php` exactly, otherwise case-insensitively).
-/
namespace Model.Cpm

abbrev Key := List String
abbrev Dir := String

structure Disk where
  exist : Dir → Bool
  sub : Dir → String → Option Dir
  file : Dir → String → Option String

abbrev Nodes := List (Key × List Dir)

def look : Nodes → Key → Option (List Dir)
  | [], _ => none
  | (k', v) :: rest, k => if k' = k then some v else look rest k

/-- `children[part] = node` / `node.paths = …`: replace the entry or append a new one -/
def put : Nodes → Key → List Dir → Nodes
  | [], k, v => [(k, v)]
  | (k', v') :: rest, k, v => if k' = k then (k, v) :: rest else (k', v') :: put rest k v

/-- `NewDefaultClassPathManager`: only the root -/
def init : Nodes := [([], [])]

/-- `addNamespaceToDAG`: walk / create the nodes of `parts` below `cur`, append `path` to the last one -/
def addWalk (ns : Nodes) (cur : Key) : List String → Dir → Nodes
  | [], _ => ns
  | part :: rest, path =>
    let k := cur ++ [part]
    let ps := match look ns k with
      | some ps => ps
      | none => []
    let ns1 := match rest with
      | [] => put ns k (if path ∈ ps then ps else ps ++ [path])
      | _ :: _ => (match look ns k with
          | some _ => ns
          | none => put ns k [])
    addWalk ns1 k rest path

/-- `AddNamespace(namespace, path)`: ignored when the path is empty or does not exist -/
def addNamespace (d : Disk) (ns : Nodes) (parts : List String) (path : Dir) : Nodes :=
  if path = "" then ns else if d.exist path then addWalk ns [] parts path else ns

/-- the inner loop of `findNamespaceNode` for one missing `part`, over the paths of the node
where the miss happened; the accumulator is (tree, `current`, `found`) -/
def discover (d : Disk) (part : String) : List Dir → Nodes × Key × Bool → Nodes × Key × Bool
  | [], acc => acc
  | p :: ps, (ns, cur, found) =>
    match d.sub p part with
    | some dir => discover d part ps (put ns (cur ++ [part]) [dir], cur ++ [part], true)
    | none => discover d part ps (ns, cur, found)

/-- `findNamespaceNode`: the node of `parts` below `cur`, with the tree after memoisation -/
def walk (d : Disk) : Nodes → Key → List String → Nodes × Option Key
  | ns, cur, [] => (ns, some cur)
  | ns, cur, part :: rest =>
    match look ns (cur ++ [part]) with
    | some _ => walk d ns (cur ++ [part]) rest
    | none =>
      match look ns cur with
      | none => (ns, none)
      | some paths =>
        let r := discover d part paths (ns, cur, false)
        if r.2.2 then walk d r.1 r.2.1 rest else (r.1, none)

/-- the search over `node.paths`: the simple class name first, then (if the class name has a
namespace) the whole name as a relative path -/
def findFile (d : Disk) (cls : String) (full : Option String) : List Dir → Option String
  | [] => none
  | p :: ps =>
    match d.file p cls with
    | some f => some f
    | none =>
      match full.bind (d.file p) with
      | some f => some f
      | none => findFile d cls full ps

/-- `FindClassFile`, the class name already split: namespace parts, simple name, and the whole
name when it contains a backslash -/
def find (d : Disk) (ns : Nodes) (parts : List String) (cls : String) (full : Option String) :
    Nodes × Option String :=
  match walk d ns [] parts with
  | (ns', none) => (ns', none)
  | (ns', some k) =>
    match look ns' k with
    | none => (ns', none)
    | some paths => (ns', findFile d cls full paths)

/-! ## Calls -/

inductive Op
  | add (parts : List String) (path : Dir)
  | find (parts : List String) (cls : String) (full : Option String)
deriving DecidableEq, Repr

inductive Res
  | ok
  | miss
  | hit (file : String)
deriving DecidableEq, Repr

def step (d : Disk) (ns : Nodes) : Op → Nodes × Res
  | .add parts path => (addNamespace d ns parts path, .ok)
  | .find parts cls full =>
    match find d ns parts cls full with
    | (ns', none) => (ns', .miss)
    | (ns', some f) => (ns', .hit f)

def runOps (d : Disk) (ns : Nodes) (ops : List Op) : Nodes := ops.foldl (fun s op => (step d s op).1) ns

def trace (d : Disk) : Nodes → List Op → List Res
  | _, [] => []
  | s, op :: rest => (step d s op).2 :: trace d (step d s op).1 rest

/-! ## Behind the lock: every call is one section of `Model.RW` -/

/-- the exported Go method: key into the regenerated lock facts -/
def Op.method : Op → String
  | .add _ _ => "AddNamespace"
  | .find _ _ _ => "FindClassFile"

/-- both calls write the tree: `AddNamespace` creates nodes and appends paths,
`FindClassFile` memoises discovered sub-namespaces into `children` -/
def secOf (d : Disk) (lockOf : String → Model.RW.Mode) (op : Op) : Model.RW.Sec Op (List Res) Nodes :=
  { lbl := op, mode := lockOf op.method,
    accs := [Model.RW.Acc.wr "children" (fun l s => (l ++ [(step d s op).2], (step d s op).1))] }

end Model.Cpm
