import Model.Wire
import Model.Ser
/-!
# Model.InputFacts — how the decoders guard their input (C14, regenerated facts)

Shapes of the tables `extract/c14` regenerates from `std/protowire/*.go` and `std/php/unserialize.go` /
`serialize.go`, and what each row means:

* `ConsumeSite`: `v, n := pw.Consume*(data)` followed by a test of `n` and then `data[n:]`. The primitives
  return a negative length on malformed input; `consume` says what the code then does.
* `InputLoop`: a `for` over the remaining input; `exitsWith` says with how many bytes left it may stop.
* `EndGroup`, `Dispatch`: what a field loop does with an end-group tag; which wire types a `switch` knows.
* `TagSwitch`, `gate`, key types, writer tags: the same for the serialize reader / writer.
* `LengthRead`: an integer parsed from the input and the rejection that follows it; `strAccess` is the string
  case of the reader on 64-bit integers that wrap.
* `IndexSite`: an index / slice of the input at `base + offset` with the room it needs up to `len` and the room
  the tests in force guarantee.

The model constants (`fieldDispatch`, `readerTags`, …) are what `Model.Wire` / `Model.Ser` embody; the property file
holds the regenerated tables against them.
-/
namespace Model.InputFacts

structure ConsumeSite where
  fn : String
  prim : String
  guard : String
  deriving DecidableEq, Repr

structure InputLoop where
  fn : String
  idx : Nat        -- number of the function in the depth graph, 99 = not in it
  cond : String
  after : String
  deriving DecidableEq, Repr

structure EndGroup where
  fn : String
  idx : Nat
  action : String
  deriving DecidableEq, Repr

structure Dispatch where
  fn : String
  role : String
  cases : List (Nat × String)
  dflt : String
  deriving DecidableEq, Repr

structure TagSwitch where
  fn : String
  tags : List String
  dflt : String
  deriving DecidableEq, Repr

structure LengthRead where
  fn : String
  call : String
  var : String
  upper : Bool
  lower : Bool
  uses : List String
  deriving DecidableEq, Repr

structure IndexSite where
  fn : String
  expr : String
  base : String
  need : Nat
  room : Option Nat
  deriving DecidableEq, Repr

/-! ## consume sites -/

inductive Outcome where
  | panic            -- slice bounds out of range
  | reject           -- the function returns its error
  | ok (rest : Nat)  -- goes on with `rest` bytes of input
  deriving DecidableEq, Repr

/-- does the test after the call send a returned length `n` to the error return -/
def refuses (guard : String) (n : Int) : Bool :=
  if guard = "le0" then decide (n ≤ 0)
  else if guard = "lt0" then decide (n < 0)
  else if guard = "eq0" then decide (n = 0)
  else false

/-- `v, n := Consume(data); <test>; data = data[n:]` on `len` bytes when the primitive returned `n` -/
def consume (guard : String) (n : Int) (len : Nat) : Outcome :=
  if refuses guard n then .reject
  else if n < 0 ∨ n > len then .panic
  else .ok (len - n.toNat)

def ConsumeSite.ok (s : ConsumeSite) : Bool := s.guard = "le0" || s.guard = "lt0"

/-! ## loops over the input -/

/-- may the loop stop with `rem` bytes left (a condition the translator did not recognise may stop anywhere) -/
def exitsWith (cond : String) (rem : Nat) : Bool :=
  if cond = "nonempty" then decide (rem = 0) else true

/-! ## lengths read from the input, 64-bit arithmetic -/

/-- two's-complement wrap to int64 -/
def wrap64 (x : Int) : Int := (x + 9223372036854775808) % 18446744073709551616 - 9223372036854775808

/-- the `s:` case of `parsePhpValue` after the length `n` was read at a position where the content begins at
`begin`: `if n > len { reject }` (only when `bounded`), `end := begin + n`, `if end+2 > len { reject }`, `s[end]` -/
def strAccess (bounded : Bool) (len begin n : Nat) : Outcome :=
  if bounded && decide (n > len) then .reject
  else
    let e := wrap64 (begin + n)
    if wrap64 (e + 2) > len then .reject
    else if e < 0 ∨ e ≥ len then .panic
    else .ok 0

/-- a length that is added to a position, sizes an allocation or indexes the input must have been bounded by the input length -/
def LengthRead.ok (r : LengthRead) : Bool :=
  r.upper || !(r.uses.contains "arith" || r.uses.contains "alloc" || r.uses.contains "index")

/-! ## index sites -/

def IndexSite.covered (s : IndexSite) : Bool :=
  match s.room with
  | some h => decide (s.need ≤ h)
  | none => false

/-! ## what the hand-written models embody -/

/-- `Model.Wire.valueWith`: wire type → what is consumed -/
def fieldDispatch : List (Nat × String) :=
  [(0, "ConsumeVarint"), (1, "ConsumeFixed64"), (2, "ConsumeBytes"), (3, "recurse"), (4, "error"), (5, "ConsumeFixed32")]

/-- `Model.Wire.unpackPacked`: element wire type → primitive -/
def packedDispatch : List (Nat × String) := [(0, "ConsumeVarint"), (1, "ConsumeFixed64"), (5, "ConsumeFixed32")]

/-- `valueWith` asks `o.packed` before `o.msg` -/
def lenOrder : List String := ["PackedFields", "MessageFields"]

/-- `loopF` / `loopG` on an end-group tag (numbers of the depth graph: 0 = `parseFields`, 2 = `consumeGroup`) -/
def endGroups : List (Nat × String) := [(0, "error"), (2, "closeIfMatch")]

/-- the loops of the depth graph's functions: `loopF _ [] = ok` (0), `loopG _ [] = unexpectedEnd` (2) -/
def graphLoops : List (Nat × String) := [(0, "ok"), (2, "err")]

/-- every loop over input bytes runs while the input is non-empty; the loops of the depth graph's functions end the way
the model's do; any other loop (the `unpack*` loops) answers when the input is used up -/
def loopsOk (ls : List InputLoop) : Bool :=
  ls.all (·.cond == "nonempty") &&
  (ls.filter (·.idx != 99)).map (fun l => (l.idx, l.after)) == graphLoops &&
  (ls.filter (·.idx == 99)).all (·.after == "ok")

/-- `Model.Ser.pValue` -/
def readerTags : List String := ["N", "b", "i", "d", "s", "a"]

/-- `Model.Ser.pBool` -/
def boolTags : List String := ["0", "1"]

/-- `Model.Ser.knownPrefix` -/
def gate : List String := ["N;", "b:", "i:", "d:", "s:", "a:"]

/-- `Model.Ser.keyOk` -/
def keyTypes : List String := ["IntValue", "StringValue"]

/-- tags the writer emits that the reader does not know (class instances are outside the model) -/
def writerOnly : List String := ["O"]

def bytesOf (s : String) : List Nat := s.toList.map Char.toNat

/-- every tag the writer emits is one the reader dispatches on, `known` excepted -/
def writerCovered (writer : List (String × String)) (reader known : List String) : Bool :=
  writer.all (fun w => reader.contains w.2 || known.contains w.2)

/-- the float writer may call these and spell these (strconv is trusted for digits ↔ float64) -/
def floatCalls : List String :=
  ["strconv.Atoi(_)", "strconv.FormatFloat(_,'e',-1,64)", "strconv.FormatFloat(_,'f',-1,64)", "strconv.Itoa(_)"]

def floatLits : List String := ["NAN", "INF", "-INF"]

end Model.InputFacts
