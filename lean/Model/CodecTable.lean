import Model.Codec
/-!
# Model.CodecTable — the byte codecs as rows "registered name, library calls, answer on failure" (C14, regenerated facts)

`extract/c14` reads, for each of `std/php/base64_*.go`, `url*.go`, `rawurl*.go`, `bin2hex.go`, `md5.go`, the name the
function is registered under, the library calls of its `Call` method in evaluation order (literal arguments kept) and
what `Call` returns when the library call fails. `interp` reads such a row as a function on byte strings through the
re-models of the library functions in `Model.Codec`; the property file shows that the regenerated rows denote exactly
the functions the round-trip theorems are about.
-/
namespace Model.CodecTable
open Model.Codec

structure Wrapper where
  name : String
  libs : List String
  onError : String
  deriving DecidableEq, Repr

/-- what a script sees -/
inductive Out where
  | bytes (b : Bytes)
  | false
  deriving DecidableEq, Repr

/-- one library call as re-modelled in `Model.Codec` (`none` result = the call returned an error) -/
def libStep (call : String) : Option (Bytes → Option Bytes) :=
  if call = "base64.StdEncoding.EncodeToString(_)" then some (fun s => some (base64Encode s))
  else if call = "base64.StdEncoding.DecodeString(_)" then some base64Decode
  else if call = "url.QueryEscape(_)" then some (fun s => some (queryEscape s))
  else if call = "strings.ReplaceAll(_,\"+\",\"%20\")" then some (fun s => some (replacePlus s))
  else if call = "url.QueryUnescape(_)" then some (unescape true)
  else if call = "url.PathUnescape(_)" then some (unescape false)
  else if call = "hex.EncodeToString(_)" then some (fun s => some (hexEncode s))
  else none

/-- the calls one after the other; an error of any of them is the error of the whole -/
def pipeline : List String → Option (Bytes → Option Bytes)
  | [] => some (fun s => some s)
  | c :: rest =>
      match libStep c, pipeline rest with
      | some f, some g => some (fun s => match f s with
          | some r => g r
          | none => none)
      | _, _ => none

/-- the row as a function: the pipeline, and on failure `false` / the input unchanged -/
def interp (w : Wrapper) : Option (Bytes → Out) :=
  match pipeline w.libs with
  | none => none
  | some f =>
      if w.onError = "input" then some (fun s => match f s with
        | some r => .bytes r
        | none => .bytes s)
      else if w.onError = "false" ∨ w.onError = "none" then some (fun s => match f s with
        | some r => .bytes r
        | none => .false)
      else none

def find (tbl : List Wrapper) (name : String) : Option Wrapper := tbl.find? (fun w => w.name == name)

/-- the rows the hand-written model was written from -/
def modelRows : List Wrapper :=
  [⟨"base64_encode", ["base64.StdEncoding.EncodeToString(_)"], "none"⟩,
   ⟨"base64_decode", ["base64.StdEncoding.DecodeString(_)"], "false"⟩,
   ⟨"urlencode", ["url.QueryEscape(_)"], "none"⟩,
   ⟨"urldecode", ["url.QueryUnescape(_)"], "input"⟩,
   ⟨"rawurlencode", ["url.QueryEscape(_)", "strings.ReplaceAll(_,\"+\",\"%20\")"], "none"⟩,
   ⟨"rawurldecode", ["url.PathUnescape(_)"], "input"⟩,
   ⟨"bin2hex", ["hex.EncodeToString(_)"], "none"⟩,
   ⟨"md5", ["md5.Sum(_)", "fmt.Sprintf(\"%x\",_)"], "none"⟩]

/-- an encoder row and a decoder row that the round-trip lemmas cover -/
def pairOK (enc dec : Wrapper) : Bool :=
  (enc.libs == ["base64.StdEncoding.EncodeToString(_)"] && dec.libs == ["base64.StdEncoding.DecodeString(_)"]) ||
  (enc.libs == ["url.QueryEscape(_)"] && dec.libs == ["url.QueryUnescape(_)"]) ||
  (enc.libs == ["url.QueryEscape(_)", "strings.ReplaceAll(_,\"+\",\"%20\")"] && dec.libs == ["url.PathUnescape(_)"])

/-- the four digests the correspondence run compares with `crypto/*`, by the names scripts use -/
def hashModel : List (String × String) :=
  [("md5", "md5.New"), ("sha1", "sha1.New"), ("sha256", "sha256.New"), ("sha512", "sha512.New")]

/-- library functions allowed to produce JSON text -/
def jsonLibs : List String := ["encoding/json:Marshal", "encoding/json:NewEncoder"]

end Model.CodecTable
